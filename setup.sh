#!/bin/bash
# builds the checker offline from /verif/tvc (module cache only)
set -e
cd "$(dirname "$0")/tvc"
export GOFLAGS=-mod=mod GOPROXY=off
unset GOWORK GOTOOLCHAIN GOSUMDB 2>/dev/null || true
mkdir -p ../bin ../evidence
go build -o ../bin/tvc .
echo "built $(cd .. && pwd)/bin/tvc"
