#!/bin/bash
# usage: check.sh <property-id|all> <quick|thorough|replay> [violation-report]
set -u
cd "$(dirname "$0")"
export GOFLAGS=-mod=mod GOPROXY=off
unset GOWORK GOTOOLCHAIN GOSUMDB 2>/dev/null
ID="${1:?property id}"; TIER="${2:-quick}"
REPO="${VERIF_REPO:-/repo}"
OUT="${VERIF_OUT:-/verif}"
if [ ! -x bin/tvc ] || [ -n "$(find tvc -name '*.go' -newer bin/tvc 2>/dev/null | head -1)" ]; then
  ./setup.sh >/dev/null 2>&1 || { echo "tvc build failed"; ./setup.sh; exit 2; }
fi
if [ "$TIER" = replay ]; then
  exec bin/tvc -replay "${3:?report path}"
fi
exec bin/tvc -property "$ID" -tier "$TIER" -repo "$REPO" -verif "$OUT" -findings "$PWD/known_findings.txt"
