package main

// C02 — cluster IPAM binds each IP to one pod and each pod to one ENI
// (pkg/controller/multi-ip/node, pkg/eni/crdv2.go).

import (
	"fmt"
	"go/ast"
	"go/constant"
	"go/token"
	"go/types"
	"golang.org/x/tools/go/cfg"
	"sort"
	"strconv"
	"strings"
)

func init() { registry["C02"] = c02 }

const (
	nodeCtlPkg = "pkg/controller/multi-ip/node"
	apiPkg     = "pkg/apis/network.alibabacloud.com/v1beta1"
	clientPkg  = "pkg/aliyun/client"
)

// constLit returns the Go literal of a package-level constant (so that
// requirements do not depend on import names).
func constLit(p *Prog, pkg, name string) string {
	o := p.LookupObj(pkg, name)
	if c, ok := o.(*types.Const); ok {
		return c.Val().ExactString()
	}
	return strconv.Quote("<unresolved " + pkg + "." + name + ">")
}

func c02(c *Ctx) {
	if c.P.Pkg(nodeCtlPkg) == nil {
		c.Unres("C02", nodeCtlPkg, "package not loaded")
		return
	}
	c02R1(c)
	c02Binds(c)
	c02R5(c)
	c02R6(c)
	c03R6(c)
	mergeRule(c, "C08.R10")
	c02R9(c)
	c02R10(c)
	c02R11(c)
	// a pod's addresses are released together (shared rule): a leftover IPv6 of a deleted pod would be
	// inherited by its same-named successor next to an IPv4 from another interface
	c03R1(c)
	// shared: the status Deleting is written only to addresses nobody is bound to (writer table C03.R2) —
	// a bound address is never marked for release behind its pod
	c03R2(c)
	ruleCASPublication(c, "C02.R8", "Node", map[string]string{"Finalizers": "removed on deletion; no assignment is decided on it"})
	itemIndependent(c, "C02.R7", [][3]string{{nodeCtlPkg, "ReconcileNode.getPods", "one request per pod"}})
	c02R12(c)
}

func c02R1(c *Ctx) {
	p := c.P
	c.Rule("C02.R1", "the binding fields (IP.PodID / IP.PodUID) of the per-node IPAM record are written only by the release gate, the local-pool assignment and the map merge helper")
	f1, f2 := p.Field(apiPkg, "IP", "PodID"), p.Field(apiPkg, "IP", "PodUID")
	if f1 == nil || f2 == nil {
		c.Unres("C02.R1", "v1beta1.IP.PodID/PodUID", "field not found")
		return
	}
	st := p.StoresTo(nil, f1, f2)
	c.WhoMay("C02.R1", "write IP.PodID/PodUID", groupStores(st), map[string]string{
		nodeCtlPkg + ".releasePodNotFound":    "release gate (C03) and UID refresh",
		nodeCtlPkg + ".assignIPFromLocalPool": "bind",
		nodeCtlPkg + ".addIPToMap":            "merge of a freshly assigned address (keeps an existing owner)",
	})
	c.Floor("C02.R1", "stores of IP.PodID/PodUID", 10, len(st))
	// addIPToMap never overwrites an existing owner
	if fn := p.Func(nodeCtlPkg, "addIPToMap"); fn != nil {
		for _, s := range p.StoresTo([]*FuncInfo{fn}, f1) {
			base := exprString(s.LHS.(*ast.SelectorExpr).X)
			c.Require("C02.R1", "addIPToMap keeps an existing owner", fn, s.Node, `$b.PodID == ""`, map[string]string{"$b": base})
		}
	}
}

// bindSite is one store `X.IP.PodID = <pod>` in assignIPFromLocalPool.
type bindSite struct {
	store    Store
	base     ast.Expr // X (an *EniIP expression)
	baseObj  types.Object
	family   int // 4 / 6
	takeOver bool
	okObj    types.Object // comma-ok of the take-over lookup
	idx      *ast.IndexExpr
	info     types.Object // the *PodRequest range variable
	podKey   types.Object
}

func c02Binds(c *Ctx) {
	p := c.P
	c.Rule("C02.R2", "a fresh bind marks only an address that is Valid and unowned on an InUse interface of the right RDMA class, for a pod that reports no address of that family; in dual stack the IPv6 address comes from the interface chosen for IPv4")
	c.Rule("C02.R3", "the take-over path binds exactly the address the pod reports (same family), only if it exists in the record and is unowned or already this pod's")
	c.Rule("C02.R4", "at most one bind per pod and family: every bind is under ipvXRef == nil, records the reference, and the fresh-bind search stops at the first hit; the binding index is rebuilt from the record before each assignment pass")
	fn := p.Func(nodeCtlPkg, "assignIPFromLocalPool")
	if fn == nil {
		c.Unres("C02.R2", "assignIPFromLocalPool", "not found")
		return
	}
	info := fn.Info()
	podID := p.Field(apiPkg, "IP", "PodID")
	params := map[types.Object]int{}
	i := 0
	for _, fld := range fn.Decl.Type.Params.List {
		for _, nm := range fld.Names {
			params[info.Defs[nm]] = i
			i++
		}
	}
	// parameters by type: the two index maps (map[string]*EniIP) and the erdma switch (bool)
	var mapParams []types.Object
	var erdmaParam types.Object
	for o, idx := range params {
		_ = idx
		if mt, ok := o.Type().Underlying().(*types.Map); ok && typeIs(mt.Elem(), modPath+"/"+nodeCtlPkg, "EniIP") {
			mapParams = append(mapParams, o)
		}
		if b, ok := o.Type().Underlying().(*types.Basic); ok && b.Kind() == types.Bool {
			erdmaParam = o
		}
	}
	if len(mapParams) != 2 || erdmaParam == nil {
		c.Unres("C02.R2", "assignIPFromLocalPool parameters", "expected two map[string]*EniIP parameters and one bool")
		return
	}
	if params[mapParams[0]] > params[mapParams[1]] {
		mapParams[0], mapParams[1] = mapParams[1], mapParams[0]
	}
	famOfMap := map[types.Object]int{mapParams[0]: 4, mapParams[1]: 6}

	var binds []bindSite
	for _, s := range p.StoresTo([]*FuncInfo{fn}, podID) {
		if s.InLit || s.RHS == nil {
			continue
		}
		if tv := info.Types[s.RHS]; tv.Value != nil && tv.Value.ExactString() == `""` {
			continue // clearing store
		}
		sel := s.LHS.(*ast.SelectorExpr)                    // X.IP.PodID
		ipSel, ok := ast.Unparen(sel.X).(*ast.SelectorExpr) // X.IP
		if !ok {
			c.Undec("C02.R2", "bind store shape", p.Pos(s.Node), fn.Key(), "", "store is not of the form <eniIP>.IP.PodID = …")
			continue
		}
		b := bindSite{store: s, base: ipSel.X, baseObj: identObj(info, ipSel.X), podKey: identObj(info, s.RHS)}
		// enclosing ranges: innermost range over a map parameter => fresh bind; the pod loop gives info
		for _, nd := range pathTo(fn.Decl.Body, s.Node) {
			rs, ok := nd.(*ast.RangeStmt)
			if !ok {
				continue
			}
			if mo := identObj(info, rs.X); mo != nil && famOfMap[mo] != 0 && rs.Value != nil && identObj(info, rs.Value) == b.baseObj {
				b.family = famOfMap[mo]
			} else if rs.Value != nil {
				if typeIs(info.TypeOf(rs.Value), modPath+"/"+nodeCtlPkg, "PodRequest") {
					b.info = identObj(info, rs.Value)
				}
			}
		}
		if b.family == 0 && b.baseObj != nil {
			// take-over: base defined by `x, ok := <mapParam>[key]`
			for _, d := range varDefs(fn, b.baseObj) {
				as, ok := d.node.(*ast.AssignStmt)
				if !ok || len(as.Lhs) != 2 || len(as.Rhs) != 1 {
					continue
				}
				ix, ok := ast.Unparen(as.Rhs[0]).(*ast.IndexExpr)
				if !ok {
					continue
				}
				if mo := identObj(info, ix.X); mo != nil && famOfMap[mo] != 0 && d.node.Pos() < s.Node.Pos() {
					b.family = famOfMap[mo]
					b.takeOver = true
					b.okObj = identObj(info, as.Lhs[1])
					b.idx = ix
				}
			}
		}
		binds = append(binds, b)
	}
	c.Floor("C02.R2", "bind stores in assignIPFromLocalPool", 4, len(binds))
	valid := constLit(p, apiPkg, "IPStatusValid")
	inUse := constLit(p, clientPkg, "ENIStatusInUse")
	hp := constLit(p, apiPkg, "NetworkInterfaceTrafficModeHighPerformance")
	nFresh, nTake := 0, 0
	for _, b := range binds {
		if b.family == 0 || b.info == nil || b.baseObj == nil {
			c.Undec("C02.R2", "bind store classification", p.Pos(b.store.Node), fn.Key(), "", "neither a fresh bind (range over an index map) nor a take-over (comma-ok lookup)")
			continue
		}
		v, inf := b.baseObj.Name(), b.info.Name()
		fam := fmt.Sprintf("IPv%d", b.family)
		ref := fmt.Sprintf("ipv%dRef", b.family)
		if !b.takeOver {
			nFresh++
			req := fmt.Sprintf(`%[1]s.IP.Status == %[3]s && %[1]s.IP.PodID == "" && %[1]s.NetworkInterface.Status == %[4]s && (!%[2]s.RequireERDMA || %[1]s.NetworkInterface.NetworkInterfaceTrafficMode == %[5]s) && (%[2]s.RequireERDMA || !%[6]s || %[1]s.NetworkInterface.NetworkInterfaceTrafficMode != %[5]s) && %[2]s.%[7]s == ""`,
				v, inf, valid, inUse, hp, erdmaParam.Name(), fam)
			if b.family == 6 {
				req += fmt.Sprintf(` && (%[2]s.ipv4Ref == nil || %[1]s.NetworkInterface.ID == %[2]s.ipv4Ref.NetworkInterface.ID)`, v, inf)
			}
			c.Require("C02.R2", "fresh "+fam+" bind guards", fn, b.store.Node, req, nil)
			// the bound pod is the pod of this iteration and the UID is its UID
			c02PodOfIteration(c, fn, b, "C02.R2")
		} else {
			nTake++
			req := fmt.Sprintf(`%s && (%s.IP.PodID == "" || %s.IP.PodID == %s)`, b.okObj.Name(), v, v, exprString(b.store.RHS))
			c.Require("C02.R3", "take-over "+fam+" guards", fn, b.store.Node, req, nil)
			// key of the lookup is the pod's reported address of the same family
			okKey := false
			if sel, ok := ast.Unparen(b.idx.Index).(*ast.SelectorExpr); ok && sel.Sel.Name == fam && identObj(info, sel.X) == b.info {
				okKey = true
			}
			c.Check(okKey, "C02.R3", "take-over "+fam+" looks up the reported address of the same family", p.Pos(b.idx), fn.Key(), "index = <pod>."+fam+" into the "+fam+" map", "index "+exprString(b.idx.Index))
			c.Require("C02.R3", "take-over "+fam+" only for a pod that reports an address", fn, b.store.Node, inf+"."+fam+` != ""`, nil)
			c02PodOfIteration(c, fn, b, "C02.R3")
		}
		// R4: reference recorded under ref == nil; the ref store precedes or follows the bind in the same block
		refField := p.Field(nodeCtlPkg, "PodRequest", ref)
		// the reference store: in the block of the bind, or on every path from the bind to the next pod
		var podLoopR *ast.RangeStmt
		for _, nd := range pathTo(fn.Decl.Body, b.store.Node) {
			if rs, ok := nd.(*ast.RangeStmt); ok && rs.Value != nil && identObj(info, rs.Value) == b.info {
				podLoopR = rs
			}
		}
		var refStore *Store
		for _, rs := range p.StoresTo([]*FuncInfo{fn}, refField) {
			rs := rs
			if rs.RHS == nil || info.Types[ast.Unparen(rs.RHS)].IsNil() {
				continue
			}
			if sameBlock(fn, rs.Node, b.store.Node) {
				refStore = &rs
				break
			}
			if podLoopR != nil {
				q := NewPathQuery(p, fn, nil)
				q.ToBlock = loopHead(podLoopR)
				q.TrackNil = identObj(info, rs.RHS)
				if w := q.Escapes(isExactly(b.store.Node), nil, isExactly(rs.Node), nil); w == nil {
					refStore = &rs
					break
				}
			}
		}
		if refStore == nil {
			c.Bad("C02.R4", fam+" bind records the reference", p.Pos(b.store.Node), fn.Key(), "<pod>."+ref+" = … on every path from the bind to the next pod", "no such store")
			continue
		}
		c.Require("C02.R4", fam+" bind only while the pod has no "+fam+" binding", fn, refStore.Node, inf+"."+ref+" == nil", nil)
		// the recorded reference points at the bound address
		okRef := false
		switch r := ast.Unparen(refStore.RHS).(type) {
		case *ast.Ident:
			okRef = info.ObjectOf(r) == b.baseObj
			if !okRef {
				// a result variable: every definition is nil or a copy of the bound entry
				ds := varDefs(fn, info.ObjectOf(r))
				okRef = len(ds) > 0
				for _, d := range ds {
					if d.rhs == nil {
						if _, isDecl := d.node.(*ast.ValueSpec); !isDecl {
							okRef = false
						}
						continue
					}
					if !info.Types[ast.Unparen(d.rhs)].IsNil() && identObj(info, d.rhs) != b.baseObj {
						okRef = false
					}
				}
			}
		case *ast.UnaryExpr:
			if cl, ok := r.X.(*ast.CompositeLit); ok {
				for _, el := range cl.Elts {
					if kv, ok := el.(*ast.KeyValueExpr); ok && kv.Key.(*ast.Ident).Name == "IP" {
						if s2, ok := ast.Unparen(kv.Value).(*ast.SelectorExpr); ok && s2.Sel.Name == "IP" && identObj(info, s2.X) == b.baseObj {
							okRef = true
						}
					}
				}
			}
		}
		c.Check(okRef, "C02.R4", fam+" reference points at the bound address", p.Pos(refStore.Node), fn.Key(), ref+" refers to the EniIP whose IP was marked", exprString(refStore.RHS))
		if !b.takeOver {
			// first hit wins: from the bind, the same store is not reachable again within one pod
			var podLoop *ast.RangeStmt
			for _, nd := range pathTo(fn.Decl.Body, b.store.Node) {
				if rs, ok := nd.(*ast.RangeStmt); ok && rs.Value != nil && identObj(info, rs.Value) == b.info {
					podLoop = rs
				}
			}
			q := NewPathQuery(p, fn, nil)
			if podLoop != nil {
				q.StopBlock = loopHead(podLoop)
			}
			w := q.Escapes(isExactly(b.store.Node), isExactly(b.store.Node), nil, nil)
			c.Check(w == nil, "C02.R4", "fresh "+fam+" search stops at the first hit", p.Pos(b.store.Node), fn.Key(), "the bind is followed by break (not reachable twice for one pod)", "path: "+p.describePath(w))
		}
	}
	c.Floor("C02.R2", "fresh binds", 2, nFresh)
	c.Floor("C02.R3", "take-over binds", 2, nTake)

	// the index is rebuilt before each assignment pass and after anything that adds addresses
	sp := p.Func(nodeCtlPkg, "ReconcileNode.syncPods")
	build := p.Func(nodeCtlPkg, "buildIPMap")
	addIP := p.Func(nodeCtlPkg, "ReconcileNode.addIP")
	if sp == nil || build == nil || addIP == nil {
		c.Unres("C02.R4", "syncPods / buildIPMap / addIP", "not found")
		return
	}
	q := NewPathQuery(p, sp, nil)
	n := 0
	for _, cs := range p.CallsTo([]*FuncInfo{sp}, fn.Obj) {
		n++
		w := q.Escapes(nil, isExactly(cs.Call), q.callTo(build.Obj), nil)
		w2 := q.Escapes(q.callTo(addIP.Obj), isExactly(cs.Call), q.callTo(build.Obj), nil)
		c.Check(w == nil && w2 == nil, "C02.R4", "syncPods rebuilds the binding index before assignIPFromLocalPool", p.Pos(cs.Call), sp.Key(), "must-pass: (entry | addIP) → buildIPMap → assignIPFromLocalPool", "path: "+p.describePath(w)+p.describePath(w2))
		// the maps passed are the ones buildIPMap returned
		okArgs := true
		for _, a := range cs.Call.Args[2:4] {
			o := identObj(sp.Info(), a)
			from := false
			if o != nil {
				for _, d := range varDefs(sp, o) {
					if as, ok := d.node.(*ast.AssignStmt); ok && len(as.Rhs) == 1 {
						if call, ok := as.Rhs[0].(*ast.CallExpr); ok && Callee(sp.Info(), call) == build.Obj {
							from = true
						}
					}
				}
			}
			okArgs = okArgs && from
		}
		c.Check(okArgs, "C02.R4", "syncPods passes buildIPMap's maps", p.Pos(cs.Call), sp.Key(), "ipv4Map, ipv6Map := buildIPMap(…)", "argument provenance not recognised")
	}
	c02FamilyRoles(c, "C02.R4")
	c.Floor("C02.R4", "assignIPFromLocalPool calls in syncPods", 2, n)
	// buildIPMap links a pod to the address recorded for it (by PodID), per family
	bi := build.Info()
	links := 0
	for _, famRef := range []string{"ipv4Ref", "ipv6Ref"} {
		for _, s := range p.StoresTo([]*FuncInfo{build}, p.Field(nodeCtlPkg, "PodRequest", famRef)) {
			links++
			// enclosing range over item.IPv4 / item.IPv6
			fam := ""
			for _, nd := range pathTo(build.Decl.Body, s.Node) {
				if rs, ok := nd.(*ast.RangeStmt); ok {
					if fv := fieldOf(bi, rs.X); fv != nil && (fv.Name() == "IPv4" || fv.Name() == "IPv6") {
						fam = fv.Name()
					}
				}
			}
			want := "IPv4"
			if famRef == "ipv6Ref" {
				want = "IPv6"
			}
			c.Check(fam == want, "C02.R4", "buildIPMap links "+famRef+" from the "+want+" map of the record", p.Pos(s.Node), build.Key(), famRef+" set while ranging over <eni>."+want, "ranging over "+fam)
			// completeness: every address whose PodID names a live pod is linked (no stricter condition),
			// otherwise the pod looks unbound and receives a second address
			var inner *ast.RangeStmt
			for _, nd := range pathTo(build.Decl.Body, s.Node) {
				if rs, ok := nd.(*ast.RangeStmt); ok {
					inner = rs
				}
			}
			base := identObj(bi, s.LHS.(*ast.SelectorExpr).X)
			var lookup *ast.AssignStmt
			var okObj types.Object
			if base != nil {
				for _, d := range varDefs(build, base) {
					if as, ok := d.node.(*ast.AssignStmt); ok && len(as.Lhs) == 2 && as.Pos() < s.Node.Pos() && (lookup == nil || as.Pos() > lookup.Pos()) {
						lookup = as
						okObj = identObj(bi, as.Lhs[1])
					}
				}
			}
			if inner == nil || lookup == nil || okObj == nil {
				c.Undec("C02.R4", "buildIPMap link completeness "+famRef, p.Pos(s.Node), build.Key(), "", "lookup `podReq, ok := podsMapper[v.PodID]` not recognised")
				continue
			}
			// the lookup key is the recorded PodID of the ranged address
			keyOK := false
			if ix, ok := ast.Unparen(lookup.Rhs[0]).(*ast.IndexExpr); ok {
				if sel, ok := ast.Unparen(ix.Index).(*ast.SelectorExpr); ok && sel.Sel.Name == "PodID" && inner.Value != nil && identObj(bi, sel.X) == identObj(bi, inner.Value) {
					keyOK = true
				}
			}
			c.Check(keyOK, "C02.R4", "buildIPMap looks the pod up by the recorded PodID ("+famRef+")", p.Pos(lookup), build.Key(), "podsMapper[<address>.PodID]", exprString(lookup.Rhs[0]))
			fe := NewFactEngine(p, build)
			okAtom := fe.Cond(identFor(bi, okObj))
			asg := map[string]bool{}
			if okAtom.k == fAtom {
				asg[okAtom.atom] = true
			}
			bq := NewPathQuery(p, build, nil)
			bq.Prune = func(cond ast.Expr, takeTrue bool) bool {
				v, known := eval3(fe.Cond(cond), asg)
				return known && v != takeTrue
			}
			bq.ToBlock = loopHead(inner)
			w := bq.Escapes(isExactly(lookup), func(ast.Node) bool { return false }, isExactly(s.Node), nil)
			c.Check(w == nil, "C02.R4", "buildIPMap links every address recorded for a live pod ("+famRef+")", p.Pos(s.Node), build.Key(), "whenever the lookup succeeds the reference is set (no extra condition)", "path that skips the link although the pod exists: "+p.describePath(w))
			// … of every interface of the record: no iteration over the interfaces gets to the next one
			// without walking this family's addresses (an interface that is skipped — not yet attached,
			// being detached — keeps its bindings in the record, and its pods look unbound)
			var outer *ast.RangeStmt
			for _, nd := range pathTo(build.Decl.Body, inner) {
				if rs, ok := nd.(*ast.RangeStmt); ok && rs != inner {
					outer = rs
				}
			}
			if outer != nil {
				oq := NewPathQuery(p, build, nil)
				oq.FromBlock = func(b *cfg.Block) bool { return b.Stmt == outer && b.Kind == cfg.KindRangeBody }
				oq.ToBlock = loopHead(outer)
				w2 := oq.Escapes(nil, func(ast.Node) bool { return false }, isExactly(inner.X), nil)
				c.Check(w2 == nil, "C02.R4", "buildIPMap walks "+want+" of every interface", p.Pos(inner), build.Key(), "every iteration over the interfaces ranges over <interface>."+want, "an interface can be skipped: "+p.describePath(w2))
			}
		}
	}
	c.Floor("C02.R4", "reference links in buildIPMap", 2, links)
}

func sameBlock(fn *FuncInfo, a, b ast.Node) bool {
	pa, pb := pathTo(fn.Decl.Body, a), pathTo(fn.Decl.Body, b)
	var ba, bb *ast.BlockStmt
	for _, n := range pa {
		if bl, ok := n.(*ast.BlockStmt); ok {
			ba = bl
		}
	}
	for _, n := range pb {
		if bl, ok := n.(*ast.BlockStmt); ok {
			bb = bl
		}
	}
	return ba != nil && ba == bb
}

func c02PodOfIteration(c *Ctx, fn *FuncInfo, b bindSite, rule string) {
	p := c.P
	info := fn.Info()
	// RHS of the PodID store is the key variable of the loop whose value is b.info
	okKey := false
	for _, nd := range pathTo(fn.Decl.Body, b.store.Node) {
		if rs, ok := nd.(*ast.RangeStmt); ok && rs.Value != nil && identObj(info, rs.Value) == b.info && rs.Key != nil {
			if identObj(info, rs.Key) == b.podKey && b.podKey != nil {
				okKey = true
			}
		}
	}
	c.Check(okKey, rule, fmt.Sprintf("IPv%d bind marks the pod of the current iteration", b.family), p.Pos(b.store.Node), fn.Key(), "PodID = key of the loop over pending pods", "right-hand side "+exprString(b.store.RHS))
	// the UID store next to it uses the same pod's UID
	uidF := p.Field(apiPkg, "IP", "PodUID")
	okUID := false
	for _, s := range p.StoresTo([]*FuncInfo{fn}, uidF) {
		if sameBlock(fn, s.Node, b.store.Node) && s.RHS != nil {
			if sel, ok := ast.Unparen(s.RHS).(*ast.SelectorExpr); ok && sel.Sel.Name == "PodUID" && identObj(info, sel.X) == b.info {
				okUID = true
			}
		}
	}
	c.Check(okUID, rule, fmt.Sprintf("IPv%d bind records the pod's UID", b.family), p.Pos(b.store.Node), fn.Key(), "PodUID = <pod>.PodUID next to the bind", "no such store")
}

func c02R5(c *Ctx) {
	p := c.P
	c.Rule("C02.R5", "dual-stack roll-back: a pod that cannot get an IPv6 address does not keep a freshly bound IPv4 one (the address is unmarked before the reference is dropped) and is reported as not served")
	fn := p.Func(nodeCtlPkg, "assignIPFromLocalPool")
	if fn == nil {
		c.Unres("C02.R5", "assignIPFromLocalPool", "not found")
		return
	}
	info := fn.Info()
	// the result map
	var resObj types.Object
	for _, r := range declReturns(fn.Decl.Body) {
		if len(r.Results) == 1 {
			resObj = identObj(info, r.Results[0])
		}
	}
	if resObj == nil {
		c.Undec("C02.R5", "result map", p.Pos(fn.Decl), fn.Key(), "", "return value is not a local map")
		return
	}
	n := 0
	ast.Inspect(fn.Decl.Body, func(nd ast.Node) bool {
		as, ok := nd.(*ast.AssignStmt)
		if !ok || len(as.Lhs) != 1 {
			return true
		}
		ix, ok := ast.Unparen(as.Lhs[0]).(*ast.IndexExpr)
		if !ok || identObj(info, ix.X) != resObj {
			return true
		}
		inf := identObj(info, as.Rhs[0])
		if inf == nil {
			return true
		}
		// is this the IPv6 arm?
		e := NewFactEngine(p, fn)
		f, err := e.ParseReq(inf.Name()+".RequireIPv6 && "+inf.Name()+".ipv6Ref == nil", as.Pos())
		if err != nil {
			return true
		}
		if ok, _, _ := e.FactsAt(as, f); !ok {
			return true
		}
		n++
		c.Require("C02.R5", "pod without IPv6 keeps no fresh IPv4 binding", fn, as, inf.Name()+`.IPv4 != "" || `+inf.Name()+".ipv4Ref == nil", nil)
		return true
	})
	c.Floor("C02.R5", "not-served stores in the IPv6 arm", 1, n)
	// dropping the reference is preceded by unmarking the address
	refF := p.Field(nodeCtlPkg, "PodRequest", "ipv4Ref")
	podID := p.Field(apiPkg, "IP", "PodID")
	q := NewPathQuery(p, fn, nil)
	m := 0
	for _, s := range p.StoresTo([]*FuncInfo{fn}, refF) {
		if s.RHS == nil || !info.Types[ast.Unparen(s.RHS)].IsNil() {
			continue
		}
		m++
		base := exprString(s.LHS.(*ast.SelectorExpr).X)
		clear := func(nd ast.Node) bool {
			as, ok := nd.(*ast.AssignStmt)
			if !ok || len(as.Lhs) != 1 || fieldOf(info, as.Lhs[0]) != podID {
				return false
			}
			if tv := info.Types[as.Rhs[0]]; tv.Value == nil || tv.Value.ExactString() != `""` {
				return false
			}
			// the address record may be named by a local (`ip := <pod>.ipv4Ref.IP`)
			return strings.HasPrefix(derefString(fn, as.Lhs[0]), base+".ipv4Ref.IP.")
		}
		// within the arm: from the arm's condition to the drop
		var arm *ast.IfStmt
		for _, nd := range pathTo(fn.Decl.Body, s.Node) {
			if is, ok := nd.(*ast.IfStmt); ok {
				arm = is
			}
		}
		from := nodePred(nil)
		if arm != nil {
			from = isExactly(arm.Cond)
		}
		w := q.Escapes(from, isExactly(s.Node), clear, nil)
		c.Check(w == nil, "C02.R5", "IPv4 reference dropped only after the address was unmarked", p.Pos(s.Node), fn.Key(), "must-pass: <pod>.ipv4Ref.IP.PodID = \"\" → <pod>.ipv4Ref = nil", "path: "+p.describePath(w))
	}
	c.Floor("C02.R5", "reference drops", 1, m)
	// safety direction: what the roll-back unmarks is a binding made in this pass — the pod reports
	// no address of that family (an address a running pod reports is never unbound here)
	k := 0
	for _, s := range p.StoresTo([]*FuncInfo{fn}, podID) {
		if s.RHS == nil {
			continue
		}
		if tv := info.Types[s.RHS]; tv.Value == nil || tv.Value.ExactString() != `""` {
			continue
		}
		lhs := derefString(fn, s.LHS)
		for _, fam := range []string{"4", "6"} {
			suf := ".ipv" + fam + "Ref.IP.PodID"
			if strings.HasSuffix(lhs, suf) {
				k++
				base := strings.TrimSuffix(lhs, suf)
				c.Require("C02.R5", "the roll-back unmarks only an IPv"+fam+" binding made in this pass", fn, s.Node, base+".IPv"+fam+` == ""`, nil)
			}
		}
	}
	c.Floor("C02.R5", "unmarking stores of the roll-back", 1, k)
}

func c02R6(c *Ctx) {
	p := c.P
	c.Rule("C02.R6", "the daemon hands a pod only an address that the record binds to it: InUse interface, Valid address, same pod id and (when recorded) same UID")
	fn := p.Func(eniPkg, "CRDV2.multiIP")
	if fn == nil {
		c.Unres("C02.R6", "CRDV2.multiIP", "not found")
		return
	}
	info := fn.Info()
	valid := constLit(p, apiPkg, "IPStatusValid")
	inUse := constLit(p, clientPkg, "ENIStatusInUse")
	cni := fn.Decl.Type.Params.List[1].Names[0].Name
	n := 0
	ast.Inspect(fn.Decl.Body, func(nd ast.Node) bool {
		as, ok := nd.(*ast.AssignStmt)
		if !ok || as.Tok != token.ASSIGN || len(as.Lhs) != 1 || len(as.Rhs) != 1 {
			return true
		}
		lo := identObj(info, as.Lhs[0])
		if lo == nil || !typeIs(lo.Type(), "net/netip", "Addr") {
			return true
		}
		// enclosing ranges: eni over NetworkInterfaces, ip over eni.IPv4/IPv6
		var eniV, ipV string
		for _, e := range pathTo(fn.Decl.Body, as) {
			if rs, ok := e.(*ast.RangeStmt); ok && rs.Value != nil {
				if fv := fieldOf(info, rs.X); fv != nil {
					switch fv.Name() {
					case "NetworkInterfaces":
						eniV = exprString(rs.Value)
					case "IPv4", "IPv6":
						ipV = exprString(rs.Value)
					}
				}
			}
		}
		if eniV == "" || ipV == "" {
			return true
		}
		n++
		req := fmt.Sprintf(`%[1]s.Status == %[3]s && %[2]s.Status == %[4]s && %[2]s.PodID == %[5]s.PodID && (%[2]s.PodUID == "" || %[2]s.PodUID == %[5]s.PodUID)`, eniV, ipV, inUse, valid, cni)
		c.Require("C02.R6", "multiIP accepts "+lo.Name()+" only when the record binds it to this pod", fn, as, req, nil)
		return true
	})
	c.Floor("C02.R6", "address acceptance sites in CRDV2.multiIP", 2, n)
}

// c02FamilyRoles: consumers of the two family indexes in syncPods get them in family order.
func c02FamilyRoles(c *Ctx, rule string) {
	p := c.P
	sp := p.Func(nodeCtlPkg, "ReconcileNode.syncPods")
	build := p.Func(nodeCtlPkg, "buildIPMap")
	if sp == nil || build == nil {
		c.Unres(rule, "syncPods / buildIPMap", "not found")
		return
	}
	// every consumer in syncPods that takes the two family indexes gets them in family order: the
	// first map[string]*EniIP parameter receives buildIPMap's first result (IPv4), the second its
	// second (IPv6)
	{
		spInfo := sp.Info()
		famOf := map[types.Object]int{}
		ast.Inspect(sp.Decl.Body, func(nd ast.Node) bool {
			as, ok := nd.(*ast.AssignStmt)
			if !ok || len(as.Rhs) != 1 || len(as.Lhs) != 2 {
				return true
			}
			if call, ok := as.Rhs[0].(*ast.CallExpr); ok && Callee(spInfo, call) == build.Obj {
				if o := identObj(spInfo, as.Lhs[0]); o != nil {
					famOf[o] = 4
				}
				if o := identObj(spInfo, as.Lhs[1]); o != nil {
					famOf[o] = 6
				}
			}
			return true
		})
		nRole := 0
		for _, cs := range p.CallsIn(sp) {
			if cs.Callee == nil {
				continue
			}
			sig, ok := cs.Callee.Type().(*types.Signature)
			if !ok {
				continue
			}
			if sig.Variadic() {
				// …map[string]*EniIP: both families, each once
				last := sig.Params().At(sig.Params().Len() - 1).Type().(*types.Slice).Elem()
				if mt, ok := last.Underlying().(*types.Map); ok && typeIs(mt.Elem(), modPath+"/"+nodeCtlPkg, "EniIP") && cs.Call.Ellipsis == token.NoPos && len(cs.Call.Args) >= sig.Params().Len()-1 {
					nRole++
					cnt := map[int]int{}
					for _, a := range cs.Call.Args[sig.Params().Len()-1:] {
						cnt[famOf[identObj(spInfo, a)]]++
					}
					c.Check(cnt[4] == 1 && cnt[6] == 1 && len(cnt) == 2, rule, "syncPods hands "+cs.Callee.Name()+" the index of both families", p.Pos(cs.Call), sp.Key(), cs.Callee.Name()+"(…, ipv4Map, ipv6Map)", fmt.Sprintf("families passed: %v (0 = not a buildIPMap result)", cnt))
				}
				continue
			}
			if sig.Params().Len() != len(cs.Call.Args) {
				continue
			}
			var mapArgs []ast.Expr
			for i := 0; i < sig.Params().Len(); i++ {
				if mt, ok := sig.Params().At(i).Type().Underlying().(*types.Map); ok && typeIs(mt.Elem(), modPath+"/"+nodeCtlPkg, "EniIP") {
					mapArgs = append(mapArgs, cs.Call.Args[i])
				}
			}
			if len(mapArgs) != 2 {
				continue
			}
			nRole++
			a, b := famOf[identObj(spInfo, mapArgs[0])], famOf[identObj(spInfo, mapArgs[1])]
			c.Check(a == 4 && b == 6, rule, "syncPods hands "+cs.Callee.Name()+" the IPv4 index first and the IPv6 index second", p.Pos(cs.Call), sp.Key(), cs.Callee.Name()+"(…, ipv4Map, ipv6Map, …) with ipv4Map, ipv6Map := buildIPMap(…)", fmt.Sprintf("families passed: %d, %d (0 = not a buildIPMap result)", a, b))
		}
		c.Floor(rule, "consumers of both family indexes in syncPods", 2, nRole)
	}
}

// R9: the cloud's answer is read as what it says. The Lingjun interface list
// reports a life-cycle status in its own vocabulary, which the client translates
// to the ECS one the controllers act on: Unattached → Available (not attached),
// Available → InUse (attached and usable), the failure / deleting states →
// Deleting, anything else unchanged. The translation is tabulated from the code
// (whatever its form) for every declared input and compared with this table — an
// interface the cloud reports as unattached must not be recorded as in use, or
// pods are bound to addresses on an interface that is not there.
func c02R9(c *Ctx) {
	p := c.P
	c.Rule("C02.R9", "DescribeLeniNetworkInterface translates the Lingjun interface status exactly: Unattached→Available, Available→InUse, Create Failed / Deleting / Delete Failed→Deleting, every other value unchanged (tabulated from the code for each declared constant)")
	fn := p.Func(clientPkg, "OpenAPI.DescribeLeniNetworkInterface")
	if fn == nil {
		c.Unres("C02.R9", "OpenAPI.DescribeLeniNetworkInterface", "not found")
		return
	}
	info := fn.Info()
	// the sink: an lvalue …​.Status that receives an ENIStatus* constant (directly or through a local)
	var region []ast.Stmt
	sink := ""
	statusField := p.Field(clientPkg, "NetworkInterface", "Status")
	niType := p.LookupObj(clientPkg, "NetworkInterface")
	isNI := func(x ast.Expr) bool {
		x = ast.Unparen(x)
		if u, ok := x.(*ast.UnaryExpr); ok && u.Op == token.AND {
			x = ast.Unparen(u.X)
		}
		cl, ok := x.(*ast.CompositeLit)
		if !ok || niType == nil {
			return false
		}
		n, _ := info.TypeOf(cl).(*types.Named)
		return n != nil && n.Obj() == niType
	}
	// the record under construction: a NetworkInterface literal bound to a variable (its Status is the sink);
	// failing that, the first store to the Status field
	var walk func(k ast.Node, body []ast.Stmt)
	fromLit := false
	walk = func(k ast.Node, body []ast.Stmt) {
		ast.Inspect(k, func(j ast.Node) bool {
			switch t := j.(type) {
			case *ast.FuncLit:
				return false
			case *ast.RangeStmt:
				walk(t.Body, t.Body.List)
				return false
			case *ast.ForStmt:
				if t.Cond != nil || t.Init != nil || t.Post != nil {
					walk(t.Body, t.Body.List)
					return false
				}
			case *ast.AssignStmt:
				if len(t.Lhs) != 1 || len(t.Rhs) != 1 {
					return true
				}
				if id, ok := t.Lhs[0].(*ast.Ident); ok && isNI(t.Rhs[0]) && !fromLit {
					sink, region, fromLit = id.Name+".Status", body, true
				}
				if sel, ok := ast.Unparen(t.Lhs[0]).(*ast.SelectorExpr); ok && sink == "" && statusField != nil && fieldOf(info, sel) == statusField {
					sink, region = exprString(sel), body
				}
			}
			return true
		})
	}
	walk(fn.Decl.Body, fn.Decl.Body.List)
	if sink == "" {
		c.Undec("C02.R9", "status translation in DescribeLeniNetworkInterface", p.Pos(fn.Decl), fn.Key(), "an assignment to <interface>.Status", "not found")
		return
	}
	val := func(name string) string {
		if o, ok := p.LookupObj(clientPkg, name).(*types.Const); ok {
			return constant.StringVal(o.Val())
		}
		return cvUnknown
	}
	want := map[string]string{
		val("LENIStatusUnattached"):   val("ENIStatusAvailable"),
		val("LENIStatusAvailable"):    val("ENIStatusInUse"),
		val("LENIStatusCreateFailed"): val("ENIStatusDeleting"),
		val("LENIStatusDeleting"):     val("ENIStatusDeleting"),
		val("LENIStatusDeleteFailed"): val("ENIStatusDeleting"),
		val("LENIStatusExecuting"):    val("LENIStatusExecuting"),
		"some other status":           "some other status",
	}
	var ins []string
	for k := range want {
		ins = append(ins, k)
	}
	sort.Strings(ins)
	tables := collectTables(info, fn.Pkg.Syntax)
	for _, in := range ins {
		in := in
		ce := &constEval{info: info, maps: tables}
		// what the cloud reported: a string field called Status of anything but the record under construction
		ce.input = func(x ast.Expr) (string, bool) {
			if sel, ok := ast.Unparen(x).(*ast.SelectorExpr); ok && sel.Sel.Name == "Status" {
				if f := fieldOf(info, sel); f != nil && f != statusField {
					return in, true
				}
			}
			return "", false
		}
		ce.body = func(f *types.Func) (*ast.FuncDecl, *types.Info) {
			if fi := p.FuncOf(f); fi != nil {
				return fi.Decl, fi.Info()
			}
			return nil, nil
		}
		env0 := constEnv{}
		if !fromLit {
			env0[sink] = in
		}
		env, _ := ce.stmts(region, env0)
		got := env[sink]
		shown := got
		if got == cvUnknown {
			shown = "<not a constant>"
		}
		c.Check(got == want[in], "C02.R9", "status "+strconv.Quote(in)+" is read as "+strconv.Quote(want[in]), p.Pos(region[0]), fn.Key(), strconv.Quote(in)+" → "+strconv.Quote(want[in]), "the code yields "+strconv.Quote(shown))
	}
	c.Floor("C02.R9", "inputs tabulated", 7, len(ins))
}

// R10: the description of a new interface is recorded as read. createENI waits for the interface and
// files the cloud's description of it (type, traffic mode, addresses) in the node record; no field of
// that description is overwritten on the way — in particular not from the *create* answer, which does
// not carry the traffic mode: an RDMA interface recorded without it takes ordinary pods.
func c02R10(c *Ctx) {
	p := asWritten(c.P) // a statement about the author's text: which answer feeds which field
	c.Rule("C02.R10", "ReconcileNode.createENI: the value returned by WaitForNetworkInterface… is recorded without any of its fields being assigned in between, and the record entry built from it takes nothing from the create answer (the cloud's description is read as what it says)")
	fn := p.Func(nodeCtlPkg, "ReconcileNode.createENI")
	if fn == nil {
		c.Unres("C02.R10", "ReconcileNode.createENI", "not found")
		return
	}
	info := fn.Info()
	var desc, created types.Object
	ast.Inspect(fn.Decl.Body, func(k ast.Node) bool {
		if as, ok := k.(*ast.AssignStmt); ok && len(as.Rhs) == 1 && len(as.Lhs) >= 1 {
			if call, ok := ast.Unparen(as.Rhs[0]).(*ast.CallExpr); ok {
				if f := Callee(info, call); f != nil {
					switch {
					case strings.HasPrefix(f.Name(), "WaitForNetworkInterface"):
						desc = identObj(info, as.Lhs[0])
					case strings.HasPrefix(f.Name(), "CreateNetworkInterface") && created == nil:
						created = identObj(info, as.Lhs[0])
					}
				}
			}
		}
		return true
	})
	if desc == nil || created == nil {
		c.Undec("C02.R10", "createENI creates and then waits for the interface", p.Pos(fn.Decl), fn.Key(), "result := Create…; eni, err := WaitForNetworkInterface…(…)", fmt.Sprintf("description found=%v create answer found=%v", desc != nil, created != nil))
		return
	}
	// follow the description (and the create answer, where it is handed on too) through the helpers
	// that file the interface, to depth 2
	var edits, fromCreate []string
	entries := 0
	var visit func(fn *FuncInfo, desc, created types.Object, depth int)
	visit = func(fn *FuncInfo, desc, created types.Object, depth int) {
		info := fn.Info()
		mentions := func(x ast.Node, o types.Object) bool {
			hit := false
			if o == nil {
				return false
			}
			ast.Inspect(x, func(j ast.Node) bool {
				if id, ok := j.(*ast.Ident); ok && info.ObjectOf(id) == o {
					hit = true
				}
				return !hit
			})
			return hit
		}
		var entry []types.Object
		ast.Inspect(fn.Decl.Body, func(k ast.Node) bool {
			switch t := k.(type) {
			case *ast.AssignStmt:
				for i, l := range t.Lhs {
					// an edit of the description
					if sel, ok := ast.Unparen(l).(*ast.SelectorExpr); ok {
						if root := rootIdent(sel); root != nil && info.ObjectOf(root) == desc {
							edits = append(edits, p.Pos(t)+": "+exprString2(t))
						}
					}
					// the entry: a variable built by a call that takes the description
					if len(t.Rhs) == len(t.Lhs) {
						if call, ok := ast.Unparen(t.Rhs[i]).(*ast.CallExpr); ok && len(t.Lhs) == 1 {
							for _, a := range call.Args {
								if identObj(info, a) == desc {
									if o := identObj(info, l); o != nil {
										entry = append(entry, o)
										entries++
									}
								}
							}
						}
					}
				}
			case *ast.CallExpr:
				// handed on to a helper of the package
				if depth < 2 {
					if callee := p.FuncOf(Callee(info, t)); callee != nil && callee.Pkg == fn.Pkg && callee != fn {
						var d2, c2 types.Object
						i := 0
						for _, f := range callee.Decl.Type.Params.List {
							for _, nm := range f.Names {
								if i < len(t.Args) {
									if identObj(info, t.Args[i]) == desc {
										d2 = callee.Info().Defs[nm]
									}
									if created != nil && identObj(info, t.Args[i]) == created {
										c2 = callee.Info().Defs[nm]
									}
								}
								i++
							}
						}
						if d2 != nil {
							visit(callee, d2, c2, depth+1)
						}
					}
				}
			}
			return true
		})
		if created == nil {
			return
		}
		for _, en := range entry {
			ast.Inspect(fn.Decl.Body, func(k ast.Node) bool {
				as, ok := k.(*ast.AssignStmt)
				if !ok {
					return true
				}
				for i, l := range as.Lhs {
					sel, ok := ast.Unparen(l).(*ast.SelectorExpr)
					if !ok || i >= len(as.Rhs) {
						continue
					}
					if root := rootIdent(sel); root == nil || info.ObjectOf(root) != en {
						continue
					}
					if mentions(as.Rhs[i], created) {
						fromCreate = append(fromCreate, p.Pos(as)+": "+exprString2(as))
					}
				}
				return true
			})
		}
	}
	visit(fn, desc, created, 0)
	c.Check(len(edits) == 0, "C02.R10", "createENI: the description is not edited", p.Pos(fn.Decl), fn.Key(), "no assignment to a field of the described interface", strings.Join(edits, "; "))
	if entries == 0 {
		c.Undec("C02.R10", "createENI: the record entry built from the description", p.Pos(fn.Decl), fn.Key(), "entry := build(description) in createENI or in the helper it hands the description to", "not found")
		return
	}
	c.Check(len(fromCreate) == 0, "C02.R10", "createENI: the recorded entry takes nothing from the create answer", p.Pos(fn.Decl), fn.Key(), "fields of the entry come from the description (and the chosen vSwitch)", strings.Join(fromCreate, "; "))
}

// R11: one owner for the status of the node record. Bindings, addresses and interface states live in
// Node.Status and are published by the multi-ip node controller (compare-and-swap, R8). No other
// function assigns that status as a whole — in particular not the node controller's write-back, which
// would copy the status it read earlier over an update published in between (found in the pinned tree
// and fixed: findings/C02-node-controller-reverts-status).
func c02R11(c *Ctx) {
	p := asWritten(c.P)
	c.Rule("C02.R11", "Node.Status (the IPAM record's interfaces, addresses and bindings) is assigned as a whole only inside the multi-ip node controller; other writers of the record (the node controller's CreateOrPatch) carry spec and labels only")
	fv := p.Field(apiPkg, "Node", "Status")
	if fv == nil {
		c.Unres("C02.R11", "v1beta1.Node.Status", "not found")
		return
	}
	n := 0
	for _, s := range p.StoresTo(nil, fv) {
		if s.InLit {
			continue
		}
		n++
		inOwner := strings.HasSuffix(s.Fn.Pkg.PkgPath, nodeCtlPkg)
		c.Check(inOwner, "C02.R11", "whole-status store in "+s.Fn.Key(), p.Pos(s.Node), s.Fn.Key(), "only "+nodeCtlPkg+" assigns Node.Status", "a second writer copies a status it read earlier over the record")
	}
	if n == 0 {
		c.OK("C02.R11", "whole-status stores of the node record", "", "", "none outside composite literals")
	}
}

// R12: a pod that becomes a request carries the addresses it reports. The allocator adopts a reported
// address the record has no binding for (take-over after an upgrade, a lost status, a rebuild from the
// cloud); a request built without them makes the pod look new — it is bound to some other free address
// and the one it really uses stays free for the next pod.
func c02R12(c *Ctx) {
	p := c.P
	c.Rule("C02.R12", "getPods: every path that builds a pod's request passes the reads of pod.Status.PodIP and pod.Status.PodIPs (whatever the pod's phase: the only phase test is the one that skips the pod altogether)")
	fn := p.Func(nodeCtlPkg, "ReconcileNode.getPods")
	if fn == nil {
		c.Unres("C02.R12", "ReconcileNode.getPods", "not found")
		return
	}
	info := fn.Info()
	isReq := containsNode(func(m ast.Node) bool {
		cl, ok := m.(*ast.CompositeLit)
		return ok && typeIs(info.TypeOf(cl), modPath+"/"+nodeCtlPkg, "PodRequest")
	})
	n := 0
	for _, field := range []string{"PodIP", "PodIPs"} {
		field := field
		reads := containsNode(func(m ast.Node) bool {
			sel, ok := m.(*ast.SelectorExpr)
			return ok && sel.Sel.Name == field && typeIs(info.TypeOf(sel.X), "k8s.io/api/core/v1", "PodStatus")
		})
		found := false
		ast.Inspect(fn.Decl.Body, func(m ast.Node) bool {
			if sel, ok := m.(*ast.SelectorExpr); ok && sel.Sel.Name == field && typeIs(info.TypeOf(sel.X), "k8s.io/api/core/v1", "PodStatus") {
				found = true
			}
			return true
		})
		if !found {
			c.Bad("C02.R12", "getPods reads pod.Status."+field, p.Pos(fn.Decl), fn.Key(), "the reported addresses are handed to the allocator", "no read of pod.Status."+field)
			continue
		}
		n++
		q := NewPathQuery(p, fn, nil)
		w := q.Escapes(nil, isReq, reads, nil)
		c.Check(w == nil, "C02.R12", "every request carries pod.Status."+field, p.Pos(fn.Decl), fn.Key(), "must-pass: entry → read of pod.Status."+field+" → &PodRequest{…}", "a request is built on a path that does not read it: "+p.describePath(w))
	}
	c.Floor("C02.R12", "reported-address fields read in getPods", 2, n)
}
