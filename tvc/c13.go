package main

// C13 — the programmed datapath routes pod traffic as intended and is fully removed (partial:
// decided on the declarative generators and the teardown selectors).

import (
	"fmt"
	"go/ast"
	"go/constant"
	"go/token"
	"go/types"
	"sort"
	"strings"
)

func init() { registry["C13"] = c13 }

const datapathPkg = "plugin/datapath"

func c13(c *Ctx) {
	if c.P.Pkg(datapathPkg) == nil {
		c.Unres("C13", datapathPkg, "package not loaded")
		return
	}
	gens := c13Generators(c)
	c.Floor("C13.R1", "configuration generators (functions of plugin/datapath returning *nic.Conf)", 11, len(gens))
	c13R1(c, gens)
	c13R2(c, gens)
	c13R3(c, gens)
	c13R4(c)
	c13R5(c)
	c13R6(c)
	c13R8(c, gens)
	c13R9(c)
	c13R10(c)
	c13R12(c, gens)
	c13R13(c)
	ruleArgSwap(c, "C13.R11", c.P.AllFuncs(), "the whole module (pod namespace / name pairs select the host-side link a teardown removes)")
	itemIndependent(c, "C13.R7", [][3]string{{"daemon", "ruleSync", "one rule set per pod interface"}})
	// shared: the routing table of an interface is its own — two interfaces never share one, so a pod's
	// egress route is not replaced by another interface's (C14.R2: table id is injective in the link index)
	c14R2(c)
	c13R14(c)
}

// R14: which interface of a pod carries the default route is the daemon's decision (it picks one per
// pod, C12.R1); the plugin hands the flag to the datapath as it came.
func c13R14(c *Ctx) {
	p := c.P
	c.Rule("C13.R14", "parseSetupConf: SetupConfig.DefaultRoute is the allocation's default-route flag itself (alloc.GetDefaultRoute() / alloc.DefaultRoute, through plain locals) — nothing in the plugin turns it on for another interface")
	fn := p.Func(pluginPkg, "parseSetupConf")
	if fn == nil {
		c.Unres("C13.R14", "parseSetupConf", "not found")
		return
	}
	info := fn.Info()
	n := 0
	ast.Inspect(fn.Decl.Body, func(nd ast.Node) bool {
		cl, ok := nd.(*ast.CompositeLit)
		if !ok || !typeIs(info.TypeOf(cl), modPath+"/plugin/driver/types", "SetupConfig") {
			return true
		}
		for _, el := range cl.Elts {
			kv, ok := el.(*ast.KeyValueExpr)
			if !ok || exprString(kv.Key) != "DefaultRoute" {
				continue
			}
			n++
			v := ast.Unparen(derefExpr(fn, kv.Value))
			okSrc := false
			switch t := v.(type) {
			case *ast.CallExpr:
				if f := Callee(info, t); f != nil && f.Name() == "GetDefaultRoute" && len(t.Args) == 0 {
					if sig := f.Type().(*types.Signature); sig.Recv() != nil && typeIs(sig.Recv().Type(), modPath+"/rpc", "NetConf") {
						okSrc = true
					}
				}
			case *ast.SelectorExpr:
				if t.Sel.Name == "DefaultRoute" && typeIs(info.TypeOf(t.X), modPath+"/rpc", "NetConf") {
					okSrc = true
				}
			}
			c.Check(okSrc, "C13.R14", "the default-route flag is the daemon's", p.Pos(kv), fn.Key(), "DefaultRoute: alloc.GetDefaultRoute()", "DefaultRoute: "+exprString(v))
		}
		return true
	})
	c.Floor("C13.R14", "SetupConfig literals with a DefaultRoute field in parseSetupConf", 1, n)
}

func c13Generators(c *Ctx) []*FuncInfo {
	var out []*FuncInfo
	for _, fn := range c.P.FuncsInPkg(datapathPkg) {
		sig := fn.Obj.Type().(*types.Signature)
		if sig.Results().Len() == 1 && typeIs(sig.Results().At(0).Type(), modPath+"/plugin/driver/nic", "Conf") {
			out = append(out, fn)
			c.P.Anchor(fn) // found by shape: stays a function in the normalised view
		}
	}
	return out
}

var v4Globals = map[string]bool{"defaultRoute": true, "LinkIPNet": true, "LinkIP": true}
var v6Globals = map[string]bool{"defaultRouteIPv6": true, "LinkIPNetv6": true, "LinkIPv6": true}

// familiesOf returns which address families an expression is specific to.
func familiesOf(fn *FuncInfo, x ast.Node, depth int) map[int]bool {
	info := fn.Info()
	out := map[int]bool{}
	ast.Inspect(x, func(nd ast.Node) bool {
		switch t := nd.(type) {
		case *ast.SelectorExpr:
			if info.Selections[t] != nil {
				switch t.Sel.Name {
				case "IPv4":
					out[4] = true
				case "IPv6":
					out[6] = true
				}
			}
		case *ast.Ident:
			o := info.ObjectOf(t)
			if o == nil {
				return true
			}
			if o.Pkg() != nil && o.Parent() == o.Pkg().Scope() {
				if v4Globals[o.Name()] {
					out[4] = true
				}
				if v6Globals[o.Name()] {
					out[6] = true
				}
				return true
			}
			if v, ok := o.(*types.Var); ok && !v.IsField() && depth < 3 {
				// scalar locals: union over their definitions (v4 := NewIPNetWithMaxMask(cfg.ContainerIPNet.IPv4); gw := …);
				// aggregates (slices built by append, e.g. user extra routes) are family-agnostic containers
				if _, isSlice := v.Type().Underlying().(*types.Slice); isSlice {
					if _, isIP := v.Type().(*types.Named); !isIP {
						return true
					}
				}
				for _, d := range varDefs(fn, v) {
					if d.rhs != nil && d.rhs.Pos() != t.Pos() {
						for f := range familiesOf(fn, d.rhs, depth+1) {
							out[f] = true
						}
					}
				}
			}
		case *ast.CallExpr:
			// net.CIDRMask(32,32) / (128,128)
			if calleeName(info, t) == "CIDRMask" && len(t.Args) == 2 {
				if v, ok := constInt(info, t.Args[1]); ok {
					if v == 32 {
						out[4] = true
					} else if v == 128 {
						out[6] = true
					}
				}
			}
		}
		return true
	})
	return out
}

// nlObject is one netlink object construction in a generator.
type nlObject struct {
	kind  string // Route / Rule / Neigh / Addr
	node  ast.Node
	parts []ast.Node // literal, or the NewRule() assignment plus field stores
	at    ast.Node   // where facts are evaluated
}

func c13Objects(fn *FuncInfo) []nlObject {
	info := fn.Info()
	var out []nlObject
	isNL := func(t types.Type) string {
		n := derefNamed(t)
		if n == nil || n.Obj().Pkg() == nil || !strings.HasSuffix(n.Obj().Pkg().Path(), "vishvananda/netlink") {
			return ""
		}
		switch n.Obj().Name() {
		case "Route", "Rule", "Neigh", "Addr":
			return n.Obj().Name()
		}
		return ""
	}
	// composite literals
	ast.Inspect(fn.Decl.Body, func(nd ast.Node) bool {
		if cl, ok := nd.(*ast.CompositeLit); ok {
			if k := isNL(info.TypeOf(cl)); k != "" {
				out = append(out, nlObject{kind: k, node: cl, parts: []ast.Node{cl}, at: cl})
				return true
			}
		}
		return true
	})
	// NewRule() locals with field stores
	ast.Inspect(fn.Decl.Body, func(nd ast.Node) bool {
		as, ok := nd.(*ast.AssignStmt)
		if !ok || as.Tok != token.DEFINE || len(as.Lhs) != 1 || len(as.Rhs) != 1 {
			return true
		}
		call, ok := ast.Unparen(as.Rhs[0]).(*ast.CallExpr)
		if !ok || calleeName(info, call) != "NewRule" {
			return true
		}
		o := identObj(info, as.Lhs[0])
		obj := nlObject{kind: "Rule", node: as, at: as}
		ast.Inspect(fn.Decl.Body, func(k ast.Node) bool {
			if st, ok := k.(*ast.AssignStmt); ok && len(st.Lhs) == 1 {
				if sel, ok := ast.Unparen(st.Lhs[0]).(*ast.SelectorExpr); ok && identObj(info, sel.X) == o {
					obj.parts = append(obj.parts, st.Rhs[0])
				}
			}
			return true
		})
		out = append(out, obj)
		return true
	})
	sort.Slice(out, func(i, j int) bool { return out[i].node.Pos() < out[j].node.Pos() })
	return out
}

func cfgParam(fn *FuncInfo) string {
	info := fn.Info()
	for _, fld := range fn.Decl.Type.Params.List {
		for _, nm := range fld.Names {
			if n := derefNamed(info.Defs[nm].Type()); n != nil && n.Obj().Name() == "SetupConfig" {
				return nm.Name
			}
		}
	}
	return ""
}

func c13R1(c *Ctx, gens []*FuncInfo) {
	p := c.P
	c.Rule("C13.R1", "family guard: in every configuration generator each route / rule / neighbour / address object that mentions a family-specific value (an .IPv4/.IPv6 field, the family's default destination, link-local peer or a /32 resp. /128 mask) is dominated by that family's address being present (cfg.ContainerIPNet.IPvX != nil or cfg.HostIPSet.IPvX != nil) and mentions no value of the other family")
	total := 0
	for _, fn := range gens {
		cfg := cfgParam(fn)
		for _, o := range c13Objects(fn) {
			fams := map[int]bool{}
			for _, part := range o.parts {
				for f := range familiesOf(fn, part, 0) {
					fams[f] = true
				}
			}
			if len(fams) == 0 {
				continue // family-agnostic object (out-interface rule, user extra routes)
			}
			if cfg == "" {
				// a generator that takes only scalars of the configuration builds nothing per family
				c.Undec("C13.R1", fn.Key()+": configuration parameter", p.Pos(fn.Decl), fn.Key(), "", "family-specific object in a generator with no *SetupConfig parameter")
				break
			}
			total++
			key := fmt.Sprintf("%s: %s object", fn.Key(), o.kind)
			if fams[4] && fams[6] {
				c.Bad("C13.R1", key+" mixes families", p.Pos(o.node), fn.Key(), "an object mentions values of one family only", "mentions both IPv4- and IPv6-specific values")
				continue
			}
			f := 4
			if fams[6] {
				f = 6
			}
			req := fmt.Sprintf("%[1]s.ContainerIPNet.IPv%[2]d != nil || (%[1]s.HostIPSet != nil && %[1]s.HostIPSet.IPv%[2]d != nil) || %[1]s.HostIPSet.IPv%[2]d != nil", cfg, f)
			c.Require("C13.R1", key+fmt.Sprintf(" (IPv%d) only when the family is enabled", f), fn, o.at, req, nil)
		}
	}
	c.Floor("C13.R1", "family-specific objects in generators", 40, total)
}

func isContainerGen(fn *FuncInfo) bool { return strings.HasPrefix(fn.Name, "generateContCfgFor") }

// routeInfo describes a netlink.Route literal.
type routeInfo struct {
	lit      *ast.CompositeLit
	dst      string
	hasTable bool
	fam      int
}

func c13Routes(fn *FuncInfo) []routeInfo {
	var out []routeInfo
	for _, o := range c13Objects(fn) {
		cl, ok := o.node.(*ast.CompositeLit)
		if !ok || o.kind != "Route" {
			continue
		}
		ri := routeInfo{lit: cl}
		for _, el := range cl.Elts {
			if kv, ok := el.(*ast.KeyValueExpr); ok {
				switch exprString(kv.Key) {
				case "Dst":
					ri.dst = exprString(kv.Value)
				case "Table":
					ri.hasTable = true
				}
			}
		}
		if ri.dst == "defaultRoute" {
			ri.fam = 4
		} else if ri.dst == "defaultRouteIPv6" {
			ri.fam = 6
		}
		out = append(out, ri)
	}
	return out
}

func c13R2(c *Ctx, gens []*FuncInfo) {
	p := c.P
	c.Rule("C13.R2", "one default route per family inside the pod: each container-side generator builds, per family, exactly one main-table default route, only under cfg.DefaultRoute; table-qualified default routes only under cfg.MultiNetwork")
	n := 0
	for _, fn := range gens {
		if !isContainerGen(fn) {
			continue
		}
		n++
		cfg := cfgParam(fn)
		count := map[int]int{}
		for _, r := range c13Routes(fn) {
			if r.fam == 0 {
				continue
			}
			if r.hasTable {
				c.Require("C13.R2", fmt.Sprintf("%s: table-qualified IPv%d default route only in multi-network mode", fn.Key(), r.fam), fn, r.lit, cfg+".MultiNetwork", nil)
				continue
			}
			count[r.fam]++
			c.Require("C13.R2", fmt.Sprintf("%s: main-table IPv%d default route only when the interface carries the default route", fn.Key(), r.fam), fn, r.lit, cfg+".DefaultRoute", nil)
		}
		for _, f := range []int{4, 6} {
			c.Check(count[f] == 1, "C13.R2", fmt.Sprintf("%s: exactly one main-table IPv%d default route", fn.Key(), f), p.Pos(fn.Decl), fn.Key(), "one literal with Dst = the family's default destination and no Table", fmt.Sprintf("%d", count[f]))
		}
	}
	c.Floor("C13.R2", "container-side generators", 4, n)
	// and nobody else builds one: outside the generators (Check, repair and restore paths) a
	// main-table default route is constructed only under <config>.DefaultRoute as well
	isGen := map[*FuncInfo]bool{}
	for _, g := range gens {
		isGen[g] = true
	}
	for _, fn := range p.FuncsInPkg(datapathPkg) {
		if isGen[fn] {
			continue
		}
		info := fn.Info()
		cfg := ""
		for _, fld := range fn.Decl.Type.Params.List {
			for _, nm := range fld.Names {
				if nt := derefNamed(info.Defs[nm].Type()); nt != nil {
					if st, ok := nt.Underlying().(*types.Struct); ok {
						for i := 0; i < st.NumFields(); i++ {
							if st.Field(i).Name() == "DefaultRoute" {
								cfg = nm.Name
							}
						}
					}
				}
			}
		}
		for _, r := range c13Routes(fn) {
			if r.fam == 0 || r.hasTable {
				continue
			}
			if cfg == "" {
				c.Bad("C13.R2", fmt.Sprintf("%s: main-table IPv%d default route outside the generators", fn.Key(), r.fam), p.Pos(r.lit), fn.Key(), "built under <config>.DefaultRoute", "the function has no configuration that says whether this interface carries the default route")
				continue
			}
			c.Require("C13.R2", fmt.Sprintf("%s: main-table IPv%d default route only when the interface carries the default route", fn.Key(), r.fam), fn, r.lit, cfg+".DefaultRoute", nil)
		}
	}
}

func c13R3(c *Ctx, gens []*FuncInfo) {
	p := c.P
	c.Rule("C13.R3", "sibling agreement: the container-side generators (policy, ipvlan, exclusive ENI, vlan) build the same multiset of multi-network objects (kind, family, table-qualified?)")
	sig := map[string]string{}
	var names []string
	for _, fn := range gens {
		if !isContainerGen(fn) {
			continue
		}
		cfg := cfgParam(fn)
		var items []string
		for _, o := range c13Objects(fn) {
			// only objects under cfg.MultiNetwork
			e := NewFactEngine(p, fn)
			f, err := e.ParseReq(cfg+".MultiNetwork", o.at.Pos())
			if err != nil {
				continue
			}
			if ok, _, _ := e.FactsAt(o.at, f); !ok {
				continue
			}
			fams := map[int]bool{}
			for _, part := range o.parts {
				for fm := range familiesOf(fn, part, 0) {
					fams[fm] = true
				}
			}
			fam := 0
			if fams[4] {
				fam = 4
			} else if fams[6] {
				fam = 6
			}
			items = append(items, fmt.Sprintf("%s/v%d", o.kind, fam))
		}
		sort.Strings(items)
		sig[fn.Name] = strings.Join(items, " ")
		names = append(names, fn.Name)
	}
	sort.Strings(names)
	if len(names) == 0 {
		c.Unres("C13.R3", "container generators", "none")
		return
	}
	ref := sig[names[0]]
	for _, nm := range names {
		c.Check(sig[nm] == ref && ref != "", "C13.R3", nm+" builds the same multi-network objects as its siblings", "", datapathPkg+"."+nm, "multiset = "+ref, "multiset = "+sig[nm])
	}
}

func c13R4(c *Ctx) {
	p := c.P
	c.Rule("C13.R4", "setup and teardown agree: the (priority, selector) pairs of the host-namespace rules created for a pod equal the pairs teardown searches, both on the full-mask pod address; the rule lookup key is limited to selector + priority (never the table, which teardown does not know); teardown reaches every rule deletion whenever the pod address is known, independently of the ENI being present")
	gen := p.Func(datapathPkg, "GenerateHostPeerCfgForPolicy")
	td := p.Func(datapathPkg, "PolicyRoute.Teardown")
	find := p.Func("plugin/driver/utils", "FindIPRule")
	if gen == nil || td == nil || find == nil {
		c.Unres("C13.R4", "GenerateHostPeerCfgForPolicy / PolicyRoute.Teardown / utils.FindIPRule", "not found")
		return
	}
	// created: NewRule locals with Priority + Src/Dst stores
	type pair struct{ prio, sel string }
	created := map[pair]int{}
	ginfo := gen.Info()
	ast.Inspect(gen.Decl.Body, func(nd ast.Node) bool {
		as, ok := nd.(*ast.AssignStmt)
		if !ok || as.Tok != token.DEFINE || len(as.Rhs) != 1 {
			return true
		}
		if call, ok := ast.Unparen(as.Rhs[0]).(*ast.CallExpr); !ok || calleeName(ginfo, call) != "NewRule" {
			return true
		}
		o := identObj(ginfo, as.Lhs[0])
		pr := pair{}
		fam := 0
		ast.Inspect(gen.Decl.Body, func(k ast.Node) bool {
			if st, ok := k.(*ast.AssignStmt); ok && len(st.Lhs) == 1 {
				if sel, ok := ast.Unparen(st.Lhs[0]).(*ast.SelectorExpr); ok && identObj(ginfo, sel.X) == o {
					switch sel.Sel.Name {
					case "Priority":
						pr.prio = exprString(st.Rhs[0])
					case "Src", "Dst":
						pr.sel = sel.Sel.Name
						for f := range familiesOf(gen, st.Rhs[0], 0) {
							fam = f
						}
						// full-mask pod address
						src := ""
						if vo := identObj(ginfo, st.Rhs[0]); vo != nil {
							for _, d := range varDefs(gen, vo) {
								if d.rhs != nil {
									src = exprString(d.rhs)
								}
							}
						}
						c.Check(strings.HasPrefix(src, "utils.NewIPNetWithMaxMask(") && strings.Contains(src, ".ContainerIPNet.IPv"), "C13.R4", fmt.Sprintf("host rule %s selector is the pod's full-mask address", sel.Sel.Name), p.Pos(st), gen.Key(), "NewIPNetWithMaxMask(cfg.ContainerIPNet.IPvX)", src)
					}
				}
			}
			return true
		})
		if pr.prio != "" && pr.sel != "" {
			created[pair{pr.prio, fmt.Sprintf("%s/v%d", pr.sel, fam)}]++
		}
		return true
	})
	// searched: &netlink.Rule{Priority: P, Src|Dst: extender.IPvX}
	searched := map[pair]int{}
	tinfo := td.Info()
	ast.Inspect(td.Decl.Body, func(nd ast.Node) bool {
		cl, ok := nd.(*ast.CompositeLit)
		if !ok || !typeIs(tinfo.TypeOf(cl), "github.com/vishvananda/netlink", "Rule") {
			return true
		}
		pr := pair{}
		fam := 0
		for _, el := range cl.Elts {
			if kv, ok := el.(*ast.KeyValueExpr); ok {
				switch exprString(kv.Key) {
				case "Priority":
					pr.prio = exprString(kv.Value)
				case "Src", "Dst":
					pr.sel = exprString(kv.Key)
					if strings.HasSuffix(exprString(kv.Value), ".IPv4") {
						fam = 4
					} else if strings.HasSuffix(exprString(kv.Value), ".IPv6") {
						fam = 6
					}
				default:
					c.Bad("C13.R4", "teardown rule selector uses only priority and address", p.Pos(kv), td.Key(), "Rule{Priority, Src|Dst}", "extra field "+exprString(kv.Key))
				}
			}
		}
		searched[pair{pr.prio, fmt.Sprintf("%s/v%d", pr.sel, fam)}]++
		return true
	})
	var ks []string
	for k := range created {
		ks = append(ks, k.prio+" "+k.sel)
	}
	sort.Strings(ks)
	c.Floor("C13.R4", "host rules created per pod (policy datapath)", 4, len(created))
	for k := range created {
		c.Check(searched[k] > 0, "C13.R4", "teardown searches the rule "+k.prio+" "+k.sel, p.Pos(td.Decl), td.Key(), "for every created (priority, selector) there is a matching search", "created by setup but never searched by teardown")
	}
	for k := range searched {
		c.Check(created[k] > 0, "C13.R4", "teardown only searches rules setup creates: "+k.prio+" "+k.sel, p.Pos(td.Decl), td.Key(), "searched ⊆ created", "searched but never created")
	}
	// teardown's addresses are full-mask: extender := utils.NewIPNet(cfg.ContainerIPNet)
	okExt := false
	ast.Inspect(td.Decl.Body, func(nd ast.Node) bool {
		if as, ok := nd.(*ast.AssignStmt); ok && len(as.Rhs) == 1 && strings.HasPrefix(exprString(as.Rhs[0]), "utils.NewIPNet(") && strings.HasSuffix(exprString(as.Rhs[0]), ".ContainerIPNet)") {
			okExt = true
		}
		return true
	})
	c.Check(okExt, "C13.R4", "teardown normalises the pod address to the full mask", p.Pos(td.Decl), td.Key(), "extender := utils.NewIPNet(cfg.ContainerIPNet)", "not found")
	// FindIPRule key
	allowed := map[string]bool{"RT_FILTER_SRC": true, "RT_FILTER_DST": true, "RT_FILTER_OIF": true, "RT_FILTER_PRIORITY": true}
	var used, extra []string
	ast.Inspect(find.Decl.Body, func(nd ast.Node) bool {
		if sel, ok := nd.(*ast.SelectorExpr); ok && strings.HasPrefix(sel.Sel.Name, "RT_FILTER_") {
			used = append(used, sel.Sel.Name)
			if !allowed[sel.Sel.Name] {
				extra = append(extra, sel.Sel.Name+" at "+p.Pos(sel))
			}
		}
		return true
	})
	c.Check(len(extra) == 0 && len(used) >= 3, "C13.R4", "rule lookup key ⊆ {source, destination, out-interface, priority}", p.Pos(find.Decl), find.Key(), "FindIPRule never filters on table / in-interface / mark: teardown only knows address and priority, and EnsureIPRule must see a stale rule that points at another table in order to replace it", strings.Join(extra, ", "))
	// the deletion helper deletes every rule FindIPRule returned
	// sufficient condition: with a known pod address and no errors, every rule search is reached
	q := NewPathQuery(p, td, nil)
	fe := NewFactEngine(p, td)
	cfg := td.Decl.Type.Params.List[1].Names[0].Name
	q.Prune = func(cond ast.Expr, takeTrue bool) bool {
		f := fe.Cond(cond)
		v, known := eval3f(f, func(atom string) (bool, bool) {
			switch {
			case strings.HasPrefix(atom, "eq(err@") && strings.HasSuffix(atom, ",nil)"):
				return true, true
			case strings.HasSuffix(atom, "."+"ContainerIPNet,nil)") && strings.HasPrefix(atom, "eq("+cfg+"@"):
				return false, true
			case strings.HasSuffix(atom, ".IPv4,nil)") || strings.HasSuffix(atom, ".IPv6,nil)"):
				return false, true
			}
			return false, false
		})
		return known && v != takeTrue
	}
	n := 0
	ast.Inspect(td.Decl.Body, func(nd ast.Node) bool {
		cl, ok := nd.(*ast.CompositeLit)
		if !ok || !typeIs(tinfo.TypeOf(cl), "github.com/vishvananda/netlink", "Rule") {
			return true
		}
		n++
		okReach := alwaysReaches(q, cl)
		var desc []string
		for _, el := range cl.Elts {
			if kv, ok := el.(*ast.KeyValueExpr); ok {
				desc = append(desc, exprString(kv.Key)+": "+exprString(kv.Value))
			}
		}
		c.Check(okReach, "C13.R4", "teardown always reaches the search Rule{"+strings.Join(desc, ", ")+"}", p.Pos(cl), td.Key(), "with ContainerIPNet and the family present and no error, every path from entry passes this search (in particular when the ENI is gone / its index unknown)", "some path returns before the search (extra precondition)")
		return true
	})
	c.Floor("C13.R4", "rule searches in PolicyRoute.Teardown", 4, n)
}

// eval3f is eval3 with a function-valued assignment.
func eval3f(f *Formula, asg func(string) (bool, bool)) (val, known bool) {
	switch f.k {
	case fTrue:
		return true, true
	case fFalse:
		return false, true
	case fAtom:
		return asg(f.atom)
	case fNot:
		v, k := eval3f(f.sub[0], asg)
		return !v, k
	case fAnd:
		a, ka := eval3f(f.sub[0], asg)
		b, kb := eval3f(f.sub[1], asg)
		if ka && !a || kb && !b {
			return false, true
		}
		return a && b, ka && kb
	case fOr:
		a, ka := eval3f(f.sub[0], asg)
		b, kb := eval3f(f.sub[1], asg)
		if ka && a || kb && b {
			return true, true
		}
		return a || b, ka && kb
	}
	return false, false
}

// alwaysReaches: every non-pruned path from the entry of q's body passes target.
func alwaysReaches(q *PathQuery, target ast.Node) bool { return litAlwaysReaches(q, target) }

func c13R5(c *Ctx) {
	p := c.P
	c.Rule("C13.R5", "one table: the table given to the ENI-side generator (default route via the ENI gateway) and to the host-peer generator (from-pod rule) is one value, GetRouteTableID(index of the ENI link); the ENI default route uses the ENI gateway under VLAN stripping and the pod gateway otherwise")
	getT := p.Func("plugin/driver/utils", "GetRouteTableID")
	eniGen := p.Func(datapathPkg, "GenerateENICfgForPolicy")
	peerGen := p.Func(datapathPkg, "GenerateHostPeerCfgForPolicy")
	if getT == nil || eniGen == nil || peerGen == nil {
		c.Unres("C13.R5", "GetRouteTableID / generators", "not found")
		return
	}
	n := 0
	for _, fn := range p.AllFuncs() {
		info := fn.Info()
		var eniCalls, peerCalls []*ast.CallExpr
		for _, cs := range p.CallsIn(fn) {
			if cs.Callee == eniGen.Obj {
				eniCalls = append(eniCalls, cs.Call)
			}
			if cs.Callee == peerGen.Obj {
				peerCalls = append(peerCalls, cs.Call)
			}
		}
		if len(eniCalls) == 0 && len(peerCalls) == 0 {
			continue
		}
		n++
		var tables []types.Object
		for _, call := range append(eniCalls, peerCalls...) {
			o := identObj(info, call.Args[2])
			tables = append(tables, o)
			ok := false
			link := ""
			if o != nil {
				ds := varDefs(fn, o)
				if len(ds) == 1 && ds[0].rhs != nil {
					if gc, isC := ast.Unparen(ds[0].rhs).(*ast.CallExpr); isC && Callee(info, gc) == getT.Obj {
						ok = true
						link = exprString(gc.Args[0])
					}
				}
			}
			c.Check(ok, "C13.R5", fn.Key()+": table = GetRouteTableID(…) for "+calleeName(info, call), p.Pos(call), fn.Key(), "table := utils.GetRouteTableID(<eni link>.Attrs().Index) (single definition)", exprString(call.Args[2]))
			// the index is the one of the link passed to the ENI generator
			if ok && Callee(info, call) == eniGen.Obj {
				want := exprString(call.Args[1]) + ".Attrs().Index"
				c.Check(link == want, "C13.R5", fn.Key()+": table derives from the ENI link handed to the ENI generator", p.Pos(call), fn.Key(), "GetRouteTableID("+want+")", link)
			}
		}
		same := len(eniCalls) > 0 && len(peerCalls) > 0
		for _, t := range tables {
			if t == nil || t != tables[0] {
				same = false
			}
		}
		c.Check(same, "C13.R5", fn.Key()+": ENI route and from-pod rule share one table value", p.Pos(fn.Decl), fn.Key(), "the same variable is passed to both generators", "different or missing table arguments")
	}
	c.Floor("C13.R5", "functions that program the policy-route datapath", 2, n)
	// gateway choice in the ENI generator
	info := eniGen.Info()
	cfg := cfgParam(eniGen)
	m := 0
	for _, r := range c13Routes(eniGen) {
		if r.fam == 0 || !r.hasTable {
			continue
		}
		m++
		var gw ast.Expr
		for _, el := range r.lit.Elts {
			if kv, ok := el.(*ast.KeyValueExpr); ok && exprString(kv.Key) == "Gw" {
				gw = kv.Value
			}
		}
		_ = info
		key := fmt.Sprintf("ENI IPv%d default route: ENI gateway under VLAN stripping, pod gateway otherwise", r.fam)
		if gw == nil {
			c.Bad("C13.R5", key, p.Pos(r.lit), eniGen.Key(), "Gw: <gateway>", "the route has no gateway")
			continue
		}
		// as a fact about the value at the literal, however it got there: a local with an override, a
		// selected set, a helper
		fam := fmt.Sprintf("IPv%d", r.fam)
		g := exprString(gw)
		var at ast.Node = r.lit
		for _, nd := range pathTo(eniGen.Decl.Body, r.lit) {
			if st, ok := nd.(ast.Stmt); ok {
				if _, isBlock := st.(*ast.BlockStmt); !isBlock {
					at = st
				}
			}
		}
		c.RequireF("C13.R5", key, eniGen, at, "("+cfg+".StripVlan && Gw is "+cfg+".ENIGatewayIP."+fam+") || (!"+cfg+".StripVlan && Gw is "+cfg+".GatewayIP."+fam+")", func(e *FactEngine) (*Formula, error) {
			strip, err := e.Expr(cfg+".StripVlan", at.Pos())
			if err != nil {
				return nil, err
			}
			eniGw, err := e.PathEq(g, cfg+".ENIGatewayIP."+fam, at.Pos())
			if err != nil {
				return nil, err
			}
			podGw, err := e.PathEq(g, cfg+".GatewayIP."+fam, at.Pos())
			if err != nil {
				return nil, err
			}
			return mkOr(mkAnd(strip, eniGw), mkAnd(mkNot(strip), podGw)), nil
		})
	}
	c.Floor("C13.R5", "per-ENI default routes", 2, m)
	// host-peer generator: from-pod rule uses the table parameter, to-pod rule the main table
	pinfo := peerGen.Info()
	tp := pinfo.Defs[peerGen.Decl.Type.Params.List[2].Names[0]]
	fromOK, toOK := 0, 0
	ast.Inspect(peerGen.Decl.Body, func(nd ast.Node) bool {
		st, ok := nd.(*ast.AssignStmt)
		if !ok || len(st.Lhs) != 1 {
			return true
		}
		sel, ok := ast.Unparen(st.Lhs[0]).(*ast.SelectorExpr)
		if !ok || sel.Sel.Name != "Table" {
			return true
		}
		name := exprString(sel.X)
		if strings.HasPrefix(name, "from") && identObj(pinfo, st.Rhs[0]) == tp {
			fromOK++
		}
		if strings.HasPrefix(name, "to") && strings.HasSuffix(exprString(st.Rhs[0]), "RT_TABLE_MAIN") {
			toOK++
		}
		return true
	})
	c.Check(fromOK == 2 && toOK == 2, "C13.R5", "host rules: from-pod → per-ENI table, to-pod → main table (both families)", p.Pos(peerGen.Decl), peerGen.Key(), "fromContainerRule.Table = table; toContainerRule.Table = RT_TABLE_MAIN", fmt.Sprintf("from=%d to=%d", fromOK, toOK))
}

func c13R6(c *Ctx) {
	p := c.P
	c.Rule("C13.R6", "traffic to a pod is matched before traffic from a pod: toContainerPriority < fromContainerPriority")
	a, _ := p.LookupObj(datapathPkg, "toContainerPriority").(*types.Const)
	b, _ := p.LookupObj(datapathPkg, "fromContainerPriority").(*types.Const)
	if a == nil || b == nil {
		c.Unres("C13.R6", "priority constants", "not found")
		return
	}
	c.Check(constant.Compare(a.Val(), token.LSS, b.Val()), "C13.R6", "toContainerPriority < fromContainerPriority", "", datapathPkg, a.Val().String()+" < "+b.Val().String(), "order reversed")
}

// R8: a generated configuration is applied, not skipped. Where a datapath binds
// the result of a configuration generator and hands it to nic.Setup, it does so
// on every path that goes on to report success: no "already configured" fast
// path decides, from a partial look at the link, that the addresses, routes,
// rules and sysctls of this pod's families need not be (re)applied. nic.Setup
// is itself idempotent (ensure-semantics), which is what makes sharing an
// interface between pods safe.
func c13R8(c *Ctx, gens []*FuncInfo) {
	p := c.P
	c.Rule("C13.R8", "every configuration a datapath generates for Setup is applied: on every path from the generator call to a success return, nic.Setup is called with that configuration (no state-dependent fast path skips part of a pod's families)")
	isGen := map[*types.Func]bool{}
	for _, g := range gens {
		isGen[g.Obj] = true
	}
	setup := p.Func("plugin/driver/nic", "Setup")
	if setup == nil {
		c.Unres("C13.R8", "nic.Setup", "not found")
		return
	}
	n := 0
	for _, fn := range p.FuncsInPkg(datapathPkg) {
		if isGen[fn.Obj] {
			continue
		}
		info := fn.Info()
		for _, cs := range p.CallsIn(fn) {
			if cs.Callee == nil || !isGen[cs.Callee] {
				continue
			}
			_, lhs := assignedFromCall(fn, cs.Call)
			if len(lhs) != 1 || lhs[0] == nil {
				continue // passed on directly
			}
			v := lhs[0]
			applies := func(k ast.Node) bool {
				found := false
				ast.Inspect(k, func(m ast.Node) bool {
					if call, ok := m.(*ast.CallExpr); ok && Callee(info, call) == setup.Obj && len(call.Args) == 3 && identObj(info, call.Args[2]) == v {
						found = true
					}
					return !found
				})
				return found
			}
			var body *ast.BlockStmt = fn.Decl.Body
			sig := fn.Obj.Type().(*types.Signature)
			if cs.Lit != nil {
				body = cs.Lit.Body
				sig, _ = info.TypeOf(cs.Lit).(*types.Signature)
			}
			if !applies(body) {
				continue // generated for Check / Teardown
			}
			n++
			q := NewPathQuery(p, fn, body)
			w := q.Escapes(isExactly(cs.Call), nil, applies, func(ret *ast.ReturnStmt) bool {
				if sig == nil {
					return false
				}
				return guardedFailure(fn, sig, ret)
			})
			c.Check(w == nil, "C13.R8", fn.Name+": "+v.Name()+" = "+cs.Callee.Name()+"(…) is applied on every successful path", p.Pos(cs.Call), fn.Key(),
				"must-pass: generator → nic.Setup(…, "+v.Name()+") → success return", "path: "+p.describePath(w))
		}
	}
	c.Floor("C13.R8", "generated configurations handed to nic.Setup", 6, n)
}

// R9: the collector of leaked host routes and the live set it is given cover
// the same families. gcRoutes deletes every route of the listed families whose
// destination is not in the live set, so a family it lists but gcPods never
// inserts would lose the routes of every live pod.
func c13R9(c *Ctx) {
	p := c.P
	c.Rule("C13.R9", "daemon route GC: the address families gcRoutes lists (netlink.RouteList family argument) are families whose live pod addresses gcPods inserts into the live set handed down to it — a route is deleted only for being absent from a set that could have contained it")
	gcr := p.Func(daemonPkg, "gcRoutes")
	gcp := p.Func(daemonPkg, "networkService.gcPods")
	if gcr == nil || gcp == nil {
		c.Unres("C13.R9", "gcRoutes / gcPods", "not found")
		return
	}
	info := gcr.Info()
	listed := map[string]bool{}
	n := 0
	for _, cs := range p.CallsIn(gcr) {
		if cs.Callee == nil || cs.Callee.Pkg() == nil || !strings.HasSuffix(cs.Callee.Pkg().Path(), "vishvananda/netlink") || !strings.HasPrefix(cs.Callee.Name(), "RouteList") || len(cs.Call.Args) < 2 {
			continue
		}
		n++
		fam := cs.Call.Args[1]
		if cs.Callee.Name() == "RouteListFiltered" {
			fam = cs.Call.Args[0]
		}
		v, isC := constInt(info, fam)
		switch {
		case !isC:
			c.Undec("C13.R9", "gcRoutes: family listed", p.Pos(cs.Call), gcr.Key(), "a constant family", exprString(fam))
		case v == 2:
			listed["IPv4"] = true
		case v == 10:
			listed["IPv6"] = true
		default:
			listed["IPv4"], listed["IPv6"] = true, true
		}
	}
	c.Floor("C13.R9", "route listings in gcRoutes", 1, n)
	// the live set: the variable gcPods passes down (directly or through gcLeakedRules)
	ginfo := gcp.Info()
	live := map[string]bool{}
	var setVar types.Object
	for _, cs := range p.CallsIn(gcp) {
		if cs.Callee == nil {
			continue
		}
		if cf := p.FuncOf(cs.Callee); cf != nil && (cf == gcr || callsFunc(p, cf, gcr.Obj)) {
			for _, a := range cs.Call.Args {
				if o := identObj(ginfo, a); o != nil && strings.Contains(o.Type().String(), "sets.Set") {
					setVar = o
				}
			}
		}
	}
	if setVar == nil {
		c.Undec("C13.R9", "gcPods: the live set handed to the route GC", p.Pos(gcp.Decl), gcp.Key(), "a sets.Set variable passed to gcLeakedRules / gcRoutes", "not found")
		return
	}
	ins := 0
	for _, cs := range p.CallsIn(gcp) {
		sel, ok := ast.Unparen(cs.Call.Fun).(*ast.SelectorExpr)
		if !ok || sel.Sel.Name != "Insert" || identObj(ginfo, sel.X) != setVar {
			continue
		}
		ins++
		for _, a := range cs.Call.Args {
			ast.Inspect(a, func(k ast.Node) bool {
				if s, ok := k.(*ast.SelectorExpr); ok {
					if fv, _ := ginfo.ObjectOf(s.Sel).(*types.Var); fv != nil && fv.IsField() && (fv.Name() == "IPv4" || fv.Name() == "IPv6") {
						live[fv.Name()] = true
					}
				}
				return true
			})
		}
	}
	c.Floor("C13.R9", "insertions into the live set in gcPods", 1, ins)
	for _, fam := range []string{"IPv4", "IPv6"} {
		if !listed[fam] {
			continue
		}
		c.Check(live[fam], "C13.R9", "gcRoutes lists "+fam+" routes and the live set holds "+fam+" addresses", p.Pos(gcr.Decl), gcr.Key(),
			"families listed ⊆ families inserted by gcPods", fmt.Sprintf("listed=%v live=%v", trueKeys(listed), trueKeys(live)))
	}
}

func callsFunc(p *Prog, fn *FuncInfo, target *types.Func) bool {
	for _, cs := range p.CallsIn(fn) {
		if cs.Callee == target {
			return true
		}
	}
	return false
}

func trueKeys(m map[string]bool) []string {
	var out []string
	for k, v := range m {
		if v {
			out = append(out, k)
		}
	}
	sort.Strings(out)
	return out
}

// R10: the lookup that decides "this route is already there" is as specific as
// the route. FoundRoutes builds the netlink filter mask by OR-ing in one flag per
// field the expected route sets (output interface, scope, gateway, table); the
// mask only ever grows — an assignment that resets it drops the flags set before
// it (without the interface flag any route to the same destination counts as
// present, and a recycled pod address keeps pointing at the previous pod's link).
func c13R10(c *Ctx) {
	p := c.P
	c.Rule("C13.R10", "FoundRoutes: the filter mask handed to RouteListFiltered is monotone — after its initial definition it is only OR-ed with further flags — and the output-interface flag is OR-ed in whenever the expected route names a link")
	fn := p.Func("plugin/driver/utils", "FoundRoutes")
	if fn == nil {
		c.Unres("C13.R10", "utils.FoundRoutes", "not found")
		return
	}
	info := fn.Info()
	var mask types.Object
	var list *ast.CallExpr
	for _, cs := range p.CallsIn(fn) {
		if cs.Callee != nil && cs.Callee.Name() == "RouteListFiltered" && len(cs.Call.Args) == 3 {
			mask = identObj(info, cs.Call.Args[2])
			list = cs.Call
		}
	}
	if mask == nil {
		c.Undec("C13.R10", "FoundRoutes: filter mask variable", p.Pos(fn.Decl), fn.Key(), "RouteListFiltered(family, &find, mask)", "not found")
		return
	}
	// the variable the flags are collected in: the argument itself, or what it is a plain copy of
	// (a temporary that receives the finished mask)
	for hop := 0; hop < 3; hop++ {
		var valued []varDef
		for _, d := range varDefs(fn, mask) {
			if d.rhs != nil {
				valued = append(valued, d)
			}
		}
		if len(valued) != 1 {
			break
		}
		src, _ := identObj(info, valued[0].rhs).(*types.Var)
		if src == nil || src.IsField() || src.Parent() == nil || src.Parent() == src.Pkg().Scope() {
			break
		}
		mask = src
	}
	var defs []varDef
	for _, d := range varDefs(fn, mask) {
		if d.rhs != nil || d.tok == token.OR_ASSIGN {
			defs = append(defs, d)
		}
	}
	sort.Slice(defs, func(i, j int) bool { return defs[i].node.Pos() < defs[j].node.Pos() })
	oif := false
	for i, d := range defs {
		if i == 0 {
			continue
		}
		ok := false
		if as, isA := d.node.(*ast.AssignStmt); isA {
			if as.Tok == token.OR_ASSIGN {
				ok = true
			} else if be, isB := ast.Unparen(d.rhs).(*ast.BinaryExpr); isB && be.Op == token.OR && (identObj(info, be.X) == mask || identObj(info, be.Y) == mask) {
				ok = true
			}
			if ok && strings.Contains(exprString2(as), "RT_FILTER_OIF") {
				// under "the expected route names a link"
				for _, x := range pathTo(fn.Decl.Body, as) {
					if is, isIf := x.(*ast.IfStmt); isIf && strings.Contains(exprString(is.Cond), "LinkIndex") {
						oif = true
					}
				}
			}
		}
		c.Check(ok, "C13.R10", "FoundRoutes: the filter mask only grows", p.Pos(d.node), fn.Key(), mask.Name()+" = "+mask.Name()+" | <flag>", exprString2(d.node)+" resets the flags set before it")
	}
	c.Check(oif, "C13.R10", "FoundRoutes: a route that names a link is looked up on that link", p.Pos(list), fn.Key(), "if find.LinkIndex > 0 { mask |= RT_FILTER_OIF }", "not found")
	c.Floor("C13.R10", "definitions of the filter mask", 3, len(defs))
}

// R12: the container-side configuration is computed from the link as the pod's namespace sees it. Every
// call of a container generator (generateContCfgFor…) stands inside the function literal handed to
// <netns>.Do, and the link it receives is defined inside that literal: the kernel may renumber an
// interface when it moves it into a namespace where its index is taken, and every route, rule and table
// of the generated configuration is derived from that index.
func c13R12(c *Ctx, gens []*FuncInfo) {
	p := c.P
	c.Rule("C13.R12", "container-side generators are called inside the pod's network namespace (<netns>.Do(func…)) with a link handle read inside that closure — never with the handle read in the host namespace before the move")
	n := 0
	for _, g := range gens {
		if !isContainerGen(g) {
			continue
		}
		for _, cs := range p.CallsTo(nil, g.Obj) {
			n++
			fn := cs.Fn
			info := fn.Info()
			var lit *ast.FuncLit
			path := pathTo(fn.Decl.Body, cs.Call)
			for i, anc := range path {
				fl, ok := anc.(*ast.FuncLit)
				if !ok || i == 0 {
					continue
				}
				// the literal is an argument of a call <x>.Do(…)
				if call, ok := path[i-1].(*ast.CallExpr); ok {
					if sel, ok := ast.Unparen(call.Fun).(*ast.SelectorExpr); ok && sel.Sel.Name == "Do" {
						lit = fl
					}
				}
			}
			key := fn.Key() + ": " + g.Name + " runs on the link as seen inside the pod"
			if lit == nil {
				c.Bad("C13.R12", key, p.Pos(cs.Call), fn.Key(), "the call stands inside <netns>.Do(func…)", "called outside the namespace closure")
				continue
			}
			// the link argument: the one whose type implements netlink.Link
			okLink, seenLink := true, false
			for _, a := range cs.Call.Args {
				t := info.TypeOf(a)
				if t == nil || !strings.HasSuffix(t.String(), "netlink.Link") {
					continue
				}
				seenLink = true
				o := identObj(info, a)
				if o == nil || !(o.Pos() > lit.Pos() && o.Pos() < lit.End()) {
					okLink = false
				}
			}
			c.Check(okLink && seenLink, "C13.R12", key, p.Pos(cs.Call), fn.Key(), "the link variable is declared inside the closure (LinkByName / LinkByIndex after the move)", "the link handle comes from outside the closure")
		}
	}
	c.Floor("C13.R12", "calls of container-side generators", 4, n)
}

// R13: teardown before release. doCmdDel removes the pod's rules and routes (selected by the pod's
// address) before it hands the address back to the daemon; afterwards the address may belong to another
// pod whose rules the same selectors would match.
func c13R13(c *Ctx) {
	p := c.P
	c.Rule("C13.R13", "doCmdDel: the ReleaseIP request is sent only after the datapath teardown (never-before: no path leads from ReleaseIP to a Teardown call)")
	fn := p.Func(pluginPkg, "doCmdDel")
	if fn == nil {
		c.Unres("C13.R13", "doCmdDel", "not found")
		return
	}
	info := fn.Info()
	var rel []*ast.CallExpr
	var tears []*ast.CallExpr
	ast.Inspect(fn.Decl.Body, func(k ast.Node) bool {
		if call, ok := k.(*ast.CallExpr); ok {
			if f := Callee(info, call); f != nil {
				switch f.Name() {
				case "ReleaseIP":
					rel = append(rel, call)
				case "Teardown":
					tears = append(tears, call)
				}
			}
		}
		return true
	})
	c.Floor("C13.R13", "ReleaseIP calls in doCmdDel", 1, len(rel))
	c.Floor("C13.R13", "Teardown calls in doCmdDel", 2, len(tears))
	contains := func(calls []*ast.CallExpr) nodePred {
		return func(k ast.Node) bool {
			for _, x := range calls {
				if k.Pos() <= x.Pos() && x.End() <= k.End() {
					return true
				}
			}
			return false
		}
	}
	q := NewPathQuery(p, fn, nil)
	for _, r := range rel {
		w := q.Escapes(contains([]*ast.CallExpr{r}), contains(tears), nil, nil)
		c.Check(w == nil, "C13.R13", "doCmdDel: no teardown after the address was handed back", p.Pos(r), fn.Key(), "never-before: ReleaseIP → Teardown", "path: "+p.describePath(w))
	}
}
