package main

// E3 lock regions: forward must-hold dataflow over go/cfg, per function body
// (declaration or literal).

import (
	"go/ast"
	"go/types"
	"sort"
	"strings"

	"golang.org/x/tools/go/cfg"
)

type heldSet map[string]byte // lock path -> 'W' | 'R'

func (h heldSet) clone() heldSet {
	r := heldSet{}
	for k, v := range h {
		r[k] = v
	}
	return r
}
func (h heldSet) String() string {
	var ks []string
	for k, v := range h {
		ks = append(ks, string(v)+":"+k)
	}
	sort.Strings(ks)
	return "{" + strings.Join(ks, ",") + "}"
}
func meet(a, b heldSet) heldSet {
	r := heldSet{}
	for k, v := range a {
		if w, ok := b[k]; ok {
			if v == 'R' || w == 'R' {
				r[k] = 'R'
			} else {
				r[k] = 'W'
			}
		}
	}
	return r
}
func sameHeld(a, b heldSet) bool {
	if len(a) != len(b) {
		return false
	}
	for k, v := range a {
		if b[k] != v {
			return false
		}
	}
	return true
}

type bodyLocks struct {
	body    *ast.BlockStmt
	g       *cfg.CFG
	before  map[ast.Node]heldSet // state before each cfg node
	nodes   []ast.Node
	exit    heldSet // meet over all exits (nil if none reachable)
	release map[ast.Node]bool
}

type LockAnalysis struct {
	p      *Prog
	fn     *FuncInfo
	e      *FactEngine
	bodies map[*ast.BlockStmt]*bodyLocks
	lits   map[*ast.BlockStmt]*ast.FuncLit
	parent map[*ast.BlockStmt]*ast.BlockStmt
	// Entry is the held set assumed at function entry (summaries: requires-held).
	Entry heldSet
}

func NewLockAnalysis(p *Prog, fn *FuncInfo) *LockAnalysis {
	la := &LockAnalysis{p: p, fn: fn, e: NewFactEngine(p, fn), bodies: map[*ast.BlockStmt]*bodyLocks{}, lits: map[*ast.BlockStmt]*ast.FuncLit{}, parent: map[*ast.BlockStmt]*ast.BlockStmt{}}
	var stack []*ast.BlockStmt
	stack = append(stack, fn.Decl.Body)
	var rec func(n ast.Node)
	rec = func(n ast.Node) {
		ast.Inspect(n, func(m ast.Node) bool {
			if fl, ok := m.(*ast.FuncLit); ok {
				la.lits[fl.Body] = fl
				la.parent[fl.Body] = stack[len(stack)-1]
				stack = append(stack, fl.Body)
				rec(fl.Body)
				stack = stack[:len(stack)-1]
				return false
			}
			return true
		})
	}
	rec(fn.Decl.Body)
	return la
}

// lockOp classifies a call as a mutex operation.
func (la *LockAnalysis) lockOp(c *ast.CallExpr) (path string, op string) {
	sel, ok := ast.Unparen(c.Fun).(*ast.SelectorExpr)
	if !ok {
		return "", ""
	}
	switch sel.Sel.Name {
	case "Lock", "Unlock", "RLock", "RUnlock":
	default:
		return "", ""
	}
	callee := Callee(la.fn.Info(), c)
	if callee == nil || callee.Pkg() == nil || callee.Pkg().Path() != "sync" {
		return "", ""
	}
	return strings.TrimPrefix(la.e.canon(sel.X, la.e.fnScope(), nil), "&"), sel.Sel.Name
}

func mayReturn(c *ast.CallExpr) bool {
	switch f := ast.Unparen(c.Fun).(type) {
	case *ast.Ident:
		return f.Name != "panic"
	case *ast.SelectorExpr:
		n := f.Sel.Name
		return !(n == "Exit" || n == "Fatal" || n == "Fatalf" || n == "Fatalln")
	}
	return true
}

func (la *LockAnalysis) transfer(n ast.Node, h heldSet) heldSet {
	switch n.(type) {
	case *ast.DeferStmt, *ast.GoStmt:
		return h
	}
	out := h
	copied := false
	ast.Inspect(n, func(m ast.Node) bool {
		switch c := m.(type) {
		case *ast.FuncLit:
			return false
		case *ast.CallExpr:
			if p, op := la.lockOp(c); op != "" {
				if !copied {
					out = out.clone()
					copied = true
				}
				switch op {
				case "Lock":
					out[p] = 'W'
				case "RLock":
					out[p] = 'R'
				default:
					delete(out, p)
				}
			}
		}
		return true
	})
	return out
}

// isReleasePoint: the node may let another goroutine into the critical section
// (Unlock, Cond.Wait). Blocking on a channel or sleeping keeps the mutex.
func (la *LockAnalysis) isReleasePoint(n ast.Node) bool {
	rel := false
	switch n.(type) {
	case *ast.DeferStmt, *ast.GoStmt:
		return false
	}
	ast.Inspect(n, func(m ast.Node) bool {
		switch c := m.(type) {
		case *ast.FuncLit:
			return false
		case *ast.CallExpr:
			if _, op := la.lockOp(c); op == "Unlock" || op == "RUnlock" {
				rel = true
			}
			if callee := Callee(la.fn.Info(), c); callee != nil && callee.Pkg() != nil {
				// (*sync.Cond).Wait unlocks and re-locks
				if callee.Pkg().Path() == "sync" && callee.Name() == "Wait" && callee.Type().(*types.Signature).Recv() != nil &&
					typeIs(callee.Type().(*types.Signature).Recv().Type(), "sync", "Cond") {
					rel = true
				}
			}
		}
		return true
	})
	return rel
}

func (la *LockAnalysis) analyse(body *ast.BlockStmt) *bodyLocks {
	if bl, ok := la.bodies[body]; ok {
		return bl
	}
	bl := &bodyLocks{body: body, before: map[ast.Node]heldSet{}, release: map[ast.Node]bool{}}
	la.bodies[body] = bl
	bl.g = cfg.New(body, mayReturn)
	init := la.initial(body)
	in := make([]heldSet, len(bl.g.Blocks))
	visited := make([]bool, len(bl.g.Blocks))
	if len(bl.g.Blocks) == 0 {
		return bl
	}
	in[0] = init
	visited[0] = true
	work := []int32{0}
	outState := make([]heldSet, len(bl.g.Blocks))
	for len(work) > 0 {
		bi := work[len(work)-1]
		work = work[:len(work)-1]
		b := bl.g.Blocks[bi]
		h := in[bi]
		for _, n := range b.Nodes {
			h = la.transfer(n, h)
		}
		outState[bi] = h
		for _, s := range b.Succs {
			if !visited[s.Index] {
				visited[s.Index] = true
				in[s.Index] = h.clone()
				work = append(work, s.Index)
			} else {
				m := meet(in[s.Index], h)
				if !sameHeld(m, in[s.Index]) {
					in[s.Index] = m
					work = append(work, s.Index)
				}
			}
		}
	}
	for bi, b := range bl.g.Blocks {
		if !visited[bi] {
			continue
		}
		h := in[bi]
		for _, n := range b.Nodes {
			bl.before[n] = h
			bl.nodes = append(bl.nodes, n)
			if la.isReleasePoint(n) {
				bl.release[n] = true
			}
			h = la.transfer(n, h)
		}
		if len(b.Succs) == 0 { // exit block (return or fall off)
			if bl.exit == nil {
				bl.exit = h.clone()
			} else {
				bl.exit = meet(bl.exit, h)
			}
		}
	}
	if bl.exit == nil {
		bl.exit = heldSet{}
	}
	return bl
}

// initial computes the held set at the entry of a body.
func (la *LockAnalysis) initial(body *ast.BlockStmt) heldSet {
	fl := la.lits[body]
	if fl == nil {
		if la.Entry != nil {
			return la.Entry.clone()
		}
		return heldSet{}
	}
	parent := la.parent[body]
	// classify how the literal is used
	path := pathTo(parent, fl)
	var stmt ast.Stmt
	var directCall *ast.CallExpr
	stored := false
	for i := len(path) - 2; i >= 0 && stmt == nil; i-- {
		switch s := path[i].(type) {
		case *ast.CallExpr:
			if directCall == nil && !stored {
				directCall = s
			}
		case *ast.CompositeLit, *ast.KeyValueExpr:
			stored = true
		case ast.Stmt:
			stmt = s
		}
	}
	switch s := stmt.(type) {
	case *ast.GoStmt:
		return heldSet{}
	case *ast.DeferStmt:
		pb := la.analyse(parent)
		h := pb.exit.clone()
		// deferred calls registered later run earlier
		ast.Inspect(parent, func(m ast.Node) bool {
			if _, ok := m.(*ast.FuncLit); ok {
				return false
			}
			if d, ok := m.(*ast.DeferStmt); ok && d.Pos() > s.Pos() {
				if p, op := la.lockOp(d.Call); op == "Unlock" || op == "RUnlock" {
					delete(h, p)
				}
			}
			return true
		})
		return h
	case *ast.ExprStmt, *ast.AssignStmt, *ast.IfStmt, *ast.ReturnStmt, *ast.DeclStmt, *ast.RangeStmt:
		if directCall != nil && !stored {
			// argument of (or callee of) a synchronous call: inherits the state there
			return la.HeldBefore(directCall).clone()
		}
	}
	return heldSet{} // stored / returned: runs at an unknown time
}

// HeldBefore returns the locks held just before the cfg node containing n.
func (la *LockAnalysis) HeldBefore(n ast.Node) heldSet {
	body := innermostBody(la.fn, n)
	// n itself may be a FuncLit: then the body that *contains* the literal is wanted
	if fl, ok := n.(*ast.FuncLit); ok && fl.Body == body {
		body = la.parent[body]
	}
	bl := la.analyse(body)
	var best ast.Node
	for _, cn := range bl.nodes {
		if cn.Pos() <= n.Pos() && n.End() <= cn.End() {
			if best == nil || (cn.End()-cn.Pos()) < (best.End()-best.Pos()) {
				best = cn
			}
		}
	}
	if best == nil {
		return heldSet{} // unreachable or not found: treated as nothing held
	}
	return bl.before[best]
}

// Reachable reports whether n lies in a reachable cfg node of its body.
func (la *LockAnalysis) Reachable(n ast.Node) bool {
	body := innermostBody(la.fn, n)
	bl := la.analyse(body)
	for _, cn := range bl.nodes {
		if cn.Pos() <= n.Pos() && n.End() <= cn.End() {
			return true
		}
	}
	return false
}
