package main

// C17 — vSwitch selection honours zone, capacity and policy without side effects.

import (
	"fmt"
	"go/ast"
	"go/token"
	"go/types"
	"sort"
	"strings"
)

func init() { registry["C17"] = c17 }

const vswPkg = "pkg/vswitch"

func c17(c *Ctx) {
	if c.P.Pkg(vswPkg) == nil {
		c.Unres("C17", vswPkg, "package not loaded")
		return
	}
	c17R1(c)
	c17R2(c)
	c17R4(c)
	c17R5(c)
	c17R6(c)
	cachedAuthoritative(c, "C17.R8")
	c17R9(c)
	c17R10(c)
	itemIndependent(c, "C17.R7", [][3]string{{"pkg/controller/pod", "ReconcilePod.ParsePodNetworksFromAnnotation", "one allocation per requested network"}})
	c17R11(c)
	c17R12(c)
}

// R11: the 'most' policy orders the whole candidate list. The filter that follows skips switches of
// another zone, blocked ones and empty ones; only a complete order makes the first one it keeps the
// one with the most free addresses among those that qualify.
func c17R11(c *Ctx) {
	p := c.P
	c.Rule("C17.R11", "GetOne, policy 'most': the candidate list is put in order by a sort over all candidates (moving the single maximum to the front is not enough: the maximum may be one the zone / blocked / empty filter skips)")
	fn := p.Func(vswPkg, "SwitchPool.GetOne")
	mostC := p.LookupObj(vswPkg, "VSwitchSelectionPolicyMost")
	if fn == nil || mostC == nil {
		c.Unres("C17.R11", "SwitchPool.GetOne / VSwitchSelectionPolicyMost", "not found")
		return
	}
	info := fn.Info()
	n := 0
	ast.Inspect(fn.Decl.Body, func(nd ast.Node) bool {
		cc, ok := nd.(*ast.CaseClause)
		if !ok {
			return true
		}
		isMost := false
		for _, x := range cc.List {
			if identObjSel(info, x) == mostC {
				isMost = true
			}
		}
		if !isMost {
			return true
		}
		n++
		sorted := false
		for _, st := range cc.Body {
			ast.Inspect(st, func(k ast.Node) bool {
				if call, ok := k.(*ast.CallExpr); ok {
					if cal := Callee(info, call); cal != nil && cal.Pkg() != nil && (cal.Pkg().Path() == "sort" || cal.Pkg().Path() == "slices") && strings.HasPrefix(cal.Name(), "S") {
						sorted = true
					}
				}
				return true
			})
		}
		c.Check(sorted, "C17.R11", "policy 'most' sorts the candidates", p.Pos(cc), fn.Key(), "sort.Sort / sort.Slice / slices.SortFunc over the candidates in the case", "no sort in the case: the order of the candidates after the first is the configured one")
		return true
	})
	c.Floor("C17.R11", "case VSwitchSelectionPolicyMost in GetOne", 1, n)
}

// R12: every attempt of the interface-creating retry chooses its vSwitch anew. A switch the cloud has
// just reported exhausted is blocked by the attempt that saw the error; only a new GetOne honours that.
func c17R12(c *Ctx) {
	p := c.P
	c.Rule("C17.R12", "Aliyun.CreateNetworkInterface: SwitchPool.GetOne is called inside the retried closure that issues the create call (a switch blocked by one attempt is not used by the next)")
	fn := p.Func("pkg/factory/aliyun", "Aliyun.CreateNetworkInterface")
	getOne := p.Method(vswPkg, "SwitchPool", "GetOne")
	if fn == nil || getOne == nil {
		c.Unres("C17.R12", "Aliyun.CreateNetworkInterface / SwitchPool.GetOne", "not found")
		return
	}
	var createLit *ast.FuncLit
	nCreate := 0
	for _, cs := range p.CallsIn(fn) {
		if cs.Callee != nil && cs.Callee.Name() == "CreateNetworkInterface" && cs.Lit != nil {
			createLit = cs.Lit
			nCreate++
		}
	}
	if createLit == nil {
		c.Undec("C17.R12", "the create call is issued from a retried closure", p.Pos(fn.Decl), fn.Key(), "wait.ExponentialBackoff…(func…{ … CreateNetworkInterface … })", "no create call inside a function literal")
		return
	}
	n := 0
	for _, cs := range p.CallsTo([]*FuncInfo{fn}, getOne) {
		n++
		inside := cs.Lit != nil && createLit.Pos() <= cs.Call.Pos() && cs.Call.End() <= createLit.End()
		c.Check(inside, "C17.R12", "the vSwitch is chosen in the attempt that uses it", p.Pos(cs.Call), fn.Key(), "GetOne inside the retried closure", "GetOne outside the retried closure: every attempt uses the switch chosen before the first")
	}
	c.Floor("C17.R12", "GetOne calls in Aliyun.CreateNetworkInterface", 1, n)
}

// sliceMutations lists operations in fd that may write through the backing
// array of the slice parameter `param` (E9b): element stores, in-place
// sorts/shuffles, copy into it, and append on it or on a reslice of it —
// directly or through a local alias (x := p, x := p[:k]).
type sliceMutation struct {
	node ast.Node
	what string
}

func sliceMutations(info *types.Info, fd *ast.FuncDecl, param types.Object) []sliceMutation {
	return sliceMutationsX(info, fd, param, nil)
}

// sliceMutationsX: seed is an optional predicate for further expressions that denote the shared
// slice (a struct field read, for instance).
func sliceMutationsX(info *types.Info, fd *ast.FuncDecl, param types.Object, seed func(ast.Expr) bool) []sliceMutation {
	aliases := map[types.Object]bool{}
	if param != nil {
		aliases[param] = true
	}
	isAliasExpr := func(x ast.Expr) bool {
		x = ast.Unparen(x)
		if se, ok := x.(*ast.SliceExpr); ok {
			x = ast.Unparen(se.X)
		}
		if seed != nil && seed(x) {
			return true
		}
		o := identObj(info, x)
		return o != nil && aliases[o]
	}
	// fixpoint over alias definitions
	for changed := true; changed; {
		changed = false
		ast.Inspect(fd.Body, func(nd ast.Node) bool {
			as, ok := nd.(*ast.AssignStmt)
			if !ok || len(as.Lhs) != len(as.Rhs) {
				return true
			}
			for i := range as.Lhs {
				o := identObj(info, as.Lhs[i])
				if o == nil || o == param || aliases[o] {
					continue
				}
				if isAliasExpr(as.Rhs[i]) {
					aliases[o] = true
					changed = true
				}
				// x = append(alias, …) keeps pointing into the same array while capacity lasts
				if call, ok := isBuiltinCall(info, as.Rhs[i], "append"); ok && isAliasExpr(call.Args[0]) {
					aliases[o] = true
					changed = true
				}
			}
			return true
		})
	}
	// is the parameter itself still the caller's slice at node n? (rebinding `p = fresh` before n on all paths)
	var out []sliceMutation
	storesTo := func(n ast.Node) bool { // n contains an element store to an alias
		found := false
		ast.Inspect(n, func(k ast.Node) bool {
			switch t := k.(type) {
			case *ast.AssignStmt:
				for _, l := range t.Lhs {
					if ix, ok := ast.Unparen(l).(*ast.IndexExpr); ok && isAliasExpr(ix.X) {
						found = true
					}
				}
			case *ast.IncDecStmt:
				if ix, ok := ast.Unparen(t.X).(*ast.IndexExpr); ok && isAliasExpr(ix.X) {
					found = true
				}
			}
			return true
		})
		return found
	}
	ast.Inspect(fd.Body, func(nd ast.Node) bool {
		switch t := nd.(type) {
		case *ast.AssignStmt:
			for _, l := range t.Lhs {
				if ix, ok := ast.Unparen(l).(*ast.IndexExpr); ok && isAliasExpr(ix.X) {
					out = append(out, sliceMutation{t, "element store " + exprString(l)})
				}
			}
		case *ast.IncDecStmt:
			if ix, ok := ast.Unparen(t.X).(*ast.IndexExpr); ok && isAliasExpr(ix.X) {
				out = append(out, sliceMutation{t, "element update " + exprString(t.X)})
			}
		case *ast.CallExpr:
			if call, ok := isBuiltinCall(info, t, "append"); ok && isAliasExpr(call.Args[0]) {
				// append(p, …) with p the caller's slice may write into spare capacity
				out = append(out, sliceMutation{t, "append on " + exprString(call.Args[0])})
			}
			if call, ok := isBuiltinCall(info, t, "copy"); ok && isAliasExpr(call.Args[0]) {
				out = append(out, sliceMutation{t, "copy into " + exprString(call.Args[0])})
			}
			if cal := Callee(info, t); cal != nil && cal.Pkg() != nil {
				pk, name := cal.Pkg().Path(), cal.Name()
				inPlace := (pk == "sort" && (strings.HasPrefix(name, "S") || name == "Stable")) ||
					(pk == "slices" && (strings.HasPrefix(name, "Sort") || name == "Reverse" || strings.HasPrefix(name, "Delete") || strings.HasPrefix(name, "Compact") || name == "Insert" || name == "Replace")) ||
					(strings.HasSuffix(pk, "rand") && name == "Shuffle")
				if inPlace {
					hit := false
					for _, a := range t.Args {
						if isAliasExpr(a) {
							hit = true
						}
						if lit, ok := a.(*ast.FuncLit); ok && storesTo(lit.Body) {
							hit = true
						}
						// sort.Sort(sort.StringSlice(p))
						if cv, ok := ast.Unparen(a).(*ast.CallExpr); ok && len(cv.Args) == 1 && isAliasExpr(cv.Args[0]) {
							hit = true
						}
					}
					if hit {
						out = append(out, sliceMutation{t, "in-place " + pk + "." + name})
					}
				}
			}
		}
		return true
	})
	// de-duplicate element stores inside shuffle closures already reported by the call
	sort.Slice(out, func(i, j int) bool { return out[i].node.Pos() < out[j].node.Pos() })
	return out
}

func c17R1(c *Ctx) {
	p := c.P
	c.Rule("C17.R1", "selection never writes through the caller's candidate list: no element store, in-place sort/shuffle, copy-into or append on the []string parameter (or a local alias / reslice of it) of any function in pkg/vswitch; reordering works on a fresh copy")
	n := 0
	for _, fn := range p.FuncsInPkg(vswPkg) {
		info := fn.Info()
		for _, fld := range fn.Decl.Type.Params.List {
			for _, nm := range fld.Names {
				o := info.Defs[nm]
				sl, ok := o.Type().Underlying().(*types.Slice)
				if !ok {
					continue
				}
				if _, variadic := fld.Type.(*ast.Ellipsis); variadic {
					continue
				}
				_ = sl
				n++
				muts := sliceMutations(info, fn.Decl, o)
				// mutations that happen after the parameter was rebound to a fresh slice on every path are fine
				q := NewPathQuery(p, fn, nil)
				rebind := func(nd ast.Node) bool {
					as, ok := nd.(*ast.AssignStmt)
					if !ok || as.Tok != token.ASSIGN {
						return false
					}
					for i, l := range as.Lhs {
						if identObj(info, l) == o && i < len(as.Rhs) {
							return isFreshSlice(fn, as.Rhs[i], o)
						}
					}
					return false
				}
				var bad []string
				seen := map[ast.Node]bool{}
				for _, m := range muts {
					// innermost cfg-level statement containing the mutation
					if w := q.Escapes(nil, containsNodeDeep(func(k ast.Node) bool { return k == m.node }), rebind, nil); w != nil {
						if !seen[m.node] {
							bad = append(bad, m.what+" at "+p.Pos(m.node))
							seen[m.node] = true
						}
					}
				}
				key := fmt.Sprintf("%s: parameter %s is never written through", fn.Key(), nm.Name)
				c.Check(len(bad) == 0, "C17.R1", key, p.Pos(fn.Decl), fn.Key(), "the caller's slice is read-only (reorder a copy)", strings.Join(bad, "; "))
			}
		}
	}
	c.Floor("C17.R1", "slice parameters in pkg/vswitch", 1, n)
	// positive control
	ok := false
	if f, info, err := checkSnippet("package s\nfunc f(ids []string) { x := ids[:0]; x = append(x, \"a\"); _ = x }\n"); err == nil {
		for _, d := range f.Decls {
			if fd, isF := d.(*ast.FuncDecl); isF {
				ok = len(sliceMutations(info, fd, info.Defs[fd.Type.Params.List[0].Names[0]])) == 1
			}
		}
	}
	c.Check(ok, "C17.R1", "positive control: alias-append through ids[:0] is recognised", "", "", "embedded snippet flagged", "matcher did not fire")
}

// isFreshSlice: x is make(...), nil, a literal, or a local all of whose definitions are fresh or self-appends.
func isFreshSlice(fn *FuncInfo, x ast.Expr, param types.Object) bool {
	info := fn.Info()
	x = ast.Unparen(x)
	if info.Types[x].IsNil() {
		return true
	}
	if _, ok := isBuiltinCall(info, x, "make"); ok {
		return true
	}
	if _, ok := x.(*ast.CompositeLit); ok {
		return true
	}
	if call, ok := isBuiltinCall(info, x, "append"); ok {
		// append([]T(nil), p...) / append(fresh, …)
		return isFreshSlice(fn, call.Args[0], param) || info.Types[ast.Unparen(call.Args[0])].IsType()
	}
	if cv, ok := x.(*ast.CallExpr); ok && len(cv.Args) == 1 {
		if tv := info.Types[cv.Fun]; tv.IsType() {
			return isFreshSlice(fn, cv.Args[0], param)
		}
		if cal := Callee(info, cv); cal != nil && cal.Pkg() != nil && cal.Pkg().Path() == "slices" && cal.Name() == "Clone" {
			return true
		}
	}
	if o := identObj(info, x); o != nil && o != param {
		ds := varDefs(fn, o)
		if len(ds) == 0 {
			return false
		}
		for _, d := range ds {
			if d.rhs == nil {
				if _, isSpec := d.node.(*ast.ValueSpec); isSpec {
					continue // var x []T
				}
				return false
			}
			if call, ok := isBuiltinCall(info, d.rhs, "append"); ok && identObj(info, call.Args[0]) == o {
				continue
			}
			if !isFreshSlice(fn, d.rhs, param) {
				return false
			}
		}
		return true
	}
	return false
}

func c17R2(c *Ctx) {
	p := c.P
	c.Rule("C17.R2/R3", "GetOne returns only switches looked up by id from the candidate list, the first one that lies in the requested zone and has free addresses; candidates of other zones are kept only when zone fallback is enabled and are returned only with free addresses")
	fn := p.Func(vswPkg, "SwitchPool.GetOne")
	getByID := p.Func(vswPkg, "SwitchPool.GetByID")
	if fn == nil || getByID == nil {
		c.Unres("C17.R2", "SwitchPool.GetOne / GetByID", "not found")
		return
	}
	info := fn.Info()
	var idsParam, zoneParam types.Object
	for _, fld := range fn.Decl.Type.Params.List {
		for _, nm := range fld.Names {
			o := info.Defs[nm]
			if _, ok := o.Type().Underlying().(*types.Slice); ok && idsParam == nil {
				if _, variadic := fld.Type.(*ast.Ellipsis); !variadic {
					idsParam = o
				}
			}
			if nm.Name == "zone" {
				zoneParam = o
			}
		}
	}
	if idsParam == nil || zoneParam == nil {
		c.Unres("C17.R2", "GetOne parameters", "ids / zone not found")
		return
	}
	// locate the fallback list: a []*Switch local appended in the function
	var fb types.Object
	ast.Inspect(fn.Decl.Body, func(nd ast.Node) bool {
		if as, ok := nd.(*ast.AssignStmt); ok && len(as.Lhs) == 1 && len(as.Rhs) == 1 {
			if call, ok := isBuiltinCall(info, as.Rhs[0], "append"); ok {
				if o := identObj(info, as.Lhs[0]); o != nil && identObj(info, call.Args[0]) == o {
					if sl, ok := o.Type().Underlying().(*types.Slice); ok && typeIs(sl.Elem(), modPath+"/"+vswPkg, "Switch") {
						if _, isPtr := sl.Elem().(*types.Pointer); isPtr {
							fb = o
						}
					}
				}
			}
		}
		return true
	})
	sig := fn.Obj.Type().(*types.Signature)
	n := 0
	for _, r := range declReturns(fn.Decl.Body) {
		if ok, known := isSuccessReturn(info, sig, r); !ok || !known {
			continue
		}
		n++
		v := identObj(info, r.Results[0])
		var rs *ast.RangeStmt
		for _, nd := range pathTo(fn.Decl.Body, r) {
			if x, ok := nd.(*ast.RangeStmt); ok {
				rs = x
			}
		}
		if v == nil || rs == nil {
			c.Bad("C17.R2", "GetOne returns a switch found while scanning the candidates", p.Pos(r), fn.Key(), "return inside the candidate loop", "return outside any loop or of a non-variable")
			continue
		}
		vs := v.Name()
		if identObj(info, rs.X) == idsParam {
			// main loop: v := GetByID(id) with id the range value
			okSrc := false
			for _, d := range varDefs(fn, v) {
				if as, ok := d.node.(*ast.AssignStmt); ok && len(as.Rhs) == 1 {
					if call, ok := as.Rhs[0].(*ast.CallExpr); ok && Callee(info, call) == getByID.Obj && identObj(info, call.Args[2]) == identObj(info, rs.Value) {
						okSrc = true
					}
				}
			}
			c.Check(okSrc, "C17.R2", "main loop: returned switch = GetByID(<candidate id>)", p.Pos(r), fn.Key(), "vsw, err := s.GetByID(ctx, client, id) with id ranging over ids", "provenance not recognised")
			c.Require("C17.R3", "main loop: returned switch lies in the requested zone and has free addresses", fn, r, fmt.Sprintf("%s.Zone == %s && %s.AvailableIPCount != 0", vs, zoneParam.Name(), vs), nil)
		} else if fb != nil && identObj(info, rs.X) == fb && identObj(info, rs.Value) == v {
			c.Require("C17.R3", "fallback loop: returned switch has free addresses", fn, r, vs+".AvailableIPCount != 0", nil)
		} else {
			c.Bad("C17.R2", "GetOne returns from the candidate or fallback loop", p.Pos(r), fn.Key(), "range over ids / fallback list", "range over "+exprString(rs.X))
		}
	}
	c.Floor("C17.R2", "successful returns of GetOne", 2, n)
	// the options object of the call: the local of type (*)SelectOptions, whatever it is called;
	// it has to be created in the call (&SelectOptions{}, SelectOptions{} or new(SelectOptions))
	optsName, optsFresh := "", false
	ast.Inspect(fn.Decl.Body, func(nd ast.Node) bool {
		var lhs, rhs ast.Expr
		switch t := nd.(type) {
		case *ast.AssignStmt:
			if t.Tok == token.DEFINE && len(t.Lhs) == 1 && len(t.Rhs) == 1 {
				lhs, rhs = t.Lhs[0], t.Rhs[0]
			}
		case *ast.ValueSpec:
			if len(t.Names) == 1 {
				lhs = t.Names[0]
				if len(t.Values) == 1 {
					rhs = t.Values[0]
				}
			}
		}
		if lhs == nil || !typeIs(info.TypeOf(lhs), modPath+"/pkg/vswitch", "SelectOptions") {
			return true
		}
		if optsName != "" {
			optsName, optsFresh = "?", false
			return true
		}
		optsName = exprString(lhs)
		switch r := ast.Unparen(rhs).(type) {
		case nil:
			_, isPtr := info.TypeOf(lhs).(*types.Pointer)
			optsFresh = !isPtr // var o SelectOptions
		case *ast.UnaryExpr:
			_, isLit := r.X.(*ast.CompositeLit)
			optsFresh = r.Op == token.AND && isLit
		case *ast.CompositeLit:
			optsFresh = true
		case *ast.CallExpr:
			_, isNew := isBuiltinCall(info, r, "new")
			optsFresh = isNew
		}
		return true
	})
	if optsName == "" || optsName == "?" {
		c.Undec("C17.R3", "selection options of the call", p.Pos(fn.Decl), fn.Key(), "one local of type SelectOptions", "none or several")
		return
	}
	// fallback list: appended only under IgnoreZone, only switches of another zone, obtained from GetByID in the main loop
	if fb == nil {
		c.Bad("C17.R3", "fallback list", p.Pos(fn.Decl), fn.Key(), "a []*Switch fallback list", "not found")
	} else {
		ast.Inspect(fn.Decl.Body, func(nd ast.Node) bool {
			as, ok := nd.(*ast.AssignStmt)
			if !ok || len(as.Lhs) != 1 || identObj(info, as.Lhs[0]) != fb {
				return true
			}
			call, ok := isBuiltinCall(info, as.Rhs[0], "append")
			if !ok {
				return true
			}
			c.Require("C17.R3", "other-zone candidates are kept only when zone fallback is enabled", fn, as, optsName+".IgnoreZone", nil)
			// inside the candidate loop
			in := false
			for _, k := range pathTo(fn.Decl.Body, as) {
				if rs, ok := k.(*ast.RangeStmt); ok && identObj(info, rs.X) == idsParam {
					in = true
				}
			}
			c.Check(in && len(call.Args) == 2, "C17.R3", "fallback candidates come from the candidate loop", p.Pos(as), fn.Key(), "append inside `for _, id := range ids`", "elsewhere")
			return true
		})
		// the fallback loop comes after the main loop (zone preference)
		var mainLoop, fbLoop *ast.RangeStmt
		for _, s := range fn.Decl.Body.List {
			if rs, ok := s.(*ast.RangeStmt); ok {
				if identObj(info, rs.X) == idsParam {
					mainLoop = rs
				}
				if identObj(info, rs.X) == fb {
					fbLoop = rs
				}
			}
		}
		c.Check(mainLoop != nil && fbLoop != nil && mainLoop.End() < fbLoop.Pos(), "C17.R3", "in-zone candidates are preferred over fallback candidates", p.Pos(fn.Decl), fn.Key(), "the fallback loop follows the candidate loop", "order not recognised")
	}
	// selection options are per call
	okOpts := optsFresh
	c.Check(okOpts, "C17.R3", "selection options are a fresh value per call", p.Pos(fn.Decl), fn.Key(), "selectOptions := &SelectOptions{}", "options object is not created in the call (state would leak between calls)")
}

func c17R4(c *Ctx) {
	p := c.P
	c.Rule("C17.R4", "policy 'most' orders candidates by free addresses, descending; the ordered list contains only ids of switches that were looked up from the candidates")
	less := p.Func(vswPkg, "ByAvailableIP.Less")
	if less == nil {
		c.Unres("C17.R4", "ByAvailableIP.Less", "not found")
		return
	}
	ok := false
	if len(less.Decl.Body.List) == 1 {
		if r, isR := less.Decl.Body.List[0].(*ast.ReturnStmt); isR {
			if be, isB := ast.Unparen(r.Results[0]).(*ast.BinaryExpr); isB && be.Op == token.GTR {
				i, j := less.Decl.Type.Params.List[0].Names[0].Name, less.Decl.Type.Params.List[0].Names[1].Name
				l, rr := exprString(be.X), exprString(be.Y)
				if strings.Contains(l, "["+i+"].AvailableIPCount") && strings.Contains(rr, "["+j+"].AvailableIPCount") {
					ok = true
				}
			}
		}
	}
	c.Check(ok, "C17.R4", "Less(i, j) = a[i].AvailableIPCount > a[j].AvailableIPCount", p.Pos(less.Decl), less.Key(), "descending comparator", "comparator direction / operands differ")
	// Swap swaps
	if sw := p.Func(vswPkg, "ByAvailableIP.Swap"); sw != nil {
		s := strings.ReplaceAll(exprString2(sw.Decl.Body.List[0]), " ", "")
		_ = s
		as, isAs := sw.Decl.Body.List[0].(*ast.AssignStmt)
		okS := isAs && len(as.Lhs) == 2 && len(as.Rhs) == 2 && exprString(as.Lhs[0]) == exprString(as.Rhs[1]) && exprString(as.Lhs[1]) == exprString(as.Rhs[0])
		c.Check(okS, "C17.R4", "Swap exchanges the two elements", p.Pos(sw.Decl), sw.Key(), "a[i], a[j] = a[j], a[i]", "not a swap")
	}
}

func c17R5(c *Ctx) {
	p := c.P
	c.Rule("C17.R5", "Block marks a vSwitch exhausted through a copy (copy-on-write): fields of a cached Switch are never stored through the shared pointer; Switch fields are written only in GetByID's literal and on a local value copy in Block")
	sw := p.LookupObj(vswPkg, "Switch")
	if sw == nil {
		c.Unres("C17.R5", "vswitch.Switch", "not found")
		return
	}
	st := sw.Type().Underlying().(*types.Struct)
	var fields []*types.Var
	for i := 0; i < st.NumFields(); i++ {
		fields = append(fields, st.Field(i))
	}
	n := 0
	for _, s := range p.StoresTo(nil, fields...) {
		if strings.HasSuffix(p.Fset.File(s.Node.Pos()).Name(), "_test.go") {
			continue
		}
		n++
		if s.InLit {
			c.Check(s.Fn.Pkg.PkgPath == modPath+"/"+vswPkg, "C17.R5", "Switch literal in "+s.Fn.Key(), p.Pos(s.Node), s.Fn.Key(), "Switch values are constructed only inside pkg/vswitch (from the cloud's answer)", "constructed elsewhere")
			continue
		}
		// assignment: base must be a local of value type Switch (a private copy)
		base := s.LHS.(*ast.SelectorExpr).X
		o := identObj(s.Fn.Info(), base)
		isCopy := false
		if o != nil {
			if _, isPtr := o.Type().(*types.Pointer); !isPtr {
				if v, ok := o.(*types.Var); ok && !v.IsField() && o.Parent() != o.Pkg().Scope() {
					isCopy = true
				}
			}
		}
		c.Check(isCopy, "C17.R5", "field store on a private copy in "+s.Fn.Key(), p.Pos(s.Node), s.Fn.Key(), "the target is a local Switch value (not *Switch, not shared)", "store through "+exprString(base)+" may modify the object other goroutines hold")
	}
	c.Floor("C17.R5", "Switch field stores (non-test)", 6, n)
	// Block: zeroes the count on the copy and re-inserts the copy's address under the same id
	bl := p.Func(vswPkg, "SwitchPool.Block")
	if bl == nil {
		c.Unres("C17.R5", "SwitchPool.Block", "not found")
		return
	}
	info := bl.Info()
	okZero, okAdd := false, false
	var cp types.Object
	ast.Inspect(bl.Decl.Body, func(nd ast.Node) bool {
		switch t := nd.(type) {
		case *ast.AssignStmt:
			if len(t.Lhs) == 1 {
				if sel, ok := ast.Unparen(t.Lhs[0]).(*ast.SelectorExpr); ok && sel.Sel.Name == "AvailableIPCount" {
					if v, isC := constInt(info, t.Rhs[0]); isC && v == 0 {
						okZero = true
						cp = identObj(info, sel.X)
					}
				}
			}
		case *ast.CallExpr:
			if sel, ok := ast.Unparen(t.Fun).(*ast.SelectorExpr); ok && sel.Sel.Name == "Add" && len(t.Args) == 3 {
				if ue, ok := ast.Unparen(derefExpr(bl, t.Args[1])).(*ast.UnaryExpr); ok && ue.Op == token.AND && cp != nil && identObj(info, ue.X) == cp &&
					identObj(info, derefExpr(bl, t.Args[0])) == info.Defs[bl.Decl.Type.Params.List[0].Names[0]] {
					okAdd = true
				}
			}
		}
		return true
	})
	c.Check(okZero && okAdd, "C17.R5", "Block stores a zero-capacity copy under the same id", p.Pos(bl.Decl), bl.Key(), "vsw := *cached; vsw.AvailableIPCount = 0; cache.Add(id, &vsw, ttl)", fmt.Sprintf("zero=%v add=%v", okZero, okAdd))
}

func c17R6(c *Ctx) {
	p := c.P
	c.Rule("C17.R6", "safe under concurrent use: SwitchPool holds only concurrency-safe state (expiring LRU cache, single-flight group, a ttl written once by the constructor) and the package keeps no mutable package-level state")
	sp := p.LookupObj(vswPkg, "SwitchPool")
	if sp == nil {
		c.Unres("C17.R6", "SwitchPool", "not found")
		return
	}
	st := sp.Type().Underlying().(*types.Struct)
	for i := 0; i < st.NumFields(); i++ {
		f := st.Field(i)
		ts := types.TypeString(f.Type(), nil)
		safe := strings.HasSuffix(ts, "cache.LRUExpireCache") || strings.HasSuffix(ts, "singleflight.Group")
		if ts == "time.Duration" {
			// immutable after construction
			var writers []string
			for _, s := range p.StoresTo(nil, f) {
				writers = append(writers, s.Fn.Name)
			}
			safe = len(writers) == 1 && writers[0] == "NewSwitchPool"
			ts += fmt.Sprintf(" (writers: %v)", writers)
		}
		c.Check(safe, "C17.R6", "SwitchPool."+f.Name()+" is concurrency-safe", "", vswPkg, "LRUExpireCache / singleflight.Group / constructor-only scalar", ts)
	}
	// package-level variables referenced by the package's functions
	var bad []string
	n := 0
	for _, fn := range p.FuncsInPkg(vswPkg) {
		info := fn.Info()
		ast.Inspect(fn.Decl.Body, func(nd ast.Node) bool {
			id, ok := nd.(*ast.Ident)
			if !ok {
				return true
			}
			v, ok := info.Uses[id].(*types.Var)
			if !ok || v.Pkg() == nil || v.Parent() != v.Pkg().Scope() || !strings.HasPrefix(v.Pkg().Path(), modPath) {
				return true
			}
			n++
			if types.Identical(v.Type(), types.Universe.Lookup("error").Type()) {
				return true // error sentinels are only compared / wrapped
			}
			bad = append(bad, v.Name()+" in "+fn.Name+" at "+p.Pos(id))
			return true
		})
	}
	sort.Strings(bad)
	c.Check(len(bad) == 0, "C17.R6", "no mutable package-level state is used by pkg/vswitch", "", vswPkg, "functions reference only error sentinels among package variables", strings.Join(bad, "; "))
	c.Floor("C17.R6", "package-variable references examined", 1, n)
	// the error sentinels themselves are never reassigned
	for _, nm := range []string{"ErrNoAvailableVSwitch", "ErrIPNotEnough"} {
		o := p.LookupObj(vswPkg, nm)
		if o == nil {
			continue
		}
		re := 0
		for _, fn := range p.AllFuncs() {
			ast.Inspect(fn.Decl.Body, func(nd ast.Node) bool {
				if as, ok := nd.(*ast.AssignStmt); ok {
					for _, l := range as.Lhs {
						if identObjSel(fn.Info(), l) == o {
							re++
						}
					}
				}
				return true
			})
		}
		c.Check(re == 0, "C17.R6", nm+" is never reassigned", "", vswPkg, "sentinel is effectively constant", fmt.Sprintf("%d assignments", re))
	}
}

// cachedAuthoritative: a cached vSwitch (an exhausted one stored by Block
// included) is the answer until it expires: GetByID asks the cloud only when
// the cache lookup missed. The lookup's ok result is defined once and never
// reassigned, and the statement that reaches DescribeVSwitchByID stands under
// !ok.
func cachedAuthoritative(c *Ctx, rule string) {
	p := c.P
	c.Rule(rule, "SwitchPool.GetByID asks the cloud only on a cache miss: the ok result of the cache lookup is never reassigned and the single-flight / DescribeVSwitchByID statement stands under !ok (so an entry zeroed by Block stays out of service for its ttl)")
	fn := p.Func(vswPkg, "SwitchPool.GetByID")
	if fn == nil {
		c.Unres(rule, "SwitchPool.GetByID", "not found")
		return
	}
	info := fn.Info()
	var okObj types.Object
	var okIdent *ast.Ident
	var lookup *ast.CallExpr
	var cloud []*ast.CallExpr
	for _, cs := range p.CallsIn(fn) {
		if cs.Callee == nil {
			continue
		}
		if cs.Callee.Name() == "Get" && cs.Callee.Pkg() != nil && strings.HasSuffix(cs.Callee.Pkg().Path(), "apimachinery/pkg/util/cache") && cs.Lit == nil {
			if as, lhs := assignedFromCall(fn, cs.Call); len(lhs) == 2 && lhs[1] != nil {
				okObj, lookup = lhs[1], cs.Call
				okIdent, _ = ast.Unparen(as.Lhs[1]).(*ast.Ident)
			}
		}
		if cs.Callee.Name() == "DescribeVSwitchByID" || reachesCallee(p, p.FuncOf(cs.Callee), "DescribeVSwitchByID", 3) {
			cloud = append(cloud, cs.Call)
		}
	}
	if okObj == nil || okIdent == nil || len(cloud) == 0 {
		c.Undec(rule, "GetByID: cache lookup and cloud call", p.Pos(fn.Decl), fn.Key(), "v, ok := cache.Get(id) … DescribeVSwitchByID", fmt.Sprintf("lookup=%v cloud calls=%d", okObj != nil, len(cloud)))
		return
	}
	ds := varDefs(fn, okObj)
	c.Check(len(ds) == 1, rule, "GetByID: the lookup result is not overridden", p.Pos(lookup), fn.Key(), okObj.Name()+" is assigned only by the cache lookup", fmt.Sprintf("%d assignments", len(ds)))
	for _, call := range cloud {
		// the statement of the function body proper that contains the call
		var stmt ast.Stmt
		for _, n := range pathTo(fn.Decl.Body, call) {
			if _, isLit := n.(*ast.FuncLit); isLit {
				break
			}
			if s, ok := n.(ast.Stmt); ok {
				switch s.(type) {
				case *ast.AssignStmt, *ast.ExprStmt, *ast.ReturnStmt:
					stmt = s
				}
			}
		}
		if stmt == nil {
			c.Undec(rule, "GetByID: cloud call statement", p.Pos(call), fn.Key(), "", "not inside a simple statement")
			continue
		}
		c.RequireF(rule, "GetByID: the cloud is asked only on a miss", fn, stmt, "!"+okObj.Name()+" (the lookup's ok result)", func(e *FactEngine) (*Formula, error) {
			return mkNot(e.Cond(okIdent)), nil
		})
	}
	_ = info
}

// reachesCallee: fn calls (transitively through module functions, bounded) a function or
// method of that name.
func reachesCallee(p *Prog, fn *FuncInfo, name string, depth int) bool {
	if fn == nil || depth < 0 {
		return false
	}
	for _, cs := range p.CallsIn(fn) {
		if cs.Callee == nil {
			continue
		}
		if cs.Callee.Name() == name {
			return true
		}
		if h := p.FuncOf(cs.Callee); h != nil && h != fn && reachesCallee(p, h, name, depth-1) {
			return true
		}
	}
	return false
}

// R9: the configured candidate list is nobody's scratch space. The callers of
// GetOne hand it a slice that lives in a struct field (the daemon's
// configuration, a node's spec); neither that field nor a local that aliases it
// (x := s.f, x := s.f[:k]) is written through: no element store, append, copy-into
// or in-place slices / sort helper — such a helper compacts the shared backing
// array and zeroes its tail.
func c17R9(c *Ctx) {
	p := c.P
	c.Rule("C17.R9", "callers of SwitchPool.GetOne never write through the candidate list they pass: when the argument is (an alias of) a struct field, no element store, append, copy-into, sort or slices.Delete*/Compact*/Insert on it or on a local aliasing it")
	get := p.Func(vswPkg, "SwitchPool.GetOne")
	if get == nil {
		c.Unres("C17.R9", "SwitchPool.GetOne", "not found")
		return
	}
	n := 0
	for _, cs := range p.CallsTo(nil, get.Obj) {
		if len(cs.Call.Args) < 4 {
			continue
		}
		fn := cs.Fn
		info := fn.Info()
		// the field behind the argument
		arg := ast.Unparen(derefExpr(fn, cs.Call.Args[3]))
		var field *types.Var
		if sel, ok := arg.(*ast.SelectorExpr); ok {
			field, _ = info.ObjectOf(sel.Sel).(*types.Var)
		} else if o := identObj(info, arg); o != nil {
			// a local: some definition reads a field (possibly re-sliced)
			for _, d := range varDefs(fn, o) {
				x := ast.Unparen(d.rhs)
				if se, ok := x.(*ast.SliceExpr); ok {
					x = ast.Unparen(se.X)
				}
				if sel, ok := x.(*ast.SelectorExpr); ok {
					if fv, _ := info.ObjectOf(sel.Sel).(*types.Var); fv != nil && fv.IsField() {
						field = fv
						arg = sel
					}
				}
			}
		}
		if field == nil || !field.IsField() {
			continue
		}
		n++
		seed := func(x ast.Expr) bool {
			sel, ok := ast.Unparen(x).(*ast.SelectorExpr)
			return ok && info.ObjectOf(sel.Sel) == field
		}
		muts := sliceMutationsX(info, fn.Decl, nil, seed)
		var what []string
		for _, m := range muts {
			what = append(what, m.what+" at "+p.Pos(m.node))
		}
		c.Check(len(muts) == 0, "C17.R9", fn.Name+": the candidate list "+exprString(arg)+" is not written through", p.Pos(cs.Call), fn.Key(), "no mutation of the field's slice or of a local aliasing it", strings.Join(what, "; "))
	}
	c.Floor("C17.R9", "GetOne call sites that pass a struct field", 1, n)
	// Add / Del are test hooks: production code never edits the cache behind Block's back
	for _, name := range []string{"Add", "Del"} {
		m := p.Method(vswPkg, "SwitchPool", name)
		if m == nil {
			continue
		}
		sites := p.CallsTo(nil, m)
		c.Check(len(sites) == 0, "C17.R9", "SwitchPool."+name+" (a test hook) has no production caller", "", vswPkg, "no call outside tests", fmt.Sprintf("%d call(s), first in %s", len(sites), firstKey(sites)))
	}
}

func firstKey(cs []CallSite) string {
	if len(cs) == 0 {
		return ""
	}
	return cs[0].Fn.Key()
}

// R10: in every caller the chosen vSwitch is GetOne's answer and nothing else. The variable that
// receives the result of SwitchPool.GetOne has no other source: no pre-selection in front of the call
// (which would bypass the caller's candidate list and the policy) and no fallback after a refusal
// (which would pick a vSwitch GetOne just found exhausted or blocked).
func c17R10(c *Ctx) {
	p := c.P
	c.Rule("C17.R10", "callers of SwitchPool.GetOne: the variable that receives the chosen vSwitch is defined by GetOne calls only — no other lookup (GetByID, a scan of the node's interfaces) supplies it before or after")
	get := p.Func(vswPkg, "SwitchPool.GetOne")
	if get == nil {
		c.Unres("C17.R10", "SwitchPool.GetOne", "not found")
		return
	}
	n := 0
	seen := map[types.Object]bool{}
	for _, cs := range p.CallsTo(nil, get.Obj) {
		fn := cs.Fn
		info := fn.Info()
		var as *ast.AssignStmt
		for _, anc := range pathTo(fn.Decl.Body, cs.Call) {
			if a, ok := anc.(*ast.AssignStmt); ok && len(a.Rhs) == 1 && ast.Unparen(a.Rhs[0]) == ast.Expr(cs.Call) {
				as = a
			}
		}
		if as == nil || len(as.Lhs) < 1 {
			continue
		}
		v := identObj(info, as.Lhs[0])
		if v == nil || seen[v] {
			continue
		}
		seen[v] = true
		n++
		var other []string
		ast.Inspect(fn.Decl.Body, func(k ast.Node) bool {
			switch t := k.(type) {
			case *ast.AssignStmt:
				for i, l := range t.Lhs {
					if identObj(info, l) != v {
						continue
					}
					var rhs ast.Expr
					if len(t.Rhs) == len(t.Lhs) {
						rhs = t.Rhs[i]
					} else if len(t.Rhs) == 1 {
						rhs = t.Rhs[0]
					}
					if call, ok := ast.Unparen(rhs).(*ast.CallExpr); ok && Callee(info, call) == get.Obj {
						continue
					}
					if rhs != nil && info.Types[ast.Unparen(rhs)].IsNil() {
						continue
					}
					other = append(other, p.Pos(t)+": "+exprString2(t))
				}
			case *ast.ValueSpec:
				for i, nm := range t.Names {
					if info.Defs[nm] == v && i < len(t.Values) {
						other = append(other, p.Pos(t)+": "+exprString(t.Values[i]))
					}
				}
			}
			return true
		})
		c.Check(len(other) == 0, "C17.R10", fn.Key()+": "+v.Name()+" comes from GetOne only", p.Pos(cs.Call), fn.Key(), "every definition of "+v.Name()+" is a GetOne call", strings.Join(other, "; "))
	}
	c.Floor("C17.R10", "result variables of GetOne in callers", 3, n)
}
