package main

// A slice is either sized and filled by index, or starts empty and grows by
// append — never both: `x := make([]T, n)` (n not the constant 0, no capacity
// argument) followed by `append(x, …)` yields n zero elements in front of the
// real ones.

import (
	"fmt"
	"go/ast"
	"go/types"
)

type makeAppend struct {
	fn  *FuncInfo
	v   types.Object
	mk  ast.Node
	app ast.Node
}

func makeThenAppend(p *Prog, fns []*FuncInfo) (found []makeAppend, sized int) {
	for _, fn := range fns {
		if fn.Decl.Body == nil {
			continue
		}
		info := fn.Info()
		// variables whose every definition that is not an append of themselves is make([]T, n), n ≠ 0
		cands := map[types.Object]ast.Node{}
		ast.Inspect(fn.Decl.Body, func(n ast.Node) bool {
			var lhs []ast.Expr
			var rhs []ast.Expr
			switch s := n.(type) {
			case *ast.AssignStmt:
				lhs, rhs = s.Lhs, s.Rhs
			case *ast.ValueSpec:
				for _, nm := range s.Names {
					lhs = append(lhs, nm)
				}
				rhs = s.Values
			default:
				return true
			}
			if len(lhs) != len(rhs) {
				return true
			}
			for i, l := range lhs {
				id, ok := ast.Unparen(l).(*ast.Ident)
				if !ok {
					continue
				}
				mc, ok := isBuiltinCall(info, rhs[i], "make")
				if !ok || len(mc.Args) != 2 {
					continue
				}
				if _, isSlice := info.TypeOf(mc.Args[0]).Underlying().(*types.Slice); !isSlice {
					continue
				}
				if v, isC := constInt(info, mc.Args[1]); isC && v == 0 {
					continue
				}
				if o := info.ObjectOf(id); o != nil {
					cands[o] = n
				}
			}
			return true
		})
		sized += len(cands)
		if len(cands) == 0 {
			continue
		}
		ast.Inspect(fn.Decl.Body, func(n ast.Node) bool {
			call, ok := isBuiltinCall(info, exprOf(n), "append")
			if !ok || len(call.Args) == 0 {
				return true
			}
			// append(x, …) or append(x[:k], …) is fine only in the re-slice-to-zero form x[:0]
			if o := identObj(info, call.Args[0]); o != nil {
				if mk, isCand := cands[o]; isCand {
					// re-defined in between with something else? keep it simple: a variable that is ever
					// assigned a non-make, non-self-append value is not a candidate
					clean := true
					for _, d := range varDefs(fn, o) {
						if d.rhs == nil {
							clean = false
							continue
						}
						if _, isMake := isBuiltinCall(info, d.rhs, "make"); isMake {
							continue
						}
						if ac, isApp := isBuiltinCall(info, d.rhs, "append"); isApp && len(ac.Args) > 0 && identObj(info, ac.Args[0]) == o {
							continue
						}
						clean = false
					}
					if clean {
						found = append(found, makeAppend{fn, o, mk, call})
					}
				}
			}
			return true
		})
	}
	return
}

func exprOf(n ast.Node) ast.Expr {
	if e, ok := n.(ast.Expr); ok {
		return e
	}
	return nil
}

func ruleMakeThenAppend(c *Ctx, rule string, fns []*FuncInfo, what string) {
	p := c.P
	c.Rule(rule, "a slice of "+what+" is either sized and filled by index or starts empty and grows by append: no append to a variable defined by make([]T, n) with n ≠ 0 and no capacity (n zero elements would precede the real ones)")
	found, sized := makeThenAppend(p, fns)
	seen := map[types.Object]bool{}
	for _, f := range found {
		if seen[f.v] {
			continue
		}
		seen[f.v] = true
		c.Bad(rule, f.fn.Name+": "+f.v.Name()+" is sized or appended to, not both", p.Pos(f.app), f.fn.Key(), "make([]T, 0, n) … append, or make([]T, n) … x[i] =", "defined at "+p.Pos(f.mk)+" with a length and appended to")
	}
	if len(found) == 0 {
		c.OK(rule, "no sized slice is appended to", "", "", fmt.Sprintf("%d functions, %d sized slices", len(fns), sized))
	}
	c.Floor(rule, "functions examined", 1, len(fns))
}

// positive control for the pattern, evaluated on a snippet by the unit tests
