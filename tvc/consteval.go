package main

// A small evaluator for value-translation code: string constants flowing
// through assignments, if / else, switch (tagged and tagless) over lvalues
// denoted by their text. Used to tabulate what a translation does for every
// declared input constant and compare the table with the documented one; the
// statements may be written as a switch, an if chain, a lookup helper expanded
// in place — only the input/output relation matters.

import (
	"go/ast"
	"go/constant"
	"go/token"
	"go/types"
)

const cvUnknown = "\x00?"

type constEnv map[string]string

func (e constEnv) clone() constEnv {
	r := constEnv{}
	for k, v := range e {
		r[k] = v
	}
	return r
}

func joinEnv(a, b constEnv) constEnv {
	r := constEnv{}
	for k, v := range a {
		if w, ok := b[k]; ok && w == v {
			r[k] = v
		} else {
			r[k] = cvUnknown
		}
	}
	for k := range b {
		if _, ok := a[k]; !ok {
			r[k] = cvUnknown
		}
	}
	return r
}

type constEval struct {
	info *types.Info
	// input answers for expressions that denote the translation's input (nil: none)
	input func(ast.Expr) (string, bool)
	// body resolves a called function to its declaration and type information (nil: calls are opaque)
	body  func(*types.Func) (*ast.FuncDecl, *types.Info)
	depth int
	// maps holds lookup tables (map literals with constant keys and values that are never written afterwards)
	maps map[types.Object]map[string]string
}

// lookup evaluates m[k] for a known table; found is 1 / 0 / -1.
func (ce *constEval) lookup(x ast.Expr, env constEnv) (string, int) {
	ix, ok := ast.Unparen(x).(*ast.IndexExpr)
	if !ok {
		return cvUnknown, -1
	}
	id, ok := ast.Unparen(ix.X).(*ast.Ident)
	if !ok {
		return cvUnknown, -1
	}
	tbl, ok := ce.maps[ce.info.ObjectOf(id)]
	if !ok {
		return cvUnknown, -1
	}
	k := ce.val(ix.Index, env)
	if k == cvUnknown {
		return cvUnknown, -1
	}
	if v, ok := tbl[k]; ok {
		return v, 1
	}
	return "", 0
}

// collectTables finds the map literals of string constants in the files and which of them are never stored into.
func collectTables(info *types.Info, files []*ast.File) map[types.Object]map[string]string {
	out := map[types.Object]map[string]string{}
	written := map[types.Object]bool{}
	ce := &constEval{info: info}
	lit := func(name *ast.Ident, v ast.Expr) {
		cl, ok := ast.Unparen(v).(*ast.CompositeLit)
		if !ok {
			return
		}
		if _, isMap := info.TypeOf(cl).Underlying().(*types.Map); !isMap {
			return
		}
		tbl := map[string]string{}
		for _, el := range cl.Elts {
			kv, ok := el.(*ast.KeyValueExpr)
			if !ok {
				return
			}
			k, w := ce.val(kv.Key, nil), ce.val(kv.Value, nil)
			if k == cvUnknown || w == cvUnknown {
				return
			}
			tbl[k] = w
		}
		if o := info.ObjectOf(name); o != nil {
			if _, dup := out[o]; dup {
				written[o] = true
			}
			out[o] = tbl
		}
	}
	for _, f := range files {
		ast.Inspect(f, func(k ast.Node) bool {
			switch t := k.(type) {
			case *ast.ValueSpec:
				for i, nm := range t.Names {
					if i < len(t.Values) {
						lit(nm, t.Values[i])
					}
				}
			case *ast.AssignStmt:
				for i, l := range t.Lhs {
					if ix, ok := ast.Unparen(l).(*ast.IndexExpr); ok {
						if id, ok := ast.Unparen(ix.X).(*ast.Ident); ok {
							written[info.ObjectOf(id)] = true
						}
					}
					if id, ok := l.(*ast.Ident); ok && len(t.Lhs) == len(t.Rhs) {
						if _, isLit := ast.Unparen(t.Rhs[i]).(*ast.CompositeLit); isLit && t.Tok == token.DEFINE {
							lit(id, t.Rhs[i])
						} else if t.Tok == token.ASSIGN {
							written[info.ObjectOf(id)] = true
						}
					}
				}
			case *ast.CallExpr:
				// delete(m, k), clear(m), or the table handed to other code
				for _, a := range t.Args {
					if id, ok := ast.Unparen(a).(*ast.Ident); ok {
						if _, isMap := info.TypeOf(id).Underlying().(*types.Map); isMap {
							written[info.ObjectOf(id)] = true
						}
					}
				}
			}
			return true
		})
	}
	for o := range written {
		delete(out, o)
	}
	return out
}

func (ce *constEval) val(x ast.Expr, env constEnv) string {
	x = ast.Unparen(x)
	if tv, ok := ce.info.Types[x]; ok && tv.Value != nil && tv.Value.Kind() == constant.String {
		return constant.StringVal(tv.Value)
	}
	if call, ok := x.(*ast.CallExpr); ok && len(call.Args) == 1 {
		if tv, isConv := ce.info.Types[call.Fun]; isConv && tv.IsType() {
			return ce.val(call.Args[0], env)
		}
	}
	if v, ok := env[exprString(x)]; ok {
		return v
	}
	if v, found := ce.lookup(x, env); found == 1 {
		return v
	} else if found == 0 {
		return ""
	}
	if ce.input != nil {
		if v, ok := ce.input(x); ok {
			return v
		}
	}
	if call, ok := x.(*ast.CallExpr); ok && ce.body != nil && ce.depth < 3 {
		return ce.call(call, env)
	}
	return cvUnknown
}

// call evaluates a call of a module function with one result by running its body on the argument values.
func (ce *constEval) call(call *ast.CallExpr, env constEnv) string {
	var fn *types.Func
	switch f := ast.Unparen(call.Fun).(type) {
	case *ast.Ident:
		fn, _ = ce.info.ObjectOf(f).(*types.Func)
	case *ast.SelectorExpr:
		fn, _ = ce.info.ObjectOf(f.Sel).(*types.Func)
	}
	if fn == nil {
		return cvUnknown
	}
	decl, info := ce.body(fn)
	if decl == nil || decl.Body == nil || decl.Type.Results == nil || len(decl.Type.Results.List) != 1 {
		return cvUnknown
	}
	inner := constEnv{}
	i := 0
	for _, fld := range decl.Type.Params.List {
		for _, nm := range fld.Names {
			if i < len(call.Args) {
				inner[nm.Name] = ce.val(call.Args[i], env)
			}
			i++
		}
	}
	if i != len(call.Args) {
		return cvUnknown
	}
	sub := &constEval{info: info, maps: ce.maps, body: ce.body, depth: ce.depth + 1}
	out, _ := sub.stmts(decl.Body.List, inner)
	if v, ok := out["<return>"]; ok {
		return v
	}
	if names := decl.Type.Results.List[0].Names; len(names) == 1 {
		if v, ok := out[names[0].Name]; ok {
			return v
		}
	}
	return cvUnknown
}

// literalFields records x.K = v for the keyed fields of a struct literal assigned to x.
func (ce *constEval) literalFields(lhs string, rhs ast.Expr, env constEnv) {
	rhs = ast.Unparen(rhs)
	if u, ok := rhs.(*ast.UnaryExpr); ok && u.Op == token.AND {
		rhs = ast.Unparen(u.X)
	}
	cl, ok := rhs.(*ast.CompositeLit)
	if !ok {
		return
	}
	for _, el := range cl.Elts {
		if kv, ok := el.(*ast.KeyValueExpr); ok {
			if k, ok := kv.Key.(*ast.Ident); ok {
				if v := ce.val(kv.Value, env); v != cvUnknown {
					env[lhs+"."+k.Name] = v
				}
			}
		}
	}
}

// cond: 1 true, 0 false, -1 unknown
func (ce *constEval) cond(x ast.Expr, env constEnv) int {
	x = ast.Unparen(x)
	switch t := x.(type) {
	case *ast.Ident:
		switch env[t.Name] {
		case "\x00true":
			return 1
		case "\x00false":
			return 0
		}
	case *ast.UnaryExpr:
		if t.Op == token.NOT {
			if r := ce.cond(t.X, env); r >= 0 {
				return 1 - r
			}
		}
	case *ast.BinaryExpr:
		switch t.Op {
		case token.LAND:
			a, b := ce.cond(t.X, env), ce.cond(t.Y, env)
			if a == 0 || b == 0 {
				return 0
			}
			if a == 1 && b == 1 {
				return 1
			}
		case token.LOR:
			a, b := ce.cond(t.X, env), ce.cond(t.Y, env)
			if a == 1 || b == 1 {
				return 1
			}
			if a == 0 && b == 0 {
				return 0
			}
		case token.EQL, token.NEQ:
			a, b := ce.val(t.X, env), ce.val(t.Y, env)
			if a == cvUnknown || b == cvUnknown {
				return -1
			}
			if (a == b) == (t.Op == token.EQL) {
				return 1
			}
			return 0
		}
	}
	return -1
}

// how a statement list ended
const (
	ceFell   = 0 // ran off the end
	ceBranch = 1 // break / continue
	ceReturn = 2
)

// stmts evaluates the list and reports how it ended.
func (ce *constEval) stmts(list []ast.Stmt, env constEnv) (constEnv, int) {
	for _, st := range list {
		var done int
		env, done = ce.stmt(st, env)
		if done != ceFell {
			return env, done
		}
	}
	return env, ceFell
}

// inner maps the end of a switch / once-loop body to the end of the statement: a branch is consumed, a return is not.
func inner(done int) int {
	if done == ceReturn {
		return ceReturn
	}
	return ceFell
}

func (ce *constEval) assign(lhs, rhs ast.Expr, env constEnv) {
	key := exprString(ast.Unparen(lhs))
	if key == "_" {
		return
	}
	if rhs == nil {
		env[key] = cvUnknown
		return
	}
	env[key] = ce.val(rhs, env)
}

func (ce *constEval) stmt(st ast.Stmt, env constEnv) (constEnv, int) {
	switch t := st.(type) {
	case *ast.AssignStmt:
		if len(t.Lhs) == len(t.Rhs) && (t.Tok == token.ASSIGN || t.Tok == token.DEFINE) {
			vals := make([]string, len(t.Rhs))
			for i, r := range t.Rhs {
				vals[i] = ce.val(r, env)
			}
			for i, l := range t.Lhs {
				if k := exprString(ast.Unparen(l)); k != "_" {
					env[k] = vals[i]
					ce.literalFields(k, t.Rhs[i], env)
				}
			}
		} else if len(t.Lhs) == 2 && len(t.Rhs) == 1 {
			v, found := ce.lookup(t.Rhs[0], env)
			okv := cvUnknown
			switch found {
			case 1:
				okv = "\x00true"
			case 0:
				okv = "\x00false"
			}
			for i, w := range []string{v, okv} {
				if k := exprString(ast.Unparen(t.Lhs[i])); k != "_" {
					env[k] = w
				}
			}
		} else {
			for _, l := range t.Lhs {
				ce.assign(l, nil, env)
			}
		}
	case *ast.DeclStmt:
		if gd, ok := t.Decl.(*ast.GenDecl); ok {
			for _, sp := range gd.Specs {
				if vs, ok := sp.(*ast.ValueSpec); ok {
					for i, nm := range vs.Names {
						if i < len(vs.Values) {
							env[nm.Name] = ce.val(vs.Values[i], env)
							ce.literalFields(nm.Name, vs.Values[i], env)
						} else {
							env[nm.Name] = ""
						}
					}
				}
			}
		}
	case *ast.BlockStmt:
		return ce.stmts(t.List, env)
	case *ast.LabeledStmt:
		return ce.stmt(t.Stmt, env)
	case *ast.IfStmt:
		if t.Init != nil {
			env, _ = ce.stmt(t.Init, env)
		}
		switch ce.cond(t.Cond, env) {
		case 1:
			return ce.stmts(t.Body.List, env)
		case 0:
			if t.Else != nil {
				return ce.stmt(t.Else, env)
			}
			return env, ceFell
		default:
			a, da := ce.stmts(t.Body.List, env.clone())
			b, db := env.clone(), ceFell
			if t.Else != nil {
				b, db = ce.stmt(t.Else, b)
			}
			j := joinEnv(a, b)
			if da != db {
				// one side left, the other goes on: nothing assigned on either side is known afterwards
				// (the unknown return value is sticky, see ReturnStmt)
				return j, ceFell
			}
			return j, da
		}
	case *ast.SwitchStmt:
		if t.Init != nil {
			env, _ = ce.stmt(t.Init, env)
		}
		var deflt *ast.CaseClause
		unknown := false
		for _, cc := range t.Body.List {
			cl := cc.(*ast.CaseClause)
			if cl.List == nil {
				deflt = cl
				continue
			}
			for _, x := range cl.List {
				r := -1
				if t.Tag != nil {
					a, b := ce.val(t.Tag, env), ce.val(x, env)
					if a != cvUnknown && b != cvUnknown {
						r = 0
						if a == b {
							r = 1
						}
					}
				} else {
					r = ce.cond(x, env)
				}
				if r == 1 && !unknown {
					e2, d := ce.stmts(cl.Body, env)
					return e2, inner(d)
				}
				if r == -1 {
					unknown = true
				}
			}
		}
		if unknown {
			// some case could not be decided: everything the switch assigns becomes unknown
			out := env.clone()
			for _, cc := range t.Body.List {
				e2, _ := ce.stmts(cc.(*ast.CaseClause).Body, env.clone())
				out = joinEnv(out, e2)
			}
			return out, ceFell
		}
		if deflt != nil {
			e2, d := ce.stmts(deflt.Body, env)
			return e2, inner(d)
		}
	case *ast.ForStmt:
		// the once-loop of an expanded helper runs its body once; other loops are not followed
		if t.Cond == nil && t.Init == nil && t.Post == nil {
			e2, d := ce.stmts(t.Body.List, env)
			return e2, inner(d)
		}
	case *ast.BranchStmt:
		return env, ceBranch
	case *ast.ReturnStmt:
		if len(t.Results) == 1 && env["<return>"] != cvUnknown {
			env["<return>"] = ce.val(t.Results[0], env)
		}
		return env, ceReturn
	}
	return env, ceFell
}
