package main

// Order provenance (C16.R6): the slice-typed inputs of a hashed request
// (security groups, …) keep their order from one attempt to the next. Followed
// backwards from the builder's input fields — through fields (every store of
// the field in the module), locals (their definitions), parameters (every call
// site's argument) and module functions (their returned expressions), bound 8 —
// no value comes out of an order-free source: a set's UnsortedList, the keys or
// values of a map, or a slice appended to while ranging over a map, unless a
// sort follows in the same function. What cannot be followed (a decoded
// configuration, an API object) is not a source.

import (
	"fmt"
	"go/ast"
	"go/token"
	"go/types"
	"sort"
	"strings"
)

type orderWalk struct {
	p     *Prog
	seen  map[string]bool
	found map[string]bool
	steps int
}

func isUnorderedSource(f *types.Func) bool {
	if f == nil {
		return false
	}
	switch f.Name() {
	case "UnsortedList":
		return true
	case "Keys", "Values":
		if f.Pkg() != nil {
			pp := f.Pkg().Path()
			return pp == "maps" || strings.HasSuffix(pp, "samber/lo") || strings.HasSuffix(pp, "x/exp/maps")
		}
	}
	return false
}

func sortedAfter(fn *FuncInfo, o types.Object) bool {
	info := fn.Info()
	found := false
	if fn.Decl.Body == nil {
		return false
	}
	ast.Inspect(fn.Decl.Body, func(n ast.Node) bool {
		if n != nil && isSortCallOn(info, n, o) {
			found = true
		}
		return !found
	})
	return found
}

func (w *orderWalk) expr(fn *FuncInfo, x ast.Expr, depth int, trail string) {
	if x == nil || depth > 8 || w.steps > 4000 {
		return
	}
	w.steps++
	info := fn.Info()
	x = ast.Unparen(x)
	key := fmt.Sprintf("%p/%d", fn, x.Pos())
	if w.seen[key] {
		return
	}
	w.seen[key] = true
	at := w.p.Pos(x)
	switch t := x.(type) {
	case *ast.Ident:
		v, _ := info.ObjectOf(t).(*types.Var)
		if v == nil {
			return
		}
		if v.IsField() {
			w.field(v, depth+1, trail+" ← ."+v.Name())
			return
		}
		if v.Pkg() != nil && v.Parent() == v.Pkg().Scope() {
			return
		}
		// parameter?
		if pi := paramIndex(fn, v); pi >= 0 {
			for _, cs := range w.p.CallsTo(nil, fn.Obj) {
				if pi < len(cs.Call.Args) {
					w.expr(cs.Fn, cs.Call.Args[pi], depth+1, trail+" ← arg of "+fn.Name+" in "+cs.Fn.Name)
				}
			}
			return
		}
		if sortedAfter(fn, v) {
			return
		}
		for _, d := range varDefs(fn, v) {
			if d.rhs != nil {
				w.expr(fn, d.rhs, depth+1, trail)
			}
		}
		// appended to while ranging over a map
		for o, app := range orderTainted(fn) {
			if o == v {
				w.found["slice "+v.Name()+" appended in map order at "+w.p.Pos(app)+trail] = true
			}
		}
		// filled while ranging over a map in a loop that can stop early: WHICH entries make it
		// depends on the iteration order
		if at := filledInCutMapLoop(fn, v); at != nil {
			w.found[v.Name()+" is filled in a range over a map that can break early at "+w.p.Pos(at)+trail] = true
		}
	case *ast.SelectorExpr:
		if fv, _ := info.ObjectOf(t.Sel).(*types.Var); fv != nil && fv.IsField() {
			w.field(fv, depth+1, trail+" ← ."+fv.Name())
		}
	case *ast.SliceExpr:
		w.expr(fn, t.X, depth, trail)
	case *ast.IndexExpr:
		w.expr(fn, t.X, depth, trail)
	case *ast.StarExpr:
		w.expr(fn, t.X, depth, trail)
	case *ast.CompositeLit:
		// an ordered literal; its elements are values, not orders
	case *ast.CallExpr:
		if ac, ok := isBuiltinCall(info, t, "append"); ok {
			for _, a := range ac.Args {
				w.expr(fn, a, depth, trail)
			}
			return
		}
		if tv, ok := info.Types[t.Fun]; ok && tv.IsType() && len(t.Args) == 1 {
			w.expr(fn, t.Args[0], depth, trail)
			return
		}
		callee := Callee(info, t)
		if isUnorderedSource(callee) {
			w.found[callee.Name()+"() at "+at+trail] = true
			return
		}
		if cf := w.p.FuncOf(callee); cf != nil && cf.Decl.Body != nil {
			sig := callee.Type().(*types.Signature)
			for _, r := range declReturns(cf.Decl.Body) {
				if len(r.Results) != sig.Results().Len() {
					continue
				}
				for i, rx := range r.Results {
					switch sig.Results().At(i).Type().Underlying().(type) {
					case *types.Slice, *types.Map:
						w.expr(cf, rx, depth+1, trail+" ← result of "+cf.Name)
					}
				}
			}
		}
	}
}

func paramIndex(fn *FuncInfo, v *types.Var) int {
	sig := fn.Obj.Type().(*types.Signature)
	for i := 0; i < sig.Params().Len(); i++ {
		if sig.Params().At(i) == v {
			return i
		}
	}
	return -1
}

func (w *orderWalk) field(f *types.Var, depth int, trail string) {
	if depth > 8 {
		return
	}
	key := "field/" + f.Pkg().Path() + "." + f.Name() + fmt.Sprint(f.Pos())
	if w.seen[key] {
		return
	}
	w.seen[key] = true
	for _, st := range w.p.StoresTo(nil, f) {
		if st.RHS != nil {
			w.expr(st.Fn, st.RHS, depth+1, trail)
		}
	}
}

func c16R6(c *Ctx) {
	p := c.P
	c.Rule("C16.R6", "order provenance of the hashed request: followed backwards through fields, locals, parameters and module functions (bound 8), no slice-typed input of a request builder (security groups, addresses, …) comes from an order-free source — a set's UnsortedList, map Keys/Values, or a slice appended in map-iteration order without a sort — so a retry hashes like the first attempt")
	n := 0
	for _, b := range c16Builders(c) {
		// the builder's receiver / parameter structs: their slice-typed fields that the body reads
		info := b.Info()
		fields := map[*types.Var]bool{}
		ast.Inspect(b.Decl.Body, func(k ast.Node) bool {
			if sel, ok := k.(*ast.SelectorExpr); ok {
				if fv, _ := info.ObjectOf(sel.Sel).(*types.Var); fv != nil && fv.IsField() && fv.Pkg() != nil && strings.HasPrefix(fv.Pkg().Path(), modPath) {
					switch fv.Type().Underlying().(type) {
					case *types.Slice, *types.Map:
						fields[fv] = true
					}
				}
			}
			return true
		})
		var fl []*types.Var
		for f := range fields {
			fl = append(fl, f)
		}
		sort.Slice(fl, func(i, j int) bool { return fl[i].Pos() < fl[j].Pos() })
		for _, f := range fl {
			n++
			w := &orderWalk{p: p, seen: map[string]bool{}, found: map[string]bool{}}
			w.field(f, 0, "")
			var bad []string
			for k := range w.found {
				bad = append(bad, k)
			}
			sort.Strings(bad)
			c.Check(len(bad) == 0, "C16.R6", b.Name+": input "+f.Name()+" has a stable order", p.PosOf(f.Pos()), b.Key(), "no order-free source reaches the field", strings.Join(bad, "; "))
		}
	}
	c.Floor("C16.R6", "slice-typed builder inputs", 2, n)
}

// filledInCutMapLoop: v is stored into (v[k] = …, v = append(v, …)) inside a range over a map
// whose body contains a break (or return) — the first such loop, or nil.
func filledInCutMapLoop(fn *FuncInfo, v types.Object) ast.Node {
	info := fn.Info()
	var hit ast.Node
	if fn.Decl.Body == nil {
		return nil
	}
	ast.Inspect(fn.Decl.Body, func(n ast.Node) bool {
		rs, ok := n.(*ast.RangeStmt)
		if !ok || hit != nil {
			return true
		}
		if _, isMap := info.TypeOf(rs.X).Underlying().(*types.Map); !isMap {
			return true
		}
		fills, cuts := false, false
		ast.Inspect(rs.Body, func(k ast.Node) bool {
			switch t := k.(type) {
			case *ast.FuncLit:
				return false
			case *ast.RangeStmt, *ast.ForStmt, *ast.SwitchStmt, *ast.SelectStmt:
				if k != ast.Node(rs.Body) {
					// a break inside an inner loop / switch leaves that one; stores still count
					ast.Inspect(k, func(j ast.Node) bool {
						if as, ok := j.(*ast.AssignStmt); ok {
							for _, l := range as.Lhs {
								if ix, ok := ast.Unparen(l).(*ast.IndexExpr); ok && identObj(info, ix.X) == v {
									fills = true
								}
								if identObj(info, l) == v {
									fills = true
								}
							}
						}
						return true
					})
					return false
				}
			case *ast.AssignStmt:
				for _, l := range t.Lhs {
					if ix, ok := ast.Unparen(l).(*ast.IndexExpr); ok && identObj(info, ix.X) == v {
						fills = true
					}
					if identObj(info, l) == v {
						fills = true
					}
				}
			case *ast.BranchStmt:
				if t.Tok == token.BREAK && t.Label == nil {
					cuts = true
				}
			case *ast.ReturnStmt:
				cuts = true
			}
			return true
		})
		if fills && cuts {
			hit = rs
		}
		return true
	})
	return hit
}
