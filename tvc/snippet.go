package main

// In-memory positive controls: tiny Go sources type-checked on every run so
// that zero-expected rules are known to be able to fire.

import (
	"go/ast"
	"go/importer"
	"go/parser"
	"go/token"
	"go/types"
)

func checkSnippet(src string) (*ast.File, *types.Info, error) {
	fset := token.NewFileSet()
	f, err := parser.ParseFile(fset, "snippet.go", src, 0)
	if err != nil {
		return nil, nil, err
	}
	info := &types.Info{Types: map[ast.Expr]types.TypeAndValue{}, Uses: map[*ast.Ident]types.Object{}, Defs: map[*ast.Ident]types.Object{}, Selections: map[*ast.SelectorExpr]*types.Selection{}}
	conf := types.Config{}
	if _, err := conf.Check("snippet", fset, []*ast.File{f}, info); err != nil {
		return nil, nil, err
	}
	return f, info, nil
}

// mapParamRealloc lists assignments `p = make(map…)` to a map-typed parameter p of fd.
func mapParamRealloc(info *types.Info, fd *ast.FuncDecl) (reallocs []*ast.AssignStmt, assigns int) {
	params := map[types.Object]bool{}
	for _, fld := range fd.Type.Params.List {
		for _, nm := range fld.Names {
			if o := info.Defs[nm]; o != nil {
				if _, ok := o.Type().Underlying().(*types.Map); ok {
					params[o] = true
				}
			}
		}
	}
	if len(params) == 0 || fd.Body == nil {
		return nil, 0
	}
	ast.Inspect(fd.Body, func(nd ast.Node) bool {
		as, ok := nd.(*ast.AssignStmt)
		if !ok || as.Tok != token.ASSIGN || len(as.Lhs) != 1 {
			return true
		}
		o := identObj(info, as.Lhs[0])
		if o == nil || !params[o] {
			return true
		}
		assigns++
		if _, ok := isBuiltinCall(info, as.Rhs[0], "make"); ok {
			reallocs = append(reallocs, as)
		}
		return true
	})
	return
}

func lostUpdateControl() bool {
	f, info, err := checkSnippet(`package snippet
func f(m map[string]int) { if m == nil { m = make(map[string]int) }; m["k"] = 1 }
`)
	if err != nil {
		return false
	}
	for _, d := range f.Decls {
		if fd, ok := d.(*ast.FuncDecl); ok {
			r, _ := mapParamRealloc(info, fd)
			return len(r) == 1
		}
	}
	return false
}

type snippetFile struct {
	file *ast.File
	fset *token.FileSet
	pkg  *types.Package
}

func checkSnippetFset(src string) (*snippetFile, *types.Info, error) {
	fset := token.NewFileSet()
	f, err := parser.ParseFile(fset, "snippet.go", src, 0)
	if err != nil {
		return nil, nil, err
	}
	info := &types.Info{Types: map[ast.Expr]types.TypeAndValue{}, Uses: map[*ast.Ident]types.Object{}, Defs: map[*ast.Ident]types.Object{}, Selections: map[*ast.SelectorExpr]*types.Selection{}, Scopes: map[ast.Node]*types.Scope{}}
	conf := types.Config{}
	if len(f.Imports) > 0 {
		conf.Importer = importer.ForCompiler(fset, "source", nil) // standard library only, from source
	}
	pkg, err := conf.Check(modPath+"/snippet", fset, []*ast.File{f}, info)
	if err != nil {
		return nil, nil, err
	}
	return &snippetFile{f, fset, pkg}, info, nil
}
