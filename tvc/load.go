package main

// E1 loader: type-checked view of /repo's current working tree plus indexes
// used by every rule (functions by package+name, calls by resolved callee,
// stores by resolved field).

import (
	"fmt"
	"go/ast"
	"go/printer"
	"go/token"
	"go/types"
	"os"
	"path/filepath"
	"sort"
	"strings"

	"golang.org/x/tools/go/packages"
	"golang.org/x/tools/go/types/typeutil"
)

const modPath = "github.com/AliyunContainerService/terway"

type Prog struct {
	Repo   string
	Fset   *token.FileSet
	Roots  []*packages.Package
	ByPath map[string]*packages.Package
	All    map[string]*packages.Package // every package incl. deps
	Config string                       // description of the build configuration
	Raw    *Prog                        // the program as written (set on the helper-expanded view; itself when not normalised)

	funcs     map[string]*FuncInfo // "pkgpath.Recv.Name" / "pkgpath.Name"
	callers   map[*types.Func][]*FuncInfo
	wsCache   map[*FuncInfo][]string
	funcByObj map[*types.Func]*FuncInfo
	funcList  []*FuncInfo

	// set when the program is the normalised (helper-expanded) view
	posLayers    []map[string]*fileMap // one per normalisation round, oldest first
	overlay      map[string][]byte
	expandedAll  map[string]bool
	nExpanded    int
	origSrc      map[string][]byte
	lineStarts   map[string][]int
	Normalised   string
	ExpandedList []string
	expandedFns  map[string]bool      // helpers expanded at one or more call sites
	collect      map[*types.Func]bool // anchor collection mode
	liveList     []*FuncInfo
	quiet        map[*FuncInfo]bool
	mutVars      map[*types.Var]bool
	vtaG         *vtaGraph
	renamed      map[string]string // frozen function key → key it has now (renames.go)
	renamedBare  map[string]string // frozen bare name → bare name now
	methodToFunc map[string]string // frozen method name → plain function it became
}

// FuncInfo is one source function (declaration) of a repo package.
type FuncInfo struct {
	Pkg  *packages.Package
	Decl *ast.FuncDecl
	Obj  *types.Func
	File *ast.File
	Name string // Recv.Name or Name (the frozen name when the function was renamed)
	Now  string // the name in the source when it differs from Name
}

func (f *FuncInfo) Key() string       { return shortPkg(f.Pkg.PkgPath) + "." + f.Name }
func (f *FuncInfo) Info() *types.Info { return f.Pkg.TypesInfo }

func shortPkg(p string) string {
	if p == modPath {
		return "."
	}
	return strings.TrimPrefix(p, modPath+"/")
}

type LoadOpts struct {
	Repo    string
	Tags    string
	GOOS    string
	Tests   bool
	Overlay map[string][]byte
}

func Load(o LoadOpts) (*Prog, error) {
	env := os.Environ()
	env = append(env, "GOFLAGS=-mod=mod", "GOPROXY=off", "GOWORK=off")
	if o.GOOS != "" {
		env = append(env, "GOOS="+o.GOOS, "CGO_ENABLED=0")
	}
	cfg := &packages.Config{
		Mode:    packages.LoadAllSyntax,
		Dir:     o.Repo,
		Env:     env,
		Tests:   o.Tests,
		Overlay: o.Overlay,
	}
	if o.Tags != "" {
		cfg.BuildFlags = []string{"-tags=" + o.Tags}
	}
	pkgs, err := packages.Load(cfg, "./...")
	if err != nil {
		return nil, err
	}
	p := &Prog{Repo: o.Repo, Roots: pkgs, ByPath: map[string]*packages.Package{}, All: map[string]*packages.Package{},
		funcs: map[string]*FuncInfo{}, funcByObj: map[*types.Func]*FuncInfo{}}
	p.Config = fmt.Sprintf("GOOS=%s tags=%s", orDefault(o.GOOS, "linux"), o.Tags)
	var errs []string
	for _, pk := range pkgs {
		if p.Fset == nil {
			p.Fset = pk.Fset
		}
		p.ByPath[pk.PkgPath] = pk
		for _, e := range pk.Errors {
			errs = append(errs, fmt.Sprintf("%s: %s", pk.PkgPath, e.Msg))
		}
	}
	packages.Visit(pkgs, nil, func(pk *packages.Package) {
		p.All[pk.PkgPath] = pk
		if strings.HasPrefix(pk.PkgPath, modPath) {
			for _, e := range pk.Errors {
				if _, isRoot := p.ByPath[pk.PkgPath]; !isRoot {
					errs = append(errs, fmt.Sprintf("%s: %s", pk.PkgPath, e.Msg))
				}
			}
		}
	})
	if len(errs) > 0 {
		sort.Strings(errs)
		if len(errs) > 20 {
			errs = errs[:20]
		}
		return p, fmt.Errorf("type-check/load errors in repo packages:\n  %s", strings.Join(errs, "\n  "))
	}
	p.index()
	return p, nil
}

func orDefault(s, d string) string {
	if s == "" {
		return d
	}
	return s
}

// isGeneratedOrTest reports whether a file is outside rule scopes.
func (p *Prog) excludedFile(f *ast.File) bool {
	name := filepath.Base(p.Fset.File(f.Pos()).Name())
	if strings.HasSuffix(name, "_test.go") || strings.HasPrefix(name, "zz_generated") || strings.HasSuffix(name, ".pb.go") {
		return true
	}
	dir := filepath.Dir(p.Fset.File(f.Pos()).Name())
	if strings.Contains(dir, "/mocks") || strings.Contains(dir, "/generated/") || strings.HasSuffix(dir, "/fake") {
		return true
	}
	return false
}

func (p *Prog) index() {
	for _, pk := range p.Roots {
		for _, f := range pk.Syntax {
			if p.excludedFile(f) {
				continue
			}
			for _, d := range f.Decls {
				fd, ok := d.(*ast.FuncDecl)
				if !ok || fd.Body == nil {
					continue
				}
				obj, _ := pk.TypesInfo.Defs[fd.Name].(*types.Func)
				if obj == nil {
					continue
				}
				name := fd.Name.Name
				if fd.Recv != nil && len(fd.Recv.List) == 1 {
					name = recvTypeName(fd.Recv.List[0].Type) + "." + name
				}
				fi := &FuncInfo{Pkg: pk, Decl: fd, Obj: obj, File: f, Name: name}
				key := pk.PkgPath + "." + name
				if _, dup := p.funcs[key]; !dup { // init() may repeat; first wins
					p.funcs[key] = fi
				}
				p.funcByObj[obj] = fi
				p.funcList = append(p.funcList, fi)
			}
		}
	}
	p.resolveRenames()
	sort.Slice(p.funcList, func(i, j int) bool {
		a, b := p.funcList[i], p.funcList[j]
		if a.Pkg.PkgPath != b.Pkg.PkgPath {
			return a.Pkg.PkgPath < b.Pkg.PkgPath
		}
		return a.Decl.Pos() < b.Decl.Pos()
	})
}

func recvTypeName(e ast.Expr) string {
	switch t := e.(type) {
	case *ast.StarExpr:
		return recvTypeName(t.X)
	case *ast.Ident:
		return t.Name
	case *ast.IndexExpr:
		return recvTypeName(t.X)
	case *ast.IndexListExpr:
		return recvTypeName(t.X)
	case *ast.ParenExpr:
		return recvTypeName(t.X)
	}
	return "?"
}

// Pkg returns the repo package with the given module-relative path.
func (p *Prog) Pkg(rel string) *packages.Package {
	if rel == "." || rel == "" {
		return p.ByPath[modPath]
	}
	return p.ByPath[modPath+"/"+rel]
}

// Func finds "Recv.Name" or "Name" in the repo package rel.
func (p *Prog) Func(rel, name string) *FuncInfo {
	pp := modPath + "/" + rel
	if rel == "." {
		pp = modPath
	}
	fi := p.funcs[pp+"."+name]
	if p.collect != nil && fi != nil {
		p.collect[fi.Obj] = true
	}
	return fi
}

// Anchor marks a function that a rule identified by its shape (not by name) as one that must
// stay a function in the normalised view.
func (p *Prog) Anchor(fi *FuncInfo) {
	if p.collect != nil && fi != nil {
		p.collect[fi.Obj] = true
	}
}

func (p *Prog) FuncOf(obj *types.Func) *FuncInfo {
	if obj == nil {
		return nil
	}
	if fi, ok := p.funcByObj[obj]; ok {
		return fi
	}
	if o := obj.Origin(); o != obj {
		return p.funcByObj[o]
	}
	return nil
}

func (p *Prog) FuncsInPkg(rel string) []*FuncInfo {
	pk := p.Pkg(rel)
	var out []*FuncInfo
	for _, f := range p.live() {
		if f.Pkg == pk {
			out = append(out, f)
		}
	}
	return out
}

// live lists the functions that are not dead in the normalised view (helpers expanded at every
// call site are judged where they were expanded, not a second time as free-standing functions).
func (p *Prog) live() []*FuncInfo {
	if len(p.expandedFns) == 0 {
		return p.funcList
	}
	if p.liveList == nil {
		for _, f := range p.funcList {
			if !p.deadInView(f) {
				p.liveList = append(p.liveList, f)
			}
		}
	}
	return p.liveList
}

func (p *Prog) AllFuncs() []*FuncInfo { return p.funcList }

// LookupType finds a named type in a repo package (rel) or any loaded
// package when rel is an absolute import path.
func (p *Prog) LookupObj(pkgPath, name string) types.Object {
	pk := p.All[pkgPath]
	if pk == nil {
		pk = p.All[modPath+"/"+pkgPath]
	}
	if pk == nil || pk.Types == nil {
		return nil
	}
	return pk.Types.Scope().Lookup(name)
}

// Field resolves pkg.Type.field to its *types.Var.
func (p *Prog) Field(pkgPath, typ, field string) *types.Var {
	o := p.LookupObj(pkgPath, typ)
	if o == nil {
		return nil
	}
	st, ok := o.Type().Underlying().(*types.Struct)
	if !ok {
		return nil
	}
	for i := 0; i < st.NumFields(); i++ {
		if st.Field(i).Name() == field {
			return st.Field(i)
		}
	}
	return nil
}

// Method resolves pkg.Type.Method (pointer or value receiver, or interface method).
func (p *Prog) Method(pkgPath, typ, name string) *types.Func {
	o := p.LookupObj(pkgPath, typ)
	if o == nil {
		return nil
	}
	obj, _, _ := types.LookupFieldOrMethod(types.NewPointer(o.Type()), true, o.Pkg(), name)
	if f, ok := obj.(*types.Func); ok {
		if p.collect != nil {
			p.collect[f.Origin()] = true
		}
		return f
	}
	obj, _, _ = types.LookupFieldOrMethod(o.Type(), true, o.Pkg(), name)
	if f, ok := obj.(*types.Func); ok {
		if p.collect != nil {
			p.collect[f.Origin()] = true
		}
		return f
	}
	// a renamed method (or one that became a plain function) answers to its frozen name
	for _, pp := range []string{pkgPath, modPath + "/" + pkgPath} {
		if fi := p.funcs[pp+"."+typ+"."+name]; fi != nil && fi.Now != "" {
			if p.collect != nil {
				p.collect[fi.Obj] = true
			}
			return fi.Obj
		}
	}
	return nil
}

func (p *Prog) Pos(n ast.Node) string { return p.PosOf(n.Pos()) }
func (p *Prog) PosOf(pos token.Pos) string {
	if !pos.IsValid() {
		return "?"
	}
	ps := p.Fset.Position(pos)
	if len(p.posLayers) > 0 {
		file, off, mapped := ps.Filename, ps.Offset, false
		for i := len(p.posLayers) - 1; i >= 0; i-- {
			fm := p.posLayers[i][file]
			if fm == nil {
				continue
			}
			sg, ok := fm.lookup(off)
			if !ok {
				break
			}
			mapped = true
			if sg.verbatim {
				off = sg.off + off - sg.start
			} else {
				off = sg.off
			}
			file = sg.file
		}
		if mapped {
			ps.Filename, ps.Line = file, p.lineOf(file, off)
		}
	}
	rel, err := filepath.Rel(p.Repo, ps.Filename)
	if err != nil {
		rel = ps.Filename
	}
	return fmt.Sprintf("%s:%d", rel, ps.Line)
}

func (p *Prog) lineOf(file string, off int) int {
	if p.lineStarts == nil {
		p.lineStarts = map[string][]int{}
	}
	ls, ok := p.lineStarts[file]
	if !ok {
		src := p.origSrc[file]
		if src == nil {
			src, _ = os.ReadFile(file)
		}
		ls = []int{0}
		for i, b := range src {
			if b == '\n' {
				ls = append(ls, i+1)
			}
		}
		p.lineStarts[file] = ls
	}
	return sort.SearchInts(ls, off+1)
}

// Callee resolves the called function/method object of a call (static or
// interface method), nil for calls of function values and conversions.
func Callee(info *types.Info, call *ast.CallExpr) *types.Func {
	o := typeutil.Callee(info, call)
	f, _ := o.(*types.Func)
	if f != nil {
		return f.Origin()
	}
	return nil
}

// CallSite is one resolved call inside a function.
type CallSite struct {
	Fn     *FuncInfo
	Call   *ast.CallExpr
	Callee *types.Func
	Lit    *ast.FuncLit // innermost enclosing function literal, if any
}

// walkFunc visits every node of a function body, tracking the enclosing FuncLit stack.
func walkWithLits(body ast.Node, visit func(n ast.Node, lits []*ast.FuncLit)) {
	var lits []*ast.FuncLit
	var rec func(n ast.Node)
	rec = func(n ast.Node) {
		ast.Inspect(n, func(m ast.Node) bool {
			if m == nil {
				return false
			}
			if m != n {
				if fl, ok := m.(*ast.FuncLit); ok {
					visit(m, lits)
					lits = append(lits, fl)
					rec(fl.Body)
					lits = lits[:len(lits)-1]
					return false
				}
			}
			visit(m, lits)
			return true
		})
	}
	rec(body)
}

// CallsIn lists resolved calls in fn (including inside function literals).
func (p *Prog) CallsIn(fn *FuncInfo) []CallSite {
	var out []CallSite
	walkWithLits(fn.Decl.Body, func(n ast.Node, lits []*ast.FuncLit) {
		if c, ok := n.(*ast.CallExpr); ok {
			cs := CallSite{Fn: fn, Call: c, Callee: Callee(fn.Info(), c)}
			if len(lits) > 0 {
				cs.Lit = lits[len(lits)-1]
			}
			out = append(out, cs)
		}
	})
	return out
}

// CallsTo lists all call sites, in the given functions (nil = whole repo), whose
// resolved callee is one of callees.
func (p *Prog) CallsTo(scope []*FuncInfo, callees ...*types.Func) []CallSite {
	set := map[*types.Func]bool{}
	for _, c := range callees {
		if c != nil {
			set[c.Origin()] = true
		}
	}
	if scope == nil {
		scope = p.live()
	}
	var out []CallSite
	for _, fn := range scope {
		for _, cs := range p.CallsIn(fn) {
			if cs.Callee != nil && set[cs.Callee] {
				out = append(out, cs)
			}
		}
	}
	return out
}

// Store is one assignment (or composite-literal key) writing a resolved field.
type Store struct {
	Fn    *FuncInfo
	Node  ast.Node // *ast.AssignStmt, *ast.IncDecStmt or *ast.KeyValueExpr
	LHS   ast.Expr // selector (assignment) or key ident (literal)
	RHS   ast.Expr // may be nil
	Field *types.Var
	InLit bool // composite literal initialisation
	Lit   *ast.FuncLit
}

// StoresTo lists the writes of the given struct fields in scope (nil = repo).
func (p *Prog) StoresTo(scope []*FuncInfo, fields ...*types.Var) []Store {
	set := map[*types.Var]bool{}
	for _, f := range fields {
		if f != nil {
			set[f.Origin()] = true
		}
	}
	if scope == nil {
		scope = p.live()
	}
	var out []Store
	for _, fn := range scope {
		info := fn.Info()
		walkWithLits(fn.Decl.Body, func(n ast.Node, lits []*ast.FuncLit) {
			var lit *ast.FuncLit
			if len(lits) > 0 {
				lit = lits[len(lits)-1]
			}
			switch s := n.(type) {
			case *ast.AssignStmt:
				for i, l := range s.Lhs {
					if fv := fieldOf(info, l); fv != nil && set[fv] {
						var rhs ast.Expr
						if len(s.Rhs) == len(s.Lhs) {
							rhs = s.Rhs[i]
						}
						out = append(out, Store{Fn: fn, Node: s, LHS: l, RHS: rhs, Field: fv, Lit: lit})
					}
				}
			case *ast.IncDecStmt:
				if fv := fieldOf(info, s.X); fv != nil && set[fv] {
					out = append(out, Store{Fn: fn, Node: s, LHS: s.X, Field: fv, Lit: lit})
				}
			case *ast.CompositeLit:
				for _, el := range s.Elts {
					kv, ok := el.(*ast.KeyValueExpr)
					if !ok {
						continue
					}
					id, ok := kv.Key.(*ast.Ident)
					if !ok {
						continue
					}
					if fv, ok := info.Uses[id].(*types.Var); ok && fv.IsField() && set[fv.Origin()] {
						out = append(out, Store{Fn: fn, Node: kv, LHS: id, RHS: kv.Value, Field: fv.Origin(), InLit: true, Lit: lit})
					}
				}
			case *ast.UnaryExpr:
				// &x.f escaping is treated as a potential write
				if s.Op == token.AND {
					if fv := fieldOf(info, s.X); fv != nil && set[fv] {
						out = append(out, Store{Fn: fn, Node: s, LHS: s.X, Field: fv, Lit: lit})
					}
				}
			}
		})
	}
	return out
}

// fieldOf returns the struct field selected by e (x.f), or nil.
func fieldOf(info *types.Info, e ast.Expr) *types.Var {
	e = ast.Unparen(e)
	sel, ok := e.(*ast.SelectorExpr)
	if !ok {
		return nil
	}
	if s := info.Selections[sel]; s != nil && s.Kind() == types.FieldVal {
		if v, ok := s.Obj().(*types.Var); ok {
			return v.Origin()
		}
	}
	return nil
}

// enclosing returns the path of nodes from the function body to target.
func pathTo(root ast.Node, target ast.Node) []ast.Node {
	var path []ast.Node
	var found []ast.Node
	ast.Inspect(root, func(n ast.Node) bool {
		if found != nil {
			return false
		}
		if n == nil {
			path = path[:len(path)-1]
			return false
		}
		path = append(path, n)
		if n == target {
			found = append([]ast.Node(nil), path...)
			return false
		}
		return true
	})
	return found
}

func exprString(e ast.Expr) string { return types.ExprString(e) }

// fullString prints a node completely (types.ExprString elides composite literals).
func fullString(n ast.Node) string {
	var sb strings.Builder
	if err := printer.Fprint(&sb, token.NewFileSet(), n); err != nil {
		return ""
	}
	return sb.String()
}
