package main

import (
	"fmt"
	"os"
	"path/filepath"
	"regexp"
	"strings"
	"testing"
)

const inlSrc = `package demo

import "fmt"

type rec struct {
	name string
	n    int
	next *rec
}

type set map[string]*rec

func (s set) byName(name string) *rec {
	for _, v := range s {
		if v.name == name {
			return v
		}
	}
	return nil
}

// tail returns + result flag
func check(r *rec, limit int) error {
	if r == nil {
		return fmt.Errorf("nil")
	}
	if r.n > limit {
		return fmt.Errorf("too many: %d", r.n)
	}
	return nil
}

// accumulator
func push(xs []int, k, cnt int) []int {
	for i := 0; i < cnt; i++ {
		xs = append(xs, k)
	}
	return xs
}

// built in locals, single final return
func split(rs []*rec) (map[string]bool, int) {
	seen := make(map[string]bool)
	total := 0
	for _, r := range rs {
		if r == nil {
			continue
		}
		seen[r.name] = true
		total += r.n
	}
	return seen, total
}

// variadic apply-to-each
func reset(tag string, rs ...*rec) {
	for _, r := range rs {
		if r == nil {
			continue
		}
		r.name = tag
	}
}

// predicate with statements
func settled(r *rec, m map[string]int) bool {
	v, ok := m[r.name]
	if !ok {
		return false
	}
	return v == r.n
}

// named results
func both(r *rec) (a, b int) {
	if r != nil {
		a = r.n
	}
	b = a + 1
	return a, b
}

func Caller(rs []*rec, a, b *rec, m map[string]int, s set) (int, error) {
	err := check(a, 10)
	if err != nil {
		return 0, err
	}
	if err := check(b, 20); err != nil {
		return 0, err
	}
	var xs []int
	xs = push(xs, 1, a.n)
	seen, total := split(rs)
	reset("x", a, b)
	if a.n > 0 && !settled(a, m) {
		return 1, nil
	}
	add := func(r *rec, k int) { r.n += k }
	add(a, 2)
	p, q := both(b)
	if o := s.byName(a.name); o != nil {
		total += o.n
	}
	return total + len(xs) + len(seen) + p + q, nil
}

func Forward(r *rec) error {
	return check(r, 5)
}

// a return inside a loop: expanded in early mode (labelled once-loop)
func firstBig(rs []*rec, limit int) (*rec, error) {
	for _, r := range rs {
		if r == nil {
			return nil, fmt.Errorf("nil record")
		}
		if r.n > limit {
			return r, nil
		}
	}
	return nil, nil
}

func Early(rs []*rec) int {
	r, err := firstBig(rs, 3)
	if err != nil || r == nil {
		return 0
	}
	return r.n
}

// a call among otherwise pure results of a return
func Part(r *rec) (int, error) {
	return 7, check(r, 3)
}

// a *T local returned as an interface must not be unified with an interface-typed target
type namer interface{ Name() string }

func (r *rec) Name() string { return r.name }

func pick(k int, a *rec) namer {
	var res *rec
	if k == 1 {
		res = a
	}
	return res
}

func Typed(k int, a *rec) bool {
	n := pick(k, a)
	return n == nil
}

// a helper call nested in a literal / among the arguments of another call
func label(r *rec) string {
	if r == nil {
		return "none"
	}
	return r.name
}

var sink []string

func bump(r *rec) string {
	sink = append(sink, r.name)
	return r.name
}

func Nested(r *rec, out []string) (*rec, []string) {
	x := &rec{name: label(r), n: 1}
	out = append(out, label(r.next))
	return x, out
}

// not hoisted: the other operand is memory the (writing) helper could reach, or the call is conditional
func NotNested(r *rec, q *rec) (string, bool) {
	s := fmt.Sprint(q.name, bump(r))
	ok := r != nil && label(r) == "x"
	return s, ok
}

// named results of several types: each expanded result keeps its own type
func splitNames(rs []*rec) (first, last string, err error) {
	for _, r := range rs {
		if r == nil {
			return "", "", fmt.Errorf("nil record")
		}
		if first == "" {
			first = r.name
		}
		last = r.name
	}
	return first, last, nil
}

func NamedResults(rs []*rec) string {
	a, b, err := splitNames(rs)
	if err != nil {
		return ""
	}
	return a + b
}
`

func TestInlinerSmoke(t *testing.T) {
	dir := t.TempDir()
	if err := os.WriteFile(filepath.Join(dir, "go.mod"), []byte("module "+modPath+"\n\ngo 1.22\n"), 0o644); err != nil {
		t.Fatal(err)
	}
	if err := os.MkdirAll(filepath.Join(dir, "demo"), 0o755); err != nil {
		t.Fatal(err)
	}
	if err := os.WriteFile(filepath.Join(dir, "demo", "demo.go"), []byte(inlSrc), 0o644); err != nil {
		t.Fatal(err)
	}
	p, err := Load(LoadOpts{Repo: dir})
	if err != nil {
		t.Fatal(err)
	}
	cur := p
	var notes []string
	for round := 0; round < 3; round++ {
		p2, n := Normalise(cur, LoadOpts{Repo: dir}, map[string]bool{})
		notes = append(notes, n...)
		if p2 == cur {
			break
		}
		cur = p2
	}
	for _, n := range notes {
		if strings.Contains(n, "did not type-check") || strings.Contains(n, "abandoned") {
			t.Fatalf("overlay rejected: %v", notes)
		}
	}
	if cur == p {
		t.Fatalf("nothing expanded: %v", notes)
	}
	var ov string
	for name, b := range cur.overlay {
		if strings.HasSuffix(name, "demo.go") {
			ov = string(b)
		}
	}
	body := ov[strings.Index(ov, "func Caller"):strings.Index(ov, "func Forward")]
	for _, gone := range []string{"check(", "push(", "split(", "reset(", "settled(", "add(a", "both("} {
		if strings.Contains(body, gone) {
			t.Errorf("call %q not expanded in Caller:\n%s", gone, body)
		}
	}
	for _, want := range []string{
		"xs = append(xs, 1)",           // accumulator parameter substituted, literal argument substituted
		"seen = make(map[string]bool)", // result local unified with the target
		"a.name = \"x\"",               // variadic loop unrolled with the element substituted
		"b.name = \"x\"",
		"a.n += 2",         // closure expanded with both arguments substituted
		"s.byName(a.name)", // a query with a search loop stays a call (postcondition instead)
	} {
		if !strings.Contains(body, want) {
			t.Errorf("expected %q in the expanded Caller:\n%s", want, body)
		}
	}
	earlyTxt := ov[strings.Index(ov, "func Early"):strings.Index(ov, "func Part")]
	if strings.Contains(earlyTxt, "firstBig(") || !strings.Contains(earlyTxt, "break inlonce") {
		t.Errorf("helper with a return inside a loop not expanded in early mode:\n%s", earlyTxt)
	}
	part := ov[strings.Index(ov, "func Part"):strings.Index(ov, "type namer")]
	if strings.Contains(part, "check(") || !strings.Contains(part, "return 7, inl_r") {
		t.Errorf("call among the results of a return not hoisted and expanded:\n%s", part)
	}
	nested := ov[strings.Index(ov, "func Nested"):strings.Index(ov, "func NotNested")]
	if strings.Contains(nested, "label(") || !strings.Contains(nested, "name: inl_l") || !strings.Contains(nested, "append(out, inl_l") {
		t.Errorf("helper calls nested in a literal / an argument list not hoisted and expanded:\n%s", nested)
	}
	notNested := ov[strings.Index(ov, "func NotNested"):]
	if !strings.Contains(notNested, "bump(r)") || !strings.Contains(notNested, "label(r) == \"x\"") {
		t.Errorf("a writing helper next to a memory read, or a call under &&, must stay in place:\n%s", notNested)
	}
	named := ov[strings.Index(ov, "func NamedResults"):]
	if strings.Contains(named, "splitNames(") || !regexp.MustCompile(`var err_inl\d+ error`).MatchString(named) || !regexp.MustCompile(`var last(_inl\d+)? string`).MatchString(named) {
		t.Errorf("named results of several types must each keep their own type when expanded:\n%s", named)
	}
	typed := ov[strings.Index(ov, "func Typed"):strings.Index(ov, "func label")]
	if !strings.Contains(typed, "*rec") {
		t.Errorf("the *rec local of pick must keep its type when pick is expanded into Typed:\n%s", typed)
	}
	// positions map back to the original file
	fi := cur.Func("demo", "Caller")
	if fi == nil {
		t.Fatal("Caller not found in the expanded program")
	}
	lineOf := func(marker string) int {
		return strings.Count(inlSrc[:strings.Index(inlSrc, marker)], "\n") + 1
	}
	for _, name := range []string{"Caller", "Forward"} {
		f := cur.Func("demo", name)
		if f == nil {
			t.Fatalf("%s not found in the expanded program", name)
		}
		want := fmt.Sprintf("demo/demo.go:%d", lineOf("func "+name))
		if pos := cur.Pos(f.Decl); !strings.HasSuffix(pos, want) {
			t.Errorf("position of %s maps to %s, want %s", name, pos, want)
		}
	}
	_ = fi
}
