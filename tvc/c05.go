package main

// C05 — a daemon restart keeps acknowledged allocations and never double-allocates.

import (
	"fmt"
	"go/ast"
	"go/token"
	"go/types"
	"reflect"
	"sort"
	"strconv"
	"strings"
)

func init() { registry["C05"] = c05 }

const storagePkg = "pkg/storage"

func c05(c *Ctx) {
	if c.P.Pkg(daemonPkg) == nil || c.P.Pkg(storagePkg) == nil {
		c.Unres("C05", daemonPkg+" / "+storagePkg, "package not loaded")
		return
	}
	c05R1(c)
	c05R2(c)
	c05R3(c)
	c05R4(c)
	c05R5(c)
	c05R6(c)
	c05R7(c)
	// a record is read and rewritten by one request per pod at a time (shared rule)
	c04R1(c)
	// a DEL that matches the record removes it: no binding outlives its acknowledged teardown
	c04R6(c)
	c05R8(c)
	c05R9(c)
	// shared: the collector holds the write lock for the whole pass (C04.R2) — it cannot delete the
	// record of an ADD acknowledged meanwhile
	c04R2(c)
	// shared: what a restart restores is not thrown away again — the start-up trim (and every other
	// Dispose) touches unowned addresses only (C06.R3, with C01.R10 for "after the owners were restored")
	c06R3(c)
	c01R10(c)
	c05R10(c)
}

// R10: a failed write of the record store is not acknowledged. With the error of Storage.Put /
// Storage.Delete non-nil, every exit of the daemon function that issued it reports a failure — a
// DEL whose record could not be removed is not acknowledged (the record would hand the address to
// its old owner again after a restart).
func c05R10(c *Ctx) {
	p := c.P
	c.Rule("C05.R10", "a failed write of the record store makes the operation fail: with the error of Storage.Put / Storage.Delete non-nil every exit of the daemon function that issued it returns a non-nil error (or the call's result is returned as it is)")
	put, del := p.Method(storagePkg, "Storage", "Put"), p.Method(storagePkg, "Storage", "Delete")
	if put == nil || del == nil {
		c.Unres("C05.R10", "storage.Storage.Put / Delete", "not found")
		return
	}
	n, direct := 0, 0
	for _, fn := range p.FuncsInPkg(daemonPkg) {
		cs := p.CallsTo([]*FuncInfo{fn}, put, del)
		if len(cs) == 0 {
			continue
		}
		for _, s := range cs {
			if _, isRet := parentStmt(fn, s.Call).(*ast.ReturnStmt); isRet && s.Lit == nil {
				direct++
				c.OK("C05.R10", fn.Name+": the result of "+s.Callee.Name()+" is the function's result", p.Pos(s.Call), fn.Key(), "return store."+s.Callee.Name()+"(…)")
			}
		}
		n += stickyErrors(c, "C05.R10", fn, func(f *types.Func) bool { return f == put || f == del }, "record-store write")
	}
	c.Floor("C05.R10", "record-store writes in the daemon", 2, n+direct)
}

// R1: ADD is acknowledged only after the record is on disk.
func c05R1(c *Ctx) {
	p := c.P
	c.Rule("C05.R1", "AllocIP acknowledges only after eniMgr.Allocate then resourceDB.Put succeeded, in that order, on every path; the record carries the request's container ID and the allocated resources; the reply's NetConfs are filled after the write")
	fn := p.Func(daemonPkg, "networkService.AllocIP")
	if fn == nil {
		c.Unres("C05.R1", "networkService.AllocIP", "not found")
		return
	}
	info := fn.Info()
	sig := fn.Obj.Type().(*types.Signature)
	allocM := p.Method(eniPkg, "Manager", "Allocate")
	putM := p.Method(storagePkg, "Storage", "Put")
	allocs := p.CallsTo([]*FuncInfo{fn}, allocM)
	puts := p.CallsTo([]*FuncInfo{fn}, putM)
	if len(allocs) != 1 || len(puts) != 1 {
		c.Bad("C05.R1", "AllocIP: one Allocate and one Put", p.Pos(fn.Decl), fn.Key(), "exactly one eniMgr.Allocate and one resourceDB.Put", fmt.Sprintf("found %d / %d", len(allocs), len(puts)))
		return
	}
	alloc, put := allocs[0].Call, puts[0].Call
	q := NewPathQuery(p, fn, nil)
	n := 0
	for _, r := range declReturns(fn.Decl.Body) {
		if ok, known := isSuccessReturn(info, sig, r); !ok || !known {
			continue
		}
		n++
		w := q.Escapes(nil, isExactly(r), isExactly(put), nil)
		c.Check(w == nil, "C05.R1", "AllocIP success return only after resourceDB.Put", p.Pos(r), fn.Key(), "must-pass: entry → resourceDB.Put → return reply, nil", "path: "+p.describePath(w))
		// the Put's error is the one tested: success requires err == nil with err last assigned by Put
		_, lhs := assignedFromCall(fn, put)
		if len(lhs) == 1 && lhs[0] != nil {
			errObj := lhs[0]
			c.RequireF("C05.R1", "AllocIP success return only when the write succeeded", fn, r, errObj.Name()+" == nil (assigned by resourceDB.Put)", func(e *FactEngine) (*Formula, error) {
				return e.eqAtom(objID(errObj), "nil", []string{objID(errObj)}), nil
			})
			w = q.Escapes(func(nd ast.Node) bool { return nd.Pos() > put.End() && assignsVar(info, errObj)(nd) }, isExactly(r), isExactly(put), nil)
			c.Check(w == nil, "C05.R1", "AllocIP success return tests the write's own error", p.Pos(r), fn.Key(), "no later assignment of the error variable between Put and the success return", "path: "+p.describePath(w))
		} else {
			c.Bad("C05.R1", "AllocIP: Put error bound", p.Pos(put), fn.Key(), "err = resourceDB.Put(...)", "result discarded")
		}
	}
	c.Floor("C05.R1", "success returns of AllocIP", 1, n)
	w := q.Escapes(nil, isExactly(put), isExactly(alloc), nil)
	c.Check(w == nil, "C05.R1", "AllocIP writes the record only after the allocation", p.Pos(put), fn.Key(), "must-pass: entry → eniMgr.Allocate → resourceDB.Put", "path: "+p.describePath(w))
	// reply.NetConfs after Put
	nc := p.Field("rpc", "AllocIPReply", "NetConfs")
	for _, s := range p.StoresTo([]*FuncInfo{fn}, nc) {
		if s.InLit {
			c.Bad("C05.R1", "AllocIP reply.NetConfs set in the literal", p.Pos(s.Node), fn.Key(), "NetConfs assigned after the write", "set at construction")
			continue
		}
		w := q.Escapes(nil, isExactly(s.Node), isExactly(put), nil)
		c.Check(w == nil, "C05.R1", "AllocIP fills reply.NetConfs only after the write", p.Pos(s.Node), fn.Key(), "must-pass: resourceDB.Put → reply.NetConfs = …", "path: "+p.describePath(w))
	}
	// the stored value: PodResources literal with ContainerID = &request.K8SPodInfraContainerId, Resources from resp.ToStore, PodInfo = pod
	valObj := identObj(info, put.Args[1])
	okLit := false
	detail := "second Put argument is not a local initialised with a PodResources literal"
	// the literal: the argument itself, or the initialiser of the local that is passed
	var lits []*ast.CompositeLit
	if cl, ok := ast.Unparen(put.Args[1]).(*ast.CompositeLit); ok {
		lits = append(lits, cl)
	}
	if valObj != nil {
		for _, d := range varDefs(fn, valObj) {
			if cl, ok := ast.Unparen(d.rhs).(*ast.CompositeLit); ok {
				lits = append(lits, cl)
			}
		}
	}
	{
		for _, cl := range lits {
			fields := map[string]ast.Expr{}
			for _, el := range cl.Elts {
				if kv, ok := el.(*ast.KeyValueExpr); ok {
					fields[kv.Key.(*ast.Ident).Name] = kv.Value
				}
			}
			req := fn.Decl.Type.Params.List[1].Names[0]
			cidOK := false
			if ue, ok := ast.Unparen(fields["ContainerID"]).(*ast.UnaryExpr); ok {
				if sel, ok := ast.Unparen(ue.X).(*ast.SelectorExpr); ok && sel.Sel.Name == "K8SPodInfraContainerId" && identObj(info, derefExpr(fn, sel.X)) == info.Defs[req] {
					cidOK = true
				}
			}
			resOK := false
			if ro := identObj(info, derefExpr(fn, fields["Resources"])); ro != nil {
				for _, rd := range varDefs(fn, ro) {
					if rd.rhs != nil && strings.Contains(exprString(rd.rhs), ".ToStore()") {
						resOK = true
					}
				}
			}
			podOK := fields["PodInfo"] != nil && fields["NetConf"] != nil
			okLit = cidOK && resOK && podOK
			detail = fmt.Sprintf("containerID=%v resources=%v podinfo+netconf=%v", cidOK, resOK, podOK)
		}
	}
	c.Check(okLit, "C05.R1", "AllocIP stores the request's container ID, the allocated resources, the pod and the reply", p.Pos(put), fn.Key(), "PodResources{PodInfo: pod, Resources: resp[*].ToStore(), ContainerID: &r.K8SPodInfraContainerId, NetConf: …}", detail)
	// key: same shape as the pending/owner key
	c.Check(shapeOfVar(p, fn, put.Args[0]) == "<ns>/<name>", "C05.R1", "AllocIP record key shape", p.Pos(put), fn.Key(), "key = <namespace>/<name>", shapeOfVar(p, fn, put.Args[0]))
}

func shapeOfVar(p *Prog, fn *FuncInfo, x ast.Expr) string {
	info := fn.Info()
	// through locals that hold the key: the one definition that gives the variable a value
	// (`var k string` followed by a single assignment counts as one)
	for hop := 0; hop < 3; hop++ {
		o := identObj(info, x)
		if o == nil {
			break
		}
		var valued []varDef
		for _, d := range varDefs(fn, o) {
			if d.rhs != nil {
				valued = append(valued, d)
			}
		}
		if len(valued) != 1 {
			break
		}
		x = valued[0].rhs
	}
	return shapeOf(p, info, x, 0).String()
}

// R2: release before the record is deleted.
func c05R2(c *Ctx) {
	p := c.P
	c.Rule("C05.R2", "DEL and GC delete the record only after every stored resource was released and the release succeeded (a crash in between leaves a record that GC retries)")
	relM := p.Method(eniPkg, "Manager", "Release")
	for _, name := range []string{"networkService.ReleaseIP", "networkService.gcPods"} {
		fn := p.Func(daemonPkg, name)
		if fn == nil {
			c.Unres("C05.R2", name, "not found")
			continue
		}
		info := fn.Info()
		dels := findCalls(fn, func(call *ast.CallExpr) bool { return isRecordDelete(p, info, call) })
		rels := p.CallsTo([]*FuncInfo{fn}, relM)
		if len(dels) == 0 || len(rels) == 0 {
			c.Bad("C05.R2", name+": release and delete present", p.Pos(fn.Decl), fn.Key(), "eniMgr.Release and deletePodResource", fmt.Sprintf("%d/%d", len(rels), len(dels)))
			continue
		}
		q := NewPathQuery(p, fn, nil)
		for _, d := range dels {
			// the per-pod scope: the outermost range statement enclosing the delete (gcPods) — passing its head starts another pod
			var outer *ast.RangeStmt
			for _, nd := range pathTo(fn.Decl.Body, d) {
				if rs, ok := nd.(*ast.RangeStmt); ok && outer == nil {
					outer = rs
				}
			}
			q.StopBlock = nil
			if outer != nil {
				q.StopBlock = loopHead(outer)
			}
			for _, r := range rels {
				w := q.Escapes(isExactly(d), isExactly(r.Call), nil, nil)
				c.Check(w == nil, "C05.R2", name+": no release after the record was deleted", p.Pos(d), fn.Key(), "never-before: deletePodResource → eniMgr.Release for the same pod", "path: "+p.describePath(w))
				// release error returns before the delete
				_, lhs := assignedFromCall(fn, r.Call)
				if len(lhs) != 1 || lhs[0] == nil {
					c.Bad("C05.R2", name+": release error bound", p.Pos(r.Call), fn.Key(), "err = eniMgr.Release(…)", "error discarded")
					continue
				}
				// with the release's error non-nil — followed through copies into other error
				// variables — the delete of the same pod's record is not reachable
				var errVars []types.Object
				seenE := map[types.Object]bool{}
				ast.Inspect(fn.Decl.Body, func(k ast.Node) bool {
					if id, ok := k.(*ast.Ident); ok {
						if v, ok := info.ObjectOf(id).(*types.Var); ok && !v.IsField() && !seenE[v] && v.Type().String() == "error" && len(errVars) < 12 {
							seenE[v] = true
							errVars = append(errVars, v)
						}
					}
					return true
				})
				as, _ := assignedFromCall(fn, r.Call)
				q2 := NewPathQuery(p, fn, nil)
				q2.StopBlock = q.StopBlock
				q2.TrackNils = errVars
				q2.StartNil = map[types.Object]int{lhs[0]: nilNo}
				w2 := q2.Escapes(isExactly(as), isExactly(d), nil, nil)
				c.Check(w2 == nil, "C05.R2", name+": a failed release keeps the record", p.Pos(r.Call), fn.Key(), "with err != nil after eniMgr.Release the delete of the record is not reachable", "path: "+p.describePath(w2))
			}
		}
	}
}

// isRecordDelete: the call removes a pod record from the daemon's database — Storage.Delete on
// the resource DB, or the daemon's one-line wrapper around it when it was not expanded.
func isRecordDelete(p *Prog, info *types.Info, call *ast.CallExpr) bool {
	callee := Callee(info, call)
	if callee == nil {
		return false
	}
	if callee == p.Method(storagePkg, "Storage", "Delete") {
		if sel, ok := ast.Unparen(call.Fun).(*ast.SelectorExpr); ok {
			return strings.HasSuffix(exprString(sel.X), "resourceDB")
		}
		return false
	}
	return fnName(callee) == "deletePodResource"
}

// R3: the store writes disk first, memory second, reloads everything on open and never disables fsync.
func c05R3(c *Ctx) {
	p := c.P
	c.Rule("C05.R3", "DiskStorage.Put/Delete commit the bolt transaction before touching the in-memory view and touch it only when the transaction succeeded; NewDiskStorage reloads the whole bucket before returning; bolt's NoSync/NoGrowSync/NoFreelistSync are never set")
	for _, m := range []string{"Put", "Delete"} {
		fn := p.Func(storagePkg, "DiskStorage."+m)
		if fn == nil {
			c.Unres("C05.R3", "DiskStorage."+m, "not found")
			continue
		}
		info := fn.Info()
		var upd, mem *ast.CallExpr
		for _, cs := range p.CallsIn(fn) {
			if cs.Lit != nil || cs.Callee == nil {
				continue
			}
			if cs.Callee.Name() == "Update" && cs.Callee.Pkg() != nil && strings.HasSuffix(cs.Callee.Pkg().Path(), "boltdb/bolt") {
				upd = cs.Call
			}
			if methodOn(p, cs.Callee, modPath+"/"+storagePkg, "MemoryStorage", m) {
				mem = cs.Call
			}
		}
		if upd == nil || mem == nil {
			c.Bad("C05.R3", "DiskStorage."+m+": bolt Update and memory "+m, p.Pos(fn.Decl), fn.Key(), "both present", fmt.Sprintf("update=%v memory=%v", upd != nil, mem != nil))
			continue
		}
		q := NewPathQuery(p, fn, nil)
		w := q.Escapes(nil, isExactly(mem), isExactly(upd), nil)
		c.Check(w == nil, "C05.R3", "DiskStorage."+m+": disk before memory", p.Pos(mem), fn.Key(), "must-pass: entry → db.Update → memory."+m, "path: "+p.describePath(w))
		// and nothing is acknowledged without a transaction (no cached / short-cut success)
		sig := fn.Obj.Type().(*types.Signature)
		w2 := q.Escapes(nil, nil, isExactly(upd), func(ret *ast.ReturnStmt) bool {
			return guardedFailure(fn, sig, ret)
		})
		c.Check(w2 == nil, "C05.R3", "DiskStorage."+m+": every acknowledged call committed a transaction", p.Pos(fn.Decl), fn.Key(), "must-pass: entry → db.Update → success return", "path: "+p.describePath(w2))
		_, lhs := assignedFromCall(fn, upd)
		if len(lhs) == 1 && lhs[0] != nil {
			errObj := lhs[0]
			c.RequireF("C05.R3", "DiskStorage."+m+": memory updated only when the transaction succeeded", fn, mem, "err == nil", func(e *FactEngine) (*Formula, error) {
				return e.eqAtom(objID(errObj), "nil", []string{objID(errObj)}), nil
			})
		} else {
			c.Bad("C05.R3", "DiskStorage."+m+": transaction error bound", p.Pos(upd), fn.Key(), "err = db.Update(…)", "discarded")
		}
		// the transaction closure writes the key it was given
		lit, _ := ast.Unparen(upd.Args[0]).(*ast.FuncLit)
		okKey := false
		if lit != nil {
			keyParam := info.Defs[fn.Decl.Type.Params.List[0].Names[0]]
			ast.Inspect(lit.Body, func(k ast.Node) bool {
				if call, ok := k.(*ast.CallExpr); ok {
					if f := Callee(info, call); f != nil && f.Name() == m && len(call.Args) >= 1 {
						ast.Inspect(call.Args[0], func(j ast.Node) bool {
							if id, ok := j.(*ast.Ident); ok && info.ObjectOf(id) == keyParam {
								okKey = true
							}
							return true
						})
					}
				}
				return true
			})
		}
		c.Check(okKey, "C05.R3", "DiskStorage."+m+": the transaction writes the caller's key", p.Pos(upd), fn.Key(), "bucket."+m+"([]byte(key), …) inside db.Update", "not recognised")
	}
	// NewDiskStorage: load before every success return
	nd := p.Func(storagePkg, "NewDiskStorage")
	load := p.Func(storagePkg, "DiskStorage.load")
	if nd == nil || load == nil {
		c.Unres("C05.R3", "NewDiskStorage / DiskStorage.load", "not found")
	} else {
		q := NewPathQuery(p, nd, nil)
		sig := nd.Obj.Type().(*types.Signature)
		for _, r := range declReturns(nd.Decl.Body) {
			if ok, known := isSuccessReturn(nd.Info(), sig, r); ok && known {
				w := q.Escapes(nil, isExactly(r), q.callTo(load.Obj), nil)
				c.Check(w == nil, "C05.R3", "NewDiskStorage reloads before returning", p.Pos(r), nd.Key(), "must-pass: entry → load() → return storage, nil", "path: "+p.describePath(w))
			}
		}
		// load iterates the whole bucket: either a cursor loop (First … Next while the key is non-nil) or
		// Bucket.ForEach; per entry, every way on to the next entry (or to a successful end) passes
		// memory.Put — an entry is skipped only by aborting the whole load with an error
		full := false
		linfo := load.Info()
		isPut := containsNode(func(j ast.Node) bool {
			call, ok := j.(*ast.CallExpr)
			return ok && methodOn(p, Callee(linfo, call), modPath+"/"+storagePkg, "MemoryStorage", "Put")
		})
		failing := func(sig *types.Signature) func(*ast.ReturnStmt) bool {
			return func(ret *ast.ReturnStmt) bool {
				if sig == nil {
					return false
				}
				return guardedFailure(load, sig, ret)
			}
		}
		ast.Inspect(load.Decl.Body, func(k ast.Node) bool {
			switch t := k.(type) {
			case *ast.ForStmt:
				if t.Init == nil || t.Cond == nil || t.Post == nil {
					return true
				}
				if !strings.Contains(exprString2(t.Init), ".First()") || !strings.Contains(exprString2(t.Post), ".Next()") || !strings.Contains(exprString(t.Cond), "!= nil") {
					return true
				}
				var body *ast.BlockStmt = load.Decl.Body
				var sig *types.Signature = load.Obj.Type().(*types.Signature)
				if lit := enclosingLit(load.Decl.Body, t); lit != nil {
					body = lit.Body
					sig, _ = linfo.TypeOf(lit).(*types.Signature)
				}
				q := NewPathQuery(p, load, body)
				q.ToBlock = loopHead(t)
				q.Prune = func(cond ast.Expr, takeTrue bool) bool { return cond == t.Cond && !takeTrue } // one entry: the loop is entered
				w := q.Escapes(isExactly(t.Cond), nil, isPut, failing(sig))
				full = w == nil
			case *ast.CallExpr:
				f := Callee(linfo, t)
				if f == nil || f.Name() != "ForEach" || f.Pkg() == nil || !strings.HasSuffix(f.Pkg().Path(), "boltdb/bolt") || len(t.Args) != 1 {
					return true
				}
				lit, ok := ast.Unparen(t.Args[0]).(*ast.FuncLit)
				if !ok {
					return true
				}
				sig, _ := linfo.TypeOf(lit).(*types.Signature)
				q := NewPathQuery(p, load, lit.Body)
				w := q.Escapes(nil, nil, isPut, failing(sig))
				full = w == nil
			}
			return true
		})
		c.Check(full, "C05.R3", "load iterates the whole bucket", p.Pos(load.Decl), load.Key(), "cursor loop First…Next or Bucket.ForEach; per entry must-pass memory.Put before the next entry / a successful end", "an entry can be skipped without aborting the load, or the iteration is not recognised")
	}
	// nobody disables bolt's fsync
	bad := 0
	for _, fn := range p.AllFuncs() {
		ast.Inspect(fn.Decl.Body, func(k ast.Node) bool {
			if sel, ok := k.(*ast.SelectorExpr); ok {
				if fv := fieldOf(fn.Info(), sel); fv != nil && fv.Pkg() != nil && strings.HasSuffix(fv.Pkg().Path(), "boltdb/bolt") {
					switch fv.Name() {
					case "NoSync", "NoGrowSync", "NoFreelistSync":
						bad++
						c.Bad("C05.R3", "bolt "+fv.Name()+" touched in "+fn.Key(), p.Pos(sel), fn.Key(), "bolt fsync options are never changed", "reference to bolt."+fv.Name())
					}
				}
			}
			if kv, ok := k.(*ast.KeyValueExpr); ok {
				if id, ok := kv.Key.(*ast.Ident); ok && (id.Name == "NoSync" || id.Name == "NoGrowSync" || id.Name == "NoFreelistSync") {
					if fv, ok := fn.Info().Uses[id].(*types.Var); ok && fv.Pkg() != nil && strings.HasSuffix(fv.Pkg().Path(), "boltdb/bolt") {
						bad++
						c.Bad("C05.R3", "bolt "+id.Name+" set in "+fn.Key(), p.Pos(kv), fn.Key(), "bolt fsync options are never changed", "option literal")
					}
				}
			}
			return true
		})
	}
	if bad == 0 {
		c.OK("C05.R3", "no bolt NoSync/NoGrowSync/NoFreelistSync anywhere", "", "", "zero references (positive control: the matcher resolves bolt.DB fields via go/types)")
	}
	// positive control: the bolt package and its NoSync field resolve, so the zero count is meaningful
	var boltOK bool
	for path, pk := range p.All {
		if strings.HasSuffix(path, "boltdb/bolt") && pk.Types != nil {
			if db := pk.Types.Scope().Lookup("DB"); db != nil {
				if st, ok := db.Type().Underlying().(*types.Struct); ok {
					for i := 0; i < st.NumFields(); i++ {
						if st.Field(i).Name() == "NoSync" {
							boltOK = true
						}
					}
				}
			}
		}
	}
	c.Check(boltOK, "C05.R3", "positive control: bolt.DB.NoSync resolves", "", "", "the dependency providing fsync options is loaded", "bolt package not found in the load")
	// the daemon's database is the disk store
	irb := p.Func(daemonPkg, "NetworkServiceBuilder.InitResourceDB")
	okDisk := false
	if irb != nil {
		for _, cs := range p.CallsIn(irb) {
			if cs.Callee != nil && cs.Callee.Name() == "NewDiskStorage" {
				okDisk = true
			}
		}
	}
	c.Check(okDisk, "C05.R3", "the daemon's resource database is a DiskStorage", "", "daemon.NetworkServiceBuilder.InitResourceDB", "resourceDB = storage.NewDiskStorage(…)", "not found")
}

func exprString2(n ast.Node) string {
	switch t := n.(type) {
	case *ast.AssignStmt:
		var parts []string
		for _, r := range t.Rhs {
			parts = append(parts, exprString(r))
		}
		return strings.Join(parts, ",")
	case ast.Expr:
		return exprString(t)
	}
	return ""
}

// R4: stored bindings are re-applied to the pool on start.
func c05R4(c *Ctx) {
	p := c.P
	c.Rule("C05.R4", "on start the records of the database (minus those of vanished ENIs) are handed to every pool's Run, which restores ownership before any worker starts; restoration marks the stored address for the stored pod key")
	setup := p.Func(daemonPkg, "NetworkServiceBuilder.setupENIManager")
	if setup == nil {
		c.Unres("C05.R4", "setupENIManager", "not found")
		return
	}
	info := setup.Info()
	runM := p.Method(eniPkg, "Manager", "Run")
	listM := p.Method(storagePkg, "Storage", "List")
	runs := p.CallsTo([]*FuncInfo{setup}, runM)
	c.Floor("C05.R4", "Manager.Run calls in setupENIManager", 1, len(runs))
	for _, r := range runs {
		// third argument derives (through getPodResources / filterENINotFound) from resourceDB.List()
		derives := func(x ast.Expr) bool {
			seen := map[types.Object]bool{}
			var rec func(x ast.Expr, depth int) bool
			rec = func(x ast.Expr, depth int) bool {
				if depth > 6 || x == nil {
					return false
				}
				found := false
				ast.Inspect(x, func(k ast.Node) bool {
					if found {
						return false
					}
					if call, ok := k.(*ast.CallExpr); ok && Callee(info, call) == listM {
						found = true
						return false
					}
					if id, ok := k.(*ast.Ident); ok {
						if o, ok := info.ObjectOf(id).(*types.Var); ok && !o.IsField() && !seen[o] {
							seen[o] = true
							for _, d := range varDefs(setup, o) {
								rhs := d.rhs
								if rhs == nil {
									if as, ok := d.node.(*ast.AssignStmt); ok && len(as.Rhs) == 1 {
										rhs = as.Rhs[0]
									}
								}
								if rec(rhs, depth+1) {
									found = true
								}
							}
						}
					}
					return true
				})
				return found
			}
			return rec(x, 0)
		}
		c.Check(len(r.Call.Args) == 3 && derives(r.Call.Args[2]), "C05.R4", "eniManager.Run receives the stored records", p.Pos(r.Call), setup.Key(), "Run(…, podResources) with podResources derived from resourceDB.List()", "no def-use chain to resourceDB.List()")
	}
	// Manager.Run passes them to every interface; Local.Run calls load first (C01.R1 checks no goroutine before it)
	mrun := p.Func(eniPkg, "Manager.Run")
	niRun := p.Method(eniPkg, "NetworkInterface", "Run")
	if mrun != nil {
		ok := false
		param := mrun.Info().Defs[mrun.Decl.Type.Params.List[2].Names[0]]
		for _, cs := range p.CallsTo([]*FuncInfo{mrun}, niRun) {
			if len(cs.Call.Args) >= 2 && identObj(mrun.Info(), cs.Call.Args[1]) == param {
				for _, nd := range pathTo(mrun.Decl.Body, cs.Call) {
					if rs, isR := nd.(*ast.RangeStmt); isR {
						if fv := fieldOf(mrun.Info(), rs.X); fv != nil && fv.Name() == "networkInterfaces" {
							ok = true
						}
					}
				}
			}
		}
		c.Check(ok, "C05.R4", "Manager.Run hands the records to every interface", p.Pos(mrun.Decl), mrun.Key(), "for _, ni := range m.networkInterfaces { ni.Run(ctx, podResources, wg) }", "not recognised")
	}
	lrun := p.Func(eniPkg, "Local.Run")
	load := p.Func(eniPkg, "Local.load")
	if lrun != nil && load != nil {
		q := NewPathQuery(p, lrun, nil)
		isGo := func(n ast.Node) bool { _, ok := n.(*ast.GoStmt); return ok }
		w := q.Escapes(nil, isGo, q.callTo(load.Obj), nil)
		c.Check(w == nil, "C05.R4", "Local.Run restores ownership before starting workers", p.Pos(lrun.Decl), lrun.Key(), "never-before: go statement before load(podResources)", "path: "+p.describePath(w))
		// and a failed load aborts Run
		_, lhs := assignedFromCall(lrun, findCalls(lrun, func(call *ast.CallExpr) bool { return Callee(lrun.Info(), call) == load.Obj })[0])
		okAbort := false
		if len(lhs) == 1 && lhs[0] != nil {
			if arm := errArm(lrun, lhs[0], 0); arm != nil && len(arm.Body.List) > 0 {
				_, okAbort = arm.Body.List[len(arm.Body.List)-1].(*ast.ReturnStmt)
			}
		}
		c.Check(okAbort, "C05.R4", "Local.Run aborts when restoration fails", p.Pos(lrun.Decl), lrun.Key(), "err := l.load(…); if err != nil { return err }", "not recognised")
	}
	// load: every Allocate(podID) receiver is looked up by the stored address of the matching family
	if load != nil {
		linfo := load.Info()
		allocM := p.Method(eniPkg, "IP", "Allocate")
		n := 0
		for _, cs := range p.CallsTo([]*FuncInfo{load}, allocM) {
			n++
			recv := identObj(linfo, ast.Unparen(cs.Call.Fun).(*ast.SelectorExpr).X)
			okSrc := false
			detail := "receiver not defined by an index into l.ipv4 / l.ipv6"
			if recv != nil {
				// nearest preceding definition
				var best *varDef
				ds := varDefs(load, recv)
				for i := range ds {
					if ds[i].node.Pos() < cs.Call.Pos() && (best == nil || ds[i].node.Pos() > best.node.Pos()) {
						best = &ds[i]
					}
				}
				if best != nil {
					if as, ok := best.node.(*ast.AssignStmt); ok && len(as.Rhs) == 1 {
						if ix, ok := ast.Unparen(as.Rhs[0]).(*ast.IndexExpr); ok {
							if fv := fieldOf(linfo, ix.X); fv != nil && (fv.Name() == "ipv4" || fv.Name() == "ipv6") {
								// index derives from the stored field of the same family
								fam := "IPv4"
								if fv.Name() == "ipv6" {
									fam = "IPv6"
								}
								if ko := identObj(linfo, ix.Index); ko != nil {
									// backward slice of the index variable (through helper-expanded temporaries)
									if src := sliceText(load, ko, 4); strings.Contains(src, "."+fam) || (fam == "IPv4" && strings.Contains(src, "ipStr")) {
										okSrc = true
									}
									for _, kd := range varDefs(load, ko) {
										if kd.node.Pos() < as.Pos() && kd.node.End() > 0 {
											src := ""
											if kas, ok := kd.node.(*ast.AssignStmt); ok && len(kas.Rhs) == 1 {
												src = exprString(kas.Rhs[0])
											}
											if strings.Contains(src, "."+fam) || (fam == "IPv4" && strings.Contains(src, "ipStr")) {
												okSrc = true
											}
										}
									}
								}
								if !okSrc {
									detail = "index is not parsed from the stored " + fam + " field"
								}
							}
						}
					}
				}
			}
			c.Check(okSrc, "C05.R4", "load restores the stored address of the matching family", p.Pos(cs.Call), load.Key(), "v := l.ipvX[parse(res.IPvX)]; v.Allocate(podID)", detail)
			// pod key argument
			c.Check(shapeOfVar(p, load, cs.Call.Args[0]) == "<ns>/<name>", "C05.R4", "load restores under the pod key", p.Pos(cs.Call), load.Key(), "Allocate(<namespace>/<name>)", shapeOfVar(p, load, cs.Call.Args[0]))
		}
		c.Floor("C05.R4", "restoration sites in load", 3, n)
		loadDisposeOrder(c, "C05.R4")
	}
}

// R5: owner-key agreement between the daemon (writer of CNI.PodID) and the pool.
func c05R5(c *Ctx) {
	p := c.P
	c.Rule("C05.R5", "every expression used as pool owner id has the shape <namespace>/<name>: daemon.CNI{PodID: …} literals in the daemon and the key rebuilt by Local.load from the stored record")
	podID := p.Field("types/daemon", "CNI", "PodID")
	if podID == nil {
		c.Unres("C05.R5", "daemon.CNI.PodID", "field not found")
		return
	}
	st := p.StoresTo(nil, podID)
	n := 0
	var shapes []string
	for _, s := range st {
		if s.RHS == nil {
			continue
		}
		n++
		sh := shapeOfVar(p, s.Fn, s.RHS)
		shapes = append(shapes, sh)
		c.Check(sh == "<ns>/<name>", "C05.R5", "CNI.PodID in "+s.Fn.Key(), p.Pos(s.Node), s.Fn.Key(), "PodID has shape <namespace>/<name>", "shape "+sh)
	}
	c.Floor("C05.R5", "CNI.PodID writers", 3, n)
	sort.Strings(shapes)
}

// R6: stored-field agreement.
func c05R6(c *Ctx) {
	p := c.P
	c.Rule("C05.R6", "every field of the stored ResourceItem / PodResources that restart code reads is written when the record is created")
	ri := p.LookupObj("types/daemon", "ResourceItem")
	if ri == nil {
		c.Unres("C05.R6", "daemon.ResourceItem", "not found")
		return
	}
	st := ri.Type().Underlying().(*types.Struct)
	written := map[string]bool{}
	read := map[string][]string{}
	for i := 0; i < st.NumFields(); i++ {
		f := st.Field(i)
		for _, s := range p.StoresTo(nil, f) {
			if strings.HasSuffix(s.Fn.Name, ".ToStore") {
				written[f.Name()] = true
			}
		}
	}
	for _, fn := range p.AllFuncs() {
		if strings.HasSuffix(fn.Name, ".ToStore") || strings.HasSuffix(fn.Name, "GetResourceItemByType") {
			continue
		}
		info := fn.Info()
		ast.Inspect(fn.Decl.Body, func(k ast.Node) bool {
			if sel, ok := k.(*ast.SelectorExpr); ok {
				if fv := fieldOf(info, sel); fv != nil {
					for i := 0; i < st.NumFields(); i++ {
						if st.Field(i) == fv {
							read[fv.Name()] = append(read[fv.Name()], fn.Key())
						}
					}
				}
			}
			return true
		})
	}
	var names []string
	for f := range read {
		names = append(names, f)
	}
	sort.Strings(names)
	for _, f := range names {
		c.Check(written[f], "C05.R6", "ResourceItem."+f+" read ⇒ written by ToStore", "", strings.Join(uniq(read[f]), ","), "field is set by some ToStore()", "read but never written when a record is created")
	}
	c.Floor("C05.R6", "ResourceItem fields read by restart / release code", 4, len(names))
}

// R5: what the daemon writes into a record is what the restart path understands.
func c05R7(c *Ctx) {
	p := c.P
	c.Rule("C05.R7", "every resource type stored in a pod record is one that Local.load restores on restart (a record written under another type survives in the database but its addresses are handed out again)")
	load := p.Func(eniPkg, "Local.load")
	typeF := p.Field("types/daemon", "ResourceItem", "Type")
	if load == nil || typeF == nil {
		c.Unres("C05.R7", "Local.load / ResourceItem.Type", "not found")
		return
	}
	restored := map[string]bool{}
	ast.Inspect(load.Decl.Body, func(nd ast.Node) bool {
		if o, ok := identObjSel(load.Info(), asExpr(nd)).(*types.Const); ok && strings.HasPrefix(o.Name(), "ResourceType") {
			restored[o.Name()] = true
		}
		return true
	})
	c.Floor("C05.R7", "resource types Local.load restores", 1, len(restored))
	n := 0
	// the record path: the ToStore implementations of the pool backends and the daemon itself
	scope := append(append([]*FuncInfo{}, p.FuncsInPkg(eniPkg)...), p.FuncsInPkg(daemonPkg)...)
	for _, st := range p.StoresTo(scope, typeF) {
		if st.RHS == nil {
			continue
		}
		n++
		o, _ := identObjSel(st.Fn.Info(), st.RHS).(*types.Const)
		key := "record type written in " + st.Fn.Key()
		if o == nil {
			// a copy of another item's type is as good as that item
			if sel, ok := ast.Unparen(st.RHS).(*ast.SelectorExpr); ok && sel.Sel.Name == "Type" {
				c.OK("C05.R7", key, p.Pos(st.Node), st.Fn.Key(), "copied from a stored item")
				continue
			}
			c.Undec("C05.R7", key, p.Pos(st.Node), st.Fn.Key(), "Type: <ResourceType constant>", "not a constant: "+exprString(st.RHS))
			continue
		}
		c.Check(restored[o.Name()], "C05.R7", key, p.Pos(st.Node), st.Fn.Key(), "Type ∈ "+strings.Join(keysOf(restored), ", "), o.Name()+" is not restored by Local.load")
	}
	c.Floor("C05.R7", "writes of ResourceItem.Type", 1, n)
}

// R8: what start-up forgets. filterENINotFound drops a stored resource from the
// records handed to the pools only when the interface it names is not attached
// any more: each removal is under "not found among the attached interfaces"
// (the map lookup by id failed, or the scan by MAC found nothing). A record
// dropped for any other reason leaves an address that a live pod uses unowned
// in the rebuilt pool.
func c05R8(c *Ctx) {
	p := c.P
	c.Rule("C05.R8", "filterENINotFound removes a stored resource only when its interface is not among the attached ones (lookup by id failed / scan by MAC found nothing); nothing else about the interface (its kind, its trunk flag) makes start-up forget a binding")
	fn := p.Func(daemonPkg, "filterENINotFound")
	resF := p.Field(modPath+"/types/daemon", "PodResources", "Resources")
	if fn == nil || resF == nil {
		c.Unres("C05.R8", "filterENINotFound / PodResources.Resources", "not found")
		return
	}
	info := fn.Info()
	var attached types.Object
	for _, f := range fn.Decl.Type.Params.List {
		for _, nm := range f.Names {
			if _, isMap := info.Defs[nm].Type().Underlying().(*types.Map); isMap {
				attached = info.Defs[nm]
			}
		}
	}
	if attached == nil {
		c.Undec("C05.R8", "filterENINotFound(records, attached)", p.Pos(fn.Decl), fn.Key(), "a map parameter of attached interfaces", "signature changed")
		return
	}
	var alts []string
	ast.Inspect(fn.Decl.Body, func(k ast.Node) bool {
		switch t := k.(type) {
		case *ast.AssignStmt:
			if len(t.Lhs) == 2 && len(t.Rhs) == 1 {
				if ix, ok := ast.Unparen(t.Rhs[0]).(*ast.IndexExpr); ok && identObj(info, ix.X) == attached {
					if nm := exprString(t.Lhs[1]); nm != "_" {
						alts = append(alts, "!"+nm)
					}
				}
			}
		case *ast.CallExpr:
			// the same test moved into a predicate that is handed the attached interfaces
			for ai, a := range t.Args {
				if identObj(info, a) == attached {
					if fi := p.FuncOf(Callee(info, t)); fi != nil && absentOnlyAfterScan(fi, ai) {
						alts = append(alts, "!"+exprString(t))
					}
				}
			}
		case *ast.RangeStmt:
			if identObj(info, t.X) == attached {
				ast.Inspect(t.Body, func(j ast.Node) bool {
					if as, ok := j.(*ast.AssignStmt); ok && len(as.Lhs) == 1 && len(as.Rhs) == 1 {
						if tv := info.Types[as.Rhs[0]]; tv.Value != nil && tv.Value.String() == "true" {
							alts = append(alts, "!"+exprString(as.Lhs[0]))
						}
					}
					return true
				})
			}
		}
		return true
	})
	n := 0
	for _, s := range p.StoresTo([]*FuncInfo{fn}, resF) {
		if s.InLit {
			continue
		}
		n++
		c.RequireAnyOf("C05.R8", "filterENINotFound: a resource is dropped only when its interface is not attached", fn, s.Node, alts)
	}
	c.Floor("C05.R8", "removals in filterENINotFound", 1, n)
	c.Floor("C05.R8", "not-found tests", 1, len(alts))
}

// R9: the stored record keeps its wire names. Records written by one version of
// the daemon are read by the next one (upgrade, restart): the JSON key of every
// field of the persisted types is what it is today. A renamed key makes the
// old records decode with that field empty — for ContainerID that silently
// disables the stale-request guard of C04.
func c05R9(c *Ctx) {
	p := c.P
	c.Rule("C05.R9", "wire names of the persisted pod record are stable: every field of types/daemon.PodResources and ResourceItem that exists today keeps its JSON key (new fields may be added; a renamed or dropped key makes records of the previous version decode incompletely)")
	frozen := map[string]map[string]string{
		"PodResources": {"Resources": "Resources", "PodInfo": "PodInfo", "NetNs": "NetNs", "ContainerID": "ContainerID", "NetConf": "NetConf"},
		"ResourceItem": {"Type": "type", "ID": "id", "ExtraEipInfo": "extra_eip_info", "ENIID": "eni_id", "ENIMAC": "eni_mac", "IPv4": "ipv4", "IPv6": "ipv6"},
	}
	n := 0
	for _, tn := range []string{"PodResources", "ResourceItem"} {
		o := p.LookupObj("types/daemon", tn)
		if o == nil {
			c.Unres("C05.R9", "types/daemon."+tn, "not found")
			continue
		}
		st, ok := o.Type().Underlying().(*types.Struct)
		if !ok {
			c.Bad("C05.R9", tn+" is a struct", "", "types/daemon", "struct", "not a struct")
			continue
		}
		have := map[string]string{}
		for i := 0; i < st.NumFields(); i++ {
			f := st.Field(i)
			key := f.Name()
			if tag := reflect.StructTag(st.Tag(i)).Get("json"); tag != "" {
				if nm := strings.Split(tag, ",")[0]; nm != "" {
					key = nm
				}
			}
			have[f.Name()] = key
		}
		var fields []string
		for f := range frozen[tn] {
			fields = append(fields, f)
		}
		sort.Strings(fields)
		for _, f := range fields {
			n++
			got, present := have[f]
			c.Check(present && got == frozen[tn][f], "C05.R9", tn+"."+f+" is stored under "+strconv.Quote(frozen[tn][f]), p.PosOf(o.Pos()), "types/daemon."+tn, "JSON key "+strconv.Quote(frozen[tn][f]), fmt.Sprintf("present=%v key=%q", present, got))
		}
	}
	c.Floor("C05.R9", "persisted fields", 12, n)
}

// absentOnlyAfterScan: fi returns a bool and says false only (a) as the comma-ok of a lookup in its
// parameter number pi, or (b) by a constant false that stands after a range over that parameter whose
// body has no break — "no entry matched"; every other return is a constant true.
func absentOnlyAfterScan(fi *FuncInfo, pi int) bool {
	info := fi.Info()
	sig := fi.Obj.Type().(*types.Signature)
	if sig.Results().Len() != 1 || pi >= sig.Params().Len() || fi.Decl.Body == nil {
		return false
	}
	if b, ok := sig.Results().At(0).Type().Underlying().(*types.Basic); !ok || b.Kind() != types.Bool {
		return false
	}
	var param types.Object
	i := 0
	for _, f := range fi.Decl.Type.Params.List {
		for _, nm := range f.Names {
			if i == pi {
				param = info.Defs[nm]
			}
			i++
		}
	}
	if param == nil {
		return false
	}
	okFlags := map[types.Object]bool{}
	ast.Inspect(fi.Decl.Body, func(k ast.Node) bool {
		if as, ok := k.(*ast.AssignStmt); ok && len(as.Lhs) == 2 && len(as.Rhs) == 1 {
			if ix, ok := ast.Unparen(as.Rhs[0]).(*ast.IndexExpr); ok && identObj(info, ix.X) == param {
				if o := identObj(info, as.Lhs[1]); o != nil {
					okFlags[o] = true
				}
			}
		}
		return true
	})
	// the scan loops at the top level of the body
	scanned := token.NoPos
	for _, st := range fi.Decl.Body.List {
		if rs, ok := st.(*ast.RangeStmt); ok && identObj(info, rs.X) == param {
			clean := true
			ast.Inspect(rs.Body, func(k ast.Node) bool {
				switch t := k.(type) {
				case *ast.FuncLit:
					return false
				case *ast.BranchStmt:
					if t.Tok == token.BREAK || t.Tok == token.GOTO {
						clean = false
					}
				}
				return true
			})
			if clean {
				scanned = rs.End()
			}
		}
	}
	good := true
	ast.Inspect(fi.Decl.Body, func(k ast.Node) bool {
		switch t := k.(type) {
		case *ast.FuncLit:
			return false
		case *ast.ReturnStmt:
			if len(t.Results) != 1 {
				good = false
				return true
			}
			r := ast.Unparen(t.Results[0])
			if tv := info.Types[r]; tv.Value != nil {
				if tv.Value.String() == "true" {
					return true
				}
				// constant false: a top-level statement after a completed scan
				top := false
				for _, st := range fi.Decl.Body.List {
					if st == ast.Stmt(t) {
						top = true
					}
				}
				if !(top && scanned != token.NoPos && t.Pos() > scanned) {
					good = false
				}
				return true
			}
			if o := identObj(info, r); o == nil || !okFlags[o] {
				good = false
			}
		}
		return true
	})
	return good
}
