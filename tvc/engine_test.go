package main

import (
	"go/ast"
	"go/token"
	"go/types"
	"testing"

	"golang.org/x/tools/go/packages"
)

// snippetProg type-checks one import-free source file into a minimal Prog.
func snippetProg(t *testing.T, src string) *Prog {
	t.Helper()
	f, info, err := checkSnippetFset(src)
	if err != nil {
		t.Fatal(err)
	}
	pk := &packages.Package{PkgPath: modPath + "/snippet", Syntax: []*ast.File{f.file}, TypesInfo: info, Types: f.pkg, Fset: f.fset}
	p := &Prog{Repo: "/", Fset: f.fset, Roots: []*packages.Package{pk}, ByPath: map[string]*packages.Package{pk.PkgPath: pk}, All: map[string]*packages.Package{pk.PkgPath: pk},
		funcs: map[string]*FuncInfo{}, funcByObj: map[*types.Func]*FuncInfo{}}
	for _, d := range f.file.Decls {
		if fd, ok := d.(*ast.FuncDecl); ok && fd.Body != nil {
			obj := info.Defs[fd.Name].(*types.Func)
			name := fd.Name.Name
			if fd.Recv != nil {
				name = recvTypeName(fd.Recv.List[0].Type) + "." + name
			}
			fi := &FuncInfo{Pkg: pk, Decl: fd, Obj: obj, File: f.file, Name: name}
			p.funcs[pk.PkgPath+"."+name] = fi
			p.funcByObj[obj] = fi
			p.funcList = append(p.funcList, fi)
		}
	}
	return p
}

// holdsAtMark evaluates req at the (first) call of mark() in function fn.
func holdsAtMark(t *testing.T, src, fn, req string) (bool, string) {
	t.Helper()
	p := snippetProg(t, src)
	fi := p.funcs[modPath+"/snippet."+fn]
	if fi == nil {
		t.Fatalf("function %s not found", fn)
	}
	var target ast.Node
	ast.Inspect(fi.Decl.Body, func(n ast.Node) bool {
		if es, ok := n.(*ast.ExprStmt); ok && target == nil {
			if c, ok := es.X.(*ast.CallExpr); ok {
				if id, ok := c.Fun.(*ast.Ident); ok && id.Name == "mark" {
					target = es
				}
			}
		}
		return true
	})
	if target == nil {
		t.Fatal("no mark() call")
	}
	e := NewFactEngine(p, fi)
	f, err := e.ParseReq(req, target.Pos())
	if err != nil {
		t.Fatal(err)
	}
	ok, cex, err := e.FactsAt(target, f)
	if err != nil {
		t.Fatal(err)
	}
	return ok, cex
}

type engCase struct {
	name, src, fn, req string
	want               bool
}

const prelude = "package snippet\nfunc mark() {}\ntype S struct{ A, B, C int; P *S; Name string; On bool }\n"

var engCases = []engCase{
	{"early-continue", prelude + `func f(xs []*S) { for _, x := range xs { if x.A != 1 { continue }; if x.Name != "" { continue }; mark() } }`, "f", `x.A == 1 && x.Name == ""`, true},
	{"early-continue-missing", prelude + `func f(xs []*S) { for _, x := range xs { if x.A != 1 { continue }; mark() } }`, "f", `x.A == 1 && x.Name == ""`, false},
	{"or-guard", prelude + `func f(x *S, e error) { if e != nil || x.On { return }; mark() }`, "f", `e == nil && !x.On`, true},
	{"switch", prelude + `func f(x *S) { switch x.A { case 1, 2: mark() } }`, "f", `x.A != 3`, true},
	{"switch-default", prelude + `func f(x *S) { switch x.A { case 1: default: return }; mark() }`, "f", `x.A == 1`, true},
	{"assign-kills", prelude + `func f(x *S) { if x.A != 1 { return }; x.A = 2; mark() }`, "f", `x.A == 1`, false},
	{"assign-const", prelude + `func f(x *S) { x.A = 2; mark() }`, "f", `x.A == 2`, true},
	{"cap-normal-form", prelude + `func f(x *S, n int) { if n+x.A >= x.B { return }; mark() }`, "f", `x.A + n < x.B`, true},
	{"cap-normal-form-2", prelude + `func f(x *S, n int) { if !(n+x.A < x.B) { return }; mark() }`, "f", `x.B > x.A + n`, true},
	{"cap-off-by-one", prelude + `func f(x *S, n int) { if n+x.A > x.B { return }; mark() }`, "f", `x.A + n < x.B`, false},
	{"le-vs-lt", prelude + `func f(x *S) { if len(x.Name) <= 0 || len(x.Name) >= 6 { return }; mark() }`, "f", `len(x.Name) >= 1 && len(x.Name) <= 5`, true},
	{"clamp", prelude + `func f(x *S) { if x.A > x.B { x.A = x.B }; mark() }`, "f", `x.A <= x.B`, true},
	{"clamp-else", prelude + `func f(x *S, c int) { if c > x.B { x.A = x.B } else { x.A = c }; mark() }`, "f", `x.A <= x.B`, true},
	{"clamp-then-copy", prelude + `func f(x *S, c, cap int) { if c > cap { x.A = cap } else { x.A = c }; x.B = cap; mark() }`, "f", `x.A <= x.B`, true},
	{"clamp-broken-order", prelude + `func f(x *S, m int) { if x.A > x.B { x.A = x.B }; if m > 0 { x.A = m }; mark() }`, "f", `x.A <= x.B`, false},
	{"transitive", prelude + `func f(x *S) { if x.A > x.B { return }; if x.B >= 0 { return }; mark() }`, "f", `x.A < 0`, true},
	{"transitive-neg", prelude + `func f(x *S) { if x.A > x.B { return }; if x.B > 0 { return }; mark() }`, "f", `x.A < 0`, false},
	{"max-builtin", prelude + `func f(x *S) { x.A = max(x.A, 0); mark() }`, "f", `x.A >= 0`, true},
	{"min-builtin", prelude + `func f(x *S, n int) { x.A = min(n, x.B); mark() }`, "f", `x.A <= x.B && x.A <= n`, true},
	{"clamp-both-nonneg", prelude + `func f(x *S) { if x.A > x.B { x.A = x.B }; if x.B < 0 { x.B = 0 }; if x.A < 0 { x.A = 0 }; mark() }`, "f", `0 <= x.A && x.A <= x.B`, true},
	{"clamp-both-max", prelude + `func f(x *S) { if x.A > x.B { x.A = x.B }; x.B = max(x.B, 0); x.A = max(x.A, 0); mark() }`, "f", `0 <= x.A && x.A <= x.B`, true},
	{"len-nonneg", prelude + `func f(xs []int) { if len(xs) == 0 { return }; mark() }`, "f", `len(xs) > 0`, true},
	{"subfield-assign-keeps-ptr", prelude + `func f(x *S) { if x.P == nil { x.P = &S{} }; x.P.A = 3; mark() }`, "f", `x.P != nil`, true},
	{"sync-closure", prelude + "func each(f func(int) bool) {}\n" + `func f(x *S) { if x.P == nil { return }; each(func(i int) bool { mark(); return x.P.A == i }) }`, "f", `x.P != nil`, true},
	{"go-closure", prelude + `func f(x *S) { if x.P == nil { return }; go func() { mark() }() }`, "f", `x.P != nil`, false},
	{"zero-literal", prelude + `func f() { x := &S{C: 3}; mark(); _ = x }`, "f", `x.A == 0 && x.Name == "" && !x.On && x.P == nil`, true},
	{"zero-literal-keyed", prelude + `func f() { x := &S{A: 3}; mark(); _ = x }`, "f", `x.A == 0`, false},
	{"zero-then-both", prelude + `func f(crd bool) { x := &S{}; if crd { x.A = 0; x.B = 0 }; mark() }`, "f", `x.A <= x.B`, true},
	{"comma-ok", prelude + `func f(m map[string]*S, k string) { v, ok := m[k]; if !ok { return }; mark(); _ = v }`, "f", `ok`, true},
	{"loop-join", prelude + `func f(xs []int) { keep := false; for _, x := range xs { if x > 0 { keep = true } }; if keep { return }; mark() }`, "f", `!keep`, true},
	{"correlated-flag", prelude + `func f(x *S) { on := false; if x.P != nil { on = true }; if on { mark() } }`, "f", `x.P != nil`, true},
	{"method-kill", prelude + "func (s *S) bump() { s.A++ }\n" + `func f(x *S) { if x.A != 1 { return }; x.bump(); mark() }`, "f", `x.A == 1`, false},
	{"pure-method-keeps", prelude + "func (s *S) get() int { return s.B }\n" + `func f(x *S) { if x.A != 1 { return }; _ = x.get(); mark() }`, "f", `x.A == 1`, true},
	{"predicate-inline", prelude + "func (s *S) ok() bool { return s.A == 1 && s.Name == \"\" }\n" + `func f(x *S) { if !x.ok() { return }; mark() }`, "f", `x.A == 1 && x.Name == ""`, true},
	{"range-value-alias", prelude + `func f(xs []S) { for i, n := range xs { if n.P == nil { xs[i].P = &S{} }; mark() } }`, "f", `xs[i].P != nil`, true},
	// copy transfer: eq atoms over the target equal their twins over the source
	{"copy-string", prelude + `func f(x, y *S) { if y.Name == "" { return }; x.Name = y.Name; mark() }`, "f", `x.Name != ""`, true},
	{"copy-string-neg", prelude + `func f(x, y *S) { x.Name = y.Name; mark() }`, "f", `x.Name != ""`, false},
	{"copy-pointer", prelude + `func f(x, y *S) { if y.P == nil { return }; x.P = y.P; mark() }`, "f", `x.P != nil`, true},
	// boolean assignment: the variable holds what the expression evaluated to
	{"bool-assign", prelude + `func f(x *S) { ok := false; ok = x.A == 1 && x.Name == ""; if !ok { return }; mark() }`, "f", `x.A == 1 && x.Name == ""`, true},
	{"bool-assign-branches", prelude + `func f(x *S) { var r bool; if x.P == nil { r = false } else { r = x.P.A == 2 }; if !r { return }; mark() }`, "f", `x.P != nil`, true},
	{"bool-assign-neg", prelude + `func f(x *S) { ok := false; ok = x.A == 1 || x.On; if !ok { return }; mark() }`, "f", `x.A == 1`, false},
	// result flag after an expanded helper: err's nil-ness witnesses the branch taken
	{"result-flag", prelude + `type E struct{}
func (E) Error() string { return "" }
func f(m map[string]int, k string) { var err error; { _, dup := m[k]; if dup { err = E{} } else { err = nil } }; if err != nil { return }; _, again := m[k]; _ = again; mark() }`, "f", `err == nil`, true},
	// predicates: named sub-conditions, and an opaque rest for what cannot be inlined
	{"predicate-subcond", prelude + `func bad(s *S, need, on bool) bool { hot := s.A == 7; if need { return !hot }; return on && hot }
func f(x *S, need, on bool) { if bad(x, need, on) { return }; mark() }`, "f", `!need || x.A == 7`, true},
	{"predicate-rest", prelude + `func want(s *S, xs []int) bool { if s.Name == "" { return true }; if !s.On { return false }; for _, v := range xs { if v == 3 { return true } }; return false }
func f(x *S, xs []int) { if !want(x, xs) { return }; mark() }`, "f", `x.Name == "" || x.On`, true},
	{"predicate-rest-neg", prelude + `func want(s *S, xs []int) bool { if s.Name == "" { return true }; for _, v := range xs { if v == 3 { return true } }; return false }
func f(x *S, xs []int) { if !want(x, xs) { return }; mark() }`, "f", `x.Name == "" || x.On`, false},
	// call-result postcondition from the callee's return statements
	{"call-post", prelude + `func find(xs []*S, name string) *S { for _, v := range xs { if v.Name == name { return v } }; return nil }
func f(xs []*S, name string) { if o := find(xs, name); o != nil { mark(); _ = o } }`, "f", `o.Name == name`, true},
	{"call-post-neg", prelude + `func find(xs []*S, name string) *S { for _, v := range xs { if v.A == 1 { return v } }; return nil }
func f(xs []*S, name string) { if o := find(xs, name); o != nil { mark(); _ = o } }`, "f", `o.Name == name`, false},
	{"call-post-mutated", prelude + `func find(xs []*S, name string) *S { for _, v := range xs { if v.Name == name { v.Name = "x"; return v } }; return nil }
func f(xs []*S, name string) { if o := find(xs, name); o != nil { mark(); _ = o } }`, "f", `o.Name == name`, false},
	// the defining statement of an alias does not forget the aliased path
	{"alias-def-keeps", prelude + `func f(x *S) { if x.P == nil { x.P = &S{} }; q := x.P; q.A = 1; mark() }`, "f", `x.P != nil`, true},
}

const poolOK = prelude + `type Cfg struct{ MaxPool, MinPool, MinENI, MaxENI int; CRD bool }
type PC struct{ Batch, MaxPool, MinPool, Capacity, MaxENI int }
func g(cfg *Cfg, mode string, adapters, per int) *PC {
	pc := &PC{Batch: 10}
	capacity := 0
	maxENI := 0
	switch mode {
	case "multi":
		maxENI = adapters
		if cfg.MaxENI > 0 && cfg.MaxENI < maxENI { maxENI = cfg.MaxENI }
		ipPer := per
		capacity = maxENI * ipPer
		if cfg.MaxPool > capacity { pc.MaxPool = capacity } else { pc.MaxPool = cfg.MaxPool }
		pc.MinPool = cfg.MinPool
		if cfg.MinENI > 0 { pc.MinPool = cfg.MinENI * ipPer }
		if pc.MinPool > pc.MaxPool { pc.MinPool = pc.MaxPool }
	}
	if cfg.CRD { pc.MaxPool = 0; pc.MinPool = 0 }
	pc.Capacity = capacity
	pc.MaxENI = maxENI
	mark()
	return pc
}`
const poolBad = prelude + `type Cfg struct{ MaxPool, MinPool, MinENI, MaxENI int; CRD bool }
type PC struct{ Batch, MaxPool, MinPool, Capacity, MaxENI int }
func g(cfg *Cfg, mode string, adapters, per int) *PC {
	pc := &PC{Batch: 10}
	capacity := 0
	maxENI := 0
	switch mode {
	case "multi":
		maxENI = adapters
		if cfg.MaxENI > 0 && cfg.MaxENI < maxENI { maxENI = cfg.MaxENI }
		ipPer := per
		capacity = maxENI * ipPer
		if cfg.MaxPool > capacity { pc.MaxPool = capacity } else { pc.MaxPool = cfg.MaxPool }
		pc.MinPool = cfg.MinPool
		if pc.MinPool > pc.MaxPool { pc.MinPool = pc.MaxPool }
		if cfg.MinENI > 0 { pc.MinPool = cfg.MinENI * ipPer }
	}
	if cfg.CRD { pc.MaxPool = 0; pc.MinPool = 0 }
	pc.Capacity = capacity
	pc.MaxENI = maxENI
	mark()
	return pc
}`

func init() {
	engCases = append(engCases,
		engCase{"pool-min-le-max", poolOK, "g", "pc.MinPool <= pc.MaxPool", true},
		engCase{"pool-max-le-cap", poolOK, "g", "pc.MaxPool <= pc.Capacity || pc.MaxPool == 0", true},
		engCase{"pool-clamp-before-override", poolBad, "g", "pc.MinPool <= pc.MaxPool", false},
	)
}

func TestFactEngine(t *testing.T) {
	for _, tc := range engCases {
		got, cex := holdsAtMark(t, tc.src, tc.fn, tc.req)
		if got != tc.want {
			t.Errorf("%s: requirement %q: got %v want %v (%s)", tc.name, tc.req, got, tc.want, cex)
		}
	}
}

var _ = token.NoPos

const litCopy = `package snippet
type info struct{ UID string }
type rec struct{ Info *info }
type req struct{ UID, Name string }
func mark() {}
func use(*req) {}
func viaStore(p *info, old rec) {
	c := &req{UID: p.UID}
	if old.Info != nil && old.Info.UID != "" {
		c.UID = old.Info.UID
	}
	mark()
	use(c)
}
func viaTemp(p *info, old rec) {
	var u string
	if old.Info != nil && old.Info.UID != "" {
		u = old.Info.UID
	} else {
		u = p.UID
	}
	c := &req{Name: "x", UID: u}
	mark()
	use(c)
}
func viaTempWrong(p *info, old rec) {
	var u string
	if old.Info != nil {
		u = p.UID
	} else {
		u = old.Info.UID
	}
	c := &req{Name: "x", UID: u}
	mark()
	use(c)
}`

func init() {
	const r = `old.Info == nil || old.Info.UID == "" || c.UID == old.Info.UID`
	engCases = append(engCases,
		engCase{"lit-copy-store", litCopy, "viaStore", r, true},
		engCase{"lit-copy-temp", litCopy, "viaTemp", r, true},
		engCase{"lit-copy-temp-wrong", litCopy, "viaTempWrong", r, false},
	)
}

const switchFlag = `package snippet
type pod struct{ host bool; cs []int; labels map[string]string }
func ignored(map[string]string) bool { return false }
func mark() {}
func viaSwitch(p *pod) {
	var reason string
	var skip bool
	switch {
	case p.host:
		reason, skip = "host", true
	case len(p.cs) == 0:
		reason, skip = "none", true
	case ignored(p.labels):
		reason, skip = "ign", true
	default:
		reason, skip = "", false
	}
	if skip {
		_ = reason
		return
	}
	mark()
}
func viaSwitchNoGuard(p *pod) {
	var skip bool
	switch {
	case p.host:
		skip = true
	default:
		skip = false
	}
	if skip {
		return
	}
	mark()
}`

func init() {
	engCases = append(engCases,
		engCase{"switch-flag", switchFlag, "viaSwitch", "len(p.cs) > 0", true},
		engCase{"switch-flag-missing-case", switchFlag, "viaSwitchNoGuard", "len(p.cs) > 0", false},
	)
}
