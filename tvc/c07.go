package main

// C07 — node pool and cloud agree; failed calls leave no orphans.

import (
	"fmt"
	"go/ast"
	"go/token"
	"go/types"
	"strings"
)

func init() { registry["C07"] = c07 }

const factoryAliyunPkg = "pkg/factory/aliyun"

func c07(c *Ctx) {
	if c.P.Pkg(eniPkg) == nil || c.P.Pkg(factoryAliyunPkg) == nil {
		c.Unres("C07", eniPkg+" / "+factoryAliyunPkg, "package not loaded")
		return
	}
	c07R1(c)
	c07R2(c)
	c07R3(c)
	c07R4(c)
	c07R5(c)
	// "no address stays marked as owned by a pod that holds none": commit delivers or rolls back (shared rule)
	c01R6(c)
	c01R8(c)
	c07R6(c)
	// an ADD that fails after the pool handed out an address gives it back (shared rule C04.R4), and
	// the watermark band the balancer works towards is well-formed (shared rule C19.R2)
	c04R4(c)
	c19R2(c)
	c07R7(c)
	c07R8(c)
	c07R9(c)
	c07R10(c)
}

// R6: the pool sync always looks at the surplus. The trimming half of
// Manager.syncPool is not conditional on anything but the surplus itself: every
// path through the function evaluates the test that guards Dispose (a capacity
// check, an inhibit flag or an early exit in front of it would leave idle
// addresses above the high watermark for ever).
func c07R6(c *Ctx) {
	p := c.P
	c.Rule("C07.R6", "Manager.syncPool evaluates the surplus test (the condition guarding NetworkInterface.Dispose) on every path: trimming to the high watermark is not conditional on capacity or on the top-up half")
	fn := p.Func(eniPkg, "Manager.syncPool")
	disp := p.Method(eniPkg, "NetworkInterface", "Dispose")
	if fn == nil || disp == nil {
		c.Unres("C07.R6", "Manager.syncPool / NetworkInterface.Dispose", "not found")
		return
	}
	n := 0
	for _, cs := range p.CallsTo([]*FuncInfo{fn}, disp) {
		if cs.Lit != nil {
			continue
		}
		var guard *ast.IfStmt
		for _, x := range pathTo(fn.Decl.Body, cs.Call) {
			if is, ok := x.(*ast.IfStmt); ok && guard == nil && is.Body.Pos() <= cs.Call.Pos() && cs.Call.End() <= is.Body.End() {
				guard = is
			}
		}
		if guard == nil {
			c.Undec("C07.R6", "syncPool: surplus test", p.Pos(cs.Call), fn.Key(), "Dispose stands under an if", "no enclosing test")
			continue
		}
		n++
		q := NewPathQuery(p, fn, nil)
		w := q.Escapes(nil, nil, isExactly(guard.Cond), nil)
		c.Check(w == nil, "C07.R6", "syncPool: every pass evaluates the surplus test", p.Pos(guard.Cond), fn.Key(),
			"must-pass: entry → `"+exprString(guard.Cond)+"` → exit", "path: "+p.describePath(w))
	}
	c.Floor("C07.R6", "guarded Dispose calls in syncPool", 1, n)
}

// declReturns lists the return statements of the function body proper (not literals).
func declReturns(body *ast.BlockStmt) []*ast.ReturnStmt {
	var out []*ast.ReturnStmt
	ast.Inspect(body, func(n ast.Node) bool {
		if _, ok := n.(*ast.FuncLit); ok {
			return false
		}
		if r, ok := n.(*ast.ReturnStmt); ok {
			out = append(out, r)
		}
		return true
	})
	return out
}

// assignedFromCall finds, for a call, the LHS objects of the assignment that binds its results.
func assignedFromCall(fn *FuncInfo, call *ast.CallExpr) (*ast.AssignStmt, []types.Object) {
	var asn *ast.AssignStmt
	for _, n := range pathTo(fn.Decl.Body, call) {
		if a, ok := n.(*ast.AssignStmt); ok && len(a.Rhs) == 1 && ast.Unparen(a.Rhs[0]) == ast.Expr(call) {
			asn = a
		}
	}
	if asn == nil {
		return nil, nil
	}
	var objs []types.Object
	for _, l := range asn.Lhs {
		objs = append(objs, identObj(fn.Info(), l))
	}
	return asn, objs
}

// assignsVar: cfg-node predicate "assigns variable obj".
func assignsVar(info *types.Info, obj types.Object) nodePred {
	return func(n ast.Node) bool {
		switch s := n.(type) {
		case *ast.AssignStmt:
			for _, l := range s.Lhs {
				if identObj(info, l) == obj {
					return true
				}
			}
		case *ast.ValueSpec:
			for _, nm := range s.Names {
				if info.Defs[nm] == obj {
					return true
				}
			}
		}
		return false
	}
}

func c07R1(c *Ctx) {
	p := c.P
	c.Rule("C07.R1", "factory siblings (Aliyun, Eflo): once the ENI object exists every return of CreateNetworkInterface carries it; after the assign API succeeded every return of AssignNIPv4/6 carries the addresses or passes an unassign roll-back")
	nCreateRet := 0
	for _, typ := range []string{"Aliyun", "Eflo"} {
		fn := p.Func(factoryAliyunPkg, typ+".CreateNetworkInterface")
		if fn == nil {
			c.Unres("C07.R1", typ+".CreateNetworkInterface", "not found")
			continue
		}
		info := fn.Info()
		sig := fn.Obj.Type().(*types.Signature)
		rets := declReturns(fn.Decl.Body)
		// the ENI object: the local that the returns name as result 0 (the last return of the body
		// is the one that reports success; `return r, v4, v6, err` with a possibly nil err counts)
		var eniObj types.Object
		for _, r := range rets {
			if len(r.Results) != 4 {
				continue
			}
			if ok, known := isSuccessReturn(info, sig, r); (ok && known) || r == rets[len(rets)-1] {
				if o := identObj(info, r.Results[0]); o != nil {
					eniObj = o
				}
			}
		}
		if eniObj == nil {
			c.Undec("C07.R1", typ+".CreateNetworkInterface success return", p.Pos(fn.Decl), fn.Key(), "", "no success return naming the ENI variable")
			continue
		}
		for _, r := range rets {
			if r.Pos() < eniObj.Pos() || len(r.Results) != 4 {
				continue
			}
			nCreateRet++
			ok := identObj(info, r.Results[0]) == eniObj
			c.Check(ok, "C07.R1", typ+".CreateNetworkInterface return carries the created ENI", p.Pos(r), fn.Key(),
				"result 0 is "+eniObj.Name()+" on every return after it is bound (the caller queues it for deletion)", "returns "+exprString(r.Results[0]))
		}
		// the ENI variable is bound right after the create API succeeded: no fallible call between the
		// creation call's error check and the binding may return without it — covered by position: every
		// return between the cloud create call and the binding is the create call's own error return.
		var createCall *ast.CallExpr
		for _, cs := range p.CallsIn(fn) {
			if cs.Callee != nil && (cs.Callee.Name() == "CreateNetworkInterface" || cs.Callee.Name() == "CreateElasticNetworkInterfaceV2") && cs.Callee != fn.Obj {
				createCall = cs.Call
			}
		}
		if createCall == nil {
			c.Unres("C07.R1", typ+" cloud create call", "not found")
			continue
		}
		nBetween := 0
		for _, r := range rets {
			if r.Pos() > createCall.End() && r.Pos() < eniObj.Pos() {
				nBetween++
			}
		}
		c.Check(nBetween <= 1, "C07.R1", typ+".CreateNetworkInterface binds the ENI directly after the create call", p.Pos(createCall), fn.Key(),
			"at most the create call's own error return lies between the cloud call and the binding of the ENI object", fmt.Sprintf("%d returns in between", nBetween))
	}
	c.Floor("C07.R1", "returns of CreateNetworkInterface after the ENI is bound (Aliyun+Eflo)", 4, nCreateRet)

	// AssignNIPv4 / AssignNIPv6
	nAssign := 0
	for _, typ := range []string{"Aliyun", "Eflo"} {
		for _, m := range []string{"AssignNIPv4", "AssignNIPv6"} {
			fn := p.Func(factoryAliyunPkg, typ+"."+m)
			if fn == nil {
				c.Unres("C07.R1", typ+"."+m, "not found")
				continue
			}
			info := fn.Info()
			// the cloud assign call: first call to a method whose name starts with "Assign"
			var api *ast.CallExpr
			for _, cs := range p.CallsIn(fn) {
				if cs.Lit == nil && cs.Callee != nil && len(cs.Callee.Name()) > 6 && cs.Callee.Name()[:6] == "Assign" && api == nil {
					api = cs.Call
				}
			}
			if api == nil {
				// not implemented for this backend (Eflo IPv6): must return no error and no addresses
				c.OK("C07.R1", typ+"."+m+" (no cloud call)", p.Pos(fn.Decl), fn.Key(), "nothing to roll back")
				continue
			}
			_, lhs := assignedFromCall(fn, api)
			if len(lhs) < 2 || lhs[len(lhs)-1] == nil {
				c.Undec("C07.R1", typ+"."+m+" assign result", p.Pos(api), fn.Key(), "", "results of the cloud call are not bound to variables")
				continue
			}
			errObj := lhs[len(lhs)-1]
			q := NewPathQuery(p, fn, nil)
			later := func(n ast.Node) bool {
				return n.Pos() > api.End() && assignsVar(info, errObj)(n)
			}
			unassign := containsNode(func(k ast.Node) bool {
				if call, ok := k.(*ast.CallExpr); ok {
					if cal := Callee(info, call); cal != nil && len(cal.Name()) > 8 && (cal.Name()[:8] == "Unassign" || cal.Name()[:8] == "UnAssign") {
						return true
					}
				}
				return false
			})
			for _, r := range declReturns(fn.Decl.Body) {
				if r.Pos() < api.End() || len(r.Results) != 2 {
					continue
				}
				nAssign++
				carries := !info.Types[ast.Unparen(r.Results[0])].IsNil()
				if carries {
					c.OK("C07.R1", typ+"."+m+" return carries addresses", p.Pos(r), fn.Key(), "result 0 is not nil")
					continue
				}
				// nil result: only allowed if not reachable after a later fallible step, or after an unassign roll-back
				w := q.Escapes(later, isExactly(r), unassign, nil)
				c.Check(w == nil, "C07.R1", typ+"."+m+" nil-address return only before later fallible steps", p.Pos(r), fn.Key(),
					"a return without the addresses is not reachable after a step that follows the successful assign (or passes an unassign roll-back)", "path: "+p.describePath(w))
			}
		}
	}
	c.Floor("C07.R1", "returns after the cloud assign call (Aliyun+Eflo)", 5, nAssign)
}

// errArm finds the if-statement that tests `errObj != nil` first after position pos in fn.
func errArm(fn *FuncInfo, errObj types.Object, after token.Pos) *ast.IfStmt {
	var best *ast.IfStmt
	e := NewFactEngine(nil, fn)
	_ = e
	ast.Inspect(fn.Decl.Body, func(n ast.Node) bool {
		is, ok := n.(*ast.IfStmt)
		if !ok || is.Pos() < after {
			return true
		}
		be, ok := ast.Unparen(is.Cond).(*ast.BinaryExpr)
		if !ok || be.Op != token.NEQ || identObj(fn.Info(), be.X) != errObj {
			return true
		}
		if tv := fn.Info().Types[ast.Unparen(be.Y)]; !tv.IsNil() {
			return true
		}
		if best == nil || is.Pos() < best.Pos() {
			best = is
		}
		return true
	})
	return best
}

func c07R2(c *Ctx) {
	p := c.P
	c.Rule("C07.R2", "factoryAllocWorker keeps what a failed cloud call created: the ENI returned with an error is recorded and (when non-nil) marked deleting; addresses returned with an error are queued for unassignment in the same family")
	fn := p.Func(eniPkg, "Local.factoryAllocWorker")
	if fn == nil {
		c.Unres("C07.R2", "Local.factoryAllocWorker", "not found")
		return
	}
	info := fn.Info()
	eniField := p.Field(eniPkg, "Local", "eni")
	statusF := p.Field(eniPkg, "Local", "status")
	delConst := p.LookupObj(eniPkg, "statusDeleting")
	putDel := p.Method(eniPkg, "Set", "PutDeleting")
	n := 0
	// create
	createM := p.Method("pkg/factory", "Factory", "CreateNetworkInterface")
	for _, cs := range p.CallsTo([]*FuncInfo{fn}, createM) {
		_, lhs := assignedFromCall(fn, cs.Call)
		if len(lhs) != 4 || lhs[0] == nil || lhs[3] == nil {
			c.Undec("C07.R2", "CreateNetworkInterface results", p.Pos(cs.Call), fn.Key(), "", "results not bound")
			continue
		}
		eniObj, errObj := lhs[0], lhs[3]
		arm := errArm(fn, errObj, cs.Call.End())
		if arm == nil {
			c.Bad("C07.R2", "create error arm", p.Pos(cs.Call), fn.Key(), "the create error is tested", "no `if err != nil` after the call")
			continue
		}
		n++
		q := NewPathQuery(p, fn, nil)
		storeEni := func(nd ast.Node) bool {
			as, ok := nd.(*ast.AssignStmt)
			if !ok || len(as.Lhs) != 1 || len(as.Rhs) != 1 {
				return false
			}
			return fieldOf(info, as.Lhs[0]) == eniField && identObj(info, as.Rhs[0]) == eniObj
		}
		storeDeleting := func(nd ast.Node) bool {
			as, ok := nd.(*ast.AssignStmt)
			if !ok || len(as.Lhs) != 1 || len(as.Rhs) != 1 {
				return false
			}
			return fieldOf(info, as.Lhs[0]) == statusF && identObj(info, as.Rhs[0]) == delConst
		}
		inArmExit := func(nd ast.Node) bool {
			// the arm ends with continue (or any branch/return inside it)
			if nd.Pos() < arm.Body.Pos() || nd.End() > arm.Body.End() {
				return false
			}
			switch nd.(type) {
			case *ast.BranchStmt, *ast.ReturnStmt:
				return true
			}
			return false
		}
		fe := NewFactEngine(p, fn)
		eniNil := "eq(" + objID(eniObj) + ",nil)"
		// (a) the returned ENI is recorded on the error path
		q.Prune = func(cond ast.Expr, takeTrue bool) bool { return cond == arm.Cond && !takeTrue }
		w := q.Escapes(isExactly(arm.Cond), inArmExit, storeEni, nil)
		c.Check(w == nil, "C07.R2", "create error: l.eni = <returned eni> before leaving the arm", p.Pos(arm), fn.Key(), "must-pass: err != nil → l.eni = eni → continue", "path: "+p.describePath(w))
		// (b) non-nil ENI is marked deleting
		q.Prune = func(cond ast.Expr, takeTrue bool) bool {
			if cond == arm.Cond {
				return !takeTrue
			}
			f := fe.boolForm(cond, fe.fnScope())
			if f.k == fAtom && f.atom == eniNil {
				return takeTrue
			}
			if f.k == fNot && f.sub[0].k == fAtom && f.sub[0].atom == eniNil {
				return !takeTrue
			}
			return false
		}
		w = q.Escapes(isExactly(arm.Cond), inArmExit, storeDeleting, nil)
		c.Check(w == nil, "C07.R2", "create error with an ENI: status = statusDeleting before leaving the arm", p.Pos(arm), fn.Key(), "must-pass: err != nil ∧ eni != nil → l.status = statusDeleting → continue", "path: "+p.describePath(w))
		// (c) success path records the ENI too
		q.Prune = func(cond ast.Expr, takeTrue bool) bool { return cond == arm.Cond && takeTrue }
		isAdd := containsNode(func(k ast.Node) bool {
			if call, ok := k.(*ast.CallExpr); ok {
				if cal := Callee(info, call); cal != nil && (cal.Name() == "PutValid" || cal.Name() == "Add") && typeIs(cal.Type().(*types.Signature).Recv().Type(), modPath+"/"+eniPkg, "Set") {
					return true
				}
			}
			return false
		})
		w = q.Escapes(isExactly(arm.Cond), isAdd, storeEni, nil)
		c.Check(w == nil, "C07.R2", "create success: l.eni recorded before the addresses are added", p.Pos(arm), fn.Key(), "must-pass: err == nil → l.eni = eni → pool insert", "path: "+p.describePath(w))
	}
	// assign
	for _, sp := range []struct{ m, fam string }{{"AssignNIPv4", "ipv4"}, {"AssignNIPv6", "ipv6"}} {
		m := p.Method("pkg/factory", "Factory", sp.m)
		for _, cs := range p.CallsTo([]*FuncInfo{fn}, m) {
			_, lhs := assignedFromCall(fn, cs.Call)
			if len(lhs) != 2 || lhs[0] == nil || lhs[1] == nil {
				c.Undec("C07.R2", sp.m+" results", p.Pos(cs.Call), fn.Key(), "", "results not bound")
				continue
			}
			setObj, errObj := lhs[0], lhs[1]
			arm := errArm(fn, errObj, cs.Call.End())
			if arm == nil {
				c.Bad("C07.R2", sp.m+" error arm", p.Pos(cs.Call), fn.Key(), "the assign error is tested", "no `if err != nil` after the call")
				continue
			}
			n++
			q := NewPathQuery(p, fn, nil)
			q.Prune = func(cond ast.Expr, takeTrue bool) bool { return cond == arm.Cond && !takeTrue }
			put := containsNode(func(k ast.Node) bool {
				call, ok := k.(*ast.CallExpr)
				if !ok || Callee(info, call) != putDel || len(call.Args) != 1 || !call.Ellipsis.IsValid() {
					return false
				}
				fv := fieldOf(info, ast.Unparen(call.Fun).(*ast.SelectorExpr).X)
				return fv != nil && fv.Name() == sp.fam && identObj(info, call.Args[0]) == setObj
			})
			exit := func(nd ast.Node) bool {
				if nd.Pos() < arm.Body.Pos() || nd.End() > arm.Body.End() {
					return false
				}
				switch nd.(type) {
				case *ast.BranchStmt, *ast.ReturnStmt:
					return true
				}
				return false
			}
			w := q.Escapes(isExactly(arm.Cond), exit, put, nil)
			c.Check(w == nil, "C07.R2", sp.m+" error: l."+sp.fam+".PutDeleting(<returned addresses>...) before leaving the arm", p.Pos(arm), fn.Key(),
				"must-pass: err != nil → PutDeleting(set...) → continue", "path: "+p.describePath(w))
			// no other err assignment between the call and the test (the tested error is the call's)
			q.Prune = nil
			w = q.Escapes(func(nd ast.Node) bool {
				return nd.Pos() > cs.Call.End() && nd.Pos() < arm.Pos() && assignsVar(info, errObj)(nd)
			}, isExactly(arm.Cond), nil, nil)
			c.Check(w == nil, "C07.R2", sp.m+" error test reads the call's own error", p.Pos(arm), fn.Key(), "err is not reassigned between the cloud call and its test", "path: "+p.describePath(w))
		}
	}
	c.Floor("C07.R2", "cloud allocation error arms in factoryAllocWorker", 3, n)
}

func c07R3(c *Ctx) {
	p := c.P
	c.Rule("C07.R3", "an address / ENI is dropped from the pool only after the cloud confirmed: Set.Delete under err == nil of the unassign call of the same family (and of no other later call); the ENI reset under err == nil of the delete")
	fn := p.Func(eniPkg, "Local.factoryDisposeWorker")
	setDelete := p.Method(eniPkg, "Set", "Delete")
	if fn == nil || setDelete == nil {
		c.Unres("C07.R3", "Local.factoryDisposeWorker / Set.Delete", "not found")
		return
	}
	info := fn.Info()
	sites := p.CallsTo(nil, setDelete)
	c.WhoMay("C07.R3", "call Set.Delete", groupCalls(sites), map[string]string{"pkg/eni.Local.factoryDisposeWorker": "after the cloud confirmed the unassignment"})
	c.WhoMayCallDeep("C07.R3", "call Set.Delete", []*types.Func{setDelete}, map[string]string{"pkg/eni.Local.factoryDisposeWorker": "after the cloud confirmed the unassignment"})
	c.Floor("C07.R3", "Set.Delete call sites", 2, len(sites))
	q := NewPathQuery(p, fn, nil)
	for _, cs := range sites {
		if cs.Fn != fn {
			continue
		}
		fv := fieldOf(info, ast.Unparen(cs.Call.Fun).(*ast.SelectorExpr).X)
		if fv == nil {
			c.Undec("C07.R3", "Set.Delete receiver", p.Pos(cs.Call), fn.Key(), "", "receiver is not a Local field")
			continue
		}
		api := "UnAssignNIPv4"
		if fv.Name() == "ipv6" {
			api = "UnAssignNIPv6"
		}
		apiM := p.Method("pkg/factory", "Factory", api)
		// nearest preceding call of the matching API
		var match *ast.CallExpr
		for _, as := range p.CallsTo([]*FuncInfo{fn}, apiM) {
			if as.Call.End() < cs.Call.Pos() && (match == nil || as.Call.Pos() > match.Pos()) {
				match = as.Call
			}
		}
		if match == nil {
			c.Bad("C07.R3", "Delete("+fv.Name()+") matching unassign", p.Pos(cs.Call), fn.Key(), api+" precedes the Delete", "none found")
			continue
		}
		_, lhs := assignedFromCall(fn, match)
		if len(lhs) != 1 || lhs[0] == nil {
			c.Bad("C07.R3", "Delete("+fv.Name()+") unassign error bound", p.Pos(match), fn.Key(), "the unassign error is bound to a variable", "result discarded")
			continue
		}
		errObj := lhs[0]
		c.Require("C07.R3", "Delete("+fv.Name()+") only under err == nil", fn, cs.Call, "$e == nil", map[string]string{"$e": errObj.Name()})
		// err at the Delete is the matching call's: any other assignment of err must be followed by the matching call again
		other := func(nd ast.Node) bool {
			return assignsVar(info, errObj)(nd) && !(nd.Pos() <= match.Pos() && match.End() <= nd.End())
		}
		w := q.Escapes(other, isExactly(cs.Call), isExactly(match), nil)
		c.Check(w == nil, "C07.R3", "Delete("+fv.Name()+") tests the error of "+api, p.Pos(cs.Call), fn.Key(),
			"no other assignment of "+errObj.Name()+" reaches the Delete without passing "+api+" again", "path: "+p.describePath(w))
		// the deleted addresses are the ones passed to the unassign call
		same := len(cs.Call.Args) == 1 && identObj(info, cs.Call.Args[0]) != nil && identObj(info, cs.Call.Args[0]) == identObj(info, match.Args[1])
		c.Check(same, "C07.R3", "Delete("+fv.Name()+") removes exactly the unassigned addresses", p.Pos(cs.Call), fn.Key(), "same variable as the unassign argument", exprString(cs.Call.Args[0])+" vs "+exprString(match.Args[1]))
		// the variable is not changed in between
		if o := identObj(info, match.Args[1]); o != nil {
			w = q.Escapes(isExactly(match), isExactly(cs.Call), nil, nil)
			w2 := q.Escapes(func(nd ast.Node) bool { return nd.Pos() > match.End() && assignsVar(info, o)(nd) }, isExactly(cs.Call), isExactly(match), nil)
			c.Check(w != nil && w2 == nil, "C07.R3", "Delete("+fv.Name()+") argument unchanged since the unassign call", p.Pos(cs.Call), fn.Key(), "no reassignment between the calls", p.describePath(w2))
		}
	}
	// ENI reset
	eniField := p.Field(eniPkg, "Local", "eni")
	delM := p.Method("pkg/factory", "Factory", "DeleteNetworkInterface")
	n := 0
	for _, st := range p.StoresTo([]*FuncInfo{fn}, eniField) {
		if st.RHS == nil || !info.Types[ast.Unparen(st.RHS)].IsNil() {
			c.Bad("C07.R3", "store Local.eni in the dispose worker", p.Pos(st.Node), fn.Key(), "the dispose worker only clears Local.eni", "non-nil store")
			continue
		}
		n++
		var del *ast.CallExpr
		for _, ds := range p.CallsTo([]*FuncInfo{fn}, delM) {
			if ds.Call.End() < st.Node.Pos() {
				del = ds.Call
			}
		}
		if del == nil {
			c.Bad("C07.R3", "ENI reset preceded by DeleteNetworkInterface", p.Pos(st.Node), fn.Key(), "", "no delete call before the reset")
			continue
		}
		_, lhs := assignedFromCall(fn, del)
		if len(lhs) != 1 || lhs[0] == nil {
			c.Bad("C07.R3", "DeleteNetworkInterface error bound", p.Pos(del), fn.Key(), "", "result discarded")
			continue
		}
		errObj := lhs[0]
		// (on the object: after a helper was expanded the variable may live in an inner block)
		c.RequireF("C07.R3", "ENI reset only under err == nil", fn, st.Node, "the error of DeleteNetworkInterface is nil", func(e *FactEngine) (*Formula, error) {
			return e.eqAtom(objID(errObj), "nil", []string{objID(errObj)}), nil
		})
		// every path from entry/loop to the reset passes the delete call after any rate-limit error assignment
		w := q.Escapes(func(nd ast.Node) bool {
			if nd.Pos() <= del.Pos() && del.End() <= nd.End() {
				return false
			}
			// assignments of err that are themselves guarded by err == nil (err = destroyENICompartment) keep the delete's verdict
			if as, ok := nd.(*ast.AssignStmt); ok && nd.Pos() > del.End() && as.Tok == token.ASSIGN {
				return false
			}
			return assignsVar(info, errObj)(nd)
		}, isExactly(st.Node), isExactly(del), nil)
		c.Check(w == nil, "C07.R3", "ENI reset tests the error of DeleteNetworkInterface", p.Pos(st.Node), fn.Key(), "no earlier error value reaches the reset without passing the delete call", "path: "+p.describePath(w))
		// must-pass: reset is only reachable through the delete call
		w = q.Escapes(nil, isExactly(st.Node), isExactly(del), nil)
		c.Check(w == nil, "C07.R3", "ENI reset only after DeleteNetworkInterface", p.Pos(st.Node), fn.Key(), "must-pass: entry → DeleteNetworkInterface → reset", "path: "+p.describePath(w))
	}
	c.Floor("C07.R3", "ENI reset sites in the dispose worker", 1, n)
}

func c07R4(c *Ctx) {
	p := c.P
	c.Rule("C07.R4", "no error returned by a factory.Factory method is discarded in pkg/eni: the result is bound to a non-blank variable that is tested")
	iface := p.LookupObj("pkg/factory", "Factory")
	if iface == nil {
		c.Unres("C07.R4", "factory.Factory", "not found")
		return
	}
	it, _ := iface.Type().Underlying().(*types.Interface)
	if it == nil {
		c.Unres("C07.R4", "factory.Factory", "not an interface")
		return
	}
	n := 0
	for i := 0; i < it.NumMethods(); i++ {
		m := it.Method(i)
		sig := m.Type().(*types.Signature)
		ei := errResultIndex(sig)
		if ei < 0 {
			continue
		}
		for _, cs := range p.CallsTo(p.FuncsInPkg(eniPkg), m) {
			n++
			key := "factory." + m.Name() + " in " + cs.Fn.Key()
			asn, lhs := assignedFromCall(cs.Fn, cs.Call)
			if asn == nil || len(lhs) != sig.Results().Len() || lhs[ei] == nil || lhs[ei].Name() == "_" {
				c.Bad("C07.R4", key, p.Pos(cs.Call), cs.Fn.Key(), "error result bound to a variable", "error discarded")
				continue
			}
			// tested: some condition after the call mentions the variable
			tested := false
			errObj := lhs[ei]
			ast.Inspect(cs.Fn.Decl.Body, func(k ast.Node) bool {
				if is, ok := k.(*ast.IfStmt); ok && is.Pos() > cs.Call.End() {
					ast.Inspect(is.Cond, func(j ast.Node) bool {
						if id, ok := j.(*ast.Ident); ok && cs.Fn.Info().ObjectOf(id) == errObj {
							tested = true
						}
						return true
					})
				}
				return true
			})
			c.Check(tested, "C07.R4", key, p.Pos(cs.Call), cs.Fn.Key(), "error result is tested", "error variable never tested after the call")
		}
	}
	c.Floor("C07.R4", "factory calls with error results in pkg/eni", 7, n)
}

func c07R5(c *Ctx) {
	p := c.P
	c.Rule("C07.R5", "after a quota / exhaustion error the pool stops asking: the inhibit deadline is written only by errorHandleLocked (and cleared with the ENI), and both Local.Allocate and factoryAllocWorker test it before any enqueue / cloud allocation call")
	inh := p.Field(eniPkg, "Local", "ipAllocInhibitExpireAt")
	if inh == nil {
		c.Unres("C07.R5", "Local.ipAllocInhibitExpireAt", "not found")
		return
	}
	st := p.StoresTo(nil, inh)
	c.WhoMay("C07.R5", "write the inhibit deadline", groupStores(st), map[string]string{
		"pkg/eni.Local.errorHandleLocked":    "set on quota / exhaustion error codes",
		"pkg/eni.Local.factoryDisposeWorker": "cleared together with the deleted ENI",
	})
	c.Floor("C07.R5", "stores of the inhibit deadline", 3, len(st))
	// errorHandleLocked is called on every cloud allocation error arm
	eh := p.Func(eniPkg, "Local.errorHandleLocked")
	worker := p.Func(eniPkg, "Local.factoryAllocWorker")
	alloc := p.Func(eniPkg, "Local.Allocate")
	if eh == nil || worker == nil || alloc == nil {
		c.Unres("C07.R5", "errorHandleLocked / factoryAllocWorker / Allocate", "not found")
		return
	}
	testsInhibit := func(fn *FuncInfo) nodePred {
		info := fn.Info()
		return containsNode(func(k ast.Node) bool {
			call, ok := k.(*ast.CallExpr)
			if !ok {
				return false
			}
			sel, ok := ast.Unparen(call.Fun).(*ast.SelectorExpr)
			if !ok || sel.Sel.Name != "After" {
				return false
			}
			return fieldOf(info, sel.X) == inh
		})
	}
	// Allocate: every enqueue passes the test
	{
		q := NewPathQuery(p, alloc, nil)
		n := 0
		for _, fam := range []string{"allocatingV4", "allocatingV6"} {
			for _, s := range p.StoresTo([]*FuncInfo{alloc}, p.Field(eniPkg, "Local", fam)) {
				n++
				w := q.Escapes(nil, isExactly(s.Node), testsInhibit(alloc), nil)
				c.Check(w == nil, "C07.R5", "Allocate: enqueue "+fam+" passes the inhibit test", p.Pos(s.Node), alloc.Key(), "must-pass: entry → ipAllocInhibitExpireAt.After(now) → enqueue", "path: "+p.describePath(w))
			}
		}
		c.Floor("C07.R5", "enqueue sites in Allocate", 2, n)
		// and the test refuses: the if-statement holding the test returns a nil channel
		ok := false
		ast.Inspect(alloc.Decl.Body, func(k ast.Node) bool {
			if is, isIf := k.(*ast.IfStmt); isIf && testsInhibit(alloc)(is.Cond) {
				for _, s := range is.Body.List {
					if r, isRet := s.(*ast.ReturnStmt); isRet && len(r.Results) == 2 && alloc.Info().Types[ast.Unparen(r.Results[0])].IsNil() {
						ok = true
					}
				}
			}
			return true
		})
		c.Check(ok, "C07.R5", "Allocate: inhibited request is declined", p.Pos(alloc.Decl), alloc.Key(), "the branch taken while inhibited returns a nil channel", "no declining return under the inhibit test")
	}
	// worker: every cloud allocation call passes the test (from entry and from itself)
	{
		q := NewPathQuery(p, worker, nil)
		n := 0
		for _, mn := range []string{"CreateNetworkInterface", "AssignNIPv4", "AssignNIPv6"} {
			m := p.Method("pkg/factory", "Factory", mn)
			for _, cs := range p.CallsTo([]*FuncInfo{worker}, m) {
				n++
				w := q.Escapes(nil, isExactly(cs.Call), testsInhibit(worker), nil)
				w2 := q.Escapes(isExactly(cs.Call), isExactly(cs.Call), testsInhibit(worker), nil)
				c.Check(w == nil && w2 == nil, "C07.R5", "worker: "+mn+" passes the inhibit test in every iteration", p.Pos(cs.Call), worker.Key(), "must-pass: (entry | previous call) → inhibit test → "+mn, "path: "+p.describePath(w)+p.describePath(w2))
				// error arm calls errorHandleLocked
				_, lhs := assignedFromCall(worker, cs.Call)
				if len(lhs) == 0 || lhs[len(lhs)-1] == nil {
					continue
				}
				arm := errArm(worker, lhs[len(lhs)-1], cs.Call.End())
				if arm == nil {
					continue
				}
				q2 := NewPathQuery(p, worker, nil)
				q2.Prune = func(cond ast.Expr, takeTrue bool) bool { return cond == arm.Cond && !takeTrue }
				exit := func(nd ast.Node) bool {
					if nd.Pos() < arm.Body.Pos() || nd.End() > arm.Body.End() {
						return false
					}
					_, isB := nd.(*ast.BranchStmt)
					return isB
				}
				w3 := q2.Escapes(isExactly(arm.Cond), exit, q2.callTo(eh.Obj), nil)
				c.Check(w3 == nil, "C07.R5", "worker: "+mn+" error arm records the error class", p.Pos(arm), worker.Key(), "must-pass: err != nil → errorHandleLocked(err) → continue", "path: "+p.describePath(w3))
			}
		}
		c.Floor("C07.R5", "cloud allocation calls in the worker", 3, n)
	}
}

// R7: what the factory calls "confirmed". After an assignment ALL addresses must
// be visible in the instance metadata; after an unassignment NONE may be. The
// poll conditions have exactly these quantifiers: the expected addresses under a
// universal test, the removed ones under the negation of an existential test.
func c07R7(c *Ctx) {
	p := c.P
	c.Rule("C07.R7", "metadata confirmation quantifiers: validateIPInMetadata polls for HasAll(expected) (or an equivalent universal test), validateIPNotInMetadata for !HasAny(gone) — a removal is confirmed only when none of the addresses is visible any more (the cloud answers a batch with 'already unassigned' as success)")
	type want struct {
		fn   string
		neg  bool
		call string
		alt  string
	}
	n := 0
	for _, w := range []want{{"validateIPInMetadata", false, "HasAll", ""}, {"validateIPNotInMetadata", true, "HasAny", ""}} {
		fn := p.Func(factoryAliyunPkg, w.fn)
		if fn == nil {
			c.Unres("C07.R7", w.fn, "not found")
			continue
		}
		info := fn.Info()
		// the slice parameter under test
		var param types.Object
		for _, f := range fn.Decl.Type.Params.List {
			for _, nm := range f.Names {
				if _, isSlice := info.Defs[nm].Type().Underlying().(*types.Slice); isSlice {
					param = info.Defs[nm]
				}
			}
		}
		// the boolean results of the poll closure
		ast.Inspect(fn.Decl.Body, func(k ast.Node) bool {
			lit, ok := k.(*ast.FuncLit)
			if !ok {
				return true
			}
			sig, _ := info.TypeOf(lit).(*types.Signature)
			if sig == nil || sig.Results().Len() != 2 {
				return true
			}
			// the conditions under which the callback reports "done": for `return E, nil` the expression E,
			// for a constant `return true, nil` the tests on the way to it
			type lit1 struct {
				x   ast.Expr
				neg bool
			}
			matches := func(l lit1) (bool, string) {
				x, neg := ast.Unparen(l.x), l.neg
				for {
					if u, ok := x.(*ast.UnaryExpr); ok && u.Op == token.NOT {
						neg, x = !neg, ast.Unparen(u.X)
						continue
					}
					break
				}
				x = ast.Unparen(derefExpr(fn, x))
				call, isCall := x.(*ast.CallExpr)
				name := ""
				usesParam := false
				if isCall {
					if f := Callee(info, call); f != nil {
						name = f.Name()
					}
					for _, a := range call.Args {
						if identObj(info, a) == param {
							usesParam = true
						}
					}
				}
				return isCall && usesParam && neg == w.neg && name == w.call, fmt.Sprintf("negated=%v test=%s over-the-parameter=%v", neg, name, usesParam)
			}
			var walk func(list []ast.Stmt, conds []lit1)
			walk = func(list []ast.Stmt, conds []lit1) {
				for _, st := range list {
					switch t := st.(type) {
					case *ast.BlockStmt:
						walk(t.List, conds)
					case *ast.IfStmt:
						walk(t.Body.List, append(append([]lit1{}, conds...), lit1{t.Cond, false}))
						if t.Else != nil {
							walk([]ast.Stmt{t.Else}, append(append([]lit1{}, conds...), lit1{t.Cond, true}))
						}
						if alwaysReturns(t.Body.List) {
							conds = append(append([]lit1{}, conds...), lit1{t.Cond, true})
						}
					case *ast.ReturnStmt:
						if len(t.Results) != 2 {
							continue
						}
						x := ast.Unparen(t.Results[0])
						var cands []lit1
						if tv := info.Types[x]; tv.Value != nil {
							if tv.Value.String() != "true" {
								continue // a constant false (read error, not yet)
							}
							cands = conds
						} else {
							cands = []lit1{{x, false}}
						}
						n++
						ok, detail := false, "no test of the metadata set on the way to this result"
						for _, l := range cands {
							if m, d := matches(l); m {
								ok = true
							} else if !ok {
								detail = d
							}
						}
						c.Check(ok, "C07.R7", w.fn+": the poll condition has the right quantifier", p.Pos(t), fn.Key(),
							map[bool]string{false: "", true: "!"}[w.neg]+"<metadata set>."+w.call+"(<addresses>...)", detail)
					}
				}
			}
			walk(lit.Body.List, nil)
			return false
		})
	}
	c.Floor("C07.R7", "poll conditions", 2, n)
}

// R8: ownership ends with the pod, whatever state the address is in. Set.Release hands every address
// the set knows to IP.Release (which compares the owner); no other test — validity, status — stands in
// front of it. An address that stays owned by a vanished pod is never disposed of, keeps its interface
// from being deleted and is invisible to the balancer.
func c07R8(c *Ctx) {
	p := c.P
	c.Rule("C07.R8", "Set.Release passes every address the set holds to IP.Release (the owner comparison is the only test); nothing about the address's status keeps a pod's ownership alive after the pod released it")
	fn := p.Func(eniPkg, "Set.Release")
	rel := p.Method(eniPkg, "IP", "Release")
	if fn == nil || rel == nil {
		c.Unres("C07.R8", "Set.Release / IP.Release", "not found")
		return
	}
	info := fn.Info()
	var okFlag types.Object
	ast.Inspect(fn.Decl.Body, func(k ast.Node) bool {
		if as, ok := k.(*ast.AssignStmt); ok && len(as.Lhs) == 2 && len(as.Rhs) == 1 {
			if _, isIx := ast.Unparen(as.Rhs[0]).(*ast.IndexExpr); isIx {
				okFlag = identObj(info, as.Lhs[1])
			}
		}
		return true
	})
	sites := p.CallsTo([]*FuncInfo{fn}, rel)
	if okFlag == nil || len(sites) != 1 {
		c.Undec("C07.R8", "Set.Release: lookup and hand-over", p.Pos(fn.Decl), fn.Key(), "i, ok := s[ip]; i.Release(podID)", fmt.Sprintf("lookup flag found=%v, IP.Release calls=%d", okFlag != nil, len(sites)))
		return
	}
	c.RequireReachedF("C07.R8", "Set.Release: an address the set holds reaches IP.Release", fn, fn.Decl.Body, sites[0].Call, "the set holds the address", func(e *FactEngine) (*Formula, error) {
		return e.Cond(identFor(info, okFlag)), nil
	})
}

// R9: a created interface is not lost to a retry. Factory.CreateNetworkInterface returns the interface
// together with the error when a later step failed, so that the caller can keep or hand it back. From a
// call that returned an interface no path leads to another creation (a retry loop, a second attempt)
// without passing a hand-back (DeleteNetworkInterface), a store of the interface into the caller's state
// or a return that carries it.
func c07R9(c *Ctx) {
	p := c.P
	c.Rule("C07.R9", "consumers of Factory.CreateNetworkInterface: with an interface returned, no path reaches another CreateNetworkInterface call without handing the interface back, recording it or returning it (a retry never overwrites the only reference to a created interface)")
	createM := p.Method("pkg/factory", "Factory", "CreateNetworkInterface")
	delM := p.Method("pkg/factory", "Factory", "DeleteNetworkInterface")
	if createM == nil || delM == nil {
		c.Unres("C07.R9", "Factory.CreateNetworkInterface / DeleteNetworkInterface", "not found")
		return
	}
	n := 0
	for _, cs := range p.CallsTo(nil, createM) {
		fn := cs.Fn
		if strings.HasPrefix(fn.Pkg.PkgPath, modPath+"/pkg/factory") {
			continue // the factories themselves
		}
		info := fn.Info()
		as, lhs := assignedFromCall(fn, cs.Call)
		if as == nil || len(lhs) == 0 || lhs[0] == nil {
			continue
		}
		n++
		eniVar := lhs[0]
		mentions := func(k ast.Node) bool {
			hit := false
			ast.Inspect(k, func(j ast.Node) bool {
				if id, ok := j.(*ast.Ident); ok && info.ObjectOf(id) == eniVar {
					hit = true
				}
				return !hit
			})
			return hit
		}
		isCreate := func(k ast.Node) bool {
			hit := false
			ast.Inspect(k, func(j ast.Node) bool {
				if call, ok := j.(*ast.CallExpr); ok && Callee(info, call) == createM {
					hit = true
				}
				return !hit
			})
			return hit
		}
		kept := func(k ast.Node) bool {
			switch t := k.(type) {
			case *ast.ReturnStmt:
				return mentions(t)
			case *ast.AssignStmt:
				if ast.Node(t) == ast.Node(as) {
					return false
				}
				for i, l := range t.Lhs {
					switch ast.Unparen(l).(type) {
					case *ast.SelectorExpr, *ast.IndexExpr:
						if i < len(t.Rhs) && mentions(t.Rhs[i]) {
							return true
						}
					}
				}
			case *ast.ExprStmt:
				if call, ok := t.X.(*ast.CallExpr); ok && Callee(info, call) == delM && mentions(call) {
					return true
				}
			}
			// a hand-back whose error is bound or ignored: _ = f.DeleteNetworkInterface(x.ID)
			hit := false
			ast.Inspect(k, func(j ast.Node) bool {
				if call, ok := j.(*ast.CallExpr); ok && Callee(info, call) == delM && mentions(call) {
					hit = true
				}
				return !hit
			})
			return hit
		}
		q := NewPathQuery(p, fn, innermostBody(fn, cs.Call))
		q.TrackNils = []types.Object{eniVar}
		q.StartNil = map[types.Object]int{eniVar: nilNo}
		w := q.Escapes(isExactly(as), func(k ast.Node) bool { return isCreate(k) }, kept, nil)
		c.Check(w == nil, "C07.R9", fn.Key()+": a returned interface is kept or handed back before the next creation", p.Pos(cs.Call), fn.Key(), "must-pass: record / DeleteNetworkInterface / return between two creations", "path: "+p.describePath(w))
	}
	c.Floor("C07.R9", "consumers of CreateNetworkInterface", 2, n)
}

// R10: what is attached is adopted. At start-up the production factory intersects the interfaces the
// instance metadata lists with the cloud's description of them; every interface known to both is
// returned to the pool builder, whatever else the description says about it (status, tags already
// filtered by the query). An attached interface that is left out is never tracked again: the list is
// read once per process.
func c07R10(c *Ctx) {
	p := c.P
	c.Rule("C07.R10", "Aliyun.GetAttachedNetworkInterface: every described interface whose id the instance metadata lists is returned (the append of the intersect loop is reached whenever the id lookup succeeds)")
	fn := p.Func(factoryAliyunPkg, "Aliyun.GetAttachedNetworkInterface")
	if fn == nil {
		c.Unres("C07.R10", "Aliyun.GetAttachedNetworkInterface", "not found")
		return
	}
	info := fn.Info()
	n := 0
	ast.Inspect(fn.Decl.Body, func(k ast.Node) bool {
		rs, ok := k.(*ast.RangeStmt)
		if !ok {
			return true
		}
		// a loop whose body looks an id up in a map of *daemon.ENI and appends the entry found
		var okFlag types.Object
		var app ast.Node
		ast.Inspect(rs.Body, func(j ast.Node) bool {
			as, isAs := j.(*ast.AssignStmt)
			if !isAs || len(as.Rhs) != 1 {
				return true
			}
			if ix, isIx := ast.Unparen(as.Rhs[0]).(*ast.IndexExpr); isIx && len(as.Lhs) == 2 {
				if m, isMap := info.TypeOf(ix.X).Underlying().(*types.Map); isMap && strings.HasSuffix(m.Elem().String(), "daemon.ENI") {
					okFlag = identObj(info, as.Lhs[1])
				}
			}
			if _, isApp := isBuiltinCall(info, as.Rhs[0], "append"); isApp {
				app = as
			}
			return true
		})
		if okFlag == nil || app == nil {
			return true
		}
		n++
		c.RequireReachedF("C07.R10", "GetAttachedNetworkInterface: an interface known to metadata and to the cloud is returned", fn, rs.Body, app, "the id is one the metadata lists", func(e *FactEngine) (*Formula, error) {
			return e.Cond(identFor(info, okFlag)), nil
		})
		return false
	})
	c.Floor("C07.R10", "intersect loops", 1, n)
}
