package main

// C16 — a retried cloud mutation reuses its idempotency token (pkg/aliyun/client).

import (
	"fmt"
	"go/ast"
	"go/token"
	"go/types"
	"strings"
)

func init() { registry["C16"] = c16 }

func c16(c *Ctx) {
	if c.P.Pkg(clientPkg) == nil {
		c.Unres("C16", clientPkg, "package not loaded")
		return
	}
	c16R1(c)
	c16R2(c)
	c16R4(c)
	c16R6(c)
	c16R5(c)
	// the request that is hashed is built from this call's options only: a merger never adopts an
	// option's own struct, so one caller's arguments cannot show up in another caller's request
	ruleFreshMergeTarget(c, "C16.R7", c.P.FuncsInPkg(clientPkg), "the option mergers of the cloud client (ApplyCreateNetworkInterface …)")
	c16R8(c)
}

// R8: which elements of a map reach the hashed request does not depend on the iteration order either:
// a loop over a map that builds a list in a request builder runs to the end (a sort afterwards orders
// what was collected — it cannot bring back what an early exit left out, and which entries an early
// exit leaves out differs from call to call).
func c16R8(c *Ctx) {
	p := c.P
	c.Rule("C16.R8", "request builders: a loop that ranges over a map and appends to a list has no break / continue / return (the set of entries that reach the request, not only their order, is the same for the same parameters)")
	n := 0
	for _, fn := range c16Builders(c) {
		info := fn.Info()
		tainted := orderTainted(fn)
		ast.Inspect(fn.Decl.Body, func(nd ast.Node) bool {
			rs, ok := nd.(*ast.RangeStmt)
			if !ok {
				return true
			}
			if _, isMap := info.TypeOf(rs.X).Underlying().(*types.Map); !isMap {
				return true
			}
			builds := false
			for _, as := range tainted {
				if rs.Body.Pos() <= as.Pos() && as.End() <= rs.Body.End() {
					builds = true
				}
			}
			if !builds {
				return true
			}
			n++
			var exit ast.Node
			var walk func(x ast.Node, depth int)
			walk = func(x ast.Node, depth int) {
				ast.Inspect(x, func(k ast.Node) bool {
					switch t := k.(type) {
					case *ast.FuncLit:
						return false
					case *ast.ForStmt, *ast.RangeStmt, *ast.SwitchStmt, *ast.TypeSwitchStmt, *ast.SelectStmt:
						if k != x {
							// a break inside belongs to the inner statement; continue (loops excepted), return and labelled jumps do not
							ast.Inspect(k, func(j ast.Node) bool {
								switch u := j.(type) {
								case *ast.FuncLit:
									return false
								case *ast.ReturnStmt:
									exit = u
								case *ast.BranchStmt:
									_, innerLoop := k.(*ast.ForStmt)
									_, innerRange := k.(*ast.RangeStmt)
									if u.Label != nil || (u.Tok == token.CONTINUE && !innerLoop && !innerRange) {
										exit = u
									}
								}
								return true
							})
							return false
						}
					case *ast.ReturnStmt:
						exit = t
					case *ast.BranchStmt:
						if t.Tok == token.BREAK || t.Tok == token.CONTINUE || t.Tok == token.GOTO {
							exit = t
						}
					}
					return true
				})
			}
			walk(rs.Body, 0)
			key := fn.Name + ": the list built from " + exprString(rs.X) + " takes every entry"
			if exit != nil {
				c.Bad("C16.R8", key, p.Pos(exit), fn.Key(), "for k, v := range m { list = append(list, …) } without an early exit", "the loop can leave entries out; which ones depends on the iteration order of the map")
			} else {
				c.OK("C16.R8", key, p.Pos(rs), fn.Key(), "no break / continue / return in the loop")
			}
			return true
		})
	}
	c.Floor("C16.R8", "list-building loops over maps in request builders", 1, n)
}

// orderTainted finds locals of fn that are appended to while ranging over a
// map and returns, per local, the append statement.
func orderTainted(fn *FuncInfo) map[types.Object]*ast.AssignStmt {
	info := fn.Info()
	out := map[types.Object]*ast.AssignStmt{}
	ast.Inspect(fn.Decl.Body, func(nd ast.Node) bool {
		rs, ok := nd.(*ast.RangeStmt)
		if !ok {
			return true
		}
		if _, isMap := info.TypeOf(rs.X).Underlying().(*types.Map); !isMap {
			return true
		}
		ast.Inspect(rs.Body, func(k ast.Node) bool {
			as, ok := k.(*ast.AssignStmt)
			if !ok || len(as.Lhs) != 1 || len(as.Rhs) != 1 {
				return true
			}
			if call, ok := isBuiltinCall(info, as.Rhs[0], "append"); ok {
				if o := identObj(info, as.Lhs[0]); o != nil && identObj(info, call.Args[0]) == o {
					out[o] = as
				}
			}
			return true
		})
		return true
	})
	return out
}

func isSortCallOn(info *types.Info, n ast.Node, o types.Object) bool {
	found := false
	ast.Inspect(n, func(k ast.Node) bool {
		call, ok := k.(*ast.CallExpr)
		if !ok {
			return true
		}
		cal := Callee(info, call)
		if cal == nil || cal.Pkg() == nil {
			return true
		}
		if (cal.Pkg().Path() == "sort" || cal.Pkg().Path() == "slices") && strings.HasPrefix(cal.Name(), "S") {
			for _, a := range call.Args {
				ast.Inspect(a, func(j ast.Node) bool {
					if id, ok := j.(*ast.Ident); ok && info.ObjectOf(id) == o {
						found = true
					}
					return true
				})
			}
		}
		return true
	})
	return found
}

// c16Builders: the request builders, identified by their signature — a function of the client
// package that takes the idempotency-key generator and returns (request, roll-back closure,
// error). The signature survives refactorings of the body; builders stay functions in the
// normalised view so that their callers are judged as callers.
func c16Builders(c *Ctx) []*FuncInfo {
	p := c.P
	var out []*FuncInfo
	for _, fn := range p.FuncsInPkg(clientPkg) {
		sig := fn.Obj.Type().(*types.Signature)
		if sig.Results().Len() != 3 {
			continue
		}
		if _, isFn := sig.Results().At(1).Type().Underlying().(*types.Signature); !isFn {
			continue
		}
		if !types.Identical(sig.Results().At(2).Type(), types.Universe.Lookup("error").Type()) {
			continue
		}
		hasGen := false
		for i := 0; i < sig.Params().Len(); i++ {
			if typeIs(sig.Params().At(i).Type(), modPath+"/"+clientPkg, "IdempotentKeyGen") {
				hasGen = true
			}
		}
		if !hasGen {
			continue
		}
		p.Anchor(fn)
		out = append(out, fn)
	}
	return out
}

func c16R1(c *Ctx) {
	p := c.P
	c.Rule("C16.R1", "the hashed request is independent of map iteration order: in every function that calls md5Hash(x), a slice built by appending while ranging over a map reaches x only after a sort (otherwise a retry with the same parameters hashes differently and does not find its token)")
	md5 := p.Func(clientPkg, "md5Hash")
	if md5 == nil {
		c.Unres("C16.R1", "md5Hash", "not found")
		return
	}
	bl := c16Builders(c)
	sites := p.CallsTo(bl, md5.Obj)
	for _, cs := range p.CallsTo(nil, md5.Obj) {
		isB := false
		for _, b := range bl {
			if b == cs.Fn {
				isB = true
			}
		}
		c.Check(isB, "C16.R1", "md5Hash in "+cs.Fn.Key()+" belongs to a request builder", p.Pos(cs.Call), cs.Fn.Key(), "hashing happens in a function (…IdempotentKeyGen…) (request, func(), error)", "hash taken outside a request builder")
	}
	c.Floor("C16.R1", "md5Hash call sites (request builders)", 5, len(sites))
	for _, cs := range sites {
		fn := cs.Fn
		info := fn.Info()
		hashed := identObj(info, cs.Call.Args[0])
		tainted := orderTainted(fn)
		bad := false
		for o, app := range tainted {
			// does the tainted slice reach the hashed object? (stored into one of its fields, or is the object itself)
			reaches := o == hashed
			ast.Inspect(fn.Decl.Body, func(k ast.Node) bool {
				as, ok := k.(*ast.AssignStmt)
				if !ok || as.Pos() > cs.Call.Pos() {
					return true
				}
				for i, l := range as.Lhs {
					if sel, ok := ast.Unparen(l).(*ast.SelectorExpr); ok && identObj(info, sel.X) == hashed && i < len(as.Rhs) {
						ast.Inspect(as.Rhs[i], func(j ast.Node) bool {
							if id, ok := j.(*ast.Ident); ok && info.ObjectOf(id) == o {
								reaches = true
							}
							return true
						})
					}
				}
				return true
			})
			if !reaches {
				continue
			}
			q := NewPathQuery(p, fn, nil)
			w := q.Escapes(isExactly(app), isExactly(cs.Call), func(n ast.Node) bool { return isSortCallOn(info, n, o) }, nil)
			if w != nil {
				bad = true
				c.Bad("C16.R1", fn.Key()+": hashed request contains "+o.Name()+" in map order", p.Pos(app), fn.Key(), "slices built from a map are sorted before the request is hashed", "path from the append to md5Hash without a sort: "+p.describePath(w))
			}
		}
		if !bad {
			c.OK("C16.R1", fn.Key()+": hashed request is order-independent", p.Pos(cs.Call), fn.Key(), fmt.Sprintf("%d map-built slices, all sorted or not hashed", len(tainted)))
		}
	}
	// md5Hash itself: json.Marshal of the object (struct field order is fixed; map keys are sorted by encoding/json)
	okM := false
	ast.Inspect(md5.Decl.Body, func(k ast.Node) bool {
		if call, ok := k.(*ast.CallExpr); ok && calleeName(md5.Info(), call) == "Marshal" {
			okM = true
		}
		return true
	})
	c.Check(okM, "C16.R1", "md5Hash serialises with encoding/json (deterministic for structs and maps)", p.Pos(md5.Decl), md5.Key(), "json.Marshal(obj)", "different serialiser")
	// positive control
	c.Check(orderTaintControl(), "C16.R1", "positive control: the map-order matcher fires on a known-bad snippet", "", "", "embedded example is flagged", "matcher did not fire")
}

func orderTaintControl() bool {
	f, info, err := checkSnippet(`package snippet
func f(m map[string]string) []string { var t []string; for k := range m { t = append(t, k) }; return t }
`)
	if err != nil {
		return false
	}
	for _, d := range f.Decls {
		if fd, ok := d.(*ast.FuncDecl); ok {
			fi := &FuncInfo{Decl: fd}
			_ = fi
			n := 0
			ast.Inspect(fd.Body, func(nd ast.Node) bool {
				if rs, ok := nd.(*ast.RangeStmt); ok {
					if _, isMap := info.TypeOf(rs.X).Underlying().(*types.Map); isMap {
						n++
					}
				}
				return true
			})
			return n == 1
		}
	}
	return false
}

func c16R2(c *Ctx) {
	p := c.P
	c.Rule("C16.R2", "in every request builder the hash is taken before the token is set (the token is not part of the hash), the token is GenerateKey(that hash), the returned closure puts back exactly (that hash, that token), and ClientToken fields are written nowhere else")
	md5 := p.Func(clientPkg, "md5Hash")
	if md5 == nil {
		return
	}
	builders := map[*FuncInfo]bool{}
	bl := c16Builders(c)
	for _, b := range bl {
		builders[b] = true
	}
	for _, cs := range p.CallsTo(bl, md5.Obj) {
		fn := cs.Fn
		info := fn.Info()
		// root: the variable an identifier is a plain alias of (x := y, var x T = y)
		root := func(x ast.Expr) types.Object {
			o := identObj(info, x)
			for depth := 0; depth < 4 && o != nil; depth++ {
				ds := varDefs(fn, o)
				if len(ds) != 1 || ds[0].rhs == nil {
					break
				}
				next := identObj(info, ds[0].rhs)
				if next == nil {
					break
				}
				o = next
			}
			return o
		}
		hashed := root(cs.Call.Args[0])
		_, lhs := assignedFromCall(fn, cs.Call)
		if hashed == nil || len(lhs) != 1 || lhs[0] == nil {
			c.Undec("C16.R2", fn.Key()+": hash bound", p.Pos(cs.Call), fn.Key(), "", "argsHash := md5Hash(req) not recognised")
			continue
		}
		hashObj := lhs[0]
		// tokenOf: the expression is (a variable filled once with) GenerateKey(hash of this request)
		tokenOf := func(x ast.Expr) bool {
			call, ok := ast.Unparen(derefLoose(fn, x)).(*ast.CallExpr)
			return ok && calleeName(info, call) == "IdempotentKeyGen.GenerateKey" && len(call.Args) == 1 && root(call.Args[0]) == hashObj
		}
		q := NewPathQuery(p, fn, nil)
		// stores to hashed.ClientToken
		n := 0
		ast.Inspect(fn.Decl.Body, func(k ast.Node) bool {
			as, ok := k.(*ast.AssignStmt)
			if !ok || len(as.Lhs) != 1 {
				return true
			}
			sel, ok := ast.Unparen(as.Lhs[0]).(*ast.SelectorExpr)
			if !ok || sel.Sel.Name != "ClientToken" || root(sel.X) != hashed {
				return true
			}
			n++
			w := q.Escapes(nil, isExactly(as), isExactly(cs.Call), nil)
			c.Check(w == nil, "C16.R2", fn.Key()+": token set only after the request was hashed", p.Pos(as), fn.Key(), "must-pass: md5Hash(req) → req.ClientToken = …", "path: "+p.describePath(w))
			// no other field of the request is modified after the hash
			okTok := tokenOf(as.Rhs[0])
			c.Check(okTok, "C16.R2", fn.Key()+": token = GenerateKey(hash of this request)", p.Pos(as), fn.Key(), "req.ClientToken = gen.GenerateKey(argsHash)", exprString(as.Rhs[0]))
			return true
		})
		c.Check(n == 1, "C16.R2", fn.Key()+": exactly one token store", p.Pos(fn.Decl), fn.Key(), "one req.ClientToken = …", fmt.Sprintf("%d", n))
		// request fields are not changed after hashing (other than the token)
		var late []string
		ast.Inspect(fn.Decl.Body, func(k ast.Node) bool {
			as, ok := k.(*ast.AssignStmt)
			if !ok || as.Pos() < cs.Call.End() {
				return true
			}
			for _, l := range as.Lhs {
				if sel, ok := ast.Unparen(l).(*ast.SelectorExpr); ok && root(sel.X) == hashed && sel.Sel.Name != "ClientToken" {
					late = append(late, sel.Sel.Name+" at "+p.Pos(as))
				}
			}
			return true
		})
		c.Check(len(late) == 0, "C16.R2", fn.Key()+": the request is complete when hashed", p.Pos(cs.Call), fn.Key(), "no request field other than the token is set after md5Hash", strings.Join(late, ", "))
		// returned closure: PutBack(hash, req.ClientToken)
		okPB := false
		for _, r := range declReturns(fn.Decl.Body) {
			if len(r.Results) != 3 {
				continue
			}
			lit, ok := ast.Unparen(derefLoose(fn, r.Results[1])).(*ast.FuncLit)
			if !ok {
				continue
			}
			ast.Inspect(lit.Body, func(k ast.Node) bool {
				if call, ok := k.(*ast.CallExpr); ok && calleeName(info, call) == "IdempotentKeyGen.PutBack" && len(call.Args) == 2 {
					if root(call.Args[0]) == hashObj {
						if sel, ok := ast.Unparen(call.Args[1]).(*ast.SelectorExpr); ok && sel.Sel.Name == "ClientToken" && root(sel.X) == hashed {
							okPB = true
						} else if tokenOf(call.Args[1]) {
							okPB = true
						}
					}
				}
				return true
			})
		}
		c.Check(okPB, "C16.R2", fn.Key()+": roll-back closure puts back (hash, token) of this request", p.Pos(fn.Decl), fn.Key(), "func() { gen.PutBack(argsHash, req.ClientToken) }", "not recognised")
	}
	// ClientToken writers
	var sites = map[*FuncInfo][]ast.Node{}
	total := 0
	for _, fn := range p.AllFuncs() {
		info := fn.Info()
		ast.Inspect(fn.Decl.Body, func(k ast.Node) bool {
			if as, ok := k.(*ast.AssignStmt); ok {
				for _, l := range as.Lhs {
					if fv := fieldOf(info, l); fv != nil && fv.Name() == "ClientToken" {
						sites[fn] = append(sites[fn], as)
						total++
					}
				}
			}
			return true
		})
	}
	allowed := map[string]string{}
	for b := range builders {
		allowed[b.Key()] = "request builder"
	}
	c.WhoMay("C16.R2", "set a ClientToken", sites, allowed)
	c.Floor("C16.R2", "ClientToken stores", 5, total)
}

func c16R4(c *Ctx) {
	p := c.P
	c.Rule("C16.R4", "put-back on failure: every caller of a request builder returns the token to the generator on every failure exit of the cloud call (explicit roll-back in the error arm that directly follows the call / its retry wrapper, or a deferred roll-back bound to the returned error)")
	md5 := p.Func(clientPkg, "md5Hash")
	if md5 == nil {
		return
	}
	n := 0
	for _, builder := range c16Builders(c) {
		for _, cs := range p.CallsTo(nil, builder.Obj) {
			fn := cs.Fn
			info := fn.Info()
			_, lhs := assignedFromCall(fn, cs.Call)
			if len(lhs) != 3 || lhs[0] == nil || lhs[1] == nil {
				c.Bad("C16.R4", fn.Key()+": builder results bound", p.Pos(cs.Call), fn.Key(), "req, rollBack, err := opts.Finish(gen)", "results not bound (roll-back closure dropped)")
				continue
			}
			n++
			reqObj, rbObj := lhs[0], lhs[1]
			// the statement W holding the cloud call that consumes req
			var W *ast.AssignStmt
			ast.Inspect(fn.Decl.Body, func(k ast.Node) bool {
				as, ok := k.(*ast.AssignStmt)
				if !ok || as.Pos() < cs.Call.End() || W != nil {
					return true
				}
				// top-level statements of the function body only
				isTop := false
				for _, s := range fn.Decl.Body.List {
					if s == ast.Stmt(as) {
						isTop = true
					}
				}
				if !isTop {
					return true
				}
				uses := false
				ast.Inspect(as, func(j ast.Node) bool {
					if call, ok := j.(*ast.CallExpr); ok {
						for _, a := range call.Args {
							if identObj(info, a) == reqObj {
								if cal := Callee(info, call); cal != nil && cal.Pkg() != nil && strings.Contains(cal.Pkg().Path(), "alibaba-cloud-sdk-go") {
									uses = true
								}
							}
						}
					}
					return true
				})
				if uses {
					W = as
				}
				return true
			})
			if W == nil {
				c.Undec("C16.R4", fn.Key()+": cloud call", p.Pos(cs.Call), fn.Key(), "", "no top-level statement passes the built request to the SDK")
				continue
			}
			errObj := identObj(info, W.Lhs[len(W.Lhs)-1])
			isRB := func(call *ast.CallExpr) bool { return identObj(info, call.Fun) == rbObj }
			undos, problems := findDeferredUndo(p, fn, isRB, nil)
			for _, pr := range problems {
				c.Bad("C16.R4", fn.Key()+": deferred put-back shape", "", fn.Key(), "defer func(){ if err != nil { rollBack() } }()", pr)
			}
			sig := fn.Obj.Type().(*types.Signature)
			q := NewPathQuery(p, fn, nil)
			rbNode := containsNode(func(k ast.Node) bool {
				call, ok := k.(*ast.CallExpr)
				return ok && isRB(call)
			})
			if len(undos) > 0 {
				du := undos[0]
				// at most once: with the deferred put-back in place no explicit one runs as well (the
				// generator would hold the token twice and hand it to two different requests)
				var extra []string
				ast.Inspect(fn.Decl.Body, func(k ast.Node) bool {
					if k == ast.Node(du.stmt) {
						return false
					}
					if call, ok := k.(*ast.CallExpr); ok && isRB(call) {
						extra = append(extra, p.Pos(call))
					}
					return true
				})
				c.Check(len(extra) == 0 && len(undos) == 1, "C16.R4", fn.Key()+": the token is put back at most once", p.Pos(du.stmt), fn.Key(), "one deferred put-back and no explicit one", fmt.Sprintf("deferred put-backs: %d, explicit put-backs at %v", len(undos), extra))
				// registered before the cloud call; every failure return after the builder is covered
				w := q.Escapes(nil, isExactly(W), isExactly(du.stmt), nil)
				c.Check(w == nil, "C16.R4", fn.Key()+": deferred put-back registered before the cloud call", p.Pos(du.stmt), fn.Key(), "must-pass: defer → cloud call", "path: "+p.describePath(w))
				for _, r := range declReturns(fn.Decl.Body) {
					if r.Pos() < du.stmt.Pos() {
						continue
					}
					if ok, known := isSuccessReturn(info, sig, r); ok && known {
						continue
					}
					// `return x, err` at the very end is a success-or-failure return bound to err: covered by construction
					ok, why := coveredByDeferredUndo(c, fn, du, nil, r)
					c.Check(ok, "C16.R4", fn.Key()+": failure return after "+lastFallible(fn, r)+" puts the token back", p.Pos(r), fn.Key(), "the returned error is the variable the deferred put-back tests", why)
				}
				continue
			}
			// explicit form: the error arm directly following W calls rollBack on every path to its return
			if errObj == nil {
				c.Bad("C16.R4", fn.Key()+": cloud call error bound", p.Pos(W), fn.Key(), "err = <cloud call>", "error discarded")
				continue
			}
			// explicit form: on every path from the cloud call along which its error is non-nil, the
			// put-back runs before the function is left (whatever the shape of the test: error arm
			// first or success first)
			q.Prune = func(cond ast.Expr, takeTrue bool) bool {
				be, ok := ast.Unparen(cond).(*ast.BinaryExpr)
				if !ok || identObj(info, be.X) != errObj || !info.Types[ast.Unparen(be.Y)].IsNil() {
					return false
				}
				return (be.Op == token.NEQ && !takeTrue) || (be.Op == token.EQL && takeTrue)
			}
			reassigned := assignsVar(info, errObj)
			w := q.Escapes(isExactly(W), nil, func(k ast.Node) bool { return rbNode(k) || (k != ast.Node(W) && reassigned(k)) }, nil)
			c.Check(w == nil, "C16.R4", fn.Key()+": every failure exit of the cloud call puts the token back", p.Pos(W), fn.Key(), "must-pass on err != nil: cloud call → rollBack() → return", "path without put-back: "+p.describePath(w))
			arm := W
			q.Prune = nil
			w2 := q.Escapes(rbNode, rbNode, nil, nil)
			c.Check(w2 == nil, "C16.R4", fn.Key()+": the token is put back at most once", p.Pos(arm), fn.Key(), "no path passes two put-backs", "path: "+p.describePath(w2))
			// and no return lies between the builder's own error arm and W (nothing fallible without put-back)
			barm := errArm(fn, lhs[2], cs.Call.End())
			for _, r := range declReturns(fn.Decl.Body) {
				if barm != nil && r.Pos() > barm.End() && r.End() < W.Pos() {
					c.Bad("C16.R4", fn.Key()+": return between the builder and the cloud call", p.Pos(r), fn.Key(), "no exit between taking the token and issuing the call (or a put-back before it)", "token taken but neither used nor put back")
				}
			}
		}
	}
	c.Floor("C16.R4", "callers of request builders", 7, n)
}

func c16R5(c *Ctx) {
	p := c.P
	c.Rule("C16.R5", "token generator: a cached token is handed out at most once (every path returning a cached id removes it from the cache: Remove when it was the last, Add of the shortened list otherwise), put-back appends, and every cache access holds the generator mutex")
	gen := p.Func(clientPkg, "SimpleIdempotentKeyGenerator.GenerateKey")
	put := p.Func(clientPkg, "SimpleIdempotentKeyGenerator.PutBack")
	if gen == nil || put == nil {
		c.Unres("C16.R5", "GenerateKey / PutBack", "not found")
		return
	}
	cacheF := p.Field(clientPkg, "SimpleIdempotentKeyGenerator", "cache")
	// the generator's mutex: its one field of a sync mutex type, whatever it is called
	muName := ""
	if o := p.LookupObj(clientPkg, "SimpleIdempotentKeyGenerator"); o != nil {
		if st, ok := o.Type().Underlying().(*types.Struct); ok {
			for i := 0; i < st.NumFields(); i++ {
				if typeIs(st.Field(i).Type(), "sync", "Mutex", "RWMutex") {
					if muName != "" {
						muName = "?"
					} else {
						muName = st.Field(i).Name()
					}
				}
			}
		}
	}
	if muName == "" || muName == "?" {
		c.Unres("C16.R5", "SimpleIdempotentKeyGenerator mutex field", "no single sync.Mutex field")
		return
	}
	for _, fn := range p.FuncsInPkg(clientPkg) {
		if recvTypeOf(fn) != "SimpleIdempotentKeyGenerator" {
			continue
		}
		la := NewLockAnalysis(p, fn)
		info := fn.Info()
		recv := recvObj(fn)
		ast.Inspect(fn.Decl.Body, func(k ast.Node) bool {
			if sel, ok := k.(*ast.SelectorExpr); ok && fieldOf(info, sel) == cacheF {
				held := la.HeldBefore(sel)
				_, ok := held[objID(recv)+"."+muName]
				if !ok && !isExported(fn.Decl.Name.Name) {
					// a helper that requires the mutex held: judged at its call sites
					sites := p.CallsTo(nil, fn.Obj)
					if len(sites) > 0 && !p.valueReferenced(fn.Obj) {
						for _, cs := range sites {
							okSite := false
							heldAt := NewLockAnalysis(p, cs.Fn).HeldBefore(cs.Call)
							if rs, isSel := ast.Unparen(cs.Call.Fun).(*ast.SelectorExpr); isSel {
								if ro := identObj(cs.Fn.Info(), rs.X); ro != nil {
									_, okSite = heldAt[objID(ro)+"."+muName]
								}
							}
							c.Check(okSite, "C16.R5", fn.Key()+": cache access under the mutex (helper called with the mutex held, in "+cs.Fn.Key()+")", p.Pos(cs.Call), cs.Fn.Key(), "held ∋ g.mu at the call", heldAt.String())
						}
						return true
					}
				}
				c.Check(ok, "C16.R5", fn.Key()+": cache access under the mutex", p.Pos(sel), fn.Key(), "held ∋ g.mu", held.String())
			}
			return true
		})
	}
	info := gen.Info()
	param := info.Defs[gen.Decl.Type.Params.List[0].Names[0]]
	q := NewPathQuery(p, gen, nil)
	// the cached list: assigned from the value returned by cache.Get (type assertion)
	var getNode *ast.CallExpr
	ast.Inspect(gen.Decl.Body, func(k ast.Node) bool {
		if call, ok := k.(*ast.CallExpr); ok {
			if sel, ok := ast.Unparen(call.Fun).(*ast.SelectorExpr); ok && sel.Sel.Name == "Get" && fieldOf(info, sel.X) == cacheF {
				getNode = call
			}
		}
		return true
	})
	var listObj types.Object
	ast.Inspect(gen.Decl.Body, func(k ast.Node) bool {
		as, ok := k.(*ast.AssignStmt)
		if !ok || len(as.Rhs) != 1 {
			return true
		}
		if ta, ok := ast.Unparen(as.Rhs[0]).(*ast.TypeAssertExpr); ok {
			if _, isSlice := info.TypeOf(ta.Type).Underlying().(*types.Slice); isSlice && listObj == nil {
				listObj = identObj(info, as.Lhs[0])
			}
		}
		return true
	})
	if getNode == nil || listObj == nil {
		c.Bad("C16.R5", "GenerateKey reads the cached token list", p.Pos(gen.Decl), gen.Key(), "v, ok := cache.Get(hash); list := v.([]string)", "not recognised")
		return
	}
	// variables holding a strict reslice of the list (or the list itself after `list = list[:n-1]`)
	shortened := map[types.Object]bool{}
	isReslice := func(x ast.Expr) bool {
		se, ok := ast.Unparen(x).(*ast.SliceExpr)
		if !ok || identObj(info, se.X) != listObj {
			return false
		}
		return se.High != nil || se.Low != nil
	}
	ast.Inspect(gen.Decl.Body, func(k ast.Node) bool {
		if as, ok := k.(*ast.AssignStmt); ok && len(as.Lhs) == len(as.Rhs) {
			for i := range as.Lhs {
				if isReslice(as.Rhs[i]) {
					if o := identObj(info, as.Lhs[i]); o != nil {
						shortened[o] = true
					}
				}
			}
		}
		return true
	})
	// a value taken out of the list
	fromList := func(x ast.Expr) bool {
		if ix, ok := ast.Unparen(x).(*ast.IndexExpr); ok && identObj(info, ix.X) == listObj {
			return true
		}
		if o := identObj(info, x); o != nil {
			for _, d := range varDefs(gen, o) {
				rhs := d.rhs
				if rhs == nil {
					continue
				}
				if ix, ok := ast.Unparen(rhs).(*ast.IndexExpr); ok && identObj(info, ix.X) == listObj {
					return true
				}
			}
			// tuple assignment id, list = list[n-1], list[:n-1]
			found := false
			ast.Inspect(gen.Decl.Body, func(k ast.Node) bool {
				if as, ok := k.(*ast.AssignStmt); ok && len(as.Lhs) == len(as.Rhs) {
					for i := range as.Lhs {
						if identObj(info, as.Lhs[i]) == o {
							if ix, ok := ast.Unparen(as.Rhs[i]).(*ast.IndexExpr); ok && identObj(info, ix.X) == listObj {
								found = true
							}
						}
					}
				}
				return true
			})
			return found
		}
		return false
	}
	isCacheCall := func(name string, n ast.Node, check func(*ast.CallExpr) bool) bool {
		found := false
		ast.Inspect(n, func(k ast.Node) bool {
			if call, ok := k.(*ast.CallExpr); ok {
				if sel, ok := ast.Unparen(call.Fun).(*ast.SelectorExpr); ok && sel.Sel.Name == name && fieldOf(info, sel.X) == cacheF && check(call) {
					found = true
				}
			}
			return true
		})
		return found
	}
	consumed := func(n ast.Node) bool {
		return isCacheCall("Remove", n, func(call *ast.CallExpr) bool { return len(call.Args) == 1 && identObj(info, call.Args[0]) == param }) ||
			isCacheCall("Add", n, func(call *ast.CallExpr) bool {
				if len(call.Args) != 2 || identObj(info, call.Args[0]) != param {
					return false
				}
				return isReslice(call.Args[1]) || shortened[identObj(info, call.Args[1])]
			})
	}
	n := 0
	for _, r := range declReturns(gen.Decl.Body) {
		if !fromList(r.Results[0]) {
			continue
		}
		n++
		w := q.Escapes(isExactly(getNode), isExactly(r), consumed, nil)
		c.Check(w == nil, "C16.R5", "a handed-out cached token is removed from the cache", p.Pos(r), gen.Key(), "must-pass: cache.Get → cache.Remove(hash) | cache.Add(hash, shortened list) → return <token from the list>", "path on which the token stays cached (a later request with the same parameters would get the same token): "+p.describePath(w))
	}
	c.Floor("C16.R5", "returns of a cached token", 1, n)
	// Remove only when the shortened list is empty (otherwise other tokens would be lost)
	ast.Inspect(gen.Decl.Body, func(k ast.Node) bool {
		if es, ok := k.(*ast.ExprStmt); ok && isCacheCall("Remove", es, func(*ast.CallExpr) bool { return true }) {
			var names []string
			for o := range shortened {
				names = append(names, "len("+o.Name()+") == 0")
			}
			if len(names) == 0 {
				names = append(names, "len("+listObj.Name()+") == 1")
			}
			c.Require("C16.R5", "cache entry removed only when no token is left", gen, es, strings.Join(names, " || "), nil)
		}
		return true
	})
	// other returns yield a fresh token
	for _, r := range declReturns(gen.Decl.Body) {
		if fromList(r.Results[0]) {
			continue
		}
		c.Check(strings.HasPrefix(exprString(r.Results[0]), "uuid.New"), "C16.R5", "otherwise a fresh token is generated", p.Pos(r), gen.Key(), "return uuid.NewString()", exprString(r.Results[0]))
	}
	// PutBack: on every path the token is stored under its hash, appended to what is cached there
	// (or as a singleton)
	pinfo := put.Info()
	hashP := pinfo.Defs[put.Decl.Type.Params.List[0].Names[0]]
	tokP := pinfo.Defs[put.Decl.Type.Params.List[1].Names[0]]
	holdsToken := func(x ast.Expr) bool {
		x = ast.Unparen(x)
		if call, ok := isBuiltinCall(pinfo, x, "append"); ok && len(call.Args) == 2 && call.Ellipsis == token.NoPos && identObj(pinfo, call.Args[1]) == tokP {
			return true
		}
		if cl, ok := x.(*ast.CompositeLit); ok && len(cl.Elts) == 1 && identObj(pinfo, cl.Elts[0]) == tokP {
			return true
		}
		return false
	}
	adds, goodAdds := 0, 0
	var addCalls []ast.Node
	ast.Inspect(put.Decl.Body, func(k ast.Node) bool {
		call, ok := k.(*ast.CallExpr)
		if !ok {
			return true
		}
		sel, ok := ast.Unparen(call.Fun).(*ast.SelectorExpr)
		if !ok || sel.Sel.Name != "Add" || fieldOf(pinfo, sel.X) != cacheF || len(call.Args) != 2 {
			return true
		}
		adds++
		okKey := identObj(pinfo, call.Args[0]) == hashP
		okVal := holdsToken(call.Args[1])
		if o := identObj(pinfo, call.Args[1]); o != nil && !okVal {
			// a list variable: its last assignment appends the token
			keepsAll := true
			for _, d := range varDefs(put, o) {
				if d.rhs != nil && holdsToken(d.rhs) {
					okVal = true
				}
				// the list only ever grows: what was cached (a type assertion of the cache's value) plus
				// appends; a re-slice or any other rewrite would drop tokens that were put back
				switch t := ast.Unparen(d.rhs).(type) {
				case *ast.TypeAssertExpr, *ast.CompositeLit:
				case *ast.CallExpr:
					if ac, isApp := isBuiltinCall(pinfo, t, "append"); !isApp || len(ac.Args) == 0 || identObj(pinfo, ac.Args[0]) != o {
						keepsAll = false
					}
				default:
					keepsAll = false
				}
			}
			okVal = okVal && keepsAll
		}
		if okKey && okVal {
			goodAdds++
			addCalls = append(addCalls, call)
		}
		return true
	})
	pq := NewPathQuery(p, put, nil)
	w := pq.Escapes(nil, nil, func(n ast.Node) bool {
		for _, a := range addCalls {
			if n.Pos() <= a.Pos() && a.End() <= n.End() {
				return true
			}
		}
		return false
	}, nil)
	c.Check(adds >= 1 && goodAdds == adds && w == nil, "C16.R5", "PutBack stores the token under its hash (append or singleton)", p.Pos(put.Decl), put.Key(), "every path: cache.Add(hash, append(list, token)) or cache.Add(hash, []string{token})", fmt.Sprintf("adds=%d storing the token under the hash=%d path without a store: %s", adds, goodAdds, p.describePath(w)))
	_ = token.ADD
}
