package main

// Generic lints added for the fourth round of seeded defects. Each names a construct of Go that is
// almost never meant, runs over a stated scope on the program as written, and is tied to the clause of
// the property it protects by the rule text of the property that runs it.

import (
	"fmt"
	"go/ast"
	"go/token"
	"go/types"
	"sort"
	"strings"
)

// ---- range over a slice that the body shrinks -------------------------------------------------

// rangeShrinks: `for i := range S` fixes the iteration count when the loop starts; a body that
// re-slices or removes from S (S = append(S[:i], S[i+1:]...), S = S[:k]) and indexes S with the range
// index runs past the shortened slice.
func rangeShrinks(p *Prog, fns []*FuncInfo) (found []ast.Node, fnOf map[ast.Node]*FuncInfo, loops int) {
	fnOf = map[ast.Node]*FuncInfo{}
	for _, fn := range fns {
		if fn.Decl.Body == nil {
			continue
		}
		info := fn.Info()
		ast.Inspect(fn.Decl.Body, func(n ast.Node) bool {
			rs, ok := n.(*ast.RangeStmt)
			if !ok || rs.Key == nil {
				return true
			}
			if _, isSlice := info.TypeOf(rs.X).Underlying().(*types.Slice); !isSlice {
				return true
			}
			if !isPurePath(rs.X) {
				return true
			}
			loops++
			sx := exprString(rs.X)
			key := identObj(info, rs.Key)
			shrinks, indexed := false, false
			ast.Inspect(rs.Body, func(k ast.Node) bool {
				switch t := k.(type) {
				case *ast.AssignStmt:
					for i, l := range t.Lhs {
						if exprString(l) != sx || i >= len(t.Rhs) {
							continue
						}
						r := ast.Unparen(t.Rhs[i])
						if se, ok := r.(*ast.SliceExpr); ok && exprString(se.X) == sx {
							shrinks = true
						}
						if call, ok := isBuiltinCall(info, r, "append"); ok && len(call.Args) >= 2 {
							if se, ok := ast.Unparen(call.Args[0]).(*ast.SliceExpr); ok && exprString(se.X) == sx && call.Ellipsis.IsValid() {
								shrinks = true
							}
						}
						if call, ok := r.(*ast.CallExpr); ok {
							if f := Callee(info, call); f != nil && f.Pkg() != nil && f.Pkg().Path() == "slices" && (strings.HasPrefix(f.Name(), "Delete") || strings.HasPrefix(f.Name(), "Compact")) {
								shrinks = true
							}
						}
					}
				case *ast.IndexExpr:
					if exprString(t.X) == sx && key != nil && identObj(info, t.Index) == key {
						indexed = true
					}
				}
				return true
			})
			if shrinks && indexed {
				found = append(found, rs)
				fnOf[rs] = fn
			}
			return true
		})
	}
	return
}

func ruleRangeShrink(c *Ctx, rule, scope string) {
	p := asWritten(c.P)
	c.Rule(rule, "no `for i := range S` in "+scope+" removes elements from S in its body while indexing S[i] (the iteration count is fixed when the loop starts: the index runs past the shortened slice and panics)")
	found, fnOf, loops := rangeShrinks(p, p.live())
	for _, n := range found {
		c.Bad(rule, "range over "+exprString(n.(*ast.RangeStmt).X)+" in "+fnOf[n].Key(), p.Pos(n), fnOf[n].Key(), "a counted loop that re-reads the length, or no removal inside the loop", "the body shrinks the slice it ranges over and indexes it with the range index")
	}
	if len(found) == 0 {
		c.OK(rule, "range loops over slices examined", "", "", "none shrinks its own slice")
	}
	c.Floor(rule, "range loops over slice paths", 20, loops)
}

// ---- netip.AddrFromSlice of a net.IP ---------------------------------------------------------------

// A net.IP holding an IPv4 address is usually 16 bytes long (net.ParseIP, net.IPv4): AddrFromSlice
// turns it into the IPv4-mapped IPv6 address, which never equals the 4-byte netip.Addr of the same
// address. The result must be Unmap()ped, or the slice narrowed with To4() first.
func ruleAddrFromSlice(c *Ctx, rule, scope string) {
	p := asWritten(c.P)
	c.Rule(rule, "every netip.AddrFromSlice of a net.IP in "+scope+" is unmapped (…Unmap()) or fed a To4() slice: a 16-byte IPv4 otherwise becomes ::ffff:a.b.c.d and compares unequal to the 4-byte form the pool is keyed by")
	n := 0
	for _, fn := range p.live() {
		if fn.Decl.Body == nil {
			continue
		}
		info := fn.Info()
		unmapped := map[*ast.CallExpr]bool{}
		ast.Inspect(fn.Decl.Body, func(k ast.Node) bool {
			// AddrFromSlice(x) directly under .Unmap(), or its result variable unmapped before use
			if call, ok := k.(*ast.CallExpr); ok {
				if sel, ok := ast.Unparen(call.Fun).(*ast.SelectorExpr); ok && sel.Sel.Name == "Unmap" {
					if inner, ok := ast.Unparen(sel.X).(*ast.CallExpr); ok {
						unmapped[inner] = true
					}
				}
			}
			return true
		})
		ast.Inspect(fn.Decl.Body, func(k ast.Node) bool {
			call, ok := k.(*ast.CallExpr)
			if !ok || len(call.Args) != 1 {
				return true
			}
			f := Callee(info, call)
			if f == nil || f.Pkg() == nil || f.Pkg().Path() != "net/netip" || f.Name() != "AddrFromSlice" {
				return true
			}
			at := info.TypeOf(call.Args[0])
			named, _ := at.(*types.Named)
			if named == nil || named.Obj().Pkg() == nil || named.Obj().Pkg().Path() != "net" || named.Obj().Name() != "IP" {
				return true // a []byte of known provenance is not judged
			}
			n++
			ok2 := unmapped[call]
			// narrowed argument: x.To4()
			if ac, isCall := ast.Unparen(call.Args[0]).(*ast.CallExpr); isCall {
				if s, isSel := ast.Unparen(ac.Fun).(*ast.SelectorExpr); isSel && s.Sel.Name == "To4" {
					ok2 = true
				}
			}
			// result variable unmapped: v, ok := AddrFromSlice(x); … v.Unmap() / v = v.Unmap()
			if !ok2 {
				for _, anc := range pathTo(fn.Decl.Body, call) {
					as, isAs := anc.(*ast.AssignStmt)
					if !isAs || len(as.Lhs) == 0 {
						continue
					}
					v := identObj(info, as.Lhs[0])
					if v == nil {
						continue
					}
					ast.Inspect(fn.Decl.Body, func(j ast.Node) bool {
						if c2, ok := j.(*ast.CallExpr); ok {
							if s, ok := ast.Unparen(c2.Fun).(*ast.SelectorExpr); ok && s.Sel.Name == "Unmap" && identObj(info, s.X) == v {
								ok2 = true
							}
						}
						return true
					})
				}
			}
			c.Check(ok2, rule, "AddrFromSlice("+exprString(call.Args[0])+") in "+fn.Key(), p.Pos(call), fn.Key(), "….Unmap(), or AddrFromSlice(x.To4())", "the address keeps the IPv4-mapped form")
			return true
		})
	}
	if n == 0 {
		c.OK(rule, "netip.AddrFromSlice calls on a net.IP", "", "", "none (addresses are converted through their text form)")
	}
}

// ---- os.OpenFile for writing without truncation ---------------------------------------------

func ruleOpenFileTrunc(c *Ctx, rule, scope string) {
	p := asWritten(c.P)
	c.Rule(rule, "a file opened for writing with O_CREATE in "+scope+" is truncated, appended to or created exclusively (O_TRUNC | O_APPEND | O_EXCL): rewriting an existing longer file otherwise leaves its old tail behind the new content")
	n := 0
	for _, fn := range p.live() {
		if fn.Decl.Body == nil {
			continue
		}
		info := fn.Info()
		ast.Inspect(fn.Decl.Body, func(k ast.Node) bool {
			call, ok := k.(*ast.CallExpr)
			if !ok || len(call.Args) != 3 {
				return true
			}
			f := Callee(info, call)
			if f == nil || f.Pkg() == nil || f.Pkg().Path() != "os" || f.Name() != "OpenFile" {
				return true
			}
			flags := map[string]bool{}
			ast.Inspect(derefExpr(fn, call.Args[1]), func(j ast.Node) bool {
				if id, ok := j.(*ast.Ident); ok && strings.HasPrefix(id.Name, "O_") {
					flags[id.Name] = true
				}
				return true
			})
			if !flags["O_CREATE"] || !(flags["O_WRONLY"] || flags["O_RDWR"]) {
				return true
			}
			n++
			c.Check(flags["O_TRUNC"] || flags["O_APPEND"] || flags["O_EXCL"], rule, "OpenFile("+exprString(call.Args[0])+") in "+fn.Key(), p.Pos(call), fn.Key(), "O_TRUNC, O_APPEND or O_EXCL next to O_CREATE", "flags: "+exprString(call.Args[1]))
			return true
		})
	}
	if n == 0 {
		c.OK(rule, "os.OpenFile calls that create a file for writing", "", "", "none (files are written with os.WriteFile)")
	}
}

// ---- one key for one map -----------------------------------------------------------------

// ruleMapKeyAgreement: every key used with the map-typed struct field (index, store, delete) is the
// same attribute of whatever it is derived from — judged by the last field name of the key expression
// after following locals. `deletedPods[cni.PodUID] = …` and `delete(deletedPods, cni.PodID)` is a slip.
func ruleMapKeyAgreement(c *Ctx, rule string, pkg, typ, field, what string) {
	p := c.P
	c.Rule(rule, what+": every key used with "+typ+"."+field+" (store, lookup, delete) names the same attribute")
	fv := p.Field(pkg, typ, field)
	if fv == nil {
		c.Unres(rule, typ+"."+field, "not found")
		return
	}
	attr := map[string][]string{}
	n := 0
	for _, fn := range p.live() {
		if fn.Decl.Body == nil {
			continue
		}
		info := fn.Info()
		var keyOfIn func(fn *FuncInfo, k ast.Expr, depth int)
		keyOf := func(k ast.Expr) {
			n++
			keyOfIn(fn, k, 0)
		}
		keyOfIn = func(fn *FuncInfo, k ast.Expr, depth int) {
			info := fn.Info()
			d := ast.Unparen(derefExpr(fn, k))
			name := "?"
			switch t := d.(type) {
			case *ast.SelectorExpr:
				name = t.Sel.Name
			case *ast.Ident:
				name = "var " + t.Name
				// a parameter: what the callers pass
				if pv, ok := info.ObjectOf(t).(*types.Var); ok && depth < 2 {
					if pi := paramIndex(fn, pv); pi >= 0 {
						sites := p.CallsTo(nil, fn.Obj)
						if len(sites) > 0 {
							for _, cs := range sites {
								if pi < len(cs.Call.Args) {
									keyOfIn(cs.Fn, cs.Call.Args[pi], depth+1)
								}
							}
							return
						}
					}
				}
				if o := info.ObjectOf(t); o != nil {
					if _, isRangeKey := o.(*types.Var); isRangeKey {
						// a range key over the same map is the map's own key
						for _, anc := range pathTo(fn.Decl.Body, k) {
							if rs, ok := anc.(*ast.RangeStmt); ok && fieldOf(info, rs.X) == fv && identObj(info, rs.Key) == o {
								name = ""
							}
						}
					}
				}
			case *ast.CallExpr:
				name = "result of " + exprString(t.Fun)
			}
			if name != "" {
				attr[name] = append(attr[name], p.Pos(k))
			}
		}
		ast.Inspect(fn.Decl.Body, func(k ast.Node) bool {
			switch t := k.(type) {
			case *ast.IndexExpr:
				if fieldOf(info, t.X) == fv {
					keyOf(t.Index)
				}
			case *ast.CallExpr:
				if call, ok := isBuiltinCall(info, t, "delete"); ok && len(call.Args) == 2 && fieldOf(info, call.Args[0]) == fv {
					keyOf(call.Args[1])
				}
			}
			return true
		})
	}
	var names []string
	for k := range attr {
		names = append(names, k)
	}
	sort.Strings(names)
	detail := ""
	for _, k := range names {
		detail += fmt.Sprintf("%s (%d×, e.g. %s); ", k, len(attr[k]), attr[k][0])
	}
	c.Check(len(names) == 1, rule, "keys of "+typ+"."+field, p.PosOf(fv.Pos()), "", "one attribute", detail)
	c.Floor(rule, "uses of "+typ+"."+field+" with a key", 2, n)
}

var _ = token.NoPos

// ruleKeyedByOwnField: every store into a map whose values are *T is keyed by the stored value's own
// field F (`m[v.F] = v`), or copies an entry of another such map under its key (`for k, v := range
// other { m[k] = v }`). Readers and deleters use v.F; an entry filed under anything else is never found.
func ruleKeyedByOwnField(c *Ctx, rule string, fns []*FuncInfo, typPkg, typ, field, what string) {
	p := c.P
	c.Rule(rule, what+": an entry is filed under its own "+field+" (m[v."+field+"] = v), so that lookups and deletes by "+field+" find it")
	tobj := p.LookupObj(typPkg, typ)
	if tobj == nil {
		c.Unres(rule, typ, "not found")
		return
	}
	isMapOfT := func(t types.Type) bool {
		m, ok := t.Underlying().(*types.Map)
		if !ok {
			return false
		}
		ptr, ok := m.Elem().(*types.Pointer)
		if !ok {
			return false
		}
		n, ok := ptr.Elem().(*types.Named)
		return ok && n.Obj() == tobj
	}
	n := 0
	for _, fn := range fns {
		if fn.Decl.Body == nil {
			continue
		}
		info := fn.Info()
		judge := func(at ast.Node, k, v ast.Expr) {
			n++
			ok := false
			kd := ast.Unparen(derefExpr(fn, k))
			if sel, isSel := kd.(*ast.SelectorExpr); isSel && sel.Sel.Name == field {
				a, b := exprString(derefExpr(fn, sel.X)), exprString(derefExpr(fn, v))
				if a == b || "&"+a == b || a == strings.TrimPrefix(b, "&") {
					ok = true
				}
			}
			if !ok {
				// the key and value of a range over a map of the same type
				for _, anc := range pathTo(fn.Decl.Body, at) {
					if rs, isR := anc.(*ast.RangeStmt); isR && rs.Key != nil && rs.Value != nil && isMapOfT(info.TypeOf(rs.X)) {
						if identObj(info, rs.Key) != nil && identObj(info, rs.Key) == identObj(info, k) && identObj(info, rs.Value) == identObj(info, v) {
							ok = true
						}
					}
				}
			}
			c.Check(ok, rule, "store "+exprString2(at)+" in "+fn.Key(), p.Pos(at), fn.Key(), "key = <value>."+field+" (or the key of the entry being copied)", "key "+exprString(k))
		}
		ast.Inspect(fn.Decl.Body, func(k ast.Node) bool {
			switch t := k.(type) {
			case *ast.AssignStmt:
				if len(t.Lhs) == len(t.Rhs) {
					for i, l := range t.Lhs {
						if ix, ok := ast.Unparen(l).(*ast.IndexExpr); ok && isMapOfT(info.TypeOf(ix.X)) {
							judge(t, ix.Index, t.Rhs[i])
						}
					}
				}
			case *ast.CompositeLit:
				if isMapOfT(info.TypeOf(t)) {
					for _, el := range t.Elts {
						if kv, ok := el.(*ast.KeyValueExpr); ok {
							if lit, isLit := ast.Unparen(kv.Value).(*ast.UnaryExpr); isLit {
								// key: x, value: &T{F: x, …}
								if cl, ok := ast.Unparen(lit.X).(*ast.CompositeLit); ok {
									n++
									okLit := false
									for _, e2 := range cl.Elts {
										if kv2, ok := e2.(*ast.KeyValueExpr); ok && exprString(kv2.Key) == field && exprString(kv2.Value) == exprString(kv.Key) {
											okLit = true
										}
									}
									c.Check(okLit, rule, "map literal entry "+exprString(kv.Key)+" in "+fn.Key(), p.Pos(kv), fn.Key(), "key equals the "+field+" of the literal value", "key "+exprString(kv.Key))
									continue
								}
							}
							judge(kv, kv.Key, kv.Value)
						}
					}
				}
			}
			return true
		})
	}
	c.Floor(rule, "stores into maps of *"+typ, 2, n)
}

// ruleFreshMergeTarget: an option merger copies fields into the accumulator; a pointer field of the
// accumulator that the merger writes through (acc.F.G = …) is only ever set to a fresh allocation in
// that merger. Adopting an option's own pointer (acc.F = opt.F) makes every later merge write into the
// caller's option — which may be a shared table entry.
func ruleFreshMergeTarget(c *Ctx, rule string, fns []*FuncInfo, what string) {
	p := c.P
	c.Rule(rule, what+": a pointer field of the accumulator that the merger writes through is only assigned a fresh allocation (&T{} / new), never an option's own pointer")
	n := 0
	for _, fn := range fns {
		if fn.Decl.Body == nil || !strings.HasPrefix(fn.Decl.Name.Name, "Apply") {
			continue
		}
		info := fn.Info()
		// paths written through: P such that `P.G = …` occurs
		through := map[string]bool{}
		ast.Inspect(fn.Decl.Body, func(k ast.Node) bool {
			as, ok := k.(*ast.AssignStmt)
			if !ok {
				return true
			}
			for _, l := range as.Lhs {
				if sel, ok := ast.Unparen(l).(*ast.SelectorExpr); ok {
					if inner, ok := ast.Unparen(sel.X).(*ast.SelectorExpr); ok {
						if _, isPtr := info.TypeOf(inner).(*types.Pointer); isPtr {
							through[exprString(inner)] = true
						}
					}
				}
			}
			return true
		})
		ast.Inspect(fn.Decl.Body, func(k ast.Node) bool {
			as, ok := k.(*ast.AssignStmt)
			if !ok || len(as.Lhs) != len(as.Rhs) {
				return true
			}
			for i, l := range as.Lhs {
				if !through[exprString(ast.Unparen(l))] {
					continue
				}
				n++
				r := ast.Unparen(as.Rhs[i])
				fresh := false
				if u, ok := r.(*ast.UnaryExpr); ok && u.Op == token.AND {
					_, fresh = ast.Unparen(u.X).(*ast.CompositeLit)
				}
				if call, ok := isBuiltinCall(info, r, "new"); ok && call != nil {
					fresh = true
				}
				c.Check(fresh, rule, fn.Key()+": "+exprString(l)+" is set to a fresh allocation", p.Pos(as), fn.Key(), exprString(l)+" = &T{} before fields are merged into it", "assigned "+exprString(r)+", an existing object that later merges write into")
			}
			return true
		})
	}
	c.Floor(rule, "accumulator pointer fields that are written through", 1, n)
}

// ruleNilErrorMethod: err.Error() on an error variable is reached only where the variable is known
// non-nil. (A nil error interface has no method table: the call panics, and in a goroutine outside the
// RPC server's recovery that ends the process.)
func ruleNilErrorMethod(c *Ctx, rule string, fns []*FuncInfo, scope string) {
	_ = c.P
	c.Rule(rule, "every <err>.Error() on an error variable in "+scope+" is dominated by <err> != nil")
	n := 0
	for _, fn := range fns {
		if fn.Decl.Body == nil {
			continue
		}
		info := fn.Info()
		ast.Inspect(fn.Decl.Body, func(k ast.Node) bool {
			call, ok := k.(*ast.CallExpr)
			if !ok || len(call.Args) != 0 {
				return true
			}
			sel, ok := ast.Unparen(call.Fun).(*ast.SelectorExpr)
			if !ok || sel.Sel.Name != "Error" {
				return true
			}
			id, ok := ast.Unparen(sel.X).(*ast.Ident)
			if !ok {
				return true
			}
			v, ok := info.ObjectOf(id).(*types.Var)
			if !ok || v.IsField() || !types.Identical(v.Type(), types.Universe.Lookup("error").Type()) {
				return true
			}
			n++
			c.Require(rule, fn.Key()+": "+id.Name+".Error()", fn, call, id.Name+" != nil", nil)
			return true
		})
	}
	c.Floor(rule, "<err>.Error() calls on error variables", 10, n)
}

// ruleIntDivGuard: an integer division or remainder whose divisor is not a constant is dominated by a
// test that the divisor is not zero (integer division by zero panics; floating point does not).
func ruleIntDivGuard(c *Ctx, rule string, fns []*FuncInfo, scope string) {
	p := c.P
	c.Rule(rule, "every integer / or % in "+scope+" has a non-zero constant divisor or a divisor that is tested against zero on every path to it")
	n := 0
	for _, fn := range fns {
		if fn.Decl.Body == nil {
			continue
		}
		info := fn.Info()
		ast.Inspect(fn.Decl.Body, func(k ast.Node) bool {
			var x, y ast.Expr
			var at ast.Node
			switch t := k.(type) {
			case *ast.BinaryExpr:
				if t.Op == token.QUO || t.Op == token.REM {
					x, y, at = t.X, t.Y, t
				}
			case *ast.AssignStmt:
				if (t.Tok == token.QUO_ASSIGN || t.Tok == token.REM_ASSIGN) && len(t.Lhs) == 1 && len(t.Rhs) == 1 {
					x, y, at = t.Lhs[0], t.Rhs[0], t
				}
			}
			if at == nil || !isIntegerType(info.TypeOf(x)) {
				return true
			}
			if tv := info.Types[y]; tv.Value != nil {
				return true // a constant divisor: the compiler rejects a constant zero
			}
			n++
			d := ast.Unparen(y)
			// conversions of a path are the path
			for {
				call, ok := d.(*ast.CallExpr)
				if !ok || len(call.Args) != 1 || !info.Types[call.Fun].IsType() {
					break
				}
				d = ast.Unparen(call.Args[0])
			}
			key := fn.Key() + ": divisor " + exprString(y)
			if !isPurePath(d) {
				if lc, ok := isBuiltinCall(info, d, "len"); ok && lc != nil {
					c.Require(rule, key, fn, at, exprString(d)+" > 0", nil)
					return true
				}
				c.Bad(rule, key, p.Pos(at), fn.Key(), "a divisor that is a constant or a tested variable", "the divisor is a computed expression that can be zero")
				return true
			}
			c.Require(rule, key, fn, at, exprString(d)+" != 0", nil)
			return true
		})
	}
	if n == 0 {
		c.OK(rule, "integer divisions with a non-constant divisor", "", "", "none")
	}
}

// ruleFieldSetByAllBuilders: every function that finishes a builder chain (calls <terminal>) also runs a
// step that stores the field. A mode flag that one chain forgets stays at its zero value and silently
// switches off whatever tests it.
func ruleFieldSetByAllBuilders(c *Ctx, rule, pkg, typ, field, builderTyp, terminal, what string) {
	p := asWritten(c.P)
	c.Rule(rule, what+": every constructor chain that ends in "+builderTyp+"."+terminal+" runs a step that sets "+typ+"."+field)
	fv := p.Field(pkg, typ, field)
	term := p.Method(pkg, builderTyp, terminal)
	if fv == nil || term == nil {
		c.Unres(rule, typ+"."+field+" / "+builderTyp+"."+terminal, "not found")
		return
	}
	setters := map[*FuncInfo]bool{}
	for _, s := range p.StoresTo(nil, fv) {
		setters[s.Fn] = true
	}
	c.Floor(rule, "functions that store "+typ+"."+field, 1, len(setters))
	n := 0
	for _, fn := range p.FuncsInPkg(pkg) {
		if fn.Decl.Body == nil || recvTypeOf(fn) == builderTyp {
			continue
		}
		ends := false
		for _, cs := range p.CallsIn(fn) {
			if cs.Callee == term {
				ends = true
			}
		}
		if !ends {
			continue
		}
		n++
		seen := map[*FuncInfo]bool{}
		var reach func(f *FuncInfo, d int) bool
		reach = func(f *FuncInfo, d int) bool {
			if setters[f] {
				return true
			}
			if d == 0 || seen[f] {
				return false
			}
			seen[f] = true
			for _, cs := range p.CallsIn(f) {
				if g := p.FuncOf(cs.Callee); g != nil && reach(g, d-1) {
					return true
				}
			}
			return false
		}
		c.Check(reach(fn, 3), rule, fn.Key()+" sets "+field, p.Pos(fn.Decl), fn.Key(), "a step of the chain stores "+typ+"."+field, "no step of this chain (to depth 3) stores the field: it keeps its zero value in this mode")
	}
	c.Floor(rule, "constructor chains", 2, n)
}

// ---- the wrong field of the right object ---------------------------------------------------------

type roleMismatch struct {
	fn    *FuncInfo
	call  *ast.CallExpr
	param string
	got   string
	want  string
}

// roleMismatches: at a call of a module function, a parameter called P receives the field X.F although
// X has a field whose name is P (same type) and F's name does not say P. `leniNetwork(data.Ip, mask)`
// for `func leniNetwork(gateway, mask string)` while data.Gateway exists.
func roleMismatches(p *Prog, fns []*FuncInfo) (out []roleMismatch, examined int) {
	norm := func(s string) string { return strings.ToLower(strings.ReplaceAll(s, "_", "")) }
	for _, fn := range fns {
		if fn.Decl.Body == nil {
			continue
		}
		info := fn.Info()
		ast.Inspect(fn.Decl.Body, func(k ast.Node) bool {
			call, ok := k.(*ast.CallExpr)
			if !ok {
				return true
			}
			callee := p.FuncOf(Callee(info, call))
			if callee == nil {
				return true
			}
			var names []string
			for _, f := range callee.Decl.Type.Params.List {
				for _, nm := range f.Names {
					names = append(names, nm.Name)
				}
				if len(f.Names) == 0 {
					names = append(names, "_")
				}
			}
			if len(names) != len(call.Args) || call.Ellipsis.IsValid() {
				return true
			}
			for i, a := range call.Args {
				pn := norm(names[i])
				if len(pn) < 3 {
					continue
				}
				sel, ok := ast.Unparen(a).(*ast.SelectorExpr)
				if !ok || info.Selections[sel] == nil {
					continue
				}
				fname := norm(sel.Sel.Name)
				if strings.Contains(fname, pn) || strings.Contains(pn, fname) {
					continue
				}
				bt := info.TypeOf(sel.X)
				if bt == nil {
					continue
				}
				if ptr, ok := bt.Underlying().(*types.Pointer); ok {
					bt = ptr.Elem()
				}
				st, ok := bt.Underlying().(*types.Struct)
				if !ok {
					continue
				}
				examined++
				at := info.TypeOf(a)
				for j := 0; j < st.NumFields(); j++ {
					g := st.Field(j)
					if norm(g.Name()) == pn && g.Name() != sel.Sel.Name && types.Identical(g.Type(), at) {
						out = append(out, roleMismatch{fn, call, names[i], exprString(a), exprString(sel.X) + "." + g.Name()})
					}
				}
			}
			return true
		})
	}
	return
}

func ruleRoleMismatch(c *Ctx, rule, scope string) {
	p := asWritten(c.P)
	c.Rule(rule, "no call in "+scope+" hands a parameter named P the field X.F of an object that has a field P of the same type (the wrong field of the right object)")
	found, n := roleMismatches(p, p.live())
	for _, f := range found {
		c.Bad(rule, f.fn.Key()+": "+exprString(f.call.Fun)+"("+f.param+" ← "+f.got+")", p.Pos(f.call), f.fn.Key(), f.param+" ← "+f.want, "the argument is another field of the same object")
	}
	if len(found) == 0 {
		c.OK(rule, "field arguments whose name differs from the parameter's", "", "", "none has a same-typed sibling field named like the parameter")
	}
	c.Floor(rule, "field arguments examined", 20, n)
}
