package main

// Item independence: in a function that derives one record per item of a list,
// nothing a scalar local carries out of one iteration may be observed by the
// next. The structural form: a scalar variable declared outside a loop and
// assigned inside it is read inside the loop only after an assignment of the
// same iteration (must-assign-before-read on the loop body's CFG). Statements
// that update a variable from itself (`n++`, `n += k`, `x = x || y`) are the
// variable's own accumulation and are not reads; a variable with such an update
// in the loop is an accumulator and is not examined. Closures bound once to a
// local and mentioned in the loop count as may-writes and reads at the mention.

import (
	"fmt"
	"go/ast"
	"go/token"
	"go/types"
	"os"
	"sort"
	"strings"

	"golang.org/x/tools/go/cfg"
)

type carried struct {
	v    *types.Var
	loop ast.Stmt
	read ast.Node
}

func isScalar(t types.Type) bool {
	_, ok := t.Underlying().(*types.Basic)
	return ok
}

// localClosures: single-definition locals bound to a function literal.
func localClosures(fn *FuncInfo) map[types.Object]*ast.FuncLit {
	info := fn.Info()
	defs := map[types.Object]int{}
	lits := map[types.Object]*ast.FuncLit{}
	ast.Inspect(fn.Decl.Body, func(n ast.Node) bool {
		switch s := n.(type) {
		case *ast.AssignStmt:
			for i, l := range s.Lhs {
				id, ok := l.(*ast.Ident)
				if !ok {
					continue
				}
				o := info.ObjectOf(id)
				if o == nil {
					continue
				}
				defs[o]++
				if len(s.Rhs) == len(s.Lhs) {
					if fl, ok := ast.Unparen(s.Rhs[i]).(*ast.FuncLit); ok {
						lits[o] = fl
					}
				}
			}
		case *ast.ValueSpec:
			for i, id := range s.Names {
				o := info.ObjectOf(id)
				if o == nil {
					continue
				}
				defs[o]++
				if i < len(s.Values) {
					if fl, ok := ast.Unparen(s.Values[i]).(*ast.FuncLit); ok {
						lits[o] = fl
					}
				}
			}
		}
		return true
	})
	for o := range lits {
		if defs[o] != 1 {
			delete(lits, o)
		}
	}
	return lits
}

// varAccess classifies what one CFG node does to v. A node is a statement or a
// condition expression; nested function literals are looked into (a literal
// written in the loop runs, as far as this rule is concerned, where it stands).
type varAccess struct {
	reads   bool // reads v other than in v's own update
	mustDef bool // assigns v unconditionally, not from itself
	mayDef  bool // assigns v (possibly inside a closure)
	selfUpd bool // v = f(v), v op= e, v++
}

func mentions(info *types.Info, n ast.Node, v types.Object) bool {
	found := false
	ast.Inspect(n, func(m ast.Node) bool {
		if id, ok := m.(*ast.Ident); ok && info.ObjectOf(id) == v {
			found = true
		}
		return !found
	})
	return found
}

func accessOf(info *types.Info, n ast.Node, v types.Object, clos map[types.Object]*ast.FuncLit, depth int) varAccess {
	var a varAccess
	var visit func(n ast.Node, top bool)
	visit = func(n ast.Node, top bool) {
		ast.Inspect(n, func(m ast.Node) bool {
			switch s := m.(type) {
			case *ast.FuncLit:
				if m == n {
					return true
				}
				// body of a literal: writes are may-writes, reads are reads
				inner := accessOf(info, s.Body, v, clos, depth)
				a.reads = a.reads || inner.reads
				a.mayDef = a.mayDef || inner.mayDef || inner.mustDef
				a.selfUpd = a.selfUpd || inner.selfUpd
				return false
			case *ast.AssignStmt:
				hit := -1
				for i, l := range s.Lhs {
					if id, ok := ast.Unparen(l).(*ast.Ident); ok && info.ObjectOf(id) == v {
						hit = i
					}
				}
				if hit < 0 {
					return true
				}
				self := s.Tok != token.ASSIGN && s.Tok != token.DEFINE
				for _, r := range s.Rhs {
					if mentions(info, r, v) {
						self = true
					}
				}
				if self {
					a.selfUpd = true
					a.mayDef = true
				} else {
					a.mayDef = true
					if top && m == n {
						a.mustDef = true
					}
				}
				// other left-hand sides (index expressions…) and the right-hand sides
				for i, l := range s.Lhs {
					if i != hit {
						visit(l, false)
					}
				}
				if !self {
					for _, r := range s.Rhs {
						visit(r, false)
					}
				}
				return false
			case *ast.IncDecStmt:
				if id, ok := ast.Unparen(s.X).(*ast.Ident); ok && info.ObjectOf(id) == v {
					a.selfUpd = true
					a.mayDef = true
					return false
				}
			case *ast.UnaryExpr:
				if s.Op == token.AND {
					if id, ok := ast.Unparen(s.X).(*ast.Ident); ok && info.ObjectOf(id) == v {
						a.mayDef = true // &v handed out
						a.reads = true
						return false
					}
				}
			case *ast.Ident:
				o := info.ObjectOf(s)
				if o == v {
					a.reads = true
				} else if fl := clos[o]; fl != nil && depth < 3 {
					inner := accessOf(info, fl.Body, v, clos, depth+1)
					a.reads = a.reads || inner.reads
					a.mayDef = a.mayDef || inner.mayDef || inner.mustDef
					a.selfUpd = a.selfUpd || inner.selfUpd
				}
			}
			return true
		})
	}
	visit(n, true)
	return a
}

// loopCarried lists the scalar locals of fn whose value can flow from one
// iteration of a loop into a read in the next.
func loopCarried(p *Prog, fn *FuncInfo) (found []carried, loops int, vars int) {
	if fn.Decl.Body == nil {
		return
	}
	info := fn.Info()
	clos := localClosures(fn)
	var g *cfg.CFG
	var walkLoops func(n ast.Node)
	seenLoop := map[ast.Stmt]bool{}
	// the once-loop an expanded helper's early returns break out of runs its body once: not a loop
	onceLoops := map[ast.Stmt]bool{}
	ast.Inspect(fn.Decl.Body, func(n ast.Node) bool {
		if ls, ok := n.(*ast.LabeledStmt); ok && strings.HasPrefix(ls.Label.Name, "inlonce") {
			if f, ok := ls.Stmt.(*ast.ForStmt); ok && f.Cond == nil && f.Post == nil && f.Init == nil {
				onceLoops[f] = true
			}
		}
		return true
	})
	walkLoops = func(root ast.Node) {
		ast.Inspect(root, func(n ast.Node) bool {
			var body *ast.BlockStmt
			var loop ast.Stmt
			switch s := n.(type) {
			case *ast.RangeStmt:
				body, loop = s.Body, s
			case *ast.ForStmt:
				body, loop = s.Body, s
			case *ast.FuncLit:
				// loops inside literals: analysed on the literal's own graph below
				return true
			}
			if loop == nil || seenLoop[loop] || onceLoops[loop] {
				return true
			}
			seenLoop[loop] = true
			loops++
			// candidates: scalar variables of fn declared outside the loop …
			cands := map[*types.Var]bool{}
			ast.Inspect(body, func(m ast.Node) bool {
				id, ok := m.(*ast.Ident)
				if !ok {
					return true
				}
				v, ok := info.ObjectOf(id).(*types.Var)
				if !ok || v.IsField() || v.Pkg() == nil || v.Parent() == nil || v.Parent() == v.Pkg().Scope() {
					return true
				}
				if v.Pos() >= loop.Pos() && v.Pos() < loop.End() {
					return true
				}
				if v.Pos() < fn.Decl.Pos() || v.Pos() >= fn.Decl.End() {
					return true
				}
				if isScalar(v.Type()) {
					cands[v] = true
				}
				return true
			})
			if len(cands) == 0 {
				return true
			}
			if g == nil {
				g = cfg.New(fn.Decl.Body, mayReturn)
			}
			gg := g
			// a loop inside a function literal lives on the literal's graph
			if lit := enclosingLit(fn.Decl.Body, loop); lit != nil {
				gg = cfg.New(lit.Body, mayReturn)
			}
			var entry *cfg.Block
			for _, b := range gg.Blocks {
				if b.Stmt == loop && (b.Kind == cfg.KindRangeBody || b.Kind == cfg.KindForBody) {
					entry = b
				}
			}
			if entry == nil {
				return true
			}
			var list []*types.Var
			for v := range cands {
				list = append(list, v)
			}
			sort.Slice(list, func(i, j int) bool { return list[i].Pos() < list[j].Pos() })
			for _, v := range list {
				// … assigned somewhere in the loop, and never as their own accumulation
				whole := accessOf(info, body, v, clos, 0)
				if !whole.mayDef || whole.selfUpd {
					continue
				}
				vars++
				if rd := readBeforeDef(info, gg, entry, loop, v, clos); rd != nil {
					found = append(found, carried{v, loop, rd})
				}
			}
			return true
		})
	}
	walkLoops(fn.Decl.Body)
	return
}

func enclosingLit(root ast.Node, target ast.Node) *ast.FuncLit {
	var best *ast.FuncLit
	ast.Inspect(root, func(n ast.Node) bool {
		if fl, ok := n.(*ast.FuncLit); ok && fl.Pos() <= target.Pos() && target.End() <= fl.End() {
			best = fl
		}
		return true
	})
	return best
}

// readBeforeDef: a node reachable from the loop body's entry, within one
// iteration, that reads v before any unconditional assignment of v.
func readBeforeDef(info *types.Info, g *cfg.CFG, entry *cfg.Block, loop ast.Stmt, v *types.Var, clos map[types.Object]*ast.FuncLit) ast.Node {
	seen := map[*cfg.Block]bool{}
	stack := []*cfg.Block{entry}
	for len(stack) > 0 {
		b := stack[len(stack)-1]
		stack = stack[:len(stack)-1]
		if seen[b] {
			continue
		}
		seen[b] = true
		killed := false
		for _, n := range b.Nodes {
			if n.Pos() < loop.Pos() || n.End() > loop.End() {
				killed = true // left the loop
				break
			}
			a := accessOf(info, n, v, clos, 0)
			if a.reads {
				return n
			}
			if a.mustDef {
				killed = true
				break
			}
		}
		if killed {
			continue
		}
		for _, s := range b.Succs {
			if s.Stmt == loop && (s.Kind == cfg.KindRangeLoop || s.Kind == cfg.KindForLoop || s.Kind == cfg.KindForPost || s.Kind == cfg.KindRangeDone || s.Kind == cfg.KindForDone) {
				continue // next iteration / exit
			}
			stack = append(stack, s)
		}
	}
	return nil
}

// sharedAcrossItems: a reference-typed local (pointer, map, slice) created fresh outside a loop
// that the loop body both writes through (v.f = …, v[k] = …) and hands on as a value (into a
// composite literal, a call, another variable): every item then holds the same object and
// sees the last item's writes.
func sharedAcrossItems(p *Prog, fn *FuncInfo) []carried {
	if fn.Decl.Body == nil {
		return nil
	}
	info := fn.Info()
	var out []carried
	ast.Inspect(fn.Decl.Body, func(n ast.Node) bool {
		var body *ast.BlockStmt
		var loop ast.Stmt
		switch s := n.(type) {
		case *ast.RangeStmt:
			body, loop = s.Body, s
		case *ast.ForStmt:
			body, loop = s.Body, s
		}
		if loop == nil {
			return true
		}
		writes := map[*types.Var]ast.Node{}
		escapes := map[*types.Var]ast.Node{}
		cand := func(x ast.Expr) *types.Var {
			v, ok := identObj(info, x).(*types.Var)
			if !ok || v.IsField() || v.Pkg() == nil || v.Parent() == v.Pkg().Scope() {
				return nil
			}
			if v.Pos() >= loop.Pos() && v.Pos() < loop.End() {
				return nil
			}
			if v.Pos() < fn.Decl.Pos() || v.Pos() >= fn.Decl.End() {
				return nil
			}
			switch v.Type().Underlying().(type) {
			case *types.Pointer, *types.Map:
			default:
				return nil
			}
			// created fresh, once
			ds := varDefs(fn, v)
			if len(ds) != 1 || ds[0].rhs == nil {
				return nil
			}
			r := ast.Unparen(ds[0].rhs)
			if u, ok := r.(*ast.UnaryExpr); ok && u.Op == token.AND {
				if _, isLit := ast.Unparen(u.X).(*ast.CompositeLit); isLit {
					return v
				}
			}
			if _, ok := isBuiltinCall(info, r, "new"); ok {
				return v
			}
			if _, ok := isBuiltinCall(info, r, "make"); ok {
				return v
			}
			return nil
		}
		// inner: the object, or the address of something inside it (&v.a.b) — a pointer into the one object
		inner := func(x ast.Expr) *types.Var {
			x = ast.Unparen(x)
			if v := cand(x); v != nil {
				return v
			}
			if u, ok := x.(*ast.UnaryExpr); ok && u.Op == token.AND {
				if root := rootIdent(u.X); root != nil && ast.Unparen(u.X) != ast.Expr(root) {
					return cand(root)
				}
			}
			return nil
		}
		ast.Inspect(body, func(k ast.Node) bool {
			switch t := k.(type) {
			case *ast.AssignStmt:
				for _, l := range t.Lhs {
					switch lx := ast.Unparen(l).(type) {
					case *ast.SelectorExpr:
						if v := cand(lx.X); v != nil {
							writes[v] = t
						}
					case *ast.IndexExpr:
						if v := cand(lx.X); v != nil {
							writes[v] = t
						}
					}
				}
				for _, r := range t.Rhs {
					if v := inner(r); v != nil {
						escapes[v] = t
					}
				}
			case *ast.CompositeLit:
				for _, e := range t.Elts {
					x := e
					if kv, ok := e.(*ast.KeyValueExpr); ok {
						x = kv.Value
					}
					if v := inner(x); v != nil {
						escapes[v] = t
					}
				}
			case *ast.CallExpr:
				if ac, ok := isBuiltinCall(info, t, "append"); ok {
					for _, a := range ac.Args[1:] {
						if v := inner(a); v != nil {
							escapes[v] = t
						}
					}
					break
				}
				if tv, isConv := info.Types[t.Fun]; isConv && (tv.IsType() || tv.IsBuiltin()) {
					break
				}
				// handed to a callee as a pointer: the callee may fill it (client.Get(ctx, key, obj)) …
				for _, a := range t.Args {
					if v := cand(a); v != nil {
						if _, isPtr := v.Type().Underlying().(*types.Pointer); isPtr {
							writes[v] = t
							// … and a module callee may keep a pointer into it (returns / stores &param.f)
							if fi := p.FuncOf(Callee(info, t)); fi != nil && keepsPointerInto(fi, argIndex(t, a)) {
								escapes[v] = t
							}
						}
					}
				}
			}
			return true
		})
		for v, w := range writes {
			if e, ok := escapes[v]; ok {
				out = append(out, carried{v, loop, e})
				_ = w
			}
		}
		return true
	})
	sort.Slice(out, func(i, j int) bool { return out[i].read.Pos() < out[j].read.Pos() })
	return out
}

// ruleItemIndependent: one obligation per (loop variable) pair examined in fn;
// returns how many pairs there were.
func ruleItemIndependent(c *Ctx, rule string, fn *FuncInfo, what string) int {
	p := c.P
	found, loops, vars := loopCarried(p, fn)
	done := map[*types.Var]bool{}
	for _, f := range found {
		if done[f.v] {
			continue
		}
		done[f.v] = true
		c.Bad(rule, fn.Name+": "+what+": "+f.v.Name()+" is not carried from one item to the next", p.Pos(f.read), fn.Key(),
			"assigned in the iteration before it is read", "declared outside the loop ("+p.PosOf(f.v.Pos())+"), assigned inside it, read at "+p.Pos(f.read)+" on a path with no assignment in the same iteration")
	}
	for _, f := range sharedAcrossItems(p, fn) {
		if done[f.v] {
			continue
		}
		done[f.v] = true
		found = append(found, f)
		c.Bad(rule, fn.Name+": "+what+": "+f.v.Name()+" is not shared between the items", p.Pos(f.read), fn.Key(),
			"a fresh object per item", "created once outside the loop ("+p.PosOf(f.v.Pos())+"), written through inside it and handed on at "+p.Pos(f.read)+": every item holds the same object")
	}
	if len(found) == 0 {
		c.OK(rule, fn.Name+": "+what+": no scalar is carried from one item to the next", p.Pos(fn.Decl), fn.Key(),
			fmt.Sprintf("must-assign-before-read per iteration (%d loops, %d outer scalars assigned in a loop)", loops, vars))
	}
	return loops
}

// itemIndependent: the functions that derive one record per item of a list, per
// property. Anchored by name: they stay functions in the normalised view.
func itemIndependent(c *Ctx, rule string, anchors [][3]string) {
	c.Rule(rule, "item independence: in a function that derives one record per item of a list, a scalar local declared outside the loop and assigned inside it is read only after an assignment of the same iteration (no default or flag leaks from one item into the next)")
	n := 0
	for _, a := range anchors {
		fn := c.P.Func(a[0], a[1])
		if fn == nil {
			c.Unres(rule, a[0]+"."+a[1], "function not found")
			continue
		}
		n += ruleItemIndependent(c, rule, fn, a[2])
	}
	c.Floor(rule, "loops in the per-item builders", 1, n)
}

// carriedDiag prints every loop-carried scalar of the program (calibration only).
func carriedDiag(p *Prog) {
	sh, nsh := shadowFindings(p.live())
	fmt.Printf("shadow: %d examined\n", nsh)
	for _, f := range sh {
		fmt.Printf("shadow %s %s at %s: %s\n", f.kind, f.fn.Key(), p.Pos(f.node), exprString2(f.node))
	}
	rm, nrm := roleMismatches(p, p.live())
	fmt.Printf("role-mismatch: %d examined\n", nrm)
	for _, f := range rm {
		fmt.Printf("role-mismatch %s at %s: %s <- %s (want %s)\n", f.fn.Key(), p.Pos(f.call), f.param, f.got, f.want)
	}
	if os.Getenv("TVC_CARRIED") == "new" {
		return
	}
	rc, nl := rangeCopyStores(p, p.AllFuncs())
	fmt.Printf("range-copy: %d loops\n", nl)
	for _, f := range rc {
		fmt.Printf("range-copy %s %s at %s\n", f.fn.Key(), f.v.Name(), p.Pos(f.store))
	}
	sw, ncalls := argSwaps(p, p.AllFuncs())
	fmt.Printf("arg-swap: %d calls examined\n", ncalls)
	for _, s := range sw {
		fmt.Printf("arg-swap %s calls %s at %s\n", s.fn.Key(), s.callee.Name(), p.Pos(s.call))
	}
	ma, sized := makeThenAppend(p, p.live())
	fmt.Printf("make-then-append: %d sized slices\n", sized)
	for _, f := range ma {
		fmt.Printf("make-append %s %s at %s\n", f.fn.Key(), f.v.Name(), p.Pos(f.app))
	}
	for _, fn := range p.live() {
		found, _, _ := loopCarried(p, fn)
		for _, f := range found {
			fmt.Printf("carried %s %s read at %s\n", fn.Key(), f.v.Name(), p.Pos(f.read))
		}
	}
}

func argIndex(call *ast.CallExpr, a ast.Expr) int {
	for i, x := range call.Args {
		if x == a {
			return i
		}
	}
	return -1
}

// keepsPointerInto: fi returns or stores the address of something inside its pi-th parameter
// (&param.a.b in a return value, a composite literal or an assignment).
func keepsPointerInto(fi *FuncInfo, pi int) bool {
	if fi.Decl.Body == nil || pi < 0 {
		return false
	}
	info := fi.Info()
	var param types.Object
	i := 0
	for _, f := range fi.Decl.Type.Params.List {
		for _, nm := range f.Names {
			if i == pi {
				param = info.Defs[nm]
			}
			i++
		}
	}
	if param == nil {
		return false
	}
	keeps := false
	ast.Inspect(fi.Decl.Body, func(k ast.Node) bool {
		if u, ok := k.(*ast.UnaryExpr); ok && u.Op == token.AND {
			if root := rootIdent(u.X); root != nil && info.ObjectOf(root) == param && ast.Unparen(u.X) != ast.Expr(root) {
				keeps = true
			}
		}
		return !keeps
	})
	return keeps
}
