package main

// Rename resolution. The rules ask for the functions they judge by name; a function that was merely
// renamed (or turned from a method into a plain function of the same name, or the reverse) is still
// the same construct. funcs.txt freezes, for the reference tree, every function key with its
// name-free signature; a frozen key that no longer exists is matched to the one function of the same
// package that is new (not in the frozen list) and has the same receiver type and signature — or the
// same bare name under another receiver. A match makes the function answer to its frozen name in
// every look-up, table and obligation key; no match leaves the anchor unresolved, which fails.

import (
	_ "embed"
	"fmt"
	"go/printer"
	"go/types"
	"hash/fnv"
	"os"
	"regexp"
	"sort"
	"strconv"
	"strings"
	"sync"
)

//go:embed funcs.txt
var frozenFuncs string

type frozenFn struct {
	sig, body string
	ord       int
}

var frozenFuncSigs, frozenFuncMeta = func() (map[string]string, map[string]frozenFn) {
	m, meta := map[string]string{}, map[string]frozenFn{}
	for _, l := range strings.Split(frozenFuncs, "\n") {
		f := strings.Split(l, "\t")
		if len(f) >= 2 {
			m[f[0]] = f[1]
			ff := frozenFn{sig: f[1]}
			if len(f) >= 4 {
				ff.body = f[2]
				ff.ord, _ = strconv.Atoi(f[3])
			}
			meta[f[0]] = ff
		}
	}
	return m, meta
}()

func bodyHash(p *Prog, fi *FuncInfo) string {
	var b strings.Builder
	_ = printer.Fprint(&b, p.Fset, fi.Decl.Body)
	h := fnv.New64a()
	_, _ = h.Write([]byte(b.String()))
	return strconv.FormatUint(h.Sum64(), 36)
}

// sigString renders a signature without parameter names.
func sigString(sig *types.Signature) string {
	q := func(pk *types.Package) string { return pk.Path() }
	var b strings.Builder
	b.WriteString("(")
	for i := 0; i < sig.Params().Len(); i++ {
		if i > 0 {
			b.WriteString(",")
		}
		if sig.Variadic() && i == sig.Params().Len()-1 {
			b.WriteString("...")
		}
		b.WriteString(types.TypeString(sig.Params().At(i).Type(), q))
	}
	b.WriteString(")(")
	for i := 0; i < sig.Results().Len(); i++ {
		if i > 0 {
			b.WriteString(",")
		}
		b.WriteString(types.TypeString(sig.Results().At(i).Type(), q))
	}
	b.WriteString(")")
	return b.String()
}

func dumpFuncs(p *Prog, path string) {
	var lines []string
	ord := map[*FuncInfo]int{}
	list := append([]*FuncInfo(nil), p.funcList...)
	sort.Slice(list, func(i, j int) bool {
		a, b := list[i], list[j]
		if a.Pkg.PkgPath != b.Pkg.PkgPath {
			return a.Pkg.PkgPath < b.Pkg.PkgPath
		}
		fa, fb := p.Fset.File(a.Decl.Pos()).Name(), p.Fset.File(b.Decl.Pos()).Name()
		if fa != fb {
			return fa < fb
		}
		return a.Decl.Pos() < b.Decl.Pos()
	})
	for i, fi := range list {
		ord[fi] = i
	}
	for k, fi := range p.funcs {
		lines = append(lines, fmt.Sprintf("%s\t%s\t%s\t%d", k, sigString(fi.Obj.Type().(*types.Signature)), bodyHash(p, fi), ord[fi]))
	}
	sort.Strings(lines)
	_ = os.WriteFile(path, []byte(strings.Join(lines, "\n")+"\n"), 0o644)
}

func splitKey(pkgPath, key string) (recv, name string) {
	rest := strings.TrimPrefix(key, pkgPath+".")
	if i := strings.LastIndex(rest, "."); i >= 0 {
		return rest[:i], rest[i+1:]
	}
	return "", rest
}

// resolveRenames runs at the end of index(): frozen keys that are gone are matched to new functions.
func (p *Prog) resolveRenames() {
	if len(frozenFuncSigs) == 0 {
		return
	}
	type cand struct {
		key string
		fi  *FuncInfo
	}
	newByPkg := map[string][]cand{}
	for k, fi := range p.funcs {
		if _, frozen := frozenFuncSigs[k]; !frozen {
			newByPkg[fi.Pkg.PkgPath] = append(newByPkg[fi.Pkg.PkgPath], cand{k, fi})
		}
	}
	if len(newByPkg) == 0 {
		return
	}
	var gone []string
	for k := range frozenFuncSigs {
		if _, ok := p.funcs[k]; !ok {
			gone = append(gone, k)
		}
	}
	sort.Strings(gone)
	taken := map[string]bool{}
	p.renamed = map[string]string{}
	p.renamedBare = map[string]string{}
	p.methodToFunc = map[string]string{}
	for _, old := range gone {
		// package path: longest loaded package that prefixes the key
		pkgPath := ""
		for pp := range p.ByPath {
			if strings.HasPrefix(old, pp+".") && len(pp) > len(pkgPath) {
				pkgPath = pp
			}
		}
		if pkgPath == "" {
			continue
		}
		oRecv, oName := splitKey(pkgPath, old)
		var same, bare []cand
		for _, c := range newByPkg[pkgPath] {
			if taken[c.key] {
				continue
			}
			cRecv, cName := splitKey(pkgPath, c.key)
			if cRecv == oRecv && sigString(c.fi.Obj.Type().(*types.Signature)) == frozenFuncSigs[old] {
				same = append(same, c)
			}
			if cName == oName && cRecv != oRecv {
				bare = append(bare, c)
			}
		}
		var pick *cand
		switch {
		case len(bare) == 1:
			pick = &bare[0]
		case len(same) == 1:
			pick = &same[0]
		case len(same) > 1:
			// several new functions of this shape (siblings renamed together): the one whose body is
			// the frozen one's, else the one at the same rank among the shape's functions in source order
			var byBody []cand
			for _, c := range same {
				if bodyHash(p, c.fi) == frozenFuncMeta[old].body {
					byBody = append(byBody, c)
				}
			}
			if len(byBody) == 1 {
				pick = &byBody[0]
				break
			}
			rank := 0
			for _, g := range gone {
				if g == old {
					continue
				}
				gRecv, _ := splitKey(pkgPath, g)
				if strings.HasPrefix(g, pkgPath+".") && gRecv == oRecv && frozenFuncSigs[g] == frozenFuncSigs[old] && frozenFuncMeta[g].ord < frozenFuncMeta[old].ord {
					rank++
				}
			}
			all := append([]cand(nil), same...)
			for _, c := range newByPkg[pkgPath] { // those already taken by a sibling count for the rank
				if taken[c.key] {
					cRecv, _ := splitKey(pkgPath, c.key)
					if cRecv == oRecv && sigString(c.fi.Obj.Type().(*types.Signature)) == frozenFuncSigs[old] {
						all = append(all, c)
					}
				}
			}
			sort.Slice(all, func(i, j int) bool {
				a, b := all[i].fi, all[j].fi
				fa, fb := p.Fset.File(a.Decl.Pos()).Name(), p.Fset.File(b.Decl.Pos()).Name()
				if fa != fb {
					return fa < fb
				}
				return a.Decl.Pos() < b.Decl.Pos()
			})
			if rank < len(all) && !taken[all[rank].key] {
				pick = &all[rank]
			}
		}
		if pick == nil {
			continue
		}
		taken[pick.key] = true
		p.renamed[old] = pick.key
		_, nName := splitKey(pkgPath, pick.key)
		if nName != oName {
			p.renamedBare[oName] = nName
		}
		if nRecv, _ := splitKey(pkgPath, pick.key); oRecv != "" && nRecv == "" {
			p.methodToFunc[oName] = nName
		}
		// the function answers to its frozen name from here on
		delete(p.funcs, pick.key)
		p.funcs[old] = pick.fi
		pick.fi.Now = pick.fi.Name
		frozenNamesMu.Lock()
		frozenNames[pick.fi.Obj] = oName
		frozenNamesMu.Unlock()
		pick.fi.Name = strings.TrimPrefix(old, pkgPath+".")
	}
}

// frozenNames: renamed function object → the bare name it had on the reference tree.
var (
	frozenNamesMu sync.Mutex
	frozenNames   = map[*types.Func]string{}
)

// fnName is f's bare name on the reference tree (its own name unless it was renamed).
func fnName(f *types.Func) string {
	if f == nil {
		return ""
	}
	frozenNamesMu.Lock()
	defer frozenNamesMu.Unlock()
	if n, ok := frozenNames[f.Origin()]; ok {
		return n
	}
	return f.Name()
}

// oldFullNames gives the spellings types.Func.FullName could have had for a frozen key.
func oldFullNames(pkgPath, key string) []string {
	recv, name := splitKey(pkgPath, key)
	if recv == "" {
		return []string{pkgPath + "." + name}
	}
	return []string{"(*" + pkgPath + "." + recv + ")." + name, "(" + pkgPath + "." + recv + ")." + name}
}

// renameIdents rewrites the names of renamed functions in a requirement expression; a call of a method
// that became a plain function, x.m(args), is rewritten to m(x, args).
func (p *Prog) renameIdents(src string) (string, bool) {
	changed := false
	for o, n := range p.methodToFunc {
		re := regexp.MustCompile(`([A-Za-z_][\w.]*)\.` + regexp.QuoteMeta(o) + `\(\s*(\)?)`)
		if re.MatchString(src) {
			src = re.ReplaceAllStringFunc(src, func(m string) string {
				sm := re.FindStringSubmatch(m)
				if sm[2] == ")" {
					return n + "(" + sm[1] + ")"
				}
				return n + "(" + sm[1] + ", "
			})
			changed = true
		}
	}
	for o, n := range p.renamedBare {
		re := regexp.MustCompile(`\b` + regexp.QuoteMeta(o) + `\b`)
		if re.MatchString(src) {
			src = re.ReplaceAllString(src, n)
			changed = true
		}
	}
	return src, changed
}
