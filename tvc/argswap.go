package main

// Swapped arguments: at a call of a module function, two arguments of identical
// type whose own names are each the name of the *other* one's parameter
// (`f(pod.Namespace, pod.Name)` for `func f(name, namespace string)`). The
// names are the only evidence a reader has for which is which; a pair that
// contradicts them both ways is wrong at the call or at the declaration.

import (
	"go/ast"
	"go/types"
	"strings"
)

type argSwap struct {
	fn     *FuncInfo
	call   *ast.CallExpr
	callee *types.Func
	i, j   int
}

func nameOfExpr(x ast.Expr) string {
	switch t := ast.Unparen(x).(type) {
	case *ast.Ident:
		return t.Name
	case *ast.SelectorExpr:
		return t.Sel.Name
	case *ast.CallExpr:
		// getters: x.GetName()
		if sel, ok := ast.Unparen(t.Fun).(*ast.SelectorExpr); ok && len(t.Args) == 0 {
			return strings.TrimPrefix(sel.Sel.Name, "Get")
		}
	}
	return ""
}

func normName(s string) string {
	s = strings.ToLower(s)
	for _, pre := range []string{"k8spod", "pod", "k8s"} {
		if len(s) > len(pre)+2 && strings.HasPrefix(s, pre) {
			s = s[len(pre):]
		}
	}
	return strings.ReplaceAll(s, "_", "")
}

func argSwaps(p *Prog, fns []*FuncInfo) (out []argSwap, calls int) {
	for _, fn := range fns {
		if fn.Decl.Body == nil {
			continue
		}
		info := fn.Info()
		for _, cs := range p.CallsIn(fn) {
			if cs.Callee == nil || cs.Callee.Pkg() == nil || !strings.HasPrefix(cs.Callee.Pkg().Path(), modPath) {
				continue
			}
			sig, _ := cs.Callee.Type().(*types.Signature)
			if sig == nil || sig.Variadic() || sig.Params().Len() != len(cs.Call.Args) || sig.Params().Len() < 2 {
				continue
			}
			calls++
			for i := 0; i < sig.Params().Len(); i++ {
				for j := i + 1; j < sig.Params().Len(); j++ {
					pi, pj := sig.Params().At(i), sig.Params().At(j)
					if !types.Identical(pi.Type(), pj.Type()) || pi.Name() == "" || pj.Name() == "" || pi.Name() == "_" || pj.Name() == "_" {
						continue
					}
					ai, aj := normName(nameOfExpr(cs.Call.Args[i])), normName(nameOfExpr(cs.Call.Args[j]))
					ni, nj := normName(pi.Name()), normName(pj.Name())
					if ai == "" || aj == "" || ni == nj || ai == aj {
						continue
					}
					if ai == nj && aj == ni {
						out = append(out, argSwap{fn, cs.Call, cs.Callee, i, j})
					}
				}
			}
			_ = info
		}
	}
	return
}

func ruleArgSwap(c *Ctx, rule string, fns []*FuncInfo, what string) {
	p := c.P
	c.Rule(rule, "no crossed arguments in "+what+": at a call of a module function no two arguments of identical type carry each other's parameter name (f(x.Namespace, x.Name) for func f(name, namespace string))")
	found, calls := argSwaps(p, fns)
	for _, s := range found {
		sig := s.callee.Type().(*types.Signature)
		c.Bad(rule, s.fn.Name+": arguments of "+s.callee.Name()+" are crossed", p.Pos(s.call), s.fn.Key(),
			"argument names agree with parameter names", "parameters ("+sig.Params().At(s.i).Name()+", "+sig.Params().At(s.j).Name()+") receive ("+exprString(s.call.Args[s.i])+", "+exprString(s.call.Args[s.j])+")")
	}
	if len(found) == 0 {
		c.OK(rule, "no crossed arguments", "", "", itoa(calls)+" calls of module functions with two or more parameters examined")
	}
	c.Floor(rule, "calls examined", 1, calls)
}

func itoa(n int) string {
	return strings.TrimSpace(strings.Replace(strings.Repeat(" ", 0)+fmtInt(n), " ", "", -1))
}

func fmtInt(n int) string {
	if n == 0 {
		return "0"
	}
	neg := n < 0
	if neg {
		n = -n
	}
	var b []byte
	for n > 0 {
		b = append([]byte{byte('0' + n%10)}, b...)
		n /= 10
	}
	if neg {
		b = append([]byte{'-'}, b...)
	}
	return string(b)
}
