package main

// C18 — the admission webhook only touches pods it owns and always emits a complete spec.

import (
	"fmt"
	"go/ast"
	"go/token"
	"go/types"
	"strings"
)

func init() { registry["C18"] = c18 }

const webhookPkg = "pkg/controller/webhook"

func c18(c *Ctx) {
	if c.P.Pkg(webhookPkg) == nil {
		c.Unres("C18", webhookPkg, "package not loaded")
		return
	}
	c18R1(c)
	c18R2(c)
	c18R3(c)
	c18R4(c)
	c18R5(c)
	c18R6(c)
	ruleFixedNamePod(c, "C18.R6")
	rulePodUseENI(c, "C18.R7")
	ruleRangeCopyStore(c, "C18.R8", c.P.AllFuncs(), "the whole module (the webhook normalises entries of the network list in place)")
	c18R9(c)
	c18R10(c)
}

// alwaysReachesFrom: every non-pruned path that starts right after a node
// matching `from` passes a node matching `target` before leaving the function
// or entering a stop block.
func alwaysReachesFrom(q *PathQuery, from nodePred, target nodePred) bool {
	// a path "escapes" if it reaches an exit / stop block without passing target
	save := q.ToBlock
	defer func() { q.ToBlock = save }()
	stop := q.StopBlock
	q.StopBlock = nil
	q.ToBlock = stop
	w := q.Escapes(from, nil, target, nil)
	q.StopBlock = stop
	return w == nil
}

func c18R1(c *Ctx) {
	p := c.P
	c.Rule("C18.R1", "pods the webhook does not own are admitted unchanged: every mutation (patch response, resource request, zone affinity, pod-eni / pod-networks annotations) is dominated by ¬hostNetwork ∧ ¬ignored-label ∧ at most one network annotation; the out-of-scope returns are plain Allowed responses; outside centralized IPAM the default network is added only for pods that asked for an ENI or matched a network definition")
	fn := p.Func(webhookPkg, "podWebhook")
	if fn == nil {
		c.Unres("C18.R1", "podWebhook", "not found")
		return
	}
	info := fn.Info()
	// the three annotation-presence flags
	var flags []string
	var flagObjs []types.Object
	ast.Inspect(fn.Decl.Body, func(nd ast.Node) bool {
		as, ok := nd.(*ast.AssignStmt)
		if !ok || as.Tok != token.DEFINE || len(as.Lhs) != 2 || len(as.Rhs) != 1 {
			return true
		}
		if ix, ok := ast.Unparen(as.Rhs[0]).(*ast.IndexExpr); ok && strings.HasSuffix(exprString(ix.X), ".Annotations") {
			if o := identObjSel(info, ix.Index); o != nil && (o.Name() == "PodNetworks" || o.Name() == "PodNetworksRequest" || o.Name() == "PodNetworking") {
				flags = append(flags, exprString(as.Lhs[1]))
				flagObjs = append(flagObjs, identObj(info, as.Lhs[1]))
			}
		}
		return true
	})
	if len(flags) != 3 {
		c.Bad("C18.R1", "the three network annotations are probed", p.Pos(fn.Decl), fn.Key(), "_, has := pod.Annotations[PodNetworks | PodNetworksRequest | PodNetworking]", fmt.Sprintf("%d probes found", len(flags)))
		return
	}
	a, b, d := flags[0], flags[1], flags[2]
	scope := fmt.Sprintf("!pod.Spec.HostNetwork && !types.IgnoredByTerway(pod.Labels) && !((%[1]s && %[2]s) || (%[1]s && %[3]s) || (%[2]s && %[3]s)) && len(pod.Spec.Containers) != 0", a, b, d)
	// mutation sites
	var sites []ast.Node
	var names []string
	ast.Inspect(fn.Decl.Body, func(nd ast.Node) bool {
		switch t := nd.(type) {
		case *ast.CallExpr:
			switch calleeName(info, t) {
			case "Patched", "PatchResponseFromRaw", "setResourceRequest", "setNodeAffinityByZones":
				sites = append(sites, t)
				names = append(names, calleeName(info, t))
			}
		case *ast.AssignStmt:
			for _, l := range t.Lhs {
				if ix, ok := ast.Unparen(l).(*ast.IndexExpr); ok && strings.HasSuffix(exprString(ix.X), ".Annotations") {
					sites = append(sites, t)
					names = append(names, "annotation "+exprString(ix.Index))
				}
			}
		}
		return true
	})
	c.Floor("C18.R1", "mutation sites in podWebhook", 5, len(sites))
	// (the presence flags as objects: after a helper was expanded they may live in an inner block)
	scopeF := func(at ast.Node) func(e *FactEngine) (*Formula, error) {
		return func(e *FactEngine) (*Formula, error) {
			base, err := e.Expr("!pod.Spec.HostNetwork && !types.IgnoredByTerway(pod.Labels) && len(pod.Spec.Containers) != 0", at.Pos())
			if err != nil {
				return nil, err
			}
			var fl []*Formula
			for _, o := range flagObjs {
				if o == nil {
					return nil, fmt.Errorf("a presence flag is not a variable")
				}
				fl = append(fl, e.Cond(identFor(info, o)))
			}
			two := mkOr(mkAnd(fl[0], fl[1]), mkOr(mkAnd(fl[0], fl[2]), mkAnd(fl[1], fl[2])))
			return mkAnd(base, mkNot(two)), nil
		}
	}
	for i, s := range sites {
		c.RequireF("C18.R1", "mutation ("+names[i]+") only for pods in scope", fn, s, scope, scopeF(s))
	}
	// out-of-scope pods are admitted as they are: a response other than Allowed (a denial, a patch) is
	// given only to a pod in scope — as a fact at the return, whatever form the scope tests have (an if
	// per test, a helper that classifies the pod). Which pods get a plain Allowed is R9's business.
	nResp := 0
	for _, r := range declReturns(fn.Decl.Body) {
		if len(r.Results) != 1 {
			continue
		}
		call, isC := ast.Unparen(r.Results[0]).(*ast.CallExpr)
		if !isC {
			continue
		}
		switch calleeName(info, call) {
		case "Denied", "Patched", "PatchResponseFromRaw":
			nResp++
			c.Require("C18.R1", "a denial or a patch only for a pod in scope ("+calleeName(info, call)+")", fn, r, "!pod.Spec.HostNetwork && !types.IgnoredByTerway(pod.Labels)", nil)
		}
	}
	c.Floor("C18.R1", "denials and patches in podWebhook", 3, nResp)
	// conflicting annotations are denied: some Denied response is given exactly for "two or more
	// present" (a fact at that return); that every such pod is denied follows from the scope
	// requirement at the mutation sites, which excludes the conflict
	okDeny := false
	var denyAt ast.Node = fn.Decl
	for _, r := range declReturns(fn.Decl.Body) {
		if len(r.Results) != 1 {
			continue
		}
		call, isC := ast.Unparen(r.Results[0]).(*ast.CallExpr)
		if !isC || calleeName(info, call) != "Denied" {
			continue
		}
		e := NewFactEngine(p, fn)
		var fl []*Formula
		bad := false
		for _, o := range flagObjs {
			if o == nil {
				bad = true
				break
			}
			fl = append(fl, e.Cond(identFor(info, o)))
		}
		if bad {
			break
		}
		two := mkOr(mkAnd(fl[0], fl[1]), mkOr(mkAnd(fl[0], fl[2]), mkAnd(fl[1], fl[2])))
		if ok, _, err := e.FactsAt(r, two); err == nil && ok {
			okDeny, denyAt = true, r
		}
	}
	c.Check(okDeny, "C18.R1", "two or more network annotations are denied", p.Pos(denyAt), fn.Key(), "a Denied response at which 'at least two of the three annotations are present' is a fact", "no denial is tied to the conflict")
	// unmatched pods outside CRD mode: default network only appended otherwise
	crd := constLit(p, "types", "IPAMTypeCRD")
	n := 0
	ast.Inspect(fn.Decl.Body, func(nd ast.Node) bool {
		as, ok := nd.(*ast.AssignStmt)
		if !ok || len(as.Lhs) != 1 || len(as.Rhs) != 1 {
			return true
		}
		call, ok := isBuiltinCall(info, as.Rhs[0], "append")
		if !ok || !strings.HasSuffix(exprString(as.Lhs[0]), ".PodNetworks") || len(call.Args) != 2 {
			return true
		}
		if cl, ok := ast.Unparen(call.Args[1]).(*ast.CompositeLit); ok && len(cl.Elts) == 1 {
			n++
			c.Require("C18.R1", "default network only for pods that asked for an ENI, or in centralized IPAM mode", fn, as, "podNetworking != nil || config.IPAMType == "+crd+" || types.PodUseENI(pod)", nil)
		}
		return true
	})
	c.Floor("C18.R1", "default-network append", 1, n)
	// matchOnePodNetworking: a definition matches only if every selector it has matches
	mo := p.Func(webhookPkg, "matchOnePodNetworking")
	p.Func(webhookPkg, "PodMatchSelector") // anchor: the selector test is matched by name below
	if mo == nil {
		c.Unres("C18.R1", "matchOnePodNetworking", "not found")
		return
	}
	minfo := mo.Info()
	sig := mo.Obj.Type().(*types.Signature)
	m := 0
	for _, r := range declReturns(mo.Decl.Body) {
		if ok, known := isSuccessReturn(minfo, sig, r); !ok || !known || minfo.Types[ast.Unparen(r.Results[0])].IsNil() {
			continue
		}
		m++
		// candidate variable
		cand := ""
		if ue, ok := ast.Unparen(r.Results[0]).(*ast.UnaryExpr); ok {
			cand = exprString(ue.X)
		}
		c.RequireF("C18.R1", "a network definition is selected only if its pod selector and its namespace selector (when present) both match", mo, r,
			"(podSelector == nil || matches(podSelector, podLabels)) && (nsSelector == nil || matches(nsSelector, nsLabels)) && at least one selector present",
			func(e *FactEngine) (*Formula, error) {
				var parts []*Formula
				anySel := fF
				for _, selName := range []string{"PodSelector", "NamespaceSelector"} {
					selExpr := cand + ".Spec.Selector." + selName
					isNil, err := e.Expr(selExpr+" == nil", r.Pos())
					if err != nil {
						return nil, err
					}
					anySel = mkOr(anySel, mkNot(isNil))
					// the match call on this selector
					var matched *Formula
					ast.Inspect(mo.Decl.Body, func(k ast.Node) bool {
						call, ok := k.(*ast.CallExpr)
						if !ok || calleeName(minfo, call) != "PodMatchSelector" || exprString(call.Args[0]) != selExpr {
							return true
						}
						matched = e.atomOf(e.CallResultAtom(call), nil)
						return true
					})
					if matched == nil {
						return nil, fmt.Errorf("no PodMatchSelector call on %s", selExpr)
					}
					parts = append(parts, mkOr(isNil, matched))
				}
				return mkAnd(mkAnd(parts[0], parts[1]), anySel), nil
			})
	}
	c.Floor("C18.R1", "matching returns of matchOnePodNetworking", 1, m)
}

// decideUnder: the truth value of f in every valuation that satisfies assume (known=false when
// both values occur, or when assume is unsatisfiable).
func decideUnder(e *FactEngine, assume, f *Formula) (val bool, known bool) {
	u, err := e.newUniverse(mkAnd(mkOr(assume, mkNot(assume)), mkOr(f, mkNot(f))), nil)
	if err != nil {
		return false, false
	}
	sawT, sawF := false, false
	for v := 0; v < 1<<uint(len(u.atoms)); v++ {
		if !u.valid.has(v) || !evalFormula(assume, u, v) {
			continue
		}
		if evalFormula(f, u, v) {
			sawT = true
		} else {
			sawF = true
		}
	}
	if sawT == sawF {
		return false, false
	}
	return sawT, true
}

// equivalent checks two formulas for logical equivalence over their joint atoms.
func equivalent(e *FactEngine, a, b *Formula) bool {
	u, err := e.newUniverse(mkAnd(mkOr(a, mkNot(a)), mkOr(b, mkNot(b))), nil)
	if err != nil {
		return false
	}
	for v := 0; v < 1<<uint(len(u.atoms)); v++ {
		if u.valid.has(v) && evalFormula(a, u, v) != evalFormula(b, u, v) {
			return false
		}
	}
	return true
}

func c18R2(c *Ctx) {
	p := c.P
	c.Rule("C18.R2", "every entry of the emitted network list passed the validation loop: at most ten security groups, interface name of 1..5 characters, unique, a non-nil allocation type, no fixed IP for pods without a stable name; the list's membership does not change between the loop and the marshal")
	fn := p.Func(webhookPkg, "podWebhook")
	if fn == nil {
		return
	}
	info := fn.Info()
	// validation loop: range over X.PodNetworks containing Denied returns
	var loop *ast.RangeStmt
	ast.Inspect(fn.Decl.Body, func(nd ast.Node) bool {
		rs, ok := nd.(*ast.RangeStmt)
		if !ok || !strings.HasSuffix(exprString(rs.X), ".PodNetworks") {
			return true
		}
		denies := 0
		ast.Inspect(rs.Body, func(k ast.Node) bool {
			if call, ok := k.(*ast.CallExpr); ok && calleeName(info, call) == "Denied" {
				denies++
			}
			return true
		})
		if denies >= 3 && loop == nil {
			loop = rs
		}
		return true
	})
	// the element variable: the range value, or a local bound to (the address of) list[i]
	elemName := ""
	if loop != nil && loop.Key != nil {
		if loop.Value != nil {
			elemName = exprString(loop.Value)
		} else {
			for _, st := range loop.Body.List {
				as, ok := st.(*ast.AssignStmt)
				if !ok || as.Tok != token.DEFINE || len(as.Lhs) != 1 || len(as.Rhs) != 1 {
					continue
				}
				r := ast.Unparen(as.Rhs[0])
				if u, ok := r.(*ast.UnaryExpr); ok && u.Op == token.AND {
					r = ast.Unparen(u.X)
				}
				if ix, ok := r.(*ast.IndexExpr); ok && exprString(ix.X) == exprString(loop.X) && exprString(ix.Index) == exprString(loop.Key) {
					elemName = exprString(as.Lhs[0])
				}
			}
		}
	}
	if loop == nil || loop.Key == nil || elemName == "" {
		c.Bad("C18.R2", "validation loop", p.Pos(fn.Decl), fn.Key(), "for i, n := range networks.PodNetworks { …Denied… }", "not found")
		return
	}
	list := exprString(loop.X)
	nv := elemName
	// the uniqueness set insert
	var insert *ast.CallExpr
	ast.Inspect(loop.Body, func(nd ast.Node) bool {
		if call, ok := nd.(*ast.CallExpr); ok {
			if sel, ok := ast.Unparen(call.Fun).(*ast.SelectorExpr); ok && sel.Sel.Name == "Insert" && len(call.Args) == 1 && exprString(call.Args[0]) == nv+".Interface" {
				insert = call
			}
		}
		return true
	})
	if insert == nil {
		c.Bad("C18.R2", "interface names are collected for the uniqueness test", p.Pos(loop), fn.Key(), "seen.Insert(n.Interface)", "not found")
		return
	}
	set := exprString(ast.Unparen(insert.Fun).(*ast.SelectorExpr).X)
	c.Require("C18.R2", "an entry is accepted only with ≤10 security groups, a 1..5 character unique interface name", fn, insert,
		fmt.Sprintf("len(%[1]s.SecurityGroupIDs) <= 10 && len(%[1]s.Interface) >= 1 && len(%[1]s.Interface) <= 5 && !%[2]s.Has(%[1]s.Interface)", nv, set), nil)
	// no early exit that skips entries: no break/continue in the loop; every path through an iteration passes the insert
	var early []string
	ast.Inspect(loop.Body, func(nd ast.Node) bool {
		if b, ok := nd.(*ast.BranchStmt); ok && b.Tok != token.CONTINUE {
			early = append(early, b.Tok.String()+" at "+p.Pos(b))
		}
		return true
	})
	c.Check(len(early) == 0, "C18.R2", "the validation loop is not left early", p.Pos(loop), fn.Key(), "no break / goto", strings.Join(early, ", "))
	if len(loop.Body.List) > 0 {
		// every path through an iteration that goes on to the next entry passed the registration of the
		// entry's interface name (which stands behind its checks); a `continue` after it is harmless
		first := loop.Body.List[0]
		qi := NewPathQuery(p, fn, nil)
		qi.ToBlock = loopHead(loop)
		never := func(ast.Node) bool { return false }
		start := func(k ast.Node) bool {
			return k.Pos() >= first.Pos() && k.End() <= first.End()
		}
		w := qi.Escapes(start, never, isExactly(insert), nil)
		c.Check(w == nil, "C18.R2", "the validation loop inspects every entry completely", p.Pos(loop), fn.Key(), "must-pass in every iteration: the entry's checks and the registration of its interface name", "path to the next entry: "+p.describePath(w))
	}
	// allocation type non-nil wherever it is dereferenced, and at the end of the iteration
	n := 0
	ast.Inspect(loop.Body, func(nd ast.Node) bool {
		sel, ok := nd.(*ast.SelectorExpr)
		if !ok || sel.Sel.Name != "Type" || !strings.HasSuffix(exprString(sel.X), ".AllocationType") {
			return true
		}
		n++
		c.Require("C18.R2", "allocation type is set before it is inspected", fn, sel, exprString(sel.X)+" != nil", nil)
		return true
	})
	c.Floor("C18.R2", "allocation-type inspections in the loop", 1, n)
	// fixed IP refused for pods without a stable name: wherever an iteration ends and the loop goes on,
	// the entry is not fixed-IP or the pod has a stable name (the other fixed-IP entries were denied)
	q := NewPathQuery(p, fn, nil)
	var typeSel ast.Expr
	ast.Inspect(loop.Body, func(nd ast.Node) bool {
		if sel, ok := nd.(*ast.SelectorExpr); ok && sel.Sel.Name == "Type" && strings.HasSuffix(exprString(sel.X), ".AllocationType") && typeSel == nil {
			typeSel = sel
		}
		return true
	})
	var nameCall ast.Expr
	ast.Inspect(loop.Body, func(k ast.Node) bool {
		if call, ok := k.(*ast.CallExpr); ok && calleeName(info, call) == "IsFixedNamePod" && nameCall == nil {
			nameCall = call
		}
		return true
	})
	if typeSel == nil || nameCall == nil {
		c.Bad("C18.R2", "fixed-IP entries are examined", p.Pos(loop), fn.Key(), "the entry's allocation type and the pod's stable name are tested in the loop", "not found")
	} else {
		req := exprString(typeSel) + " != v1beta1.IPAllocTypeFixed || " + exprString(nameCall)
		c.RequireAtEnd("C18.R2", "a fixed-IP entry of a pod without a stable name is denied", fn, loop.Body, req, nil)
		ast.Inspect(loop.Body, func(nd ast.Node) bool {
			switch t := nd.(type) {
			case *ast.FuncLit, *ast.ForStmt, *ast.RangeStmt:
				return false
			case *ast.BranchStmt:
				if t.Tok == token.CONTINUE && t.Pos() > insert.End() {
					c.Require("C18.R2", "a fixed-IP entry of a pod without a stable name is denied (at continue)", fn, t, req, nil)
				}
			}
			return true
		})
	}
	// membership changes all precede the loop; the marshal follows it
	var marshal *ast.CallExpr
	for _, cs := range p.CallsIn(fn) {
		if cs.Callee != nil && cs.Callee.Name() == "Marshal" && len(cs.Call.Args) == 1 && list == exprString(cs.Call.Args[0])+".PodNetworks" {
			marshal = cs.Call
		}
	}
	if marshal == nil {
		c.Bad("C18.R2", "the validated list is what gets marshalled", p.Pos(fn.Decl), fn.Key(), "json.Marshal(networks)", "not found")
		return
	}
	loopX := func(nd ast.Node) bool { return nd == ast.Node(loop.X) }
	w := q.Escapes(nil, isExactly(marshal), loopX, nil)
	c.Check(w == nil, "C18.R2", "the network list is marshalled only after validation", p.Pos(marshal), fn.Key(), "must-pass: validation loop → json.Marshal(networks)", "path: "+p.describePath(w))
	member := func(nd ast.Node) bool {
		as, ok := nd.(*ast.AssignStmt)
		if !ok {
			return false
		}
		for _, l := range as.Lhs {
			if exprString(l) == list {
				return true
			}
		}
		return false
	}
	w = q.Escapes(loopX, member, nil, nil)
	c.Check(w == nil, "C18.R2", "no entry is added after validation", p.Pos(loop), fn.Key(), "never: validation loop → assignment of "+list, "path: "+p.describePath(w))
}

func c18R3(c *Ctx) {
	p := c.P
	c.Rule("C18.R3", "resource injection: request and limit are both set to the number of networks, under one resource name, and only when injection is enabled")
	fn := p.Func(webhookPkg, "setResourceRequest")
	pw := p.Func(webhookPkg, "podWebhook")
	if fn == nil || pw == nil {
		c.Unres("C18.R3", "setResourceRequest / podWebhook", "not found")
		return
	}
	info := fn.Info()
	nets := info.Defs[fn.Decl.Type.Params.List[1].Names[0]]
	// count := len(podNetworks)
	var count types.Object
	ast.Inspect(fn.Decl.Body, func(nd ast.Node) bool {
		if as, ok := nd.(*ast.AssignStmt); ok && len(as.Lhs) == 1 && len(as.Rhs) == 1 {
			if lc, ok := isBuiltinCall(info, as.Rhs[0], "len"); ok && identObj(info, lc.Args[0]) == nets {
				count = identObj(info, as.Lhs[0])
			}
		}
		return true
	})
	var keys, vals []string
	ast.Inspect(fn.Decl.Body, func(nd ast.Node) bool {
		as, ok := nd.(*ast.AssignStmt)
		if !ok || len(as.Lhs) != 1 {
			return true
		}
		ix, ok := ast.Unparen(as.Lhs[0]).(*ast.IndexExpr)
		if !ok {
			return true
		}
		base := exprString(ix.X)
		if strings.HasSuffix(base, ".Resources.Requests") || strings.HasSuffix(base, ".Resources.Limits") {
			keys = append(keys, base[strings.LastIndex(base, ".")+1:]+"["+exprString(ix.Index)+"]")
			uses := false
			ast.Inspect(as.Rhs[0], func(k ast.Node) bool {
				if id, ok := k.(*ast.Ident); ok && count != nil && info.ObjectOf(id) == count {
					uses = true
				}
				return true
			})
			if uses {
				vals = append(vals, "count")
			} else {
				vals = append(vals, exprString(as.Rhs[0]))
			}
		}
		return true
	})
	ok := len(keys) == 2 && vals[0] == "count" && vals[1] == "count" && count != nil &&
		strings.TrimPrefix(keys[0], "Requests") == strings.TrimPrefix(keys[1], "Limits")
	c.Check(ok, "C18.R3", "request and limit = number of networks, same resource name", p.Pos(fn.Decl), fn.Key(), "Requests[res] = Limits[res] = len(podNetworks)", fmt.Sprintf("%v = %v", keys, vals))
	// the count is not modified
	if count != nil {
		c.Check(len(varDefs(fn, count)) == 1, "C18.R3", "the network count is not adjusted", p.Pos(fn.Decl), fn.Key(), "single definition count := len(podNetworks)", fmt.Sprintf("%d definitions", len(varDefs(fn, count))))
	}
	for _, cs := range p.CallsTo([]*FuncInfo{pw}, fn.Obj) {
		c.Require("C18.R3", "resources injected only when injection is enabled", pw, cs.Call, "*config.EnableWebhookInjectResource", nil)
		c.Check(strings.HasSuffix(exprString(cs.Call.Args[1]), ".PodNetworks"), "C18.R3", "the injected count is the validated network list", p.Pos(cs.Call), pw.Key(), "setResourceRequest(pod, networks.PodNetworks, …)", exprString(cs.Call.Args[1]))
	}
}

func c18R4(c *Ctx) {
	p := c.P
	c.Rule("C18.R4", "zone affinity for requested networks is the intersection of the zones of all of them: the accumulator is seeded by the first network only (index == 0) and intersected with every further one")
	fn := p.Func(webhookPkg, "getPodNetworkRequests")
	if fn == nil {
		c.Unres("C18.R4", "getPodNetworkRequests", "not found")
		return
	}
	info := fn.Info()
	// accumulator: the set returned (X.List())
	var acc types.Object
	for _, r := range declReturns(fn.Decl.Body) {
		if len(r.Results) == 3 {
			if call, ok := ast.Unparen(r.Results[1]).(*ast.CallExpr); ok {
				if sel, ok := ast.Unparen(call.Fun).(*ast.SelectorExpr); ok && sel.Sel.Name == "List" {
					acc = identObj(info, sel.X)
				}
			}
		}
	}
	if acc == nil {
		c.Bad("C18.R4", "zone accumulator", p.Pos(fn.Decl), fn.Key(), "return …, acc.List(), nil", "not found")
		return
	}
	nSeed, nInter := 0, 0
	for _, d := range varDefs(fn, acc) {
		if d.tok == token.DEFINE {
			continue
		}
		var rs *ast.RangeStmt
		for _, nd := range pathTo(fn.Decl.Body, d.node) {
			if r, ok := nd.(*ast.RangeStmt); ok {
				rs = r
			}
		}
		if rs == nil || rs.Key == nil {
			c.Bad("C18.R4", "zone accumulator updated per requested network", p.Pos(d.node), fn.Key(), "inside `for index, req := range reqs`", "outside the loop")
			continue
		}
		src := exprString(d.rhs)
		switch {
		case strings.HasPrefix(src, acc.Name()+".Intersection("):
			nInter++
			c.OK("C18.R4", "accumulator narrowed by intersection", p.Pos(d.node), fn.Key(), src)
		default:
			nSeed++
			if exprString(rs.Key) == "_" {
				c.Bad("C18.R4", "accumulator seeded only by the first requested network", p.Pos(d.node), fn.Key(), "the seeding assignment is guarded by index == 0", "the loop index is not even bound: the seeding is tied to something else (e.g. the accumulator being empty, which also happens when an intersection becomes empty)")
				continue
			}
			c.Require("C18.R4", "accumulator seeded only by the first requested network", fn, d.node, exprString(rs.Key)+" == 0", nil)
		}
	}
	c.Check(nSeed == 1 && nInter == 1, "C18.R4", "seed once, intersect afterwards", p.Pos(fn.Decl), fn.Key(), "one seeding assignment and one Intersection assignment", fmt.Sprintf("seed=%d intersect=%d", nSeed, nInter))
	// every iteration reaches one of them (no network is skipped)
	var loop *ast.RangeStmt
	ast.Inspect(fn.Decl.Body, func(nd ast.Node) bool {
		if rs, ok := nd.(*ast.RangeStmt); ok && loop == nil {
			loop = rs
		}
		return true
	})
	if loop != nil {
		var cont []string
		ast.Inspect(loop.Body, func(nd ast.Node) bool {
			if _, isLit := nd.(*ast.FuncLit); isLit {
				return false
			}
			if b, ok := nd.(*ast.BranchStmt); ok {
				cont = append(cont, b.Tok.String())
			}
			return true
		})
		c.Check(len(cont) == 0, "C18.R4", "every requested network contributes its zones", p.Pos(loop), fn.Key(), "no continue / break in the request loop", strings.Join(cont, ","))
	}
}

func c18R5(c *Ctx) {
	p := c.P
	c.Rule("C18.R5", "completeness after defaulting: when some entry lacks vSwitches or security groups the cluster defaults are applied to EVERY such entry (or the request is denied) before the list is emitted")
	fn := p.Func(webhookPkg, "podWebhook")
	loader := p.Func("types/daemon", "ConfigFromConfigMap")
	p.Func("types/daemon", "Config.GetSecurityGroups") // anchor: the accessor stays a call in the loader
	if fn == nil {
		return
	}
	info := fn.Info()
	// the defaulting loop: range over .PodNetworks whose body stores VSwitchOptions
	var loop *ast.RangeStmt
	ast.Inspect(fn.Decl.Body, func(nd ast.Node) bool {
		rs, ok := nd.(*ast.RangeStmt)
		if !ok || !strings.HasSuffix(exprString(rs.X), ".PodNetworks") {
			return true
		}
		stores := false
		ast.Inspect(rs.Body, func(k ast.Node) bool {
			if as, ok := k.(*ast.AssignStmt); ok && len(as.Lhs) == 1 && strings.HasSuffix(exprString(as.Lhs[0]), ".VSwitchOptions") {
				stores = true
			}
			return true
		})
		if stores {
			loop = rs
		}
		return true
	})
	if loop == nil {
		c.Bad("C18.R5", "defaulting loop", p.Pos(fn.Decl), fn.Key(), "for i := range networks.PodNetworks { fill VSwitchOptions / SecurityGroupIDs }", "not found")
		return
	}
	var skips []string
	var skipNode ast.Node
	ast.Inspect(loop.Body, func(nd ast.Node) bool {
		if b, ok := nd.(*ast.BranchStmt); ok {
			skips = append(skips, b.Tok.String()+" at "+p.Pos(b))
			skipNode = b
		}
		return true
	})
	pos := p.Pos(loop)
	if skipNode != nil {
		pos = p.Pos(skipNode)
	}
	c.Check(len(skips) == 0, "C18.R5", "podWebhook: defaulting loop covers every entry", pos, fn.Key(), "no entry is skipped by the defaulting loop (no continue / break)", "entries are skipped: "+strings.Join(skips, ", ")+" — an entry other than the primary interface that lacks vSwitches / security groups is emitted incomplete")
	// each fill is conditional on the field being empty and takes the cluster value
	for _, f := range []struct{ field, getter string }{{"VSwitchOptions", "GetVSwitchIDs"}, {"SecurityGroupIDs", "GetSecurityGroups"}} {
		ast.Inspect(loop.Body, func(nd ast.Node) bool {
			as, ok := nd.(*ast.AssignStmt)
			if !ok || len(as.Lhs) != 1 || !strings.HasSuffix(exprString(as.Lhs[0]), "."+f.field) {
				return true
			}
			c.Require("C18.R5", f.field+" defaulted only when empty", fn, as, "len("+exprString(as.Lhs[0])+") == 0", nil)
			c.Check(strings.HasSuffix(exprString(as.Rhs[0]), "."+f.getter+"()"), "C18.R5", f.field+" defaulted from the cluster configuration", p.Pos(as), fn.Key(), "= cfg."+f.getter+"()", exprString(as.Rhs[0]))
			return true
		})
	}
	// the loop runs whenever some entry is incomplete: `require` is raised under exactly that test
	okReq := false
	ast.Inspect(fn.Decl.Body, func(nd ast.Node) bool {
		if is, ok := nd.(*ast.IfStmt); ok && len(is.Body.List) == 1 {
			s := strings.ReplaceAll(exprString(is.Cond), " ", "")
			if strings.Contains(s, "len(") && strings.Contains(s, ".VSwitchOptions)==0") && strings.Contains(s, ".SecurityGroupIDs)==0") && strings.Contains(s, "||") {
				if as, ok := is.Body.List[0].(*ast.AssignStmt); ok && exprString(as.Rhs[0]) == "true" {
					// and the defaulting loop is under that flag
					for _, k := range pathTo(fn.Decl.Body, loop) {
						if outer, ok := k.(*ast.IfStmt); ok && exprString(outer.Cond) == exprString(as.Lhs[0]) {
							okReq = true
						}
					}
				}
			}
		}
		return true
	})
	c.Check(okReq, "C18.R5", "defaulting runs whenever an entry lacks vSwitches or security groups", p.Pos(loop), fn.Key(), "flag raised under len(VSwitchOptions)==0 || len(SecurityGroupIDs)==0, defaulting loop under the flag", "not recognised")
	// the defaulted security groups obey the per-entry bound: the validation loop of R2 runs before the
	// defaults are filled in, so the bound on what is filled in is the loader's. The loader bounds the
	// very accessor whose value the webhook writes (the union of the legacy field and the list), not a
	// part of it.
	var getter *types.Func
	ast.Inspect(loop.Body, func(nd ast.Node) bool {
		as, ok := nd.(*ast.AssignStmt)
		if !ok || len(as.Lhs) != 1 || !strings.HasSuffix(exprString(as.Lhs[0]), ".SecurityGroupIDs") {
			return true
		}
		if call, ok := ast.Unparen(as.Rhs[0]).(*ast.CallExpr); ok {
			getter = Callee(info, call)
		}
		return true
	})
	if getter == nil || loader == nil {
		c.Undec("C18.R5", "the loader bounds the defaulted security groups", p.Pos(loop), fn.Key(), "SecurityGroupIDs = cfg.<getter>() and types/daemon.ConfigFromConfigMap", "getter or loader not found")
		return
	}
	linfo := loader.Info()
	// the test `len(cfg.<getter>()) > 10` (through temporaries), in either operand order
	var test *ast.BinaryExpr
	ast.Inspect(loader.Decl.Body, func(nd ast.Node) bool {
		be, ok := nd.(*ast.BinaryExpr)
		if !ok {
			return true
		}
		isLenOfGetter := func(x ast.Expr) bool {
			lc, ok := isBuiltinCall(linfo, derefExpr(loader, x), "len")
			if !ok {
				return false
			}
			call, ok := ast.Unparen(derefExpr(loader, lc.Args[0])).(*ast.CallExpr)
			return ok && Callee(linfo, call) == getter
		}
		kx, okx := constInt(linfo, be.X)
		ky, oky := constInt(linfo, be.Y)
		switch {
		case isLenOfGetter(be.X) && oky && (be.Op == token.GTR && ky <= 10 || be.Op == token.GEQ && ky <= 11):
			test = be
		case isLenOfGetter(be.Y) && okx && (be.Op == token.LSS && kx <= 10 || be.Op == token.LEQ && kx <= 11):
			test = be
		}
		return true
	})
	if test == nil {
		c.Bad("C18.R5", "the loader bounds the defaulted security groups", p.Pos(loader.Decl), loader.Key(), "len(cfg."+getter.Name()+"()) > 10 is tested in ConfigFromConfigMap", "no test of the length of "+getter.Name()+"() against ten — the webhook writes that value into the entry unchecked")
		return
	}
	lsig := loader.Obj.Type().(*types.Signature)
	failing := func(ret *ast.ReturnStmt) bool {
		ok, known := isSuccessReturn(linfo, lsig, ret)
		return known && !ok
	}
	_ = failing
	nret := 0
	for _, r := range declReturns(loader.Decl.Body) {
		if ok, known := isSuccessReturn(linfo, lsig, r); ok && known {
			nret++
			c.RequireF("C18.R5", "ConfigFromConfigMap succeeds only with at most ten defaulted security groups", loader, r, "!("+exprString(test)+")", func(e *FactEngine) (*Formula, error) {
				return mkNot(e.Cond(test)), nil
			})
		}
	}
	c.Floor("C18.R5", "success returns of ConfigFromConfigMap", 1, nret)
}

func c18R6(c *Ctx) {
	p := c.P
	c.Rule("C18.R6", "the emitted annotations: the network list is stored under the pod-networks key as the marshalled validated list, and the pod is marked with pod-eni = \"true\"")
	fn := p.Func(webhookPkg, "podWebhook")
	if fn == nil {
		return
	}
	info := fn.Info()
	got := map[string]string{}
	ast.Inspect(fn.Decl.Body, func(nd ast.Node) bool {
		as, ok := nd.(*ast.AssignStmt)
		if !ok || len(as.Lhs) != 1 {
			return true
		}
		if ix, ok := ast.Unparen(as.Lhs[0]).(*ast.IndexExpr); ok && strings.HasSuffix(exprString(ix.X), ".Annotations") {
			if o := identObjSel(info, ix.Index); o != nil {
				got[o.Name()] = exprString(as.Rhs[0])
			}
		}
		return true
	})
	c.Check(got["PodENI"] == `"true"`, "C18.R6", "pod marked for a dedicated ENI", p.Pos(fn.Decl), fn.Key(), `Annotations[PodENI] = "true"`, got["PodENI"])
	okNet := false
	if v, ok := got["PodNetworks"]; ok && strings.HasPrefix(v, "string(") {
		// string(<bytes>) where bytes := json.Marshal(networks)
		name := strings.TrimSuffix(strings.TrimPrefix(v, "string("), ")")
		ast.Inspect(fn.Decl.Body, func(nd ast.Node) bool {
			if as, ok := nd.(*ast.AssignStmt); ok && len(as.Lhs) == 2 && exprString(as.Lhs[0]) == name && strings.HasPrefix(exprString(as.Rhs[0]), "json.Marshal(") {
				okNet = true
			}
			return true
		})
	}
	c.Check(okNet, "C18.R6", "pod-networks annotation = marshalled network list", p.Pos(fn.Decl), fn.Key(), "Annotations[PodNetworks] = string(json.Marshal(networks))", got["PodNetworks"])
}

// R9: no short cut past the checks. podWebhook answers with a plain Allowed (the pod is admitted as it
// is, nothing validated, nothing defaulted) only for the pods it does not own: host network, no
// container, the ignore label, or no network definition matched. No marker a user can set on the pod —
// an annotation that claims "already processed" — is such a reason.
func c18R9(c *Ctx) {
	p := c.P
	c.Rule("C18.R9", "podWebhook returns a plain Allowed response only under host network ∨ no containers ∨ ignored by label ∨ no network definition matched — every other pod goes through the conflict check, the fixed-IP guard and the validation loop")
	fn := p.Func("pkg/controller/webhook", "podWebhook")
	if fn == nil {
		c.Unres("C18.R9", "podWebhook", "not found")
		return
	}
	info := fn.Info()
	pod, matched := "", ""
	ast.Inspect(fn.Decl.Body, func(k ast.Node) bool {
		switch t := k.(type) {
		case *ast.SelectorExpr:
			if t.Sel.Name == "HostNetwork" && pod == "" {
				if inner, ok := ast.Unparen(t.X).(*ast.SelectorExpr); ok && inner.Sel.Name == "Spec" {
					pod = exprString(inner.X)
				}
			}
		case *ast.AssignStmt:
			if len(t.Rhs) == 1 && len(t.Lhs) >= 1 {
				if call, ok := ast.Unparen(t.Rhs[0]).(*ast.CallExpr); ok {
					if f := Callee(info, call); f != nil && fnName(f) == "matchOnePodNetworking" {
						matched = exprString(t.Lhs[0])
					}
				}
			}
		}
		return true
	})
	if pod == "" {
		c.Undec("C18.R9", "podWebhook: the pod under admission", p.Pos(fn.Decl), fn.Key(), "a variable whose Spec.HostNetwork is tested", "not found")
		return
	}
	alts := []string{pod + ".Spec.HostNetwork", "len(" + pod + ".Spec.Containers) == 0", "types.IgnoredByTerway(" + pod + ".Labels)"}
	if matched != "" {
		alts = append(alts, matched+" == nil")
	}
	n := 0
	for _, r := range declReturns(fn.Decl.Body) {
		if len(r.Results) != 1 {
			continue
		}
		call, ok := ast.Unparen(r.Results[0]).(*ast.CallExpr)
		if !ok {
			continue
		}
		if sel, ok := ast.Unparen(call.Fun).(*ast.SelectorExpr); !ok || sel.Sel.Name != "Allowed" {
			continue
		}
		n++
		c.RequireAnyOf("C18.R9", "podWebhook: Allowed only for a pod the webhook does not own", fn, r, alts)
	}
	c.Floor("C18.R9", "plain Allowed responses in podWebhook", 1, n)
}

// R10: the network definition's status follows its spec in both directions. `changed` — which decides
// whether the PodNetworking reconciler refreshes Status.VSwitches (the webhook builds a pod's zone
// affinity from it) — compares the spec's and the status's vSwitch ids as sets for equality: a vSwitch
// removed from the spec is a change, like one that was added.
func c18R10(c *Ctx) {
	p := c.P
	c.Rule("C18.R10", "pod-networking changed(): the spec's and the status's vSwitch ids are compared for set equality (Equal, or inclusion both ways) — a removed vSwitch is detected like an added one")
	fn := p.Func("pkg/controller/pod-networking", "changed")
	if fn == nil {
		c.Unres("C18.R10", "pod-networking.changed", "not found")
		return
	}
	info := fn.Info()
	n := 0
	for _, r := range declReturns(fn.Decl.Body) {
		if len(r.Results) != 1 {
			continue
		}
		if tv := info.Types[r.Results[0]]; tv.Value != nil {
			continue
		}
		n++
		// the calls the result is computed from
		var names []string
		recv := map[string][]string{}
		ast.Inspect(derefExpr(fn, r.Results[0]), func(k ast.Node) bool {
			if call, ok := k.(*ast.CallExpr); ok {
				if sel, ok := ast.Unparen(call.Fun).(*ast.SelectorExpr); ok {
					switch sel.Sel.Name {
					case "Equal", "HasAll", "IsSuperset", "Difference", "SymmetricDifference":
						names = append(names, sel.Sel.Name)
						recv[sel.Sel.Name] = append(recv[sel.Sel.Name], exprString(sel.X))
					}
				}
			}
			return true
		})
		ok := false
		for _, nm := range names {
			switch nm {
			case "Equal", "SymmetricDifference":
				ok = true
			case "HasAll", "IsSuperset", "Difference":
				// both directions: two calls on two different receivers
				rs := recv[nm]
				if len(rs) >= 2 && rs[0] != rs[1] {
					ok = true
				}
			}
		}
		c.Check(ok, "C18.R10", "changed(): symmetric comparison of spec and status", p.Pos(r), fn.Key(), "!spec.Equal(status) (or inclusion tested both ways)", "the result is computed from: "+strings.Join(names, ", "))
	}
	c.Floor("C18.R10", "computed results of changed()", 1, n)
}
