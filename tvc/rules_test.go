package main

import (
	"go/ast"
	"go/types"
	"strings"
	"testing"
)

// Both directions for the generic shape rules added for the second round of
// seeded defects: each fires on the broken form and stays silent on the
// equivalent correct forms.

func fnOf(t *testing.T, p *Prog, name string) *FuncInfo {
	t.Helper()
	fi := p.funcs[modPath+"/snippet."+name]
	if fi == nil {
		t.Fatalf("function %s not found", name)
	}
	return fi
}

func TestLoopCarried(t *testing.T) {
	src := `package snippet
type item struct{ name string; n int }
type out struct{ name string; flag bool }
func bad(items []item) []out {
	var res []out
	flag := false
	for _, it := range items {
		if it.n > 3 { flag = true }
		res = append(res, out{it.name, flag})
	}
	return res
}
func badClosure(items []item) []out {
	var res []out
	flag := false
	set := func(it item) { if it.n > 3 { flag = true } }
	for _, it := range items {
		set(it)
		res = append(res, out{it.name, flag})
	}
	return res
}
func badDefault(items []item) []string {
	var res []string
	name := "eth0"
	for _, it := range items {
		if it.name != "" { name = it.name }
		res = append(res, name)
	}
	return res
}
func good(items []item) []out {
	var res []out
	for _, it := range items {
		flag := false
		if it.n > 3 { flag = true }
		res = append(res, out{it.name, flag})
	}
	return res
}
func goodHoisted(items []item) []out {
	var res []out
	var flag bool
	for _, it := range items {
		flag = it.n > 3
		res = append(res, out{it.name, flag})
	}
	return res
}
func goodCounter(items []item) int {
	n := 0
	for _, it := range items {
		if it.n > 3 { n++ }
	}
	return n
}
func goodAfter(items []item) bool {
	found := false
	for _, it := range items {
		if it.n > 3 { found = true }
	}
	return found
}
`
	p := snippetProg(t, src)
	for name, want := range map[string]int{"bad": 1, "badClosure": 1, "badDefault": 1, "good": 0, "goodHoisted": 0, "goodCounter": 0, "goodAfter": 0} {
		found, _, _ := loopCarried(p, fnOf(t, p, name))
		if len(found) != want {
			t.Errorf("%s: %d carried scalars, want %d", name, len(found), want)
		}
	}
}

func TestMakeThenAppend(t *testing.T) {
	src := `package snippet
func bad(in []int) []*int {
	res := make([]*int, len(in))
	for i := range in { res = append(res, &in[i]) }
	return res
}
func goodCap(in []int) []*int {
	res := make([]*int, 0, len(in))
	for i := range in { res = append(res, &in[i]) }
	return res
}
func goodIndex(in []int) []*int {
	res := make([]*int, len(in))
	for i := range in { res[i] = &in[i] }
	return res
}
func goodZero(in []int) []*int {
	res := make([]*int, 0)
	for i := range in { res = append(res, &in[i]) }
	return res
}
`
	p := snippetProg(t, src)
	for name, want := range map[string]int{"bad": 1, "goodCap": 0, "goodIndex": 0, "goodZero": 0} {
		found, _ := makeThenAppend(p, []*FuncInfo{fnOf(t, p, name)})
		if len(found) != want {
			t.Errorf("%s: %d findings, want %d", name, len(found), want)
		}
	}
}

func TestNilMapField(t *testing.T) {
	src := `package snippet
type T struct{ a map[string]int; b map[string]int; c map[string]int }
var def T
func init() { def.a = make(map[string]int) ; def.c = map[string]int{} }
func New() *T { return &T{a: map[string]int{}, b: map[string]int{}, c: map[string]int{}} }
func (t *T) putA(k string) { t.a[k] = 1 }
func (t *T) putB(k string) { t.b[k] = 1 }
func (t *T) putC(k string) { if t.c == nil { t.c = map[string]int{} }; t.c[k] = 1 }
`
	p := snippetProg(t, src)
	stores := nilMapStores(p, p.funcList)
	got := map[string]int{}
	for _, st := range stores {
		got[st.field.Name()] = len(creationsLeavingNil(p, st.owner, st.field))
	}
	if got["a"] != 0 {
		t.Errorf("a: initialised everywhere, got %d nil creations", got["a"])
	}
	if got["b"] != 1 {
		t.Errorf("b: the package variable leaves it nil, got %d", got["b"])
	}
	if _, seen := got["c"]; seen {
		t.Errorf("c: the store is guarded in its own function and must not be examined")
	}
}

func TestQuantOverFixed(t *testing.T) {
	src := `package snippet
type AT struct{ Type string }
type A struct{ AllocationType AT }
type S struct{ Allocations []A }
const IPAllocTypeFixed = "Fixed"
func (s *S) Have() bool {
	for _, a := range s.Allocations { if a.AllocationType.Type == IPAllocTypeFixed { return true } }
	return false
}
func flag(s *S) bool {
	have := false
	for _, a := range s.Allocations { if a.AllocationType.Type == IPAllocTypeFixed { have = true } }
	if have { return true }
	return false
}
func call(s *S) bool {
	if s.Have() { return true }
	return false
}
func neg(s *S) bool {
	if !s.Have() { return false }
	return true
}
func all(s *S) bool {
	every := true
	for _, a := range s.Allocations { if a.AllocationType.Type != IPAllocTypeFixed { every = false } }
	if every { return true }
	return false
}
`
	p := snippetProg(t, src)
	for name, want := range map[string]string{"flag": "any", "call": "any", "neg": "none", "all": ""} {
		fn := fnOf(t, p, name)
		var kind string
		for _, st := range fn.Decl.Body.List {
			if is, ok := st.(*ast.IfStmt); ok {
				kind, _ = quantOverFixed(p, fn, is.Cond, 0)
			}
		}
		if kind != want {
			t.Errorf("%s: classified %q, want %q", name, kind, want)
		}
	}
}

func TestPackageState(t *testing.T) {
	src := `package snippet
var table = []int{1, 2, 3}
var cache = map[string]int{}
var hits int
func pure(i int) int { return table[i%3] + helper(i) }
func helper(i int) int { return i * 2 }
func memo(k string) int { if v, ok := cache[k]; ok { return v }; cache[k] = len(k); return len(k) }
func counting(i int) int { hits++; return i }
func viaHelper(k string) int { return memo(k) }
`
	p := snippetProg(t, src)
	for name, want := range map[string]bool{"pure": false, "memo": true, "counting": true, "viaHelper": true} {
		st := packageState(p, fnOf(t, p, name))
		if (len(st) > 0) != want {
			t.Errorf("%s: state=%v, want stateful=%v", name, st, want)
		}
	}
	_ = strings.Join
}

func TestTypedNil(t *testing.T) {
	src := `package snippet
type I interface{ M() }
type T struct{ x int }
func (t *T) M() {}
func bad(k int) I {
	var res *T
	switch k {
	case 1:
		res = &T{}
	}
	return res
}
func badAssign(k int) bool {
	var res *T
	if k == 1 { res = &T{} }
	var i I = res
	if i == nil { return false }
	return true
}
func good(k int) I {
	switch k {
	case 1:
		return &T{}
	}
	return nil
}
func goodAssigned(k int) I {
	var res *T
	res = &T{x: k}
	return res
}
`
	p := snippetProg(t, src)
	c := NewCtx(p, "T", "quick")
	ruleTypedNil(c, "T.P9", p.funcList)
	bad := map[string]bool{}
	for _, o := range c.Obls {
		if o.Verdict != Discharged {
			bad[o.Func] = true
		}
	}
	for name, want := range map[string]bool{"snippet.bad": true, "snippet.badAssign": true, "snippet.good": false, "snippet.goodAssigned": false} {
		if bad[name] != want {
			t.Errorf("%s: flagged=%v want %v (all: %v)", name, bad[name], want, bad)
		}
	}
}

func TestConstEval(t *testing.T) {
	src := `package snippet
const (
	A = "a"; B = "b"; C = "c"
	X = "b"; Y = "y"; Z = "z"
)
type nic struct{ Status string }
var table = map[string]string{A: X, B: Y, C: Z}
func viaSwitch(n *nic) {
	switch n.Status {
	case A:
		n.Status = X
	case B:
		n.Status = Y
	case C:
		n.Status = Z
	}
}
func viaElse(n *nic) {
	if n.Status == A { n.Status = X } else if n.Status == B { n.Status = Y } else if n.Status == C { n.Status = Z }
}
func viaTable(n *nic) {
	if v, ok := table[n.Status]; ok { n.Status = v }
}
func viaLocal(n *nic) {
	s := n.Status
	switch { case s == A: s = X; case s == B: s = Y; case s == C: s = Z }
	n.Status = s
}
func translate(s string) string {
	switch s {
	case A:
		return X
	case B:
		return Y
	case C:
		return Z
	}
	return s
}
func translateIf(s string) string {
	if s == A { return X }
	if s == B { return Y }
	if s == C { return Z }
	return s
}
func viaHelper(n *nic) {
	n.Status = translate(n.Status)
}
func viaHelperIf(n *nic) {
	m := &nic{Status: translateIf(n.Status)}
	n.Status = m.Status
}
func cascades(n *nic) {
	s := n.Status
	if s == A { s = X }
	if s == B { s = Y }
	if s == C { s = Z }
	n.Status = s
}
`
	p := snippetProg(t, src)
	want := map[string]string{"a": "b", "b": "y", "c": "z", "q": "q"}
	run := func(name string) map[string]string {
		fi := fnOf(t, p, name)
		ce := &constEval{info: fi.Info(), maps: collectTables(fi.Info(), fi.Pkg.Syntax)}
		ce.body = func(f *types.Func) (*ast.FuncDecl, *types.Info) {
			if g := p.FuncOf(f); g != nil {
				return g.Decl, g.Info()
			}
			return nil, nil
		}
		got := map[string]string{}
		for in := range want {
			env, _ := ce.stmts(fi.Decl.Body.List, constEnv{"n.Status": in})
			got[in] = env["n.Status"]
		}
		return got
	}
	for _, name := range []string{"viaSwitch", "viaElse", "viaTable", "viaLocal", "viaHelper", "viaHelperIf"} {
		got := run(name)
		for in, w := range want {
			if got[in] != w {
				t.Errorf("%s: %q → %q, want %q", name, in, got[in], w)
			}
		}
	}
	if got := run("cascades"); got["a"] != "y" || got["b"] != "y" {
		t.Errorf("cascades: a → %q, b → %q; want y, y", got["a"], got["b"])
	}
}

func verdictsOf(c *Ctx, rule string) (bad, good int) {
	for _, o := range c.Obls {
		if o.Rule != rule {
			continue
		}
		if o.Verdict == Discharged {
			good++
		} else {
			bad++
		}
	}
	return
}

func TestShadowRule(t *testing.T) {
	src := `package snippet
import "errors"
func f() error { return nil }
func g() error { return errors.New("x") }
func lookup() (string, string) { return "a", "b" }
func use(...any) {}
// S1: the else-branch assigns the inner err; the outer one is what is tested afterwards
func deadStore() error {
	var err error
	if err := f(); err != nil {
		use(err)
	} else {
		err = g()
	}
	if err != nil {
		return err
	}
	return nil
}
// S2: := in a nested block redeclares both outer names
func redeclare(fallback bool) {
	a, b := "", ""
	if fallback {
		a, b := lookup()
		use(a, b)
	}
	use(a, b)
}
// idiomatic: the inner err is tested and returned; the outer one is reassigned before it is read
func idiomatic() error {
	err := f()
	if err != nil {
		return err
	}
	if err := g(); err != nil {
		return err
	}
	x, err := lookupErr()
	use(x)
	return err
}
func lookupErr() (string, error) { return "", nil }
// a new variable next to a shadowed error is not S2
func mixed() {
	a := ""
	var err error
	if a == "" {
		b, err := lookupErr()
		use(b, err)
	}
	use(a, err)
}
`
	p := snippetProg(t, src)
	fs, n := shadowFindings(p.AllFuncs())
	got := map[string]string{}
	for _, f := range fs {
		got[f.fn.Name] = f.kind
	}
	if got["deadStore"] != "S1" || got["redeclare"] != "S2" {
		t.Errorf("shadow slips not reported: %v", got)
	}
	if _, bad := got["idiomatic"]; bad {
		t.Errorf("idiomatic error shadowing reported")
	}
	if _, bad := got["mixed"]; bad {
		t.Errorf("a := with a new variable reported")
	}
	if n == 0 {
		t.Errorf("nothing examined")
	}
}

func TestRangeShrinkAndRoleMismatch(t *testing.T) {
	src := `package snippet
type item struct{ id string }
type rec struct{ items []item }
func keep(item) bool { return true }
func bad(r *rec) {
	for j := range r.items {
		if !keep(r.items[j]) {
			r.items = append(r.items[:j], r.items[j+1:]...)
		}
	}
}
func good(r *rec) {
	for j := 0; j < len(r.items); j++ {
		if !keep(r.items[j]) {
			r.items = append(r.items[:j], r.items[j+1:]...)
		}
	}
	for j := range r.items {
		_ = r.items[j]
	}
}
type data struct{ Ip, Gateway, Mask string }
func network(gateway, mask string) string { return gateway + mask }
func wrongField(d data) string { return network(d.Ip, d.Mask) }
func rightField(d data) string { return network(d.Gateway, d.Mask) }
`
	p := snippetProg(t, src)
	found, fnOf, loops := rangeShrinks(p, p.AllFuncs())
	if len(found) != 1 || fnOf[found[0]].Name != "bad" || loops < 2 {
		t.Errorf("range-shrink: found %d (loops %d)", len(found), loops)
	}
	rm, _ := roleMismatches(p, p.AllFuncs())
	if len(rm) != 1 || rm[0].fn.Name != "wrongField" || rm[0].want != "d.Gateway" {
		t.Errorf("role mismatch: %+v", rm)
	}
}

func TestAddrFromSliceAndOpenFile(t *testing.T) {
	src := `package snippet
import (
	"net"
	"net/netip"
	"os"
)
func mapped(ip net.IP) netip.Addr {
	a, _ := netip.AddrFromSlice(ip)
	return a
}
func unmapped(ip net.IP) netip.Addr {
	a, _ := netip.AddrFromSlice(ip)
	return a.Unmap()
}
func narrowed(ip net.IP) netip.Addr {
	a, _ := netip.AddrFromSlice(ip.To4())
	return a
}
func rewrite(path string, b []byte) error {
	f, err := os.OpenFile(path, os.O_WRONLY|os.O_CREATE, 0o644)
	if err != nil {
		return err
	}
	defer f.Close()
	_, err = f.Write(b)
	return err
}
func truncate(path string, b []byte) error {
	f, err := os.OpenFile(path, os.O_WRONLY|os.O_CREATE|os.O_TRUNC, 0o644)
	if err != nil {
		return err
	}
	defer f.Close()
	_, err = f.Write(b)
	return err
}
`
	p := snippetProg(t, src)
	c := NewCtx(p, "T", "quick")
	ruleAddrFromSlice(c, "T.R1", "the snippet")
	if bad, good := verdictsOf(c, "T.R1"); bad != 1 || good != 2 {
		t.Errorf("AddrFromSlice: %d bad, %d good (want 1, 2)", bad, good)
	}
	ruleOpenFileTrunc(c, "T.R2", "the snippet")
	if bad, good := verdictsOf(c, "T.R2"); bad != 1 || good != 1 {
		t.Errorf("OpenFile: %d bad, %d good (want 1, 1)", bad, good)
	}
}

// rename resolution: a frozen function that is gone is matched to the one new function of the same
// receiver and signature (or the same bare name under another receiver); siblings renamed together are
// told apart by body; an ambiguous or absent candidate leaves the anchor unresolved.
func TestRenameResolution(t *testing.T) {
	before := `package snippet
type T struct{ n int }
func (t *T) ready() bool { return t.n == 0 }
func (t *T) alpha(x int) error { t.n = x; return nil }
func (t *T) beta(x int) error { t.n = -x; return nil }
func (t *T) gone(s string) {}
func keep() {}
`
	after := `package snippet
type T struct{ n int }
func ready(t *T) bool { return t.n == 0 }
func (t *T) second(x int) error { t.n = -x; return nil }
func (t *T) first(x int) error { t.n = x; return nil }
func keep() {}
func user(t *T) { if ready(t) { mark() } }
func mark() {}
`
	pb := snippetProg(t, before)
	savedS, savedM := frozenFuncSigs, frozenFuncMeta
	defer func() { frozenFuncSigs, frozenFuncMeta = savedS, savedM }()
	frozenFuncSigs, frozenFuncMeta = map[string]string{}, map[string]frozenFn{}
	for i, fi := range pb.funcList {
		k := pb.Roots[0].PkgPath + "." + fi.Name
		sig := sigString(fi.Obj.Type().(*types.Signature))
		frozenFuncSigs[k] = sig
		frozenFuncMeta[k] = frozenFn{sig: sig, body: bodyHash(pb, fi), ord: i}
	}
	pa := snippetProg(t, after)
	pa.resolveRenames()
	pp := pa.Roots[0].PkgPath
	for old, now := range map[string]string{"T.ready": "ready", "T.alpha": "T.first", "T.beta": "T.second"} {
		fi := pa.funcs[pp+"."+old]
		if fi == nil || fi.Now != now || fi.Name != old {
			t.Errorf("%s: want it resolved to %s, got %+v", old, now, fi)
		}
	}
	if pa.funcs[pp+".T.gone"] != nil {
		t.Errorf("T.gone has no successor and must stay unresolved")
	}
	if fi := pa.funcs[pp+".keep"]; fi == nil || fi.Now != "" {
		t.Errorf("keep was not renamed")
	}
	// a requirement text written for the method is rewritten for the function it became
	user := pa.funcs[pp+".user"]
	var target ast.Node
	ast.Inspect(user.Decl.Body, func(n ast.Node) bool {
		if es, ok := n.(*ast.ExprStmt); ok && target == nil {
			target = es
		}
		return true
	})
	e := NewFactEngine(pa, user)
	req, err := e.ParseReq("t.ready()", target.Pos())
	if err != nil {
		t.Fatalf("requirement on the renamed method: %v", err)
	}
	if ok, why, err := e.FactsAt(target, req); err != nil || !ok {
		t.Errorf("t.ready() should hold at mark(): ok=%v %s %v", ok, why, err)
	}
	if recvObj(pa.funcs[pp+".T.ready"]) == nil {
		t.Errorf("the first parameter of a method turned function is its former receiver")
	}
}
