package main

// String-shape evaluator: concatenations, fmt.Sprintf with %s/%d/%v formats,
// trivially inlined helpers, constant slicing, hex/sha1 length facts.

import (
	"go/ast"
	"go/constant"
	"go/token"
	"go/types"
	"strings"
)

type seg struct {
	lit  string // literal text (when role == "")
	role string // "ns", "name", "uid", "?" ...
	// length information for holes: -1 unknown
	minLen, maxLen int
}

type Shape []seg

func (s Shape) String() string {
	var sb strings.Builder
	for _, x := range s {
		if x.role == "" {
			sb.WriteString(x.lit)
		} else {
			sb.WriteString("<" + x.role + ">")
		}
	}
	return sb.String()
}

func roleOfName(name string) string {
	l := strings.ToLower(name)
	switch {
	case strings.Contains(l, "namespace") || l == "ns":
		return "ns"
	case strings.Contains(l, "uid"):
		return "uid"
	case strings.HasSuffix(l, "name") || l == "pod":
		return "name"
	}
	return "?" + name
}

func hole(role string) seg { return seg{role: role, minLen: -1, maxLen: -1} }

// shapeOf computes the shape of a string-valued expression.
func shapeOf(p *Prog, info *types.Info, x ast.Expr, depth int) Shape {
	return shapeEnv(p, info, x, nil, depth)
}

func shapeEnv(p *Prog, info *types.Info, x ast.Expr, env map[types.Object]Shape, depth int) Shape {
	x = ast.Unparen(x)
	if tv, ok := info.Types[x]; ok && tv.Value != nil && tv.Value.Kind() == constant.String {
		return Shape{{lit: constant.StringVal(tv.Value)}}
	}
	switch t := x.(type) {
	case *ast.BinaryExpr:
		if t.Op == token.ADD {
			return append(append(Shape{}, shapeEnv(p, info, t.X, env, depth)...), shapeEnv(p, info, t.Y, env, depth)...)
		}
	case *ast.Ident:
		o := info.ObjectOf(t)
		if s, ok := env[o]; ok {
			return s
		}
		return Shape{hole(roleOfName(t.Name))}
	case *ast.SelectorExpr:
		return Shape{hole(roleOfName(t.Sel.Name))}
	case *ast.CallExpr:
		callee := Callee(info, t)
		if callee != nil && callee.Pkg() != nil && callee.Pkg().Path() == "fmt" && callee.Name() == "Sprintf" && len(t.Args) >= 1 {
			if tv := info.Types[t.Args[0]]; tv.Value != nil {
				return sprintfShape(p, info, constant.StringVal(tv.Value), t.Args[1:], env, depth)
			}
		}
		if tv, ok := info.Types[t.Fun]; ok && tv.IsType() && len(t.Args) == 1 {
			return shapeEnv(p, info, t.Args[0], env, depth)
		}
		// inline single-return repo helpers
		if fi := p.FuncOf(callee); fi != nil && depth < 3 && len(fi.Decl.Body.List) == 1 && fi.Decl.Recv == nil {
			if ret, ok := fi.Decl.Body.List[0].(*ast.ReturnStmt); ok && len(ret.Results) == 1 {
				env2 := map[types.Object]Shape{}
				i := 0
				for _, fld := range fi.Decl.Type.Params.List {
					for _, nm := range fld.Names {
						if i < len(t.Args) {
							env2[fi.Info().Defs[nm]] = shapeEnv(p, info, t.Args[i], env, depth)
						}
						i++
					}
				}
				return shapeEnv(p, fi.Info(), ret.Results[0], env2, depth+1)
			}
		}
	}
	return Shape{hole("?")}
}

func sprintfShape(p *Prog, info *types.Info, format string, args []ast.Expr, env map[types.Object]Shape, depth int) Shape {
	var out Shape
	ai := 0
	for i := 0; i < len(format); i++ {
		if format[i] != '%' {
			j := i
			for j < len(format) && format[j] != '%' {
				j++
			}
			out = append(out, seg{lit: format[i:j]})
			i = j - 1
			continue
		}
		if i+1 >= len(format) {
			out = append(out, hole("?"))
			break
		}
		verb := format[i+1]
		i++
		switch verb {
		case '%':
			out = append(out, seg{lit: "%"})
		case 's', 'd', 'v':
			if ai < len(args) {
				out = append(out, shapeEnv(p, info, args[ai], env, depth)...)
			} else {
				out = append(out, hole("?"))
			}
			ai++
		default:
			out = append(out, hole("?fmt"))
			ai++
		}
	}
	return out
}
