package main

// C01 — a node never hands the same IP to two live pods (pkg/eni).

import (
	"fmt"
	"go/ast"
	"go/token"
	"go/types"
	"sort"
	"strings"

	"golang.org/x/tools/go/cfg"
)

func init() { registry["C01"] = c01 }

const eniPkg = "pkg/eni"

func derefNamed(t types.Type) *types.Named {
	for {
		if t == nil {
			return nil
		}
		t = types.Unalias(t)
		if p, ok := t.(*types.Pointer); ok {
			t = p.Elem()
			continue
		}
		n, _ := t.(*types.Named)
		return n
	}
}

func typeIs(t types.Type, pkgPath string, names ...string) bool {
	n := derefNamed(t)
	if n == nil || n.Obj().Pkg() == nil || n.Obj().Pkg().Path() != pkgPath {
		return false
	}
	for _, nm := range names {
		if n.Obj().Name() == nm {
			return true
		}
	}
	return false
}

func recvObj(fn *FuncInfo) types.Object {
	if fn.Decl.Recv == nil && fn.Now != "" && strings.Contains(fn.Name, ".") {
		// a method that became a plain function: its first parameter is the former receiver
		if ps := fn.Decl.Type.Params.List; len(ps) > 0 && len(ps[0].Names) > 0 {
			return fn.Info().Defs[ps[0].Names[0]]
		}
	}
	if fn.Decl.Recv == nil || len(fn.Decl.Recv.List) != 1 || len(fn.Decl.Recv.List[0].Names) != 1 {
		return nil
	}
	return fn.Info().Defs[fn.Decl.Recv.List[0].Names[0]]
}

func recvTypeOf(fn *FuncInfo) string {
	if fn.Decl.Recv == nil {
		return ""
	}
	return recvTypeName(fn.Decl.Recv.List[0].Type)
}

// poolAccess is one access to lock-guarded pool state.
type poolAccess struct {
	node ast.Node
	lock string // required lock path; "caller" for non-Local functions
	what string
	lit  *ast.FuncLit
}

// c01Accesses enumerates guarded accesses in fn.
func c01Accesses(c *Ctx, fn *FuncInfo, la *LockAnalysis) []poolAccess {
	p := c.P
	full := modPath + "/" + eniPkg
	guardedFields := map[*types.Var]bool{}
	for _, f := range []string{"ipv4", "ipv6", "allocatingV4", "allocatingV6", "dangingV4", "dangingV6", "status", "ipAllocInhibitExpireAt"} {
		if v := p.Field(eniPkg, "Local", f); v != nil {
			guardedFields[v] = true
		}
	}
	eniField := p.Field(eniPkg, "Local", "eni")
	info := fn.Info()
	recv := recvObj(fn)
	recvLock := "caller"
	if recv != nil && recvTypeOf(fn) == "Local" {
		recvLock = objID(recv) + ".cond.L"
	}
	var out []poolAccess
	writes := map[ast.Expr]bool{}
	ast.Inspect(fn.Decl.Body, func(n ast.Node) bool {
		switch s := n.(type) {
		case *ast.AssignStmt:
			for _, l := range s.Lhs {
				writes[ast.Unparen(l)] = true
			}
		case *ast.IncDecStmt:
			writes[ast.Unparen(s.X)] = true
		case *ast.UnaryExpr:
			if s.Op == token.AND {
				writes[ast.Unparen(s.X)] = true
			}
		}
		return true
	})
	walkWithLits(fn.Decl.Body, func(n ast.Node, lits []*ast.FuncLit) {
		var lit *ast.FuncLit
		if len(lits) > 0 {
			lit = lits[len(lits)-1]
		}
		switch s := n.(type) {
		case *ast.SelectorExpr:
			if fv := fieldOf(info, s); fv != nil {
				if guardedFields[fv] || (fv == eniField && writes[s]) {
					base := strings.TrimPrefix(la.e.canon(s.X, la.e.fnScope(), nil), "&")
					out = append(out, poolAccess{node: s, lock: base + ".cond.L", what: "Local." + fv.Name(), lit: lit})
					return
				}
			}
			// receiver taint: any field/method of an IP / Set / AllocatingRequests value
			if info.Selections[s] != nil {
				if tx := info.TypeOf(s.X); typeIs(tx, full, "IP", "Set", "AllocatingRequests") {
					out = append(out, poolAccess{node: s, lock: recvLock, what: derefNamed(tx).Obj().Name() + "." + s.Sel.Name, lit: lit})
				}
			}
		case *ast.IndexExpr:
			if tx := info.TypeOf(s.X); typeIs(tx, full, "Set") {
				out = append(out, poolAccess{node: s, lock: recvLock, what: "Set[]", lit: lit})
			}
		case *ast.RangeStmt:
			if tx := info.TypeOf(s.X); typeIs(tx, full, "Set", "AllocatingRequests") {
				out = append(out, poolAccess{node: s.X, lock: recvLock, what: "range " + derefNamed(tx).Obj().Name(), lit: lit})
			}
		}
	})
	return out
}

func c01(c *Ctx) {
	p := c.P
	if p.Pkg(eniPkg) == nil {
		c.Unres("C01", eniPkg, "package not loaded")
		return
	}
	c01R1(c)
	c01R2(c)
	c01R3(c)
	c01R4(c)
	c01R5(c)
	c01R6(c)
	c01R7(c)
	c01R8(c)
	// requests of one pod are serialised (shared rule): without it an ADD of a new sandbox can be
	// handed the address a DEL of the old one is about to release
	c04R1(c)
	// an acknowledged ADD keeps its address (the deferred roll-back stays idle on success) and its
	// record names the sandbox it was given to (shared rules)
	c04R4(c)
	c05R1(c)
	c01R10(c)
	c01R11(c)
	// shared rules that decide clauses this statement relies on: start-up keeps every stored binding
	// whose interface is attached (C05.R8), only addresses in Deleting state are unassigned (C06.R3),
	// and the collector never runs beside a request (write lock, C04.R2)
	c05R8(c)
	c06R3(c)
	c04R2(c)
}

// R10: at start-up the pool decides what is idle only after the stored owners were restored.
// Local.load marks addresses beyond the cap for disposal; the list of idle addresses it works on
// is taken after every IP.Allocate(<stored pod>) of the restore loop, never before.
func c01R10(c *Ctx) {
	p := c.P
	c.Rule("C01.R10", "Local.load computes the idle addresses it disposes of (Set.Idles) only after the stored owners were restored: no path leads from a call of Set.Idles to a restoring IP.Allocate")
	fn := p.Func(eniPkg, "Local.load")
	idles := p.Method(eniPkg, "Set", "Idles")
	alloc := p.Method(eniPkg, "IP", "Allocate")
	if fn == nil || idles == nil || alloc == nil {
		c.Unres("C01.R10", "Local.load / Set.Idles / IP.Allocate", "not found")
		return
	}
	is := p.CallsTo([]*FuncInfo{fn}, idles)
	as := p.CallsTo([]*FuncInfo{fn}, alloc)
	q := NewPathQuery(p, fn, nil)
	for _, i := range is {
		var w []ast.Node
		for _, a := range as {
			if w == nil {
				w = q.Escapes(isExactly(i.Call), isExactly(a.Call), nil, nil)
			}
		}
		c.Check(w == nil, "C01.R10", "load: idle addresses are listed after the owners were restored", p.Pos(i.Call), fn.Key(), "never-before: Set.Idles() → IP.Allocate(stored pod)", "path: "+p.describePath(w))
	}
	c.Floor("C01.R10", "Set.Idles calls in Local.load", 1, len(is))
	c.Floor("C01.R10", "restoring IP.Allocate calls in Local.load", 1, len(as))
}

// ---------- R1 lock discipline ----------

var c01Exempt = map[string]string{
	"pkg/eni.Local.load": "runs in Run before any worker goroutine is started (checked: only caller is Run, no go statement precedes the call)",
}

func c01R1(c *Ctx) {
	p := c.P
	c.Rule("C01.R1", "every access to per-ENI pool state (Local.ipv4/ipv6/allocating*/danging*/status/inhibit deadline, writes of Local.eni, any field or method of an IP/Set/AllocatingRequests value) happens with that ENI's lock held; helpers that rely on the caller's lock are summarised requires-held and checked at each call site")
	type need struct {
		first poolAccess
		n     int
	}
	needs := map[*FuncInfo]*need{}
	las := map[*FuncInfo]*LockAnalysis{}
	laOf := func(fn *FuncInfo) *LockAnalysis {
		if la, ok := las[fn]; ok {
			return la
		}
		la := NewLockAnalysis(p, fn)
		las[fn] = la
		return la
	}
	nAccess, nFuncs := 0, 0
	for _, fn := range p.FuncsInPkg(eniPkg) {
		switch recvTypeOf(fn) {
		case "IP", "Set", "AllocatingRequests":
			continue // the guarded types' own methods: run under the caller's lock
		}
		la := laOf(fn)
		accs := c01Accesses(c, fn, la)
		if len(accs) == 0 {
			continue
		}
		nFuncs++
		for _, a := range accs {
			nAccess++
			held := la.HeldBefore(a.node)
			key := fmt.Sprintf("%s: %s", fn.Key(), a.what)
			if a.lock != "caller" {
				if _, ok := held[a.lock]; ok {
					c.OK("C01.R1", key, p.Pos(a.node), fn.Key(), "held ∋ "+a.lock)
					continue
				}
			}
			// not held locally: acceptable only as a requires-held helper (not inside a goroutine/stored literal)
			inAsync := false
			if a.lit != nil {
				init := la.initial(a.lit.Body)
				_ = init
				if !litIsSync(la, a.lit) {
					inAsync = true
				}
			}
			if inAsync {
				c.Bad("C01.R1", key, p.Pos(a.node), fn.Key(), "held ∋ "+a.lock, "access inside a goroutine/stored function literal without the lock; held="+held.String())
				continue
			}
			if nd := needs[fn]; nd == nil {
				needs[fn] = &need{first: a, n: 1}
			} else {
				nd.n++
			}
		}
	}
	c.Floor("C01.R1", "guarded accesses analysed in pkg/eni", 60, nAccess)
	c.Floor("C01.R1", "functions with guarded accesses", 12, nFuncs)

	// requires-held propagation (bound 3)
	p.buildCallers()
	var order []*FuncInfo
	for fn := range needs {
		order = append(order, fn)
	}
	sort.Slice(order, func(i, j int) bool { return order[i].Key() < order[j].Key() })
	done := map[*FuncInfo]bool{}
	var process func(fn *FuncInfo, depth int, why string)
	process = func(fn *FuncInfo, depth int, why string) {
		if done[fn] {
			return
		}
		done[fn] = true
		key := "requires-held " + fn.Key()
		if reason, ok := c01Exempt[fn.Key()]; ok {
			c01ExemptLoad(c, fn, reason)
			return
		}
		if isExported(fn.Name) || depth > 3 {
			c.Bad("C01.R1", key, p.Pos(fn.Decl), fn.Key(), "exported entry points acquire the ENI lock themselves", why)
			return
		}
		callers := p.callers[fn.Obj]
		if len(callers) == 0 {
			c.OK("C01.R1", key+" (no callers)", p.Pos(fn.Decl), fn.Key(), "call sites hold the lock")
			return
		}
		for _, caller := range callers {
			la := laOf(caller)
			crecv := recvObj(caller)
			for _, cs := range p.CallsIn(caller) {
				if cs.Callee != fn.Obj {
					continue
				}
				k := fmt.Sprintf("call %s → %s", caller.Key(), fn.Key())
				// lock expected: callee receiver's lock for Local methods, else the caller's own receiver lock
				var lock string
				if recvTypeOf(fn) == "Local" {
					if sel, ok := ast.Unparen(cs.Call.Fun).(*ast.SelectorExpr); ok {
						lock = strings.TrimPrefix(la.e.canon(sel.X, la.e.fnScope(), nil), "&") + ".cond.L"
					}
				} else if crecv != nil && recvTypeOf(caller) == "Local" {
					lock = objID(crecv) + ".cond.L"
				}
				// go / defer of a requires-held function
				async := false
				for _, n := range pathTo(caller.Decl.Body, cs.Call) {
					if g, ok := n.(*ast.GoStmt); ok && g.Call == cs.Call {
						async = true
					}
				}
				held := la.HeldBefore(cs.Call)
				if _, ok := held[lock]; ok && lock != "" && !async {
					c.OK("C01.R1", k, p.Pos(cs.Call), caller.Key(), "held ∋ "+lock+" at call of requires-held helper")
					continue
				}
				if async || (cs.Lit != nil && !litIsSync(la, cs.Lit)) {
					c.Bad("C01.R1", k, p.Pos(cs.Call), caller.Key(), "held ∋ "+lock, "requires-held helper started asynchronously without the lock")
					continue
				}
				// caller itself becomes requires-held
				if lock == "" && recvTypeOf(caller) != "Local" && !isExported(caller.Name) {
					process(caller, depth+1, "calls "+fn.Key()+" at "+p.Pos(cs.Call))
					continue
				}
				if !isExported(caller.Name) {
					c.OK("C01.R1", k+" (propagated)", p.Pos(cs.Call), caller.Key(), "caller is requires-held in turn")
					process(caller, depth+1, "calls "+fn.Key()+" at "+p.Pos(cs.Call)+" without the lock")
					continue
				}
				c.Bad("C01.R1", k, p.Pos(cs.Call), caller.Key(), "held ∋ "+lock, "requires-held helper called without the lock; held="+held.String())
			}
			// method value use (e.g. passed as callback)
			ast.Inspect(caller.Decl.Body, func(n ast.Node) bool {
				if sel, ok := n.(*ast.SelectorExpr); ok && caller.Info().Uses[sel.Sel] == types.Object(fn.Obj) {
					isCall := false
					for _, cs := range p.CallsIn(caller) {
						if ast.Unparen(cs.Call.Fun) == ast.Expr(sel) {
							isCall = true
						}
					}
					if !isCall {
						c.Bad("C01.R1", "method value "+fn.Key()+" in "+caller.Key(), p.Pos(sel), caller.Key(), "requires-held helper not used as a value", "lock state at the eventual call is unknown")
					}
				}
				return true
			})
		}
	}
	for _, fn := range order {
		nd := needs[fn]
		process(fn, 0, fmt.Sprintf("%d unlocked accesses, first %s at %s", nd.n, nd.first.what, p.Pos(nd.first.node)))
	}

	// immutable fields: written only in NewLocal
	var imm []*types.Var
	for _, f := range []string{"batchSize", "cap", "factory", "rateLimitEni", "rateLimitv4", "rateLimitv6", "eniType", "enableIPv4", "enableIPv6", "cond"} {
		if v := p.Field(eniPkg, "Local", f); v != nil {
			imm = append(imm, v)
		} else {
			c.Unres("C01.R1", "Local."+f, "field not found")
		}
	}
	st := p.StoresTo(nil, imm...)
	c.WhoMay("C01.R1", "write an immutable Local field (read without the lock)", groupStores(st), map[string]string{"pkg/eni.NewLocal": "constructor"})
	c.Floor("C01.R1", "stores of immutable Local fields (constructor)", 8, len(st))

	// Local.eni written only by the two factory workers (and the constructor)
	eniStores := p.StoresTo(nil, p.Field(eniPkg, "Local", "eni"))
	c.WhoMay("C01.R1", "write Local.eni", groupStores(eniStores), map[string]string{
		"pkg/eni.NewLocal":                   "constructor",
		"pkg/eni.Local.factoryAllocWorker":   "records the created ENI",
		"pkg/eni.Local.factoryDisposeWorker": "clears it after the cloud confirmed deletion",
	})
	c.Floor("C01.R1", "stores of Local.eni", 4, len(eniStores))
}

// litIsSync: the literal runs synchronously inside its parent (callback
// argument, immediately invoked, or deferred).
func litIsSync(la *LockAnalysis, fl *ast.FuncLit) bool {
	parent := la.parent[fl.Body]
	path := pathTo(parent, fl)
	stored := false
	var direct *ast.CallExpr
	for i := len(path) - 2; i >= 0; i-- {
		switch s := path[i].(type) {
		case *ast.CallExpr:
			if direct == nil && !stored {
				direct = s
			}
		case *ast.CompositeLit, *ast.KeyValueExpr:
			stored = true
		case *ast.GoStmt:
			return false
		case *ast.DeferStmt:
			return true
		case ast.Stmt:
			return direct != nil && !stored
		}
	}
	return false
}

func c01ExemptLoad(c *Ctx, fn *FuncInfo, reason string) {
	p := c.P
	p.buildCallers()
	run := p.Func(eniPkg, "Local.Run")
	if run == nil {
		c.Unres("C01.R1", "Local.Run", "not found")
		return
	}
	callers := p.callers[fn.Obj]
	onlyRun := len(callers) == 1 && callers[0] == run
	c.Check(onlyRun, "C01.R1", "exempt "+fn.Key()+": only caller is Local.Run", p.Pos(fn.Decl), fn.Key(), reason, fmt.Sprintf("callers: %v", funcKeys(callers)))
	if !onlyRun {
		return
	}
	q := NewPathQuery(p, run, nil)
	isGo := func(n ast.Node) bool { _, ok := n.(*ast.GoStmt); return ok }
	w := q.Escapes(nil, isGo, q.callTo(fn.Obj), nil)
	c.Check(w == nil, "C01.R1", "exempt "+fn.Key()+": no goroutine started before it in Run", p.Pos(run.Decl), run.Key(), "never-before: go statement before load()", p.describePath(w))
}

func funcKeys(fs []*FuncInfo) []string {
	var out []string
	for _, f := range fs {
		out = append(out, f.Key())
	}
	sort.Strings(out)
	return out
}

// ---------- R2 fresh-or-owned ----------

type ipVal string // "Nil", "Fresh:<pod>", "Owned:<pod>", "Stale", "Unknown", "Param:<i>"

type ipState map[types.Object]map[ipVal]bool

func (s ipState) clone() ipState {
	r := ipState{}
	for k, v := range s {
		m := map[ipVal]bool{}
		for x := range v {
			m[x] = true
		}
		r[k] = m
	}
	return r
}

func (s ipState) join(o ipState) (ipState, bool) {
	changed := false
	for k, v := range o {
		if s[k] == nil {
			s[k] = map[ipVal]bool{}
		}
		for x := range v {
			if !s[k][x] {
				s[k][x] = true
				changed = true
			}
		}
	}
	return s, changed
}

func valsString(m map[ipVal]bool) string {
	var ks []string
	for k := range m {
		ks = append(ks, string(k))
	}
	sort.Strings(ks)
	return "{" + strings.Join(ks, ",") + "}"
}

type ipSummary struct {
	ipParam, podParam int
}

func c01R2(c *Ctx) {
	p := c.P
	c.Rule("C01.R2", "an address is marked owned ((*IP).Allocate / Local.commit) only if, in the same critical section, it was returned by Set.PeekAvailable for the same pod id on this ENI's pool (Fresh) or already marked for that pod (Owned); any release point (Unlock, Cond.Wait) turns Fresh into Stale")
	full := modPath + "/" + eniPkg
	allocM := p.Method(eniPkg, "IP", "Allocate")
	peekM := p.Method(eniPkg, "Set", "PeekAvailable")
	if allocM == nil || peekM == nil {
		c.Unres("C01.R2", "IP.Allocate / Set.PeekAvailable", "method not found")
		return
	}
	sites := p.CallsTo(nil, allocM)
	c.WhoMay("C01.R2", "call (*IP).Allocate", groupCalls(sites), map[string]string{
		"pkg/eni.Local.load":     "restores ownership from the database before the workers start (C05)",
		"pkg/eni.Local.Allocate": "fast path: marks the peeked address under the lock",
		"pkg/eni.Local.commit":   "marks the address being replied",
	})
	c.WhoMayCallDeep("C01.R2", "call (*IP).Allocate", []*types.Func{allocM}, map[string]string{
		"pkg/eni.Local.load":     "restores ownership from the database before the workers start (C05)",
		"pkg/eni.Local.Allocate": "fast path: marks the peeked address under the lock",
		"pkg/eni.Local.commit":   "marks the address being replied",
	})
	c.Floor("C01.R2", "(*IP).Allocate call sites", 7, len(sites))

	isIPPtr := func(t types.Type) bool { return typeIs(t, full, "IP") }

	// analyse one function; summaries collected for functions with *IP params
	summaries := map[*types.Func][]ipSummary{}
	nOb := 0
	analyse := func(fn *FuncInfo, pass int) {
		info := fn.Info()
		la := NewLockAnalysis(p, fn)
		e := la.e
		sc := e.fnScope()
		bl := la.analyse(fn.Decl.Body)
		g := bl.g
		// parameters
		init := ipState{}
		paramIdx := map[types.Object]int{}
		i := 0
		for _, fld := range fn.Decl.Type.Params.List {
			for _, nm := range fld.Names {
				o := info.Defs[nm]
				paramIdx[o] = i
				if isIPPtr(o.Type()) {
					init[o] = map[ipVal]bool{ipVal(fmt.Sprintf("Param:%d", i)): true}
				}
				i++
			}
		}
		varOf := func(x ast.Expr) types.Object {
			if id, ok := ast.Unparen(x).(*ast.Ident); ok {
				if o, ok := info.ObjectOf(id).(*types.Var); ok && isIPPtr(o.Type()) && !o.IsField() {
					return o
				}
			}
			return nil
		}
		podOf := func(x ast.Expr) string { return e.canon(x, sc, nil) }
		okVals := func(vals map[ipVal]bool, pod string, allowFresh bool) (bool, string) {
			for v := range vals {
				switch {
				case v == "Nil":
				case v == ipVal("Owned:"+pod):
				case allowFresh && v == ipVal("Fresh:"+pod):
				case strings.HasPrefix(string(v), "Param:"):
				default:
					return false, string(v)
				}
			}
			return true, ""
		}
		report := pass == 1
		checkUse := func(n ast.Node, x ast.Expr, pod ast.Expr, st ipState, what string, allowFresh bool) {
			key := fmt.Sprintf("%s: %s(%s)", fn.Key(), what, exprString(x))
			if tv, ok := info.Types[ast.Unparen(x)]; ok && tv.IsNil() {
				return
			}
			o := varOf(x)
			if o == nil {
				if report {
					nOb++
					c.Bad("C01.R2", key, p.Pos(n), fn.Key(), "receiver/argument is a local *IP variable with a tracked origin", "expression "+exprString(x)+" has no tracked origin")
				}
				return
			}
			vals := st[o]
			if len(vals) == 0 {
				vals = map[ipVal]bool{"Unknown": true}
			}
			pd := podOf(pod)
			ok, bad := okVals(vals, pd, allowFresh)
			// record parameter summaries
			for v := range vals {
				if strings.HasPrefix(string(v), "Param:") {
					var pi int
					fmt.Sscanf(string(v), "Param:%d", &pi)
					if id, isId := ast.Unparen(pod).(*ast.Ident); isId {
						if pj, isParam := paramIdx[info.ObjectOf(id)]; isParam {
							found := false
							for _, s := range summaries[fn.Obj] {
								if s.ipParam == pi && s.podParam == pj {
									found = true
								}
							}
							if !found {
								summaries[fn.Obj] = append(summaries[fn.Obj], ipSummary{pi, pj})
							}
							continue
						}
					}
					ok, bad = false, "parameter marked for a pod id that is not a parameter"
				}
			}
			if report {
				nOb++
				req := fmt.Sprintf("%s ⊆ {Nil, Fresh(%s), Owned(%s)}", exprString(x), exprString(pod), exprString(pod))
				if !allowFresh {
					req = fmt.Sprintf("%s ⊆ {Nil, Owned(%s)} when captured by a goroutine", exprString(x), exprString(pod))
				}
				if ok {
					c.OK("C01.R2", key, p.Pos(n), fn.Key(), req)
				} else {
					c.Bad("C01.R2", key, p.Pos(n), fn.Key(), req, "abstract value "+bad+" reaches the mark; state="+valsString(vals))
				}
			}
		}
		// uses inside a node (not entering literals unless go-literal handled separately)
		var usesIn func(n ast.Node, st ipState, captured bool)
		usesIn = func(n ast.Node, st ipState, captured bool) {
			ast.Inspect(n, func(m ast.Node) bool {
				switch t := m.(type) {
				case *ast.FuncLit:
					if !captured {
						// goroutine / callback literal: its uses see the state at creation, Fresh not allowed
						usesIn(t.Body, st, true)
					}
					return false
				case *ast.CallExpr:
					callee := Callee(info, t)
					if callee == nil {
						return true
					}
					if callee == allocM {
						if sel, ok := ast.Unparen(t.Fun).(*ast.SelectorExpr); ok && len(t.Args) == 1 {
							checkUse(t, sel.X, t.Args[0], st, "Allocate", !captured)
						}
					}
					for _, s := range summaries[callee] {
						if s.ipParam < len(t.Args) && s.podParam < len(t.Args) {
							checkUse(t, t.Args[s.ipParam], t.Args[s.podParam], st, callee.Name()+" arg", !captured)
						}
					}
				}
				return true
			})
		}
		transfer := func(n ast.Node, st ipState) ipState {
			out := st
			mod := func() {
				if &out == &st || true {
					out = out.clone()
				}
			}
			if bl.release[n] {
				mod()
				for o, vals := range out {
					nv := map[ipVal]bool{}
					for v := range vals {
						if strings.HasPrefix(string(v), "Fresh:") {
							nv["Stale"] = true
						} else {
							nv[v] = true
						}
					}
					out[o] = nv
				}
			}
			switch s := n.(type) {
			case *ast.ValueSpec: // go/cfg adds each var spec as its own node
				if len(s.Values) == 0 {
					for _, nm := range s.Names {
						if o := info.Defs[nm]; o != nil && isIPPtr(o.Type()) {
							mod()
							out[o] = map[ipVal]bool{"Nil": true}
						}
					}
				}
			case *ast.AssignStmt:
				for i, l := range s.Lhs {
					o := varOf(l)
					if o == nil {
						continue
					}
					mod()
					val := ipVal("Unknown")
					if len(s.Rhs) == len(s.Lhs) {
						r := ast.Unparen(s.Rhs[i])
						if tv, ok := info.Types[r]; ok && tv.IsNil() {
							val = "Nil"
						} else if call, ok := r.(*ast.CallExpr); ok && Callee(info, call) == peekM && len(call.Args) == 1 {
							// receiver must be this ENI's pool
							if sel, ok := ast.Unparen(call.Fun).(*ast.SelectorExpr); ok {
								if fv := fieldOf(info, sel.X); fv != nil && (fv.Name() == "ipv4" || fv.Name() == "ipv6") {
									val = ipVal("Fresh:" + podOf(call.Args[0]))
								}
							}
						} else if ro := varOf(r); ro != nil {
							out[o] = out[ro]
							continue
						}
					}
					out[o] = map[ipVal]bool{val: true}
				}
			case *ast.ExprStmt:
				if call, ok := s.X.(*ast.CallExpr); ok && Callee(info, call) == allocM {
					if sel, ok := ast.Unparen(call.Fun).(*ast.SelectorExpr); ok && len(call.Args) == 1 {
						if o := varOf(sel.X); o != nil {
							mod()
							pd := podOf(call.Args[0])
							nv := map[ipVal]bool{}
							for v := range out[o] {
								if v == ipVal("Fresh:"+pd) {
									nv[ipVal("Owned:"+pd)] = true
								} else {
									nv[v] = true
								}
							}
							out[o] = nv
						}
					}
				}
			}
			return out
		}
		in := make([]ipState, len(g.Blocks))
		if len(g.Blocks) == 0 {
			return
		}
		in[0] = init
		work := []*cfg.Block{g.Blocks[0]}
		for len(work) > 0 {
			b := work[len(work)-1]
			work = work[:len(work)-1]
			st := in[b.Index].clone()
			for _, n := range b.Nodes {
				st = transfer(n, st)
			}
			for k, s := range b.Succs {
				est := st
				if len(b.Succs) == 2 && len(b.Nodes) > 0 {
					if cond, ok := b.Nodes[len(b.Nodes)-1].(ast.Expr); ok {
						est = refineNil(cond, k == 0, st, varOf, info)
					}
				}
				if in[s.Index] == nil {
					in[s.Index] = est.clone()
					work = append(work, s)
				} else if _, ch := in[s.Index].join(est); ch {
					work = append(work, s)
				}
			}
		}
		for _, b := range g.Blocks {
			if in[b.Index] == nil {
				continue
			}
			st := in[b.Index].clone()
			for _, n := range b.Nodes {
				usesIn(n, st, false)
				st = transfer(n, st)
			}
		}
	}
	// pass 0: summaries (commit), pass 1: report
	var fns []*FuncInfo
	seen := map[*FuncInfo]bool{}
	for _, s := range sites {
		if !seen[s.Fn] && s.Fn.Key() != "pkg/eni.Local.load" {
			seen[s.Fn] = true
			fns = append(fns, s.Fn)
		}
	}
	for _, fn := range fns {
		analyse(fn, 0)
	}
	// callers of summarised functions
	for callee := range summaries {
		for _, cs := range p.CallsTo(nil, callee) {
			if !seen[cs.Fn] {
				seen[cs.Fn] = true
				fns = append(fns, cs.Fn)
			}
		}
	}
	sort.Slice(fns, func(i, j int) bool { return fns[i].Key() < fns[j].Key() })
	for _, fn := range fns {
		analyse(fn, 1)
	}
	c.Floor("C01.R2", "ownership-mark uses checked (Allocate receivers + commit arguments)", 8, nOb)
	nsum := 0
	for _, s := range summaries {
		nsum += len(s)
	}
	c.Floor("C01.R2", "parameter summaries (commit marks its *IP parameters)", 2, nsum)
}

// refineNil narrows the abstract value of x on the edges of `x == nil` / `x != nil`.
func refineNil(cond ast.Expr, takeTrue bool, st ipState, varOf func(ast.Expr) types.Object, info *types.Info) ipState {
	b, ok := ast.Unparen(cond).(*ast.BinaryExpr)
	if !ok || (b.Op != token.EQL && b.Op != token.NEQ) {
		return st
	}
	var x ast.Expr
	if tv, ok := info.Types[ast.Unparen(b.Y)]; ok && tv.IsNil() {
		x = b.X
	} else if tv, ok := info.Types[ast.Unparen(b.X)]; ok && tv.IsNil() {
		x = b.Y
	}
	if x == nil {
		return st
	}
	o := varOf(x)
	if o == nil || st[o] == nil {
		return st
	}
	isNilEdge := (b.Op == token.EQL) == takeTrue
	out := st.clone()
	if isNilEdge {
		out[o] = map[ipVal]bool{"Nil": true}
	} else {
		delete(out[o], "Nil")
	}
	return out
}

// ---------- R3 lookup contract ----------

func c01R3(c *Ctx) {
	p := c.P
	c.Rule("C01.R3", "Set.PeekAvailable returns an address only if it is already this pod's (non-empty id) or valid and unowned; the same-pod search comes first")
	fn := p.Func(eniPkg, "Set.PeekAvailable")
	if fn == nil {
		c.Unres("C01.R3", "Set.PeekAvailable", "not found")
		return
	}
	param := fn.Decl.Type.Params.List[0].Names[0].Name
	var rets []*ast.ReturnStmt
	ast.Inspect(fn.Decl.Body, func(n ast.Node) bool {
		if r, ok := n.(*ast.ReturnStmt); ok && len(r.Results) == 1 {
			if tv := fn.Info().Types[r.Results[0]]; !tv.IsNil() {
				rets = append(rets, r)
			}
		}
		return true
	})
	c.Floor("C01.R3", "non-nil returns of PeekAvailable", 2, len(rets))
	var ownPos, freePos token.Pos
	var ownRets, freeRets []*ast.ReturnStmt
	for i, r := range rets {
		x := exprString(r.Results[0])
		o := c.Require("C01.R3", fmt.Sprintf("PeekAvailable return#%d", i+1), fn, r,
			"($r.podID == $p && $p != \"\") || ($r.status == ipStatusValid && $r.podID == \"\")", map[string]string{"$r": x, "$p": param})
		if o.Verdict == Discharged {
			// classify for the ordering rule
			own := c.Require("C01.R3", fmt.Sprintf("classify return#%d (same-pod?)", i+1), fn, r, "$r.podID == $p && $p != \"\"", map[string]string{"$r": x, "$p": param})
			if own.Verdict == Discharged {
				ownRets = append(ownRets, r)
				if !ownPos.IsValid() {
					ownPos = r.Pos()
				}
			} else {
				freeRets = append(freeRets, r)
				own.Verdict = Discharged
				own.Detail = "allocatable-return"
				own.NonTrivial = false
				if !freePos.IsValid() {
					freePos = r.Pos()
				}
			}
		}
	}
	c.Check(ownPos.IsValid() && freePos.IsValid() && ownPos < freePos, "C01.R3", "same-pod search precedes allocatable search", p.Pos(fn.Decl), fn.Key(),
		"a repeated ADD gets the address the pod already holds", "no same-pod return before the first allocatable return")
	// … and is complete by then: an allocatable address is returned only after the loop that looks for
	// the pod's own address has seen the whole set (one walk that returns whichever comes first gives a
	// pod that already holds an address a second one)
	for _, or := range ownRets {
		var loop ast.Node
		for _, k := range pathTo(fn.Decl.Body, or) {
			switch k.(type) {
			case *ast.RangeStmt, *ast.ForStmt:
				loop = k
			}
		}
		if loop == nil {
			continue
		}
		for _, fr := range freeRets {
			c.Check(fr.Pos() > loop.End(), "C01.R3", "allocatable return only after the same-pod search has seen the whole set", p.Pos(fr), fn.Key(),
				"for … { if v.podID == podID { return v } }  before any  return <allocatable>", "an allocatable address is returned from inside (or before the end of) the same-pod search loop")
		}
	}
}

// ---------- R4 writers of ownership / status ----------

func c01R4(c *Ctx) {
	p := c.P
	c.Rule("C01.R4", "IP.podID is stored only by IP.Allocate / IP.Release (release only by the owner); IP.status only by constructors, IP.Dispose (never for the primary address) and IP.SetInvalid")
	pod := p.Field(eniPkg, "IP", "podID")
	status := p.Field(eniPkg, "IP", "status")
	if pod == nil || status == nil {
		c.Unres("C01.R4", "IP.podID/status", "field not found")
		return
	}
	ps := p.StoresTo(nil, pod)
	c.WhoMay("C01.R4", "store IP.podID", groupStores(ps), map[string]string{"pkg/eni.IP.Allocate": "mark", "pkg/eni.IP.Release": "clear"})
	c.Floor("C01.R4", "stores of IP.podID", 2, len(ps))
	for _, s := range ps {
		if s.Fn.Name == "IP.Release" && !s.InLit {
			base := exprString(s.LHS.(*ast.SelectorExpr).X)
			c.Require("C01.R4", "IP.Release clears only for the owner", s.Fn, s.Node, "$b.podID == $p", map[string]string{"$b": base, "$p": s.Fn.Decl.Type.Params.List[0].Names[0].Name})
		}
	}
	ss := p.StoresTo(nil, status)
	c.WhoMay("C01.R4", "store IP.status", groupStores(ss), map[string]string{
		"pkg/eni.NewIP": "constructor", "pkg/eni.NewValidIP": "constructor", "pkg/eni.Set.PutValid": "constructor", "pkg/eni.Set.PutDeleting": "constructor (addresses returned with an error)",
		"pkg/eni.IP.Dispose": "schedule for unassignment", "pkg/eni.IP.SetInvalid": "remote removal"})
	c.Floor("C01.R4", "stores of IP.status", 6, len(ss))
	for _, s := range ss {
		if s.Fn.Name == "IP.Dispose" && !s.InLit {
			base := exprString(s.LHS.(*ast.SelectorExpr).X)
			c.Require("C01.R4", "IP.Dispose never marks the primary address", s.Fn, s.Node, "!$b.primary", map[string]string{"$b": base})
		}
	}
}

// ---------- R5 remote removal ----------

func c01R5(c *Ctx) {
	p := c.P
	c.Rule("C01.R5", "the periodic sync marks invalid exactly the valid addresses the cloud no longer reports, for both families, under the lock, and is started by Run")
	fn := p.Func(eniPkg, "syncIPLocked")
	setInv := p.Method(eniPkg, "IP", "SetInvalid")
	if fn == nil || setInv == nil {
		c.Unres("C01.R5", "syncIPLocked / IP.SetInvalid", "not found")
		return
	}
	sites := p.CallsTo(nil, setInv)
	c.WhoMay("C01.R5", "call IP.SetInvalid", groupCalls(sites), map[string]string{"pkg/eni.syncIPLocked": "remote removal"})
	c.WhoMayCallDeep("C01.R5", "call IP.SetInvalid", []*types.Func{setInv}, map[string]string{"pkg/eni.syncIPLocked": "remote removal"})
	c.Floor("C01.R5", "SetInvalid call sites", 1, len(sites))
	// the local set built from the 'remote' parameter
	remoteParam := fn.Info().Defs[fn.Decl.Type.Params.List[1].Names[0]]
	setVar := ""
	ast.Inspect(fn.Decl.Body, func(n ast.Node) bool {
		if as, ok := n.(*ast.AssignStmt); ok && as.Tok == token.DEFINE && len(as.Lhs) == 1 && len(as.Rhs) == 1 {
			uses := false
			ast.Inspect(as.Rhs[0], func(m ast.Node) bool {
				if id, ok := m.(*ast.Ident); ok && fn.Info().Uses[id] == remoteParam {
					uses = true
				}
				return true
			})
			if uses && setVar == "" {
				setVar = as.Lhs[0].(*ast.Ident).Name
			}
		}
		return true
	})
	for _, s := range sites {
		if s.Fn != fn {
			continue
		}
		recv := exprString(ast.Unparen(s.Call.Fun).(*ast.SelectorExpr).X)
		if setVar == "" {
			c.Undec("C01.R5", "SetInvalid guard", p.Pos(s.Call), fn.Key(), "", "no local derived from the remote list")
			continue
		}
		c.Require("C01.R5", "SetInvalid only for valid addresses absent from the cloud list", fn, s.Call, "$v.status == ipStatusValid && !$s.Has($v.ip)", map[string]string{"$v": recv, "$s": setVar})
		// completeness: the loop skips an entry only when it is not valid or still reported
		var loopBody *ast.BlockStmt
		for _, n := range pathTo(fn.Decl.Body, s.Call) {
			if rs, ok := n.(*ast.RangeStmt); ok {
				loopBody = rs.Body
			}
		}
		if loopBody == nil {
			c.Undec("C01.R5", "every valid address absent from the cloud list is marked", p.Pos(s.Call), fn.Key(), "", "SetInvalid is not inside a range loop over the pool")
		} else {
			c.RequireReached("C01.R5", "every valid address absent from the cloud list is marked", fn, loopBody, s.Call, "$v.status == ipStatusValid && !$s.Has($v.ip)", map[string]string{"$v": recv, "$s": setVar})
		}
	}
	// Local.sync: both families, matching result positions, under the lock
	syncFn := p.Func(eniPkg, "Local.sync")
	if syncFn == nil {
		c.Unres("C01.R5", "Local.sync", "not found")
		return
	}
	info := syncFn.Info()
	loadM := p.Method("pkg/factory", "Factory", "LoadNetworkInterface")
	resultIdx := map[types.Object]int{}
	ast.Inspect(syncFn.Decl.Body, func(n ast.Node) bool {
		if as, ok := n.(*ast.AssignStmt); ok && len(as.Rhs) == 1 {
			if call, ok := as.Rhs[0].(*ast.CallExpr); ok && Callee(info, call) == loadM {
				for i, l := range as.Lhs {
					if id, ok := l.(*ast.Ident); ok {
						resultIdx[info.ObjectOf(id)] = i
					}
				}
			}
		}
		return true
	})
	la := NewLockAnalysis(p, syncFn)
	fams := map[string]bool{}
	for _, cs := range p.CallsTo([]*FuncInfo{syncFn}, fn.Obj) {
		fv := fieldOf(info, cs.Call.Args[0])
		want := -1
		if fv != nil && fv.Name() == "ipv4" {
			want = 0
		} else if fv != nil && fv.Name() == "ipv6" {
			want = 1
		}
		got := -2
		if id, ok := ast.Unparen(cs.Call.Args[1]).(*ast.Ident); ok {
			if i, ok := resultIdx[info.ObjectOf(id)]; ok {
				got = i
			}
		}
		key := "sync: pool/cloud-list family pairing " + exprString(cs.Call.Args[0])
		c.Check(want >= 0 && want == got, "C01.R5", key, p.Pos(cs.Call), syncFn.Key(), "the IPv4 pool is compared with the cloud's IPv4 list (result 0), IPv6 with result 1", fmt.Sprintf("pool family index %d vs result index %d", want, got))
		if fv != nil {
			fams[fv.Name()] = true
		}
		held := la.HeldBefore(cs.Call)
		lock := objID(recvObj(syncFn)) + ".cond.L"
		_, ok := held[lock]
		c.Check(ok, "C01.R5", "sync: under the lock "+exprString(cs.Call.Args[0]), p.Pos(cs.Call), syncFn.Key(), "held ∋ "+lock, "held="+held.String())
	}
	c.Check(fams["ipv4"] && fams["ipv6"], "C01.R5", "sync covers both families", p.Pos(syncFn.Decl), syncFn.Key(), "syncIPLocked called for ipv4 and ipv6", fmt.Sprintf("%v", fams))
	// Run starts sync
	run := p.Func(eniPkg, "Local.Run")
	started := false
	if run != nil {
		ast.Inspect(run.Decl.Body, func(n ast.Node) bool {
			if g, ok := n.(*ast.GoStmt); ok {
				ast.Inspect(g, func(m ast.Node) bool {
					if sel, ok := m.(*ast.SelectorExpr); ok && run.Info().Uses[sel.Sel] == types.Object(syncFn.Obj) {
						started = true
					}
					return true
				})
			}
			return true
		})
	}
	c.Check(started, "C01.R5", "Run starts the periodic sync", p.Pos(syncFn.Decl), "pkg/eni.Local.Run", "a go statement in Run references Local.sync", "no goroutine in Run references sync")
}

// ---------- R6 cancellation roll-back ----------

func c01R6(c *Ctx) {
	p := c.P
	c.Rule("C01.R6", "when the caller is gone (ctx.Done arm of commit) every non-nil address marked for the pod is released before the reply channel is closed")
	fn := p.Func(eniPkg, "Local.commit")
	relM := p.Method(eniPkg, "IP", "Release")
	if fn == nil || relM == nil {
		c.Unres("C01.R6", "Local.commit / IP.Release", "not found")
		return
	}
	info := fn.Info()
	full := modPath + "/" + eniPkg
	var ipParams []*ast.Ident
	var chParam, podParam types.Object
	for _, fld := range fn.Decl.Type.Params.List {
		for _, nm := range fld.Names {
			o := info.Defs[nm]
			if typeIs(o.Type(), full, "IP") {
				ipParams = append(ipParams, nm)
			}
			if _, ok := o.Type().Underlying().(*types.Chan); ok {
				chParam = o
			}
			if b, ok := o.Type().Underlying().(*types.Basic); ok && b.Kind() == types.String {
				podParam = o
			}
		}
	}
	c.Floor("C01.R6", "*IP parameters of commit", 2, len(ipParams))
	q := NewPathQuery(p, fn, nil)
	isDone := containsNode(func(m ast.Node) bool {
		if u, ok := m.(*ast.UnaryExpr); ok && u.Op == token.ARROW {
			if call, ok := u.X.(*ast.CallExpr); ok {
				if sel, ok := call.Fun.(*ast.SelectorExpr); ok && sel.Sel.Name == "Done" {
					return true
				}
			}
		}
		return false
	})
	isClose := containsNode(func(m ast.Node) bool {
		if call, ok := m.(*ast.CallExpr); ok {
			if id, ok := call.Fun.(*ast.Ident); ok && id.Name == "close" && len(call.Args) == 1 {
				if aid, ok := call.Args[0].(*ast.Ident); ok && info.ObjectOf(aid) == chParam {
					return true
				}
			}
		}
		return false
	})
	e := NewFactEngine(p, fn)
	for _, ipp := range ipParams {
		obj := info.Defs[ipp]
		release := containsNode(func(m ast.Node) bool {
			call, ok := m.(*ast.CallExpr)
			if !ok || Callee(info, call) != relM || len(call.Args) != 1 {
				return false
			}
			sel := ast.Unparen(call.Fun).(*ast.SelectorExpr)
			rid, ok := ast.Unparen(sel.X).(*ast.Ident)
			if !ok || info.ObjectOf(rid) != obj {
				return false
			}
			aid, ok := ast.Unparen(call.Args[0]).(*ast.Ident)
			return ok && info.ObjectOf(aid) == podParam
		})
		nilAtom := "eq(" + objID(obj) + ",nil)"
		q.Prune = func(cond ast.Expr, takeTrue bool) bool {
			f := e.boolForm(cond, e.fnScope())
			// prune the branch on which the address is nil
			if f.k == fAtom && f.atom == nilAtom {
				return takeTrue
			}
			if f.k == fNot && f.sub[0].k == fAtom && f.sub[0].atom == nilAtom {
				return !takeTrue
			}
			return false
		}
		w := q.Escapes(isDone, isClose, release, nil)
		c.Check(w == nil, "C01.R6", "commit: "+ipp.Name+" released before close on cancellation", p.Pos(fn.Decl), fn.Key(),
			"must-pass: ctx.Done arm → "+ipp.Name+".Release(podID) → close(respCh) when "+ipp.Name+" != nil", "path without release: "+p.describePath(w))
	}
	// every exit of commit either sent the reply or closed the channel (after the releases above)
	q.Prune = nil
	isSend := containsNode(func(m ast.Node) bool {
		if sd, ok := m.(*ast.SendStmt); ok {
			if id, ok := ast.Unparen(sd.Chan).(*ast.Ident); ok && info.ObjectOf(id) == chParam {
				return true
			}
		}
		return false
	})
	w0 := q.Escapes(nil, nil, func(n ast.Node) bool { return isSend(n) || isClose(n) }, nil)
	c.Check(w0 == nil, "C01.R6", "commit: every exit replied or closed the channel", p.Pos(fn.Decl), fn.Key(), "must-pass: entry → (respCh <- resp | close(respCh)) → exit", "path: "+p.describePath(w0))
	// goroutines that carry an Owned address must reach commit on every path (commit is the only place that delivers or rolls back)
	for _, cs := range p.CallsTo(nil, fn.Obj) {
		if cs.Lit == nil {
			continue
		}
		lq := NewPathQuery(p, cs.Fn, cs.Lit.Body)
		lw := lq.Escapes(nil, nil, lq.callTo(fn.Obj), nil)
		c.Check(lw == nil, "C01.R6", "goroutine in "+cs.Fn.Key()+" always reaches commit", p.Pos(cs.Lit), cs.Fn.Key(), "must-pass: literal entry → commit(...) → exit (an address marked before the goroutine started is delivered or rolled back)", "path skipping commit: "+p.describePath(lw))
	}
	// the arm exists at all
	w := q.Escapes(nil, isDone, nil, nil)
	c.Check(w != nil, "C01.R6", "commit has a cancellation arm", p.Pos(fn.Decl), fn.Key(), "select on ctx.Done() present", "no <-ctx.Done() in commit")
}

// ---------- R7 one interface per request ----------

func c01R7(c *Ctx) {
	p := c.P
	c.Rule("C01.R7", "Manager.Allocate asks the next interface only while the previous ones declined (nil channel), and does so under the manager lock")
	fn := p.Func(eniPkg, "Manager.Allocate")
	niAlloc := p.Method(eniPkg, "NetworkInterface", "Allocate")
	if fn == nil || niAlloc == nil {
		c.Unres("C01.R7", "Manager.Allocate / NetworkInterface.Allocate", "not found")
		return
	}
	scope := p.PrivateClosure(fn, 2)
	sites := p.CallsTo(scope, niAlloc)
	c.Floor("C01.R7", "NetworkInterface.Allocate call sites in Manager.Allocate", 1, len(sites))
	laTop := NewLockAnalysis(p, fn)
	lock := objID(recvObj(fn))
	for _, cs := range sites {
		top := fn
		fn := cs.Fn
		info := fn.Info()
		if fn == top {
			held := laTop.HeldBefore(cs.Call)
			c.Check(held[lock] == 'W', "C01.R7", "ni.Allocate under the manager write lock", p.Pos(cs.Call), fn.Key(), "held ∋ W:"+lock, "held="+held.String())
		} else {
			// a private helper of Manager.Allocate: every call of it happens under the write lock
			hcs := p.callSitesOf(top, fn)
			if len(hcs) == 0 {
				c.Undec("C01.R7", "ni.Allocate under the manager write lock", p.Pos(cs.Call), fn.Key(), "held ∋ W:"+lock, "helper not called directly from Manager.Allocate")
			}
			for _, hc := range hcs {
				held := laTop.HeldBefore(hc.Call)
				c.Check(held[lock] == 'W', "C01.R7", "ni.Allocate under the manager write lock", p.Pos(hc.Call), top.Key(), "held ∋ W:"+lock+" at the call of "+fn.Key(), "held="+held.String())
			}
		}
		// the channel variable assigned by the call
		var chVar types.Object
		var asn *ast.AssignStmt
		for _, n := range pathTo(fn.Decl.Body, cs.Call) {
			if a, ok := n.(*ast.AssignStmt); ok {
				asn = a
			}
		}
		if asn != nil && len(asn.Lhs) >= 1 {
			if id, ok := asn.Lhs[0].(*ast.Ident); ok {
				chVar = info.ObjectOf(id)
			}
		}
		if chVar == nil {
			c.Undec("C01.R7", "ni.Allocate result variable", p.Pos(cs.Call), fn.Key(), "", "channel result not bound to a variable")
			continue
		}
		// with the returned channel non-nil — followed through copies into other channel variables
		// (a helper's result handed to the caller's variable) — the call is not reached again
		q := NewPathQuery(p, fn, innermostBody(fn, cs.Call))
		var chans []types.Object
		seenC := map[types.Object]bool{}
		ast.Inspect(fn.Decl.Body, func(k ast.Node) bool {
			if id, ok := k.(*ast.Ident); ok {
				if v, ok := info.ObjectOf(id).(*types.Var); ok && !v.IsField() && !seenC[v] && len(chans) < 12 && types.Identical(v.Type(), chVar.Type()) {
					seenC[v] = true
					chans = append(chans, v)
				}
			}
			return true
		})
		q.TrackNils = chans
		q.StartNil = map[types.Object]int{chVar: nilNo}
		sawGuard := true
		redecl := func(n ast.Node) bool {
			if ds, ok := n.(*ast.ValueSpec); ok {
				found := false
				ast.Inspect(ds, func(m ast.Node) bool {
					if id, ok := m.(*ast.Ident); ok && info.Defs[id] != nil && seenC[info.Defs[id]] {
						found = true // a channel variable of the request is declared anew: the next request
					}
					return true
				})
				return found
			}
			return false
		}
		w := q.Escapes(isExactly(cs.Call), isExactly(cs.Call), redecl, nil)
		c.Check(w == nil && sawGuard, "C01.R7", "no second ni.Allocate for a request once a channel was returned", p.Pos(cs.Call), fn.Key(),
			"every path from ni.Allocate back to itself within one request takes the ch == nil edge", "path with ch != nil: "+p.describePath(w))
	}
}

// ---------- R8 where pool entries come from ----------

// An entry enters the pool as Valid only from the cloud's answer to an assignment or from the
// interface's address list at start-up: an address the daemon asked the cloud to remove never
// becomes allocatable again by the daemon's own decision (the cloud's answer to an unassign
// call does not tell whether the call took effect).
func c01R8(c *Ctx) {
	p := c.P
	c.Rule("C01.R8", "Set.PutValid (a fresh Valid entry, unowned, not primary) is called only with addresses the cloud just assigned (factoryAllocWorker) or reports on start-up (load); the reply channel of an allocation is unbuffered, so a completed send proves the caller received the address")
	putValid := p.Method(eniPkg, "Set", "PutValid")
	if putValid == nil {
		c.Unres("C01.R8", "Set.PutValid", "not found")
		return
	}
	allowed := map[string]string{
		"pkg/eni.Local.factoryAllocWorker": "addresses returned by AssignNIPv4/6 or CreateNetworkInterface",
		"pkg/eni.Local.load":               "addresses of the attached interface at start-up",
	}
	sites := p.CallsTo(nil, putValid)
	c.WhoMay("C01.R8", "call Set.PutValid", groupCalls(sites), allowed)
	c.WhoMayCallDeep("C01.R8", "call Set.PutValid", []*types.Func{putValid}, allowed)
	c.Floor("C01.R8", "PutValid call sites", 3, len(sites))
	// reply channels
	n := 0
	for _, fn := range p.FuncsInPkg(eniPkg) {
		info := fn.Info()
		ast.Inspect(fn.Decl.Body, func(nd ast.Node) bool {
			call, ok := isBuiltinCall(info, asExpr(nd), "make")
			if !ok || len(call.Args) == 0 {
				return true
			}
			ch, ok := info.TypeOf(call.Args[0]).Underlying().(*types.Chan)
			if !ok || !typeIs(ch.Elem(), modPath+"/"+eniPkg, "AllocResp") {
				return true
			}
			n++
			c.Check(len(call.Args) == 1, "C01.R8", "reply channel created in "+fn.Key()+" is unbuffered", p.Pos(call), fn.Key(), "make(chan *AllocResp)", exprString(call))
			return true
		})
	}
	c.Floor("C01.R8", "reply channels created in pkg/eni", 3, n)
	c01R9(c)
}

// R9: a fresh entry never replaces one a pod still holds. The cloud can hand out
// an address again that was removed behind the daemon's back while the entry —
// invalid, but still owned — is in the set; PutValid / PutDeleting store a fresh
// entry only where no owned entry exists under that address.
func c01R9(c *Ctx) {
	p := c.P
	c.Rule("C01.R9", "Set.PutValid stores a fresh (unowned) entry only where the set holds no entry in use under that address: the store is dominated by ¬(present ∧ InUse) of the looked-up entry — an address re-issued by the cloud while a pod still holds it keeps its owner")
	fn := p.Func(eniPkg, "Set.PutValid")
	if fn == nil {
		c.Unres("C01.R9", "Set.PutValid", "not found")
		return
	}
	info := fn.Info()
	recv := recvObj(fn)
	n := 0
	ast.Inspect(fn.Decl.Body, func(nd ast.Node) bool {
		as, ok := nd.(*ast.AssignStmt)
		if !ok || len(as.Lhs) != 1 || len(as.Rhs) != 1 {
			return true
		}
		ix, ok := ast.Unparen(as.Lhs[0]).(*ast.IndexExpr)
		if !ok || identObj(info, ix.X) != recv {
			return true
		}
		n++
		// the lookup of the same key: old, ok := s[k]
		var oldN, okN string
		ast.Inspect(fn.Decl.Body, func(k ast.Node) bool {
			a2, ok := k.(*ast.AssignStmt)
			if !ok || len(a2.Lhs) != 2 || len(a2.Rhs) != 1 {
				return true
			}
			if i2, ok := ast.Unparen(a2.Rhs[0]).(*ast.IndexExpr); ok && identObj(info, i2.X) == recv && exprString(i2.Index) == exprString(ix.Index) {
				oldN, okN = exprString(a2.Lhs[0]), exprString(a2.Lhs[1])
			}
			return true
		})
		if oldN == "" || oldN == "_" || okN == "_" {
			c.Bad("C01.R9", "PutValid: the stored-over entry is looked up first", p.Pos(as), fn.Key(), "old, ok := s[addr] before s[addr] = fresh entry", "the store replaces whatever entry exists, owned or not")
			return true
		}
		// every path to the store left the test "present ∧ in use" on a false edge
		var oldObj, okObj types.Object
		ast.Inspect(fn.Decl.Body, func(k ast.Node) bool {
			if id, ok := k.(*ast.Ident); ok && info.Defs[id] != nil {
				if id.Name == oldN {
					oldObj = info.Defs[id]
				}
				if id.Name == okN {
					okObj = info.Defs[id]
				}
			}
			return true
		})
		q := NewPathQuery(p, fn, nil)
		// "the entry is absent or idle" follows from cond being false (resp. true)
		var whenFalse, whenTrue func(e ast.Expr) bool
		whenFalse = func(e ast.Expr) bool {
			e = ast.Unparen(e)
			switch t := e.(type) {
			case *ast.Ident:
				return okObj != nil && info.ObjectOf(t) == okObj
			case *ast.CallExpr:
				sel, ok := ast.Unparen(t.Fun).(*ast.SelectorExpr)
				return ok && sel.Sel.Name == "InUse" && oldObj != nil && identObj(info, sel.X) == oldObj
			case *ast.BinaryExpr:
				if t.Op == token.LAND {
					return whenFalse(t.X) && whenFalse(t.Y)
				}
				if t.Op == token.LOR {
					return whenFalse(t.X) || whenFalse(t.Y)
				}
			case *ast.UnaryExpr:
				if t.Op == token.NOT {
					return whenTrue(t.X)
				}
			}
			return false
		}
		whenTrue = func(e ast.Expr) bool {
			e = ast.Unparen(e)
			switch t := e.(type) {
			case *ast.BinaryExpr:
				if t.Op == token.LAND {
					return whenTrue(t.X) || whenTrue(t.Y)
				}
				if t.Op == token.LOR {
					return whenTrue(t.X) && whenTrue(t.Y)
				}
			case *ast.UnaryExpr:
				if t.Op == token.NOT {
					return whenFalse(t.X)
				}
			}
			return false
		}
		q.Prune = func(cond ast.Expr, takeTrue bool) bool {
			if takeTrue {
				return whenTrue(cond)
			}
			return whenFalse(cond)
		}
		w := q.Escapes(nil, isExactly(as), nil, nil)
		c.Check(w == nil, "C01.R9", "PutValid: no entry in use is replaced", p.Pos(as), fn.Key(), "every path to the store passes ¬present or ¬InUse() of the looked-up entry", "path: "+p.describePath(w))
		return true
	})
	c.Floor("C01.R9", "entry stores in Set.PutValid", 1, n)
}

func asExpr(n ast.Node) ast.Expr {
	if e, ok := n.(ast.Expr); ok {
		return e
	}
	return nil
}

// R11: both address sets of an interface share its fate. Wherever the pool of
// one family is reset (a fresh Set assigned to Local.ipv4 / Local.ipv6 — the
// interface was deleted, or is being set up), the other family's is reset in the
// same block, once each: no address of a deleted interface stays allocatable.
func c01R11(c *Ctx) {
	p := c.P
	c.Rule("C01.R11", "family agreement on reset: a block that assigns a fresh Set to Local.ipv4 assigns one to Local.ipv6 as well (and the other way round), each exactly once — the addresses of a deleted interface leave the pool for both families")
	f4, f6 := p.Field(eniPkg, "Local", "ipv4"), p.Field(eniPkg, "Local", "ipv6")
	if f4 == nil || f6 == nil {
		c.Unres("C01.R11", "Local.ipv4 / Local.ipv6", "fields not found")
		return
	}
	type key struct {
		fn  *FuncInfo
		blk *ast.BlockStmt
	}
	count := map[key]map[*types.Var]int{}
	at := map[key]ast.Node{}
	for _, s := range p.StoresTo(p.FuncsInPkg(eniPkg), f4, f6) {
		if s.InLit || s.RHS == nil {
			continue
		}
		if _, isMake := isBuiltinCall(s.Fn.Info(), s.RHS, "make"); !isMake {
			if cl, isLit := ast.Unparen(s.RHS).(*ast.CompositeLit); !isLit || len(cl.Elts) > 0 {
				continue
			}
		}
		var blk *ast.BlockStmt
		for _, n := range pathTo(s.Fn.Decl.Body, s.Node) {
			if b, ok := n.(*ast.BlockStmt); ok {
				blk = b
			}
		}
		k := key{s.Fn, blk}
		if count[k] == nil {
			count[k] = map[*types.Var]int{}
			at[k] = s.Node
		}
		count[k][s.Field]++
	}
	var keys []key
	for k := range count {
		keys = append(keys, k)
	}
	sort.Slice(keys, func(i, j int) bool { return at[keys[i]].Pos() < at[keys[j]].Pos() })
	for _, k := range keys {
		m := count[k]
		c.Check(m[f4] == 1 && m[f6] == 1, "C01.R11", k.fn.Name+": both address sets are reset together", p.Pos(at[k]), k.fn.Key(), "one reset of ipv4 and one of ipv6 in the block", fmt.Sprintf("ipv4 reset %d×, ipv6 reset %d×", m[f4], m[f6]))
	}
	c.Floor("C01.R11", "blocks that reset an address set", 1, len(keys))
}
