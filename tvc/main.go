package main

import (
	_ "embed"
	"flag"
	"fmt"
	"go/types"
	"os"
	"path/filepath"
	"runtime/debug"
	"sort"
	"strconv"
	"strings"
	"time"
)

// propCheck runs all rules of one property against one loaded configuration.
type propCheck func(c *Ctx)

var registry = map[string]propCheck{}

// configs lists which extra build configurations a property wants in the thorough tier.
var extraConfigs = map[string][]LoadOpts{}

const defaultTags = "default_build,privileged"

//go:embed anchors.txt
var frozenAnchors string

func main() {
	prop := flag.String("property", "", "property id (C01..C20) or 'all'")
	tier := flag.String("tier", "quick", "quick|thorough")
	repo := flag.String("repo", "/repo", "repository root")
	verif := flag.String("verif", "/verif", "verif root (evidence, known findings)")
	findingsPath := flag.String("findings", "/verif/known_findings.txt", "known findings file")
	replay := flag.String("replay", "", "print a violation report")
	dump := flag.Bool("dump", false, "print every obligation")
	nonorm := flag.Bool("nonorm", false, "analyse the program as written (skip helper expansion)")
	flag.Parse()
	if *replay != "" {
		b, err := os.ReadFile(*replay)
		if err != nil {
			fmt.Println(err)
			os.Exit(2)
		}
		fmt.Println(string(b))
		fmt.Println("(static finding: re-run the quick check to re-evaluate against the current tree)")
		os.Exit(0)
	}
	var props []string
	if *prop == "all" {
		for k := range registry {
			props = append(props, k)
		}
		sort.Strings(props)
	} else {
		props = strings.Split(*prop, ",")
	}
	seed, _ := strconv.Atoi(os.Getenv("VERIF_SEED"))
	findings, ferr := loadFindings(*findingsPath)
	start := time.Now()
	abs, _ := filepath.Abs(*repo)
	main, lerr := Load(LoadOpts{Repo: abs, Tags: defaultTags})
	var normNotes []string
	asWritten := main
	if d := os.Getenv("TVC_DUMP_FUNCS"); d != "" && lerr == nil {
		dumpFuncs(main, d)
	}
	if lerr == nil && !*nonorm {
		// anchors: every function a rule of any property asks for by name stays a function
		main.collect = map[*types.Func]bool{}
		for id, fn := range registry {
			func() {
				defer func() { recover() }()
				fn(NewCtx(main, id, "collect"))
			}()
		}
		anchors := map[string]bool{}
		for f := range main.collect {
			anchors[f.FullName()] = true
		}
		// Which functions a rule asks for by name is found by running the rules once on the program as
		// written; a rule that gives up early there (its first look-up no longer matches because a helper
		// was extracted) never reaches its later look-ups. The names collected on the reference tree are
		// therefore kept in anchors.txt and stay anchors for as long as they exist.
		if d := os.Getenv("TVC_DUMP_ANCHORS"); d != "" {
			var names []string
			for n := range anchors {
				names = append(names, n)
			}
			sort.Strings(names)
			_ = os.WriteFile(d, []byte(strings.Join(names, "\n")+"\n"), 0o644)
		}
		for _, n := range strings.Split(frozenAnchors, "\n") {
			if n = strings.TrimSpace(n); n != "" {
				anchors[n] = true
			}
		}
		for oldKey, fi := range main.funcs {
			if fi.Now == "" {
				continue
			}
			normNotes = append(normNotes, "renamed: "+oldKey+" is now "+fi.Now)
			for _, n := range oldFullNames(fi.Pkg.PkgPath, oldKey) {
				if anchors[n] {
					anchors[fi.Obj.FullName()] = true
				}
			}
		}
		main.collect = nil
		main.wsCache, main.callers = nil, nil
		for round := 0; round < 3; round++ {
			p2, notes := Normalise(main, LoadOpts{Repo: abs, Tags: defaultTags}, anchors)
			normNotes = append(normNotes, notes...)
			if p2 == main {
				break
			}
			main = p2
		}
	}
	if lerr == nil {
		main.Raw = asWritten // lints about the author's text (shadowing, file flags) read the program as written
	}
	if os.Getenv("TVC_CARRIED") != "" && lerr == nil {
		carriedDiag(main)
		carriedDiag(asWritten)
		return
	}
	loadT := time.Since(start)
	exit := 0
	for _, id := range props {
		res := &Result{Prop: id, Tier: *tier, Seed: seed, Start: time.Now().Add(-loadT)}
		if ferr != nil {
			res.Fatal = append(res.Fatal, "known_findings.txt unreadable: "+ferr.Error())
		}
		fn, ok := registry[id]
		if !ok {
			res.Fatal = append(res.Fatal, "no check registered for "+id)
		}
		if lerr != nil {
			res.Fatal = append(res.Fatal, lerr.Error())
		} else {
			res.Notes = append(res.Notes, normNotes...)
			res.Normalised = main.Normalised
			res.Expanded = main.ExpandedList
			res.Pkgs = len(main.Roots)
			res.Funcs = len(main.funcList)
			if len(main.Roots) < 70 {
				res.Fatal = append(res.Fatal, fmt.Sprintf("only %d root packages loaded (floor 70)", len(main.Roots)))
			}
		}
		if ok && lerr == nil {
			runOne(res, main, id, *tier, fn)
			if *tier == "thorough" {
				for _, lo := range extraConfigs[id] {
					lo.Repo = abs
					p2, err := Load(lo)
					if err != nil {
						res.Fatal = append(res.Fatal, fmt.Sprintf("config %+v: %v", lo, err))
						continue
					}
					runOne(res, p2, id, *tier, fn)
				}
				// second view (diagnostic only): the same rules on the program as written; an obligation
				// that holds in the helper-expanded view but not as written depends on code inside a
				// helper — recorded, never a verdict
				if asWritten != main {
					c2 := NewCtx(asWritten, id, "thorough-as-written")
					func() {
						defer func() { recover() }()
						fn(c2)
					}()
					bad := map[string]bool{}
					for _, o := range c2.Obls {
						if o.Verdict != Discharged {
							bad[o.ID()] = true
						}
					}
					okNorm := map[string]bool{}
					for _, o := range res.Obls {
						if o.Verdict == Discharged {
							okNorm[o.ID()] = true
						}
					}
					var diff []string
					for k := range bad {
						if okNorm[k] {
							diff = append(diff, k)
						}
					}
					sort.Strings(diff)
					res.ViewDiff = diff
					res.Notes = append(res.Notes, fmt.Sprintf("as-written view: %d obligations evaluated, %d of them hold only in the helper-expanded view", len(c2.Obls), len(diff)))
				}
				sensitivity(res, main, id, fn)
			}
		}
		if *dump {
			for _, o := range res.Obls {
				fmt.Printf("  %-11s %-10s %-60s %s %s\n", o.Verdict, o.Rule, o.Key, o.Pos, o.Detail)
			}
		}
		if rc := res.finish(*verif, findings); rc != 0 {
			exit = 1
		}
	}
	os.Exit(exit)
}

func runOne(res *Result, p *Prog, id, tier string, fn propCheck) {
	c := NewCtx(p, id, tier)
	func() {
		defer func() {
			if r := recover(); r != nil {
				res.Fatal = append(res.Fatal, fmt.Sprintf("checker panic in %s (%s): %v\n%s", id, p.Config, r, debug.Stack()))
			}
		}()
		fn(c)
	}()
	res.Configs = append(res.Configs, p.Config)
	res.merge(c)
}
