package main

// C06 — the node pool stays within cloud quotas and never disposes what is in use.

import (
	"fmt"
	"go/ast"
	"go/token"
	"go/types"
	"strings"
)

func init() { registry["C06"] = c06 }

// varDefs lists the right-hand sides assigned to local variable obj in fn
// (nil entry = assigned from a multi-value call or inc/dec).
type varDef struct {
	node ast.Node
	rhs  ast.Expr
	tok  token.Token
}

func varDefs(fn *FuncInfo, obj types.Object) []varDef {
	info := fn.Info()
	var out []varDef
	ast.Inspect(fn.Decl.Body, func(n ast.Node) bool {
		switch s := n.(type) {
		case *ast.AssignStmt:
			for i, l := range s.Lhs {
				id, ok := ast.Unparen(l).(*ast.Ident)
				if !ok || info.ObjectOf(id) != obj {
					continue
				}
				var rhs ast.Expr
				if len(s.Rhs) == len(s.Lhs) {
					rhs = s.Rhs[i]
				}
				out = append(out, varDef{s, rhs, s.Tok})
			}
		case *ast.IncDecStmt:
			if id, ok := ast.Unparen(s.X).(*ast.Ident); ok && info.ObjectOf(id) == obj {
				out = append(out, varDef{s, nil, s.Tok})
			}
		case *ast.ValueSpec:
			for i, nm := range s.Names {
				if info.Defs[nm] == obj {
					var rhs ast.Expr
					if i < len(s.Values) {
						rhs = s.Values[i]
					}
					out = append(out, varDef{s, rhs, token.DEFINE})
				}
			}
		}
		return true
	})
	return out
}

func identObj(info *types.Info, x ast.Expr) types.Object {
	if id, ok := ast.Unparen(x).(*ast.Ident); ok {
		return info.ObjectOf(id)
	}
	return nil
}

func isBuiltinCall(info *types.Info, x ast.Expr, name string) (*ast.CallExpr, bool) {
	c, ok := ast.Unparen(x).(*ast.CallExpr)
	if !ok {
		return nil, false
	}
	id, ok := ast.Unparen(c.Fun).(*ast.Ident)
	if !ok || id.Name != name {
		return nil, false
	}
	if _, ok := info.Uses[id].(*types.Builtin); !ok {
		return nil, false
	}
	return c, true
}

func c06(c *Ctx) {
	p := c.P
	if p.Pkg(eniPkg) == nil {
		c.Unres("C06", eniPkg, "package not loaded")
		return
	}
	c06R1(c)
	c06R2(c)
	c06R3(c)
	c06R4(c)
	c06R5(c)
	// an address stays invisible to Dispose from the moment it is chosen: the
	// ownership mark happens in the critical section of the lookup (shared rule C01.R2)
	c01R2(c)
	c01R8(c)
	// the start-up trim lists the idle addresses only after the stored owners were restored, however
	// the list reaches the loop (shared rule C01.R10): "shrinking removes idle addresses only"
	c01R10(c)
	// an address leaves the pool's count only after the cloud confirmed its removal (shared rule): the
	// cap check counts what the set holds
	c07R3(c)
	c06R6(c)
	// the per-interface cap the pool enforces is the running instance type's (shared rules)
	c19R3(c)
	c19R6(c)
	// the number of interface slots the daemon builds never exceeds the instance type's limit: the
	// configured maximum can only lower it (shared rule C19.R2)
	c19R2(c)
	// shared: no factory error is discarded — a refused delete does not free the slot (C07.R4)
	c07R4(c)
	ruleShadow(c, "C06.R7", "the whole module")
	c06R8(c)
	ruleAddrFromSlice(c, "C06.R9", "the whole module (the primary address of an interface is recognised by comparing addresses)")
	c06R10(c)
}

// R10: the primary address of an interface created in this daemon's lifetime is known as primary.
// IP.Dispose refuses the primary address by its flag alone (C01.R4); the flag is given when the
// addresses the new interface came with enter the pool.
func c06R10(c *Ctx) {
	p := c.P
	c.Rule("C06.R10", "factoryAllocWorker: the IPv4 addresses returned by Factory.CreateNetworkInterface enter the pool only through NewValidIP(v, <v compared with the interface's PrimaryIP>) — never through a constructor that cannot mark the primary address")
	fn := p.Func(eniPkg, "Local.factoryAllocWorker")
	createM := p.Method("pkg/factory", "Factory", "CreateNetworkInterface")
	newValid := p.Func(eniPkg, "NewValidIP")
	if fn == nil || createM == nil || newValid == nil {
		c.Unres("C06.R10", "Local.factoryAllocWorker / Factory.CreateNetworkInterface / NewValidIP", "not found")
		return
	}
	info := fn.Info()
	var v4 types.Object
	for _, cs := range p.CallsTo([]*FuncInfo{fn}, createM) {
		if _, lhs := assignedFromCall(fn, cs.Call); len(lhs) == 4 && lhs[1] != nil {
			v4 = lhs[1]
		}
	}
	if v4 == nil {
		c.Undec("C06.R10", "the IPv4 list of the created interface", p.Pos(fn.Decl), fn.Key(), "eni, ipv4Set, ipv6Set, err := factory.CreateNetworkInterface(…)", "result not bound")
		return
	}
	ranges := 0
	ast.Inspect(fn.Decl.Body, func(nd ast.Node) bool {
		switch t := nd.(type) {
		case *ast.RangeStmt:
			if identObj(info, t.X) != v4 {
				return true
			}
			ranges++
			val := identObj(info, t.Value)
			okFlag := false
			ast.Inspect(t.Body, func(k ast.Node) bool {
				call, ok := k.(*ast.CallExpr)
				if !ok || Callee(info, call) != newValid.Obj || len(call.Args) != 2 {
					return true
				}
				if val == nil || identObj(info, call.Args[0]) != val {
					return true
				}
				if be, ok := ast.Unparen(derefExpr(fn, call.Args[1])).(*ast.BinaryExpr); ok && be.Op == token.EQL {
					if strings.Contains(derefString(fn, be.X)+derefString(fn, be.Y), ".PrimaryIP") || strings.Contains(sliceTextOf(fn, be.X)+sliceTextOf(fn, be.Y), ".PrimaryIP") {
						okFlag = true
					}
				}
				return true
			})
			c.Check(okFlag, "C06.R10", "the created interface's addresses are entered with their primary flag", p.Pos(t), fn.Key(), "for _, v := range ipv4Set { pool.Add(NewValidIP(v, v == <eni.PrimaryIP>)) }", "no NewValidIP(v, v == primary) in the loop over the returned addresses")
			return true
		case *ast.CallExpr:
			if _, isLen := isBuiltinCall(info, t, "len"); isLen {
				return false
			}
			for _, a := range t.Args {
				if identObj(info, a) == v4 {
					c.Bad("C06.R10", "the created interface's IPv4 addresses handed to "+calleeName(info, t), p.Pos(t), fn.Key(), "entered one by one with NewValidIP(v, v == primary)", "the callee cannot tell which of them is the primary address: it would be unassigned like any other")
				}
			}
		}
		return true
	})
	c.Floor("C06.R10", "loops over the created interface's IPv4 addresses", 1, ranges)
}

// sliceTextOf: the defining text of a local mentioned in x (one hop), for provenance by text.
func sliceTextOf(fn *FuncInfo, x ast.Expr) string {
	out := ""
	ast.Inspect(x, func(n ast.Node) bool {
		if id, ok := n.(*ast.Ident); ok {
			if v, ok := fn.Info().ObjectOf(id).(*types.Var); ok && !v.IsField() {
				for _, d := range varDefs(fn, v) {
					if d.rhs != nil {
						out += exprString(d.rhs) + ";"
					} else if as, ok := d.node.(*ast.AssignStmt); ok && len(as.Rhs) == 1 {
						out += exprString(as.Rhs[0]) + ";" // x, err := f(…)
					}
				}
			}
		}
		return true
	})
	return out
}

// R1: cap check counts in-flight requests, in normal form, before every enqueue.
func c06R1(c *Ctx) {
	p := c.P
	c.Rule("C06.R1", "Local.Allocate enqueues a cloud request for family X only under len(pool X) + in-flight(X) − cap < 0 (linear normal form), never on a deleting ENI, and with no lock release between the check and the enqueue")
	fn := p.Func(eniPkg, "Local.Allocate")
	if fn == nil {
		c.Unres("C06.R1", "Local.Allocate", "not found")
		return
	}
	info := fn.Info()
	recv := recvObj(fn).Name()
	nBound := 0
	for _, fam := range []struct{ alloc, pool string }{{"allocatingV4", "ipv4"}, {"allocatingV6", "ipv6"}} {
		fv := p.Field(eniPkg, "Local", fam.alloc)
		stores := p.StoresTo([]*FuncInfo{fn}, fv)
		c.Floor("C06.R1", "enqueue sites on Local."+fam.alloc+" in Allocate", 1, len(stores))
		capReq := fmt.Sprintf("len(%s.%s)+%s.%s.Len() < %s.cap", recv, fam.pool, recv, fam.alloc, recv)
		for _, st := range stores {
			c.Require("C06.R1", "enqueue "+fam.alloc+" not on a deleting ENI", fn, st.Node, recv+".status != statusDeleting", nil)
			// enclosing counted loop
			var loop *ast.ForStmt
			for _, n := range pathTo(fn.Decl.Body, st.Node) {
				if f, ok := n.(*ast.ForStmt); ok {
					loop = f
				}
			}
			var bound types.Object
			if loop != nil {
				if be, ok := ast.Unparen(loop.Cond).(*ast.BinaryExpr); ok && be.Op == token.LSS {
					bound = identObj(info, be.Y)
				}
			}
			if bound == nil {
				// direct enqueue: the cap fact must hold at the enqueue itself
				c.Require("C06.R1", "enqueue "+fam.alloc+" under cap", fn, st.Node, capReq, nil)
				continue
			}
			for _, d := range varDefs(fn, bound) {
				if d.rhs != nil {
					if tv := info.Types[d.rhs]; tv.Value != nil && tv.Value.ExactString() == "0" {
						continue
					}
				}
				nBound++
				c.Require("C06.R1", fmt.Sprintf("%s request count %s set positive only under cap", fam.pool, bound.Name()), fn, d.node, capReq, nil)
			}
		}
	}
	c.Floor("C06.R1", "positive stores of the per-family request count", 4, nBound)
	la := NewLockAnalysis(p, fn)
	bl := la.analyse(fn.Decl.Body)
	var rel []string
	for n := range bl.release {
		rel = append(rel, p.Pos(n))
	}
	c.Check(len(rel) == 0, "C06.R1", "no release point inside Local.Allocate's critical section", p.Pos(fn.Decl), fn.Key(), "the in-flight count used by the check is the one the enqueue extends", "release points: "+strings.Join(rel, ", "))
	// the check and the enqueue are under the lock (C01.R1 covers every access); here: lock held at enqueue
	lock := objID(recvObj(fn)) + ".cond.L"
	for _, fam := range []string{"allocatingV4", "allocatingV6"} {
		for _, st := range p.StoresTo([]*FuncInfo{fn}, p.Field(eniPkg, "Local", fam)) {
			_, ok := la.HeldBefore(st.Node)[lock]
			c.Check(ok, "C06.R1", "enqueue "+fam+" under the ENI lock", p.Pos(st.Node), fn.Key(), "held ∋ "+lock, "")
		}
	}
}

// R2: cloud request counts are min(batchSize, pending…).
func c06R2(c *Ctx) {
	p := c.P
	c.Rule("C06.R2", "the count passed to AssignNIPv4/6 and CreateNetworkInterface is min(…) over the batch size and the pending-request length of the same family (max(pending,1) for the first IPv4 of a new ENI)")
	fn := p.Func(eniPkg, "Local.factoryAllocWorker")
	if fn == nil {
		c.Unres("C06.R2", "Local.factoryAllocWorker", "not found")
		return
	}
	info := fn.Info()
	batch := p.Field(eniPkg, "Local", "batchSize")
	lenM := p.Method(eniPkg, "AllocatingRequests", "Len")
	type spec struct {
		method string
		arg    int
		fam    string
		orOne  bool
	}
	specs := []spec{{"AssignNIPv4", 1, "allocatingV4", false}, {"AssignNIPv6", 1, "allocatingV6", false},
		{"CreateNetworkInterface", 0, "allocatingV4", true}, {"CreateNetworkInterface", 1, "allocatingV6", false}}
	var useNode ast.Node
	isPending := func(x ast.Expr, fam string) bool {
		if useNode != nil {
			x = derefLocal(p, fn, x, useNode)
		}
		call, ok := ast.Unparen(x).(*ast.CallExpr)
		if !ok || Callee(info, call) != lenM {
			return false
		}
		sel, ok := ast.Unparen(call.Fun).(*ast.SelectorExpr)
		if !ok {
			return false
		}
		fv := fieldOf(info, sel.X)
		return fv != nil && fv.Name() == fam
	}
	n := 0
	for _, sp := range specs {
		m := p.Method("pkg/factory", "Factory", sp.method)
		if m == nil {
			c.Unres("C06.R2", "factory.Factory."+sp.method, "not found")
			continue
		}
		for _, cs := range p.CallsTo(p.FuncsInPkg(eniPkg), m) {
			n++
			key := fmt.Sprintf("%s arg%d in %s", sp.method, sp.arg, cs.Fn.Key())
			if cs.Fn != fn {
				c.Bad("C06.R2", key, p.Pos(cs.Call), cs.Fn.Key(), "cloud allocation calls only in factoryAllocWorker", "new call site")
				continue
			}
			arg := cs.Call.Args[sp.arg]
			useNode = cs.Call
			// follow a single-definition local
			if o := identObj(info, arg); o != nil {
				ds := varDefs(fn, o)
				if len(ds) != 1 || ds[0].rhs == nil {
					c.Bad("C06.R2", key, p.Pos(cs.Call), fn.Key(), "count is a single-definition local", fmt.Sprintf("%d definitions", len(ds)))
					continue
				}
				arg = ds[0].rhs
				useNode = ds[0].node // the pending length must be read in the critical section that computes the count
			}
			mc, ok := isBuiltinCall(info, arg, "min")
			okBatch, okPending := false, false
			if ok {
				for _, a := range mc.Args {
					if fv := fieldOf(info, a); fv == batch {
						okBatch = true
					}
					if isPending(a, sp.fam) {
						okPending = true
					}
					if sp.orOne {
						if mx, ok := isBuiltinCall(info, a, "max"); ok && len(mx.Args) == 2 {
							hasP, hasOne := false, false
							for _, b := range mx.Args {
								if isPending(b, sp.fam) {
									hasP = true
								}
								if tv := info.Types[b]; tv.Value != nil && tv.Value.ExactString() == "1" {
									hasOne = true
								}
							}
							if hasP && hasOne {
								okPending = true
							}
						}
					}
				}
			}
			c.Check(ok && okBatch && okPending, "C06.R2", key, p.Pos(cs.Call), fn.Key(),
				"count = min(batchSize, pending "+sp.fam+" …)", fmt.Sprintf("expression %s: min=%v batch=%v pending=%v", exprString(arg), ok, okBatch, okPending))
		}
	}
	c.Floor("C06.R2", "cloud allocation count arguments", 4, n)
}

// R3: dispose guards.
func c06R3(c *Ctx) {
	p := c.P
	c.Rule("C06.R3", "an address is scheduled for unassignment only when no pod holds it; a whole ENI is marked deleting / deleted in the cloud only under canDispose (no trunk/erdma, nothing in use, nothing pending); unassign arguments are exactly the addresses in Deleting state of the same family")
	full := modPath + "/" + eniPkg
	dispose := p.Method(eniPkg, "IP", "Dispose")
	idles := p.Method(eniPkg, "Set", "Idles")
	sites := p.CallsTo(nil, dispose)
	c.WhoMay("C06.R3", "call IP.Dispose", groupCalls(sites), map[string]string{"pkg/eni.Local.Dispose": "pool shrink", "pkg/eni.Local.load": "start-up adjustment to a lower cap"})
	c.WhoMayCallDeep("C06.R3", "call IP.Dispose", []*types.Func{dispose}, map[string]string{"pkg/eni.Local.Dispose": "pool shrink", "pkg/eni.Local.load": "start-up adjustment to a lower cap"})
	c.Floor("C06.R3", "IP.Dispose call sites", 4, len(sites))
	for _, cs := range sites {
		recv := ast.Unparen(cs.Call.Fun).(*ast.SelectorExpr).X
		key := "Dispose(" + exprString(recv) + ") in " + cs.Fn.Key()
		if cs.Fn.Name == "Local.load" {
			// receiver ranges over Set.Idles()
			ok := false
			for _, n := range pathTo(cs.Fn.Decl.Body, cs.Call) {
				if r, isR := n.(*ast.RangeStmt); isR && r.Value != nil && identObj(cs.Fn.Info(), r.Value) == identObj(cs.Fn.Info(), recv) {
					// directly, or through a local that holds the list (computed in the same lock-free start-up section)
					if call, isC := ast.Unparen(derefLocal(p, cs.Fn, r.X, r)).(*ast.CallExpr); isC && Callee(cs.Fn.Info(), call) == idles {
						ok = true
					}
				}
			}
			c.Check(ok, "C06.R3", key, p.Pos(cs.Call), cs.Fn.Key(), "receiver ranges over Set.Idles() (unowned addresses)", "receiver is not the value of a range over Idles()")
			continue
		}
		c.Require("C06.R3", key, cs.Fn, cs.Call, "!$v.InUse()", map[string]string{"$v": exprString(recv)})
	}
	loadDisposeOrder(c, "C06.R3")
	// Set.Idles returns only unowned
	if fi := p.FuncOf(idles); fi != nil {
		n := 0
		ast.Inspect(fi.Decl.Body, func(m ast.Node) bool {
			if as, ok := m.(*ast.AssignStmt); ok && len(as.Rhs) == 1 {
				if call, ok := isBuiltinCall(fi.Info(), as.Rhs[0], "append"); ok && len(call.Args) == 2 {
					n++
					c.Require("C06.R3", "Set.Idles collects only unowned addresses", fi, as, "$v.podID == \"\"", map[string]string{"$v": exprString(call.Args[1])})
				}
			}
			return true
		})
		c.Floor("C06.R3", "append sites in Set.Idles", 1, n)
	}

	// status = Deleting in Dispose under canDispose
	disp := p.Func(eniPkg, "Local.Dispose")
	statusF := p.Field(eniPkg, "Local", "status")
	delConst := p.LookupObj(eniPkg, "statusDeleting")
	if disp == nil || statusF == nil || delConst == nil {
		c.Unres("C06.R3", "Local.Dispose / Local.status / statusDeleting", "not found")
		return
	}
	nDel := 0
	for _, st := range p.StoresTo(p.FuncsInPkg(eniPkg), statusF) {
		if st.RHS == nil || identObj(st.Fn.Info(), st.RHS) != delConst {
			continue
		}
		nDel++
		base := exprString(st.LHS.(*ast.SelectorExpr).X)
		switch st.Fn.Name {
		case "Local.Dispose":
			c.Require("C06.R3", "Local.Dispose marks the ENI deleting only under canDispose", st.Fn, st.Node, "$l.canDispose()", map[string]string{"$l": base})
		case "Local.factoryAllocWorker":
			// failed creation: the half-created ENI has no address in use
			// (stated on the results of the creating call, whatever the variables are called)
			req := ""
			createM := p.Method("pkg/factory", "Factory", "CreateNetworkInterface")
			ast.Inspect(st.Fn.Decl.Body, func(k ast.Node) bool {
				if as, ok := k.(*ast.AssignStmt); ok && len(as.Rhs) == 1 && len(as.Lhs) >= 2 {
					if call, ok := ast.Unparen(as.Rhs[0]).(*ast.CallExpr); ok && createM != nil && Callee(st.Fn.Info(), call) == createM {
						if a, ok := as.Lhs[0].(*ast.Ident); ok {
							if b, ok := as.Lhs[len(as.Lhs)-1].(*ast.Ident); ok && a.Name != "_" && b.Name != "_" {
								req = b.Name + " != nil && " + a.Name + " != nil"
							}
						}
					}
				}
				return true
			})
			if req == "" {
				c.Undec("C06.R3", "factoryAllocWorker marks a failed creation deleting", p.Pos(st.Node), st.Fn.Key(), "the results of CreateNetworkInterface bound to variables", "not recognised")
				break
			}
			c.Require("C06.R3", "factoryAllocWorker marks a failed creation deleting", st.Fn, st.Node, req, nil)
		default:
			c.Bad("C06.R3", "store statusDeleting in "+st.Fn.Key(), p.Pos(st.Node), st.Fn.Key(), "only Local.Dispose (under canDispose) and the failed-create arm mark an ENI deleting", "new site")
		}
	}
	c.Floor("C06.R3", "stores of statusDeleting", 2, nDel)

	// DeleteNetworkInterface under canDispose ∧ status == Deleting
	delM := p.Method("pkg/factory", "Factory", "DeleteNetworkInterface")
	dsites := p.CallsTo(p.FuncsInPkg(eniPkg), delM)
	c.Floor("C06.R3", "DeleteNetworkInterface call sites in pkg/eni", 1, len(dsites))
	for _, cs := range dsites {
		if cs.Fn.Name != "Local.factoryDisposeWorker" {
			c.Bad("C06.R3", "DeleteNetworkInterface in "+cs.Fn.Key(), p.Pos(cs.Call), cs.Fn.Key(), "only the dispose worker deletes an ENI", "new call site")
			continue
		}
		r := recvObj(cs.Fn).Name()
		c.Require("C06.R3", "ENI deleted in the cloud only under canDispose ∧ status == Deleting", cs.Fn, cs.Call, r+".canDispose() && "+r+".status == statusDeleting", nil)
	}

	// canDispose formula
	cd := p.Func(eniPkg, "Local.canDispose")
	if cd == nil {
		c.Unres("C06.R3", "Local.canDispose", "not found")
	} else {
		r := recvObj(cd).Name()
		want := fmt.Sprintf(`%[1]s.eni == nil || (strings.ToLower(%[1]s.eniType) != "trunk" && strings.ToLower(%[1]s.eniType) != "erdma" && !%[1]s.eni.Trunk && len(%[1]s.ipv4.InUse()) == 0 && len(%[1]s.ipv6.InUse()) == 0 && %[1]s.allocatingV4.Len() == 0 && %[1]s.allocatingV6.Len() == 0)`, r)
		n := 0
		ast.Inspect(cd.Decl.Body, func(m ast.Node) bool {
			if ret, ok := m.(*ast.ReturnStmt); ok && len(ret.Results) == 1 {
				if tv := cd.Info().Types[ret.Results[0]]; tv.Value != nil && tv.Value.ExactString() == "false" {
					return true
				}
				n++
				c.Require("C06.R3", fmt.Sprintf("canDispose return#%d implies the dispose condition", n), cd, ret, "!("+exprString(ret.Results[0])+") || ("+want+")", nil)
			}
			return true
		})
		c.Floor("C06.R3", "non-false returns of canDispose", 2, n)
	}
	// Set.InUse returns every owned address (so len(...)==0 means none in use)
	if fi := p.Func(eniPkg, "Set.InUse"); fi != nil {
		// every range element with podID != "" is appended: the append is the only statement under the InUse() test
		okShape := false
		ast.Inspect(fi.Decl.Body, func(m ast.Node) bool {
			if r, ok := m.(*ast.RangeStmt); ok && len(r.Body.List) == 1 {
				if is, ok := r.Body.List[0].(*ast.IfStmt); ok && is.Else == nil && len(is.Body.List) == 1 {
					e := NewFactEngine(p, fi)
					f := e.boolForm(is.Cond, e.fnScope())
					if f.k == fNot && strings.HasPrefix(f.sub[0].atom, "eq(") && strings.HasSuffix(f.sub[0].atom, `.podID,#"")`) {
						if as, ok := is.Body.List[0].(*ast.AssignStmt); ok {
							if _, ok := isBuiltinCall(fi.Info(), as.Rhs[0], "append"); ok {
								okShape = true
							}
						}
					}
				}
			}
			return true
		})
		c.Check(okShape, "C06.R3", "Set.InUse collects every owned address", p.Pos(fi.Decl), fi.Key(), "range body = if v.podID != \"\" { result = append(result, v) }", "shape not recognised")
	} else {
		c.Unres("C06.R3", "Set.InUse", "not found")
	}

	// unassign arguments come from Set.Deleting of the same family
	delSet := p.Method(eniPkg, "Set", "Deleting")
	dw := p.Func(eniPkg, "Local.factoryDisposeWorker")
	nUn := 0
	for _, sp := range []struct{ m, fam string }{{"UnAssignNIPv4", "ipv4"}, {"UnAssignNIPv6", "ipv6"}} {
		m := p.Method("pkg/factory", "Factory", sp.m)
		for _, cs := range p.CallsTo(p.FuncsInPkg(eniPkg), m) {
			nUn++
			key := sp.m + " argument in " + cs.Fn.Key()
			if cs.Fn != dw {
				c.Bad("C06.R3", key, p.Pos(cs.Call), cs.Fn.Key(), "only the dispose worker unassigns", "new call site")
				continue
			}
			info := dw.Info()
			o := identObj(info, cs.Call.Args[1])
			ok := o != nil
			detail := ""
			if ok {
				for _, d := range varDefs(dw, o) {
					if d.rhs == nil {
						ok, detail = false, "multi-value definition"
						break
					}
					if se, isS := ast.Unparen(d.rhs).(*ast.SliceExpr); isS && identObj(info, se.X) == o {
						continue // batch clamp: reslice of itself
					}
					call, isC := ast.Unparen(d.rhs).(*ast.CallExpr)
					if isC && Callee(info, call) == delSet {
						if fv := fieldOf(info, ast.Unparen(call.Fun).(*ast.SelectorExpr).X); fv != nil && fv.Name() == sp.fam {
							continue
						}
					}
					ok, detail = false, "definition "+exprString(d.rhs)+" at "+p.Pos(d.node)
				}
			} else {
				detail = "argument is not a local variable"
			}
			c.Check(ok, "C06.R3", key, p.Pos(cs.Call), cs.Fn.Key(), "argument := l."+sp.fam+".Deleting() (optionally resliced)", detail)
		}
	}
	c.Floor("C06.R3", "unassign call sites", 2, nUn)
	if fi := p.FuncOf(delSet); fi != nil {
		n := 0
		ast.Inspect(fi.Decl.Body, func(m ast.Node) bool {
			if as, ok := m.(*ast.AssignStmt); ok && len(as.Rhs) == 1 {
				if call, ok := isBuiltinCall(fi.Info(), as.Rhs[0], "append"); ok && len(call.Args) == 2 {
					if sel, ok := ast.Unparen(call.Args[1]).(*ast.SelectorExpr); ok {
						n++
						c.Require("C06.R3", "Set.Deleting collects only addresses in Deleting state", fi, as, "$v.status == ipStatusDeleting", map[string]string{"$v": exprString(sel.X)})
					}
				}
			}
			return true
		})
		c.Floor("C06.R3", "append sites in Set.Deleting", 1, n)
	}
	_ = full
}

// R4: the balancer only disposes a positive surplus.
func c06R4(c *Ctx) {
	p := c.P
	c.Rule("C06.R4", "Manager.syncPool calls Dispose only with a positive surplus (idle − maxIdle > 0) and under the manager lock")
	fn := p.Func(eniPkg, "Manager.syncPool")
	disp := p.Method(eniPkg, "NetworkInterface", "Dispose")
	if fn == nil || disp == nil {
		c.Unres("C06.R4", "Manager.syncPool / NetworkInterface.Dispose", "not found")
		return
	}
	sites := p.CallsTo(p.FuncsInPkg(eniPkg), disp)
	c.Floor("C06.R4", "NetworkInterface.Dispose call sites", 1, len(sites))
	la := NewLockAnalysis(p, fn)
	for _, cs := range sites {
		if cs.Fn != fn {
			c.Bad("C06.R4", "Dispose call in "+cs.Fn.Key(), p.Pos(cs.Call), cs.Fn.Key(), "only syncPool shrinks the pool", "new call site")
			continue
		}
		c.Require("C06.R4", "Dispose(n) only with n > 0", fn, cs.Call, "$n > 0", map[string]string{"$n": exprString(cs.Call.Args[0])})
		held := la.HeldBefore(cs.Call)
		c.Check(held[objID(recvObj(fn))] == 'W', "C06.R4", "Dispose under the manager write lock", p.Pos(cs.Call), fn.Key(), "held ∋ W:manager", held.String())
		// surplus derives from idles − maxIdles
		o := identObj(fn.Info(), cs.Call.Args[0])
		ok := false
		if o != nil {
			for _, d := range varDefs(fn, o) {
				if be, isB := ast.Unparen(d.rhs).(*ast.BinaryExpr); isB && d.tok == token.DEFINE && be.Op == token.SUB {
					if fv := fieldOf(fn.Info(), be.Y); fv != nil && fv.Name() == "maxIdles" {
						ok = true
					}
				}
			}
		}
		c.Check(ok, "C06.R4", "surplus = idles − maxIdles", p.Pos(cs.Call), fn.Key(), "the dispose count is defined as <idle count> − m.maxIdles", "definition not of that form")
	}
}

// R5: Local.Dispose only shrinks by idle addresses (count bounded by Idles and n).
func c06R5(c *Ctx) {
	p := c.P
	c.Rule("C06.R5", "Local.Dispose's per-family loop bound is min(len(idle addresses), n); primary addresses are never marked (C01.R4)")
	fn := p.Func(eniPkg, "Local.Dispose")
	if fn == nil {
		c.Unres("C06.R5", "Local.Dispose", "not found")
		return
	}
	info := fn.Info()
	idles := p.Method(eniPkg, "Set", "Idles")
	nparam := info.Defs[fn.Decl.Type.Params.List[0].Names[0]]
	n := 0
	ast.Inspect(fn.Decl.Body, func(m ast.Node) bool {
		fs, ok := m.(*ast.ForStmt)
		if !ok || fs.Cond == nil {
			return true
		}
		be, ok := ast.Unparen(fs.Cond).(*ast.BinaryExpr)
		if !ok || be.Op != token.LSS {
			return true
		}
		bound := identObj(info, be.Y)
		if bound == nil {
			return true
		}
		// only loops that dispose
		hasDispose := false
		ast.Inspect(fs.Body, func(k ast.Node) bool {
			if call, ok := k.(*ast.CallExpr); ok && Callee(info, call) == p.Method(eniPkg, "IP", "Dispose") {
				hasDispose = true
			}
			return true
		})
		if !hasDispose {
			return true
		}
		n++
		ds := varDefs(fn, bound)
		good := len(ds) == 1 && ds[0].rhs != nil
		if good {
			mc, isMin := isBuiltinCall(info, ds[0].rhs, "min")
			hasN, hasIdle := false, false
			if isMin {
				for _, a := range mc.Args {
					if identObj(info, a) == nparam {
						hasN = true
					}
					if lc, ok := isBuiltinCall(info, a, "len"); ok {
						if ic, ok := ast.Unparen(lc.Args[0]).(*ast.CallExpr); ok && Callee(info, ic) == idles {
							hasIdle = true
						}
					}
				}
			}
			good = isMin && hasN && hasIdle
		}
		c.Check(good, "C06.R5", "dispose loop bound "+bound.Name(), p.Pos(fs), fn.Key(), "bound := min(len(set.Idles()), n)", "bound definition not of that form")
		// at most one address per iteration: the inner range breaks after the Dispose
		return true
	})
	c.Floor("C06.R5", "counted dispose loops in Local.Dispose", 2, n)
}

// loadDisposeOrder: start-up cap adjustment in load runs after every stored binding was re-applied.
func loadDisposeOrder(c *Ctx, rule string) {
	p := c.P
	ld := p.Func(eniPkg, "Local.load")
	if ld == nil {
		c.Unres(rule, "Local.load", "not found")
		return
	}
	q := NewPathQuery(p, ld, nil)
	w := q.Escapes(q.callTo(p.Method(eniPkg, "IP", "Dispose")), q.callTo(p.Method(eniPkg, "IP", "Allocate")), nil, nil)
	c.Check(w == nil, rule, "load: no binding is re-applied after the idle-address disposal", p.Pos(ld.Decl), ld.Key(), "never-before: Dispose() before Allocate(podID) in load (an address would be judged idle before its stored owner is restored)", "path: "+p.describePath(w))
}

// sliceText concatenates the source of every statement of fn that defines obj or passes it to a
// call (so a callee may fill it), and — to the given depth — the same for every local variable
// mentioned in those statements: a backward slice by names, used for provenance questions of the
// form "is this value derived from X".
func sliceText(fn *FuncInfo, obj types.Object, depth int) string {
	info := fn.Info()
	seen := map[types.Object]bool{}
	var sb strings.Builder
	var rec func(o types.Object, d int)
	rec = func(o types.Object, d int) {
		if o == nil || seen[o] || d < 0 {
			return
		}
		seen[o] = true
		var next []types.Object
		mention := func(n ast.Node) {
			ast.Inspect(n, func(m ast.Node) bool {
				if id, ok := m.(*ast.Ident); ok {
					if v, ok := info.Uses[id].(*types.Var); ok && !v.IsField() && v.Parent() != nil && v.Pkg() != nil && v.Parent() != v.Pkg().Scope() {
						next = append(next, v)
					}
				}
				return true
			})
		}
		for _, d := range varDefs(fn, o) {
			if d.rhs != nil {
				sb.WriteString(fullString(d.rhs) + ";")
				mention(d.rhs)
			} else if as, ok := d.node.(*ast.AssignStmt); ok {
				for _, r := range as.Rhs {
					sb.WriteString(fullString(r) + ";")
					mention(r)
				}
			}
		}
		// an out-parameter: the variable holds a fresh object that a call fills in
		fresh := false
		for _, d := range varDefs(fn, o) {
			if d.rhs != nil {
				r := ast.Unparen(d.rhs)
				if u, ok := r.(*ast.UnaryExpr); ok && u.Op == token.AND {
					r = ast.Unparen(u.X)
				}
				if _, ok := r.(*ast.CompositeLit); ok {
					fresh = true
				}
				if _, ok := isBuiltinCall(info, r, "new"); ok {
					fresh = true
				}
			}
		}
		if fresh {
			ast.Inspect(fn.Decl.Body, func(n ast.Node) bool {
				call, ok := n.(*ast.CallExpr)
				if !ok {
					return true
				}
				for _, a := range call.Args {
					x := ast.Unparen(a)
					if u, ok := x.(*ast.UnaryExpr); ok && u.Op == token.AND {
						x = ast.Unparen(u.X)
					}
					if id, ok := x.(*ast.Ident); ok && info.Uses[id] == o {
						sb.WriteString(fullString(call) + ";")
						mention(call)
					}
				}
				return true
			})
		}
		for _, n := range next {
			rec(n, d-1)
		}
	}
	rec(obj, depth)
	return sb.String()
}

// derefLocal follows an identifier to the initialiser of its variable when the variable has
// exactly one definition in fn and no lock release point (Unlock, Cond.Wait) can execute
// between that definition and use: the value is what the initialiser would yield at use.
func derefLocal(p *Prog, fn *FuncInfo, x ast.Expr, use ast.Node) ast.Expr {
	info := fn.Info()
	for depth := 0; depth < 3; depth++ {
		o := identObj(info, x)
		v, ok := o.(*types.Var)
		if !ok || v.IsField() || v.Parent() == nil || v.Pkg() == nil || v.Parent() == v.Pkg().Scope() {
			return x
		}
		ds := varDefs(fn, o)
		if len(ds) != 1 || ds[0].rhs == nil {
			return x
		}
		def := ds[0].node
		la := NewLockAnalysis(p, fn)
		body := innermostBody(fn, def)
		if innermostBody(fn, use) != body {
			return x
		}
		q := NewPathQuery(p, fn, body)
		crossed := false
		for _, b := range q.G.Blocks {
			for _, n := range b.Nodes {
				if !la.isReleasePoint(n) {
					continue
				}
				rel := n
				if q.Escapes(isExactly(def), isExactly(rel), isExactly(use), nil) != nil &&
					q.Escapes(isExactly(rel), isExactly(use), isExactly(def), nil) != nil {
					crossed = true
				}
			}
		}
		if crossed {
			return x
		}
		x = ds[0].rhs
	}
	return x
}

// derefString prints x with every identifier that names a local variable defined exactly once
// (by an expression, never re-assigned or address-taken) replaced by that expression, to depth 3:
// `podInfo.PodUID` with `podInfo := rec.PodInfo` prints as `rec.PodInfo.PodUID`.
func derefString(fn *FuncInfo, x ast.Expr) string {
	info := fn.Info()
	var rw func(x ast.Expr, depth int) ast.Expr
	rw = func(x ast.Expr, depth int) ast.Expr {
		switch t := x.(type) {
		case *ast.Ident:
			if depth >= 3 {
				return t
			}
			v, ok := info.Uses[t].(*types.Var)
			if !ok || v.IsField() || v.Parent() == nil || v.Pkg() == nil || v.Parent() == v.Pkg().Scope() {
				return t
			}
			ds := varDefs(fn, v)
			if len(ds) != 1 || ds[0].rhs == nil {
				return t
			}
			switch ast.Unparen(ds[0].rhs).(type) {
			case *ast.Ident, *ast.SelectorExpr, *ast.IndexExpr, *ast.StarExpr:
				return &ast.ParenExpr{X: rw(ds[0].rhs, depth+1)}
			}
			return t
		case *ast.SelectorExpr:
			nx := rw(t.X, depth)
			if pe, ok := nx.(*ast.ParenExpr); ok {
				switch pe.X.(type) {
				case *ast.Ident, *ast.SelectorExpr:
					nx = pe.X
				}
			}
			return &ast.SelectorExpr{X: nx, Sel: t.Sel}
		case *ast.ParenExpr:
			return &ast.ParenExpr{X: rw(t.X, depth)}
		case *ast.StarExpr:
			return &ast.StarExpr{X: rw(t.X, depth)}
		case *ast.UnaryExpr:
			return &ast.UnaryExpr{Op: t.Op, X: rw(t.X, depth)}
		case *ast.BinaryExpr:
			return &ast.BinaryExpr{X: rw(t.X, depth), Op: t.Op, Y: rw(t.Y, depth)}
		case *ast.IndexExpr:
			return &ast.IndexExpr{X: rw(t.X, depth), Index: rw(t.Index, depth)}
		case *ast.CallExpr:
			args := make([]ast.Expr, len(t.Args))
			for i, a := range t.Args {
				args[i] = rw(a, depth)
			}
			return &ast.CallExpr{Fun: t.Fun, Args: args, Ellipsis: t.Ellipsis}
		}
		return x
	}
	out := rw(x, 0)
	if pe, ok := out.(*ast.ParenExpr); ok {
		out = pe.X
	}
	return exprString(out)
}

// derefExpr follows identifiers of local variables that are defined exactly once by an
// expression (never re-assigned, address not taken) to that expression, to depth 4. The result
// is a node of the function's own syntax tree, so type information stays available.
func derefExpr(fn *FuncInfo, x ast.Expr) ast.Expr {
	info := fn.Info()
	for depth := 0; depth < 4; depth++ {
		id, ok := ast.Unparen(x).(*ast.Ident)
		if !ok {
			return x
		}
		v, ok := info.Uses[id].(*types.Var)
		if !ok || v.IsField() || v.Parent() == nil || v.Pkg() == nil || v.Parent() == v.Pkg().Scope() {
			return x
		}
		ds := varDefs(fn, v)
		if len(ds) != 1 || ds[0].rhs == nil {
			return x
		}
		addr := false
		ast.Inspect(fn.Decl.Body, func(n ast.Node) bool {
			if u, ok := n.(*ast.UnaryExpr); ok && u.Op == token.AND && identObj(info, u.X) == v {
				addr = true
			}
			return !addr
		})
		if addr {
			return x
		}
		x = ds[0].rhs
	}
	return x
}

// derefLoose is derefExpr that ignores value-less declarations (`var x T`) of the variable: it
// answers "which expression is this value computed by", not "what does the variable hold at
// every point" — for provenance checks of result variables filled in exactly once.
func derefLoose(fn *FuncInfo, x ast.Expr) ast.Expr {
	info := fn.Info()
	for depth := 0; depth < 4; depth++ {
		id, ok := ast.Unparen(x).(*ast.Ident)
		if !ok {
			return x
		}
		v, ok := info.Uses[id].(*types.Var)
		if !ok || v.IsField() || v.Parent() == nil || v.Pkg() == nil || v.Parent() == v.Pkg().Scope() {
			return x
		}
		var rhs []ast.Expr
		for _, d := range varDefs(fn, v) {
			if d.rhs == nil {
				if _, isDecl := d.node.(*ast.ValueSpec); isDecl {
					continue
				}
				return x
			}
			if identObj(info, d.rhs) == v {
				continue
			}
			rhs = append(rhs, d.rhs)
		}
		if len(rhs) != 1 {
			return x
		}
		x = rhs[0]
	}
	return x
}

// R6: the trunk interface is created only into a free slot. initTrunk compares
// the quota with the number of ALL attached secondary interfaces — the list the
// factory returned, not a filtered part of it (RDMA and trunk interfaces take a
// slot like any other).
func c06R6(c *Ctx) {
	p := c.P
	c.Rule("C06.R6", "initTrunk calls CreateNetworkInterface for the trunk only under len(<all attached interfaces>) < poolConfig.MaxENI, where the list is the unfiltered result of Factory.GetAttachedNetworkInterface")
	fn := p.Func(daemonPkg, "initTrunk")
	if fn == nil {
		c.Unres("C06.R6", "initTrunk", "not found")
		return
	}
	var listed types.Object
	var creates []*ast.CallExpr
	for _, cs := range p.CallsIn(fn) {
		if cs.Callee == nil || cs.Lit != nil {
			continue
		}
		switch cs.Callee.Name() {
		case "GetAttachedNetworkInterface":
			if _, lhs := assignedFromCall(fn, cs.Call); len(lhs) == 2 && lhs[0] != nil {
				listed = lhs[0]
			}
		case "CreateNetworkInterface":
			creates = append(creates, cs.Call)
		}
	}
	if listed == nil || len(creates) == 0 {
		c.Undec("C06.R6", "initTrunk: attached list and create call", p.Pos(fn.Decl), fn.Key(), "enis, err := f.GetAttachedNetworkInterface(…); f.CreateNetworkInterface(…)", fmt.Sprintf("list=%v creates=%d", listed != nil, len(creates)))
		return
	}
	var quota string
	for _, f := range fn.Decl.Type.Params.List {
		for _, nm := range f.Names {
			if typeIs(fn.Info().Defs[nm].Type(), modPath+"/types/daemon", "PoolConfig") {
				quota = nm.Name + ".MaxENI"
			}
		}
	}
	if quota == "" {
		c.Undec("C06.R6", "initTrunk: quota parameter", p.Pos(fn.Decl), fn.Key(), "a *daemon.PoolConfig parameter", "not found")
		return
	}
	for _, call := range creates {
		c.Require("C06.R6", "initTrunk: a trunk is created only into a free interface slot", fn, call, "len("+listed.Name()+") < "+quota, nil)
	}
}

// R8: one cap for both families. getPoolConfig sets a single per-interface cap (the IPv4 quantity) and
// Local checks both families against it; that is only right while the instance type allows as many IPv6
// as IPv4 addresses per interface — which is what the capability test for shared-ENI dual stack says.
func c06R8(c *Ctx) {
	p := c.P
	c.Rule("C06.R8", "Limits.SupportMultiIPIPv6 answers true only when the instance type allows as many IPv6 as IPv4 addresses per interface (the pool enforces one per-interface cap for both families)")
	fn := p.Func(clientPkg, "Limits.SupportMultiIPIPv6")
	if fn == nil {
		c.Unres("C06.R8", "Limits.SupportMultiIPIPv6", "not found")
		return
	}
	recv := "l"
	if fn.Decl.Recv != nil && len(fn.Decl.Recv.List) == 1 && len(fn.Decl.Recv.List[0].Names) == 1 {
		recv = fn.Decl.Recv.List[0].Names[0].Name
	}
	n := c.ResultOnlyUnder("C06.R8", "SupportMultiIPIPv6: true only for equal per-interface quantities", fn, 0, true, []string{recv + ".IPv6PerAdapter == " + recv + ".IPv4PerAdapter"})
	c.Floor("C06.R8", "returns of SupportMultiIPIPv6 that can be true", 1, n)
}
