package main

// C03 — an address is reclaimed only after the pod is gone and its teardown confirmed.

import (
	"fmt"
	"go/ast"
	"go/token"
	"go/types"
	"strings"
)

func init() { registry["C03"] = c03 }

func c03(c *Ctx) {
	if c.P.Pkg(nodeCtlPkg) == nil || c.P.Pkg(eniPkg) == nil || c.P.Pkg(daemonPkg) == nil {
		c.Unres("C03", "packages", "node controller / eni / daemon package not loaded")
		return
	}
	c03R1(c)
	c03R2(c)
	c03R3(c)
	c03R4(c)
	c03R5(c)
	c03R6(c)
	c.Rule("C03.R7", "the release gate is applied to the bindings of both address families (syncPods hands releasePodNotFound the IPv4 and the IPv6 index)")
	c02FamilyRoles(c, "C03.R7")
	c03R8(c)
	// an address a running pod reports is never unbound by the dual-stack roll-back, and the full
	// sync never replaces what the record knows about an address (shared rules)
	c02R5(c)
	mergeRule(c, "C08.R10")
	// "verified no longer exist": the API re-check answers 'absent' only for NotFound / another node
	rulePodExist(c, "C09.R6")
	// shared: an address is bound only on an interface that is in use, not on one marked for release
	// (C02.R2); every acknowledged ADD rewrites the record, so the sandbox guard of DEL compares with
	// the live sandbox (C05.R1)
	c02Binds(c)
	c05R1(c)
}

// R1 release gate in releasePodNotFound.
func c03R1(c *Ctx) {
	p := c.P
	c.Rule("C03.R1", "the control plane unbinds an address only when the pod is absent from the node's pod list AND (no UID was recorded OR the node agent's latest runtime status for that UID is 'deleted'); nothing is unbound when the NodeRuntime cannot be read")
	fn := p.Func(nodeCtlPkg, "releasePodNotFound")
	if fn == nil {
		c.Unres("C03.R1", "releasePodNotFound", "not found")
		return
	}
	info := fn.Info()
	podID := p.Field(apiPkg, "IP", "PodID")
	finalM := p.Func("pkg/utils", "RuntimeFinalStatus")
	deleted := constLit(p, apiPkg, "CNIStatusDeleted")
	if finalM == nil {
		c.Unres("C03.R1", "utils.RuntimeFinalStatus", "not found")
		return
	}
	// locate: pods lookup (comma-ok on the pod map parameter), runtime lookup, final status call
	podsParam := info.Defs[fn.Decl.Type.Params.List[3].Names[0]]
	var podOK, rtOK, finOK, finStatus types.Object
	var finCall *ast.CallExpr
	var rtLookup *ast.AssignStmt
	ast.Inspect(fn.Decl.Body, func(n ast.Node) bool {
		as, ok := n.(*ast.AssignStmt)
		if !ok || len(as.Rhs) != 1 {
			return true
		}
		switch r := ast.Unparen(as.Rhs[0]).(type) {
		case *ast.IndexExpr:
			if len(as.Lhs) == 2 {
				if identObj(info, r.X) == podsParam {
					podOK = identObj(info, as.Lhs[1])
				} else if fv := fieldOf(info, r.X); fv != nil && fv.Name() == "Pods" {
					rtOK = identObj(info, as.Lhs[1])
					rtLookup = as
				}
			}
		case *ast.CallExpr:
			if Callee(info, r) == finalM.Obj && len(as.Lhs) == 3 {
				finCall = r
				finStatus = identObj(info, as.Lhs[0])
				finOK = identObj(info, as.Lhs[2])
			}
		}
		return true
	})
	if podOK == nil || rtOK == nil || finOK == nil || finStatus == nil {
		c.Unres("C03.R1", "release gate structure", "pod-list lookup / runtime lookup / RuntimeFinalStatus call not recognised")
		return
	}
	n := 0
	for _, s := range p.StoresTo([]*FuncInfo{fn}, podID) {
		if s.RHS == nil || info.Types[s.RHS].Value == nil || info.Types[s.RHS].Value.ExactString() != `""` {
			c.Bad("C03.R1", "releasePodNotFound only clears bindings", p.Pos(s.Node), fn.Key(), "PodID = \"\"", "non-clearing store")
			continue
		}
		n++
		base := exprString(s.LHS.(*ast.SelectorExpr).X)
		c.RequireF("C03.R1", "unbind only for an absent pod whose teardown is confirmed", fn, s.Node,
			"!podListed && ("+base+".PodUID == \"\" || (finalStatusOK && finalStatus == deleted))", func(e *FactEngine) (*Formula, error) {
				uidEmpty, err := e.Expr(base+`.PodUID == ""`, s.Node.Pos())
				if err != nil {
					return nil, err
				}
				stDel := e.eqAtom(objID(finStatus), "#"+deleted, []string{objID(finStatus)})
				notListed := mkNot(e.Cond(identFor(info, podOK)))
				fin := e.Cond(identFor(info, finOK))
				return mkAnd(notListed, mkOr(uidEmpty, mkAnd(fin, stDel))), nil
			})
		// completeness ("once the pod is gone and teardown is reported, the address does become free
		// again", for every address of the pod in the same pass): within one iteration over the bound
		// addresses, whenever the gate holds the unbind is reached — no memo, counter or earlier
		// address of the same pod lets one be skipped
		var loopBody *ast.BlockStmt
		for _, nd := range pathTo(fn.Decl.Body, s.Node) {
			if rs, ok := nd.(*ast.RangeStmt); ok {
				loopBody = rs.Body
			}
		}
		if loopBody != nil {
			c.RequireReachedF("C03.R1", "every address of a gone pod whose teardown is confirmed is unbound in the same pass", fn, loopBody, s.Node,
				"bound && !podListed && ("+base+".PodUID == \"\" || (runtimeEntryOK && finalStatusOK && finalStatus == deleted))", func(e *FactEngine) (*Formula, error) {
					uidEmpty, err := e.Expr(base+`.PodUID == ""`, s.Node.Pos())
					if err != nil {
						return nil, err
					}
					bound, err := e.Expr(base+`.PodID != ""`, s.Node.Pos())
					if err != nil {
						return nil, err
					}
					stDel := e.eqAtom(objID(finStatus), "#"+deleted, []string{objID(finStatus)})
					notListed := mkNot(e.Cond(identFor(info, podOK)))
					fin := e.Cond(identFor(info, finOK))
					// the final status exists only for a UID the runtime record has an entry for
					entry := e.Cond(identFor(info, rtOK))
					return mkAnd(bound, mkAnd(notListed, mkOr(uidEmpty, mkAnd(entry, mkAnd(fin, stDel))))), nil
				})
		}
	}
	c.Floor("C03.R1", "unbind stores in releasePodNotFound", 1, n)
	// the final status is computed from the runtime entry of this UID, looked up successfully
	if finCall != nil && rtLookup != nil {
		c.RequireF("C03.R1", "final status read from an existing runtime entry", fn, finCall, "runtime entry present", func(e *FactEngine) (*Formula, error) {
			return e.Cond(identFor(info, rtOK)), nil
		})
		okKey := false
		if ix, ok := ast.Unparen(rtLookup.Rhs[0]).(*ast.IndexExpr); ok && strings.HasSuffix(exprString(ix.Index), ".PodUID") {
			okKey = true
		}
		rtVar := identObj(info, rtLookup.Lhs[0])
		argOK := false
		if sel, ok := ast.Unparen(finCall.Args[0]).(*ast.SelectorExpr); ok && identObj(info, sel.X) == rtVar && sel.Sel.Name == "Status" {
			argOK = true
		}
		c.Check(okKey && argOK, "C03.R1", "runtime entry is the one of the bound UID", p.Pos(rtLookup), fn.Key(), "entry := nodeRuntime.Status.Pods[<ip>.PodUID]; RuntimeFinalStatus(entry.Status)", fmt.Sprintf("key=%v arg=%v", okKey, argOK))
	}
	// NodeRuntime read failure returns before the loop
	okAbort := false
	for _, cs := range p.CallsIn(fn) {
		if cs.Callee != nil && cs.Callee.Name() == "Get" && cs.Lit == nil {
			_, lhs := assignedFromCall(fn, cs.Call)
			if len(lhs) == 1 && lhs[0] != nil {
				if arm := errArm(fn, lhs[0], cs.Call.End()); arm != nil && len(arm.Body.List) > 0 {
					if _, isRet := arm.Body.List[len(arm.Body.List)-1].(*ast.ReturnStmt); isRet {
						okAbort = true
					}
				}
			}
		}
	}
	c.Check(okAbort, "C03.R1", "no release when the NodeRuntime cannot be read", p.Pos(fn.Decl), fn.Key(), "err := c.Get(nodeRuntime); if err != nil { return }", "not recognised")
	// latest-timestamp-wins in RuntimeFinalStatus: the replacement branch compares LastUpdateTime with Before
	fi := finalM
	okCmp := false
	ast.Inspect(fi.Decl.Body, func(n ast.Node) bool {
		if call, ok := n.(*ast.CallExpr); ok {
			if sel, ok := ast.Unparen(call.Fun).(*ast.SelectorExpr); ok && sel.Sel.Name == "Before" && strings.HasSuffix(exprString(sel.X), ".LastUpdateTime") && len(call.Args) == 1 && strings.HasSuffix(exprString(call.Args[0]), ".LastUpdateTime") {
				// receiver is the current best, argument the candidate
				recvBase := identObj(fi.Info(), ast.Unparen(sel.X).(*ast.SelectorExpr).X)
				argBase := types.Object(nil)
				if as, ok := ast.Unparen(call.Args[0]).(*ast.UnaryExpr); ok {
					if s2, ok := ast.Unparen(as.X).(*ast.SelectorExpr); ok {
						argBase = identObj(fi.Info(), s2.X)
					}
				} else if s2, ok := ast.Unparen(call.Args[0]).(*ast.SelectorExpr); ok {
					argBase = identObj(fi.Info(), s2.X)
				}
				// the current best is the variable the function returns as its second result
				// (a named result, or the one variable every return statement names there)
				var best types.Object
				if results := fi.Decl.Type.Results.List; len(results) >= 2 && len(results[1].Names) == 1 {
					best = fi.Info().Defs[results[1].Names[0]]
				} else {
					uniform := true
					ast.Inspect(fi.Decl.Body, func(m ast.Node) bool {
						if _, ok := m.(*ast.FuncLit); ok {
							return false
						}
						if ret, ok := m.(*ast.ReturnStmt); ok && len(ret.Results) == 3 {
							o := identObj(fi.Info(), ret.Results[1])
							if o == nil || (best != nil && o != best) {
								uniform = false
							}
							best = o
						}
						return true
					})
					if !uniform {
						best = nil
					}
				}
				if best != nil && recvBase == best && argBase != nil && argBase != best {
					okCmp = true
				}
			}
		}
		return true
	})
	c.Check(okCmp, "C03.R1", "RuntimeFinalStatus keeps the entry with the latest timestamp", p.Pos(fi.Decl), fi.Key(), "replace when best.LastUpdateTime.Before(&candidate.LastUpdateTime)", "comparison not recognised")
}

// R2 trimming never touches an owned / primary address; ENI released only when nothing is in use.
func c03R2(c *Ctx) {
	p := c.P
	c.Rule("C03.R2", "an address is marked Deleting by pool trimming only if it is unowned, not primary and not already deleting; an interface only if no address on it (either family) is bound and it is a plain secondary interface; IPStatusDeleting is written nowhere else except for addresses the cloud returned with an error / reports as unusable")
	statusF := p.Field(apiPkg, "IP", "Status")
	delLit := constLit(p, apiPkg, "IPStatusDeleting")
	fn := p.Func(nodeCtlPkg, "releaseUnUsedIP")
	if fn == nil || statusF == nil {
		c.Unres("C03.R2", "releaseUnUsedIP / IP.Status", "not found")
		return
	}
	info := fn.Info()
	var sites []Store
	for _, s := range p.StoresTo(nil, statusF) {
		if s.RHS != nil && info.Types != nil {
			if tv := s.Fn.Info().Types[s.RHS]; tv.Value != nil && tv.Value.ExactString() == delLit {
				sites = append(sites, s)
			}
		}
	}
	c.WhoMay("C03.R2", "write IPStatusDeleting", groupStores(sites), map[string]string{
		nodeCtlPkg + ".releaseUnUsedIP":        "pool trimming",
		nodeCtlPkg + ".ReconcileNode.assignIP": "addresses returned together with an error (C08.R4)",
		nodeCtlPkg + ".convertIPSet":           "addresses the cloud reports as not usable",
	})
	c.Floor("C03.R2", "stores of IPStatusDeleting", 5, len(sites))
	n := 0
	for _, s := range sites {
		if s.Fn != fn || s.InLit {
			continue
		}
		n++
		v := exprString(s.LHS.(*ast.SelectorExpr).X)
		c.Require("C03.R2", "trim marks only an unowned, non-primary address", fn, s.Node, `$v.PodID == "" && !$v.Primary && $v.Status != `+delLit, map[string]string{"$v": v})
	}
	c.Floor("C03.R2", "trim stores in releaseUnUsedIP", 2, n)
	// ENI-level
	eniStatus := p.Field(apiPkg, "NetworkInterface", "Status")
	eniDel := constLit(p, clientPkg, "ENIStatusDeleting")
	usage := p.Func(nodeCtlPkg, "IPUsage")
	var inuse [2]string
	if usage != nil {
		for _, cs := range p.CallsTo([]*FuncInfo{fn}, usage.Obj) {
			_, lhs := assignedFromCall(fn, cs.Call)
			if len(lhs) == 2 && lhs[1] != nil {
				if fv := fieldOf(info, cs.Call.Args[0]); fv != nil && fv.Name() == "IPv4" {
					inuse[0] = lhs[1].Name()
				} else if fv != nil && fv.Name() == "IPv6" {
					inuse[1] = lhs[1].Name()
				}
			}
		}
	}
	m := 0
	for _, s := range p.StoresTo([]*FuncInfo{fn}, eniStatus) {
		if s.RHS == nil || info.Types[s.RHS].Value == nil || info.Types[s.RHS].Value.ExactString() != eniDel {
			continue
		}
		m++
		if inuse[0] == "" || inuse[1] == "" {
			c.Undec("C03.R2", "interface release guard", p.Pos(s.Node), fn.Key(), "", "in-use counts (IPUsage results for IPv4 and IPv6) not found")
			continue
		}
		e := exprString(s.LHS.(*ast.SelectorExpr).X)
		c.Require("C03.R2", "interface marked Deleting only when nothing on it is bound", fn, s.Node,
			fmt.Sprintf(`%s == 0 && %s == 0 && %s.NetworkInterfaceType == %s && %s.NetworkInterfaceTrafficMode == %s`, inuse[0], inuse[1], e, constLit(p, apiPkg, "ENITypeSecondary"), e, constLit(p, apiPkg, "NetworkInterfaceTrafficModeStandard")), nil)
	}
	c.Floor("C03.R2", "interface release sites", 1, m)
	// IPUsage counts every owned address as in use
	if usage != nil {
		okShape := false
		ast.Inspect(usage.Decl.Body, func(nd ast.Node) bool {
			if is, ok := nd.(*ast.IfStmt); ok && is.Else != nil {
				e := NewFactEngine(p, usage)
				f := e.Cond(is.Cond)
				if f.k == fAtom && strings.HasSuffix(f.atom, `.PodID,#"")`) {
					// else branch increments the second result
					if bl, ok := is.Else.(*ast.BlockStmt); ok && len(bl.List) == 1 {
						if inc, ok := bl.List[0].(*ast.IncDecStmt); ok && inc.Tok == token.INC {
							okShape = true
						}
					}
				}
			}
			return true
		})
		c.Check(okShape, "C03.R2", "IPUsage counts every address with an owner as in use", p.Pos(usage.Decl), usage.Key(), "if v.PodID == \"\" { idle++ } else { inUse++ }", "shape not recognised")
	}
	// who marks interfaces Deleting at all
	var eniSites []Store
	for _, s := range p.StoresTo(p.FuncsInPkg(nodeCtlPkg), eniStatus) {
		if s.RHS != nil {
			if tv := s.Fn.Info().Types[s.RHS]; tv.Value != nil && tv.Value.ExactString() == eniDel {
				eniSites = append(eniSites, s)
			}
		}
	}
	c.WhoMay("C03.R2", "mark an interface Deleting", groupStores(eniSites), map[string]string{
		nodeCtlPkg + ".releaseUnUsedIP":         "pool trimming (guarded above)",
		nodeCtlPkg + ".ReconcileNode.createENI": "roll-back record of an interface that never became usable (C08.R3)",
	})
}

// R3 cloud calls only for entries in Deleting state.
func c03R3(c *Ctx) {
	p := c.P
	c.Rule("C03.R3", "addresses are unassigned in the cloud only if their record entry is in Deleting state; interfaces are detached / deleted only from the status handler (interface Deleting/Detaching), the full sync (interface no longer attached and Available) and the creation roll-back")
	hs := p.Func(nodeCtlPkg, "ReconcileNode.handleStatus")
	if hs == nil {
		c.Unres("C03.R3", "handleStatus", "not found")
		return
	}
	info := hs.Info()
	delLit := constLit(p, apiPkg, "IPStatusDeleting")
	n := 0
	for _, name := range []string{"UnAssignPrivateIPAddressesV2", "UnAssignIpv6AddressesV2"} {
		for _, cs := range p.CallsIn(hs) {
			if cs.Callee == nil || cs.Callee.Name() != name {
				continue
			}
			n++
			fam := "IPv4"
			if strings.Contains(name, "pv6") {
				fam = "IPv6"
			}
			// the nearest preceding append into the argument variable, inside a range over eni.<fam>
			argObj := identObj(info, cs.Call.Args[2])
			var best *ast.AssignStmt
			ast.Inspect(hs.Decl.Body, func(nd ast.Node) bool {
				as, ok := nd.(*ast.AssignStmt)
				if !ok || len(as.Lhs) != 1 || identObj(info, as.Lhs[0]) != argObj || as.Pos() > cs.Call.Pos() {
					return true
				}
				if _, ok := isBuiltinCall(info, as.Rhs[0], "append"); ok {
					if best == nil || as.Pos() > best.Pos() {
						best = as
					}
				}
				return true
			})
			if best == nil {
				c.Bad("C03.R3", name+" argument built by append", p.Pos(cs.Call), hs.Key(), "ips = append(ips, …) before the call", "not found")
				continue
			}
			var rs *ast.RangeStmt
			for _, nd := range pathTo(hs.Decl.Body, best) {
				if r, ok := nd.(*ast.RangeStmt); ok {
					rs = r
				}
			}
			okFam := rs != nil && rs.Value != nil
			if okFam {
				fv := fieldOf(info, rs.X)
				okFam = fv != nil && fv.Name() == fam
			}
			c.Check(okFam, "C03.R3", name+" argument ranges over the "+fam+" entries of the interface", p.Pos(best), hs.Key(), "for _, ip := range eni."+fam, "range source mismatch")
			if okFam {
				c.Require("C03.R3", name+" only for entries in Deleting state", hs, best, exprString(rs.Value)+".Status == "+delLit, nil)
				// the appended address is the entry's address
				call, _ := isBuiltinCall(info, best.Rhs[0], "append")
				okAddr := false
				if cl, ok := ast.Unparen(call.Args[1]).(*ast.CompositeLit); ok {
					for _, el := range cl.Elts {
						if kv, ok := el.(*ast.KeyValueExpr); ok && exprString(kv.Key) == "IPAddress" && exprString(kv.Value) == exprString(rs.Value)+".IP" {
							okAddr = true
						}
					}
				}
				c.Check(okAddr, "C03.R3", name+" passes the entry's own address", p.Pos(best), hs.Key(), "IPSet{IPAddress: ip.IP, …}", exprString(call.Args[1]))
			}
			// between the append loop and the call the slice is only truncated
			for _, d := range varDefs(hs, argObj) {
				if d.node.Pos() > best.End() && d.node.Pos() < cs.Call.Pos() {
					src := exprString2(d.node)
					ok := strings.Contains(src, "Subset("+argObj.Name()) || strings.Contains(src, argObj.Name()+"[:")
					c.Check(ok, "C03.R3", name+" argument only truncated before the call", p.Pos(d.node), hs.Key(), "lo.Subset(ips, 0, n) / ips[:k]", src)
				}
			}
			// record entries are dropped only after the cloud confirmed
			_, lhs := assignedFromCall(hs, cs.Call)
			if len(lhs) == 1 && lhs[0] != nil {
				errObj := lhs[0]
				ast.Inspect(hs.Decl.Body, func(nd ast.Node) bool {
					call, ok := nd.(*ast.CallExpr)
					if !ok {
						return true
					}
					if id, ok := call.Fun.(*ast.Ident); ok && id.Name == "delete" && len(call.Args) == 2 {
						if fv := fieldOf(info, call.Args[0]); fv != nil && fv.Name() == fam && call.Pos() > cs.Call.Pos() {
							// the literal lives in lo.ForEach after the err check; check the enclosing statement
							var stmt ast.Node = call
							for _, pn := range pathTo(hs.Decl.Body, call) {
								if es, ok := pn.(*ast.ExprStmt); ok && es.Pos() > cs.Call.End() {
									if _, isLit := ast.Unparen(es.X).(*ast.CallExpr); isLit {
										stmt = es
										break
									}
								}
							}
							c.RequireF("C03.R3", fam+" record entry dropped only after the cloud confirmed", hs, stmt, "err == nil of "+name, func(e *FactEngine) (*Formula, error) {
								return e.eqAtom(objID(errObj), "nil", []string{objID(errObj)}), nil
							})
						}
					}
					return true
				})
			}
		}
	}
	c.Floor("C03.R3", "unassign call sites in handleStatus", 2, n)
	// who detaches / deletes interfaces
	var sites []CallSite
	for _, fn := range p.FuncsInPkg(nodeCtlPkg) {
		for _, cs := range p.CallsIn(fn) {
			if cs.Callee != nil && (cs.Callee.Name() == "DeleteNetworkInterfaceV2" || cs.Callee.Name() == "DetachNetworkInterface") {
				sites = append(sites, cs)
			}
		}
	}
	c.WhoMay("C03.R3", "detach / delete an interface", groupCalls(sites), map[string]string{
		nodeCtlPkg + ".ReconcileNode.handleStatus": "interface in Deleting / Detaching state",
		nodeCtlPkg + ".ReconcileNode.syncWithAPI":  "interface no longer attached to the instance and Available",
		nodeCtlPkg + ".ReconcileNode.createENI":    "roll-back of a failed creation",
	})
	c.Floor("C03.R3", "detach/delete call sites", 4, len(sites))
	eniDel := constLit(p, clientPkg, "ENIStatusDeleting")
	eniDet := constLit(p, clientPkg, "ENIStatusDetaching")
	for _, cs := range sites {
		switch cs.Fn.Name {
		case "ReconcileNode.handleStatus":
			var rs *ast.RangeStmt
			for _, nd := range pathTo(cs.Fn.Decl.Body, cs.Call) {
				if r, ok := nd.(*ast.RangeStmt); ok && rs == nil {
					rs = r
				}
			}
			if rs == nil || rs.Value == nil {
				c.Undec("C03.R3", "handleStatus loop", p.Pos(cs.Call), cs.Fn.Key(), "", "no enclosing range")
				continue
			}
			v := exprString(rs.Value)
			c.Require("C03.R3", cs.Callee.Name()+" in handleStatus only for an interface in Deleting/Detaching state", cs.Fn, cs.Call, fmt.Sprintf("%s.Status == %s || %s.Status == %s", v, eniDel, v, eniDet), nil)
			// the id passed is that interface's
			okID := exprString(cs.Call.Args[1]) == v+".ID"
			c.Check(okID, "C03.R3", cs.Callee.Name()+" in handleStatus targets the ranged interface", p.Pos(cs.Call), cs.Fn.Key(), "id = "+v+".ID", exprString(cs.Call.Args[1]))
		case "ReconcileNode.syncWithAPI":
			// under: id not in the attached set and remote status Available
			var rs *ast.RangeStmt
			for _, nd := range pathTo(cs.Fn.Decl.Body, cs.Call) {
				if r, ok := nd.(*ast.RangeStmt); ok {
					rs = r
				}
			}
			if rs == nil || rs.Key == nil {
				c.Undec("C03.R3", "syncWithAPI loop", p.Pos(cs.Call), cs.Fn.Key(), "", "no enclosing range")
				continue
			}
			// find the comma-ok membership test on the attached-id map inside this loop
			var memOK types.Object
			ast.Inspect(rs.Body, func(nd ast.Node) bool {
				if as, ok := nd.(*ast.AssignStmt); ok && len(as.Lhs) == 2 && len(as.Rhs) == 1 {
					if ix, ok := ast.Unparen(as.Rhs[0]).(*ast.IndexExpr); ok && identObj(cs.Fn.Info(), ix.Index) == identObj(cs.Fn.Info(), rs.Key) && memOK == nil {
						memOK = identObj(cs.Fn.Info(), as.Lhs[1])
					}
				}
				return true
			})
			if memOK == nil {
				c.Undec("C03.R3", "syncWithAPI membership test", p.Pos(cs.Call), cs.Fn.Key(), "", "`_, ok := attached[id]` not found")
				continue
			}
			avail := constLit(p, clientPkg, "ENIStatusAvailable")
			c.RequireF("C03.R3", "syncWithAPI deletes only an interface that is no longer attached and Available", cs.Fn, cs.Call, "!attached[id] && remote[0].Status == Available", func(e *FactEngine) (*Formula, error) {
				st, err := e.Expr("remote[0].Status == "+avail, cs.Call.Pos())
				if err != nil {
					return nil, err
				}
				return mkAnd(mkNot(e.Cond(identFor(cs.Fn.Info(), memOK))), st), nil
			})
			c.Check(identObj(cs.Fn.Info(), cs.Call.Args[1]) == identObj(cs.Fn.Info(), rs.Key), "C03.R3", "syncWithAPI deletes the ranged id", p.Pos(cs.Call), cs.Fn.Key(), "id of the loop", exprString(cs.Call.Args[1]))
		}
	}
}

// R4 who reports "deleted".
func c03R4(c *Ctx) {
	p := c.P
	c.Rule("C03.R4", "the node agent reports teardown ('deleted') only for pods whose DEL it processed (CRDV2.Release, reached only from ReleaseIP behind the container-ID guard, AllocIP's roll-back and GC behind its absence checks) or that it verified gone (cleanRuntimeNode: not in the local database, still 'initial', older than 30 s, API server says not found); the pending set of reports is cleared only after it was saved")
	delObj := p.LookupObj(apiPkg, "CNIStatusDeleted")
	if delObj == nil {
		c.Unres("C03.R4", "CNIStatusDeleted", "not found")
		return
	}
	// stores into a status map with key CNIStatusDeleted
	type site struct {
		fn   *FuncInfo
		node ast.Node
	}
	var sites []site
	for _, fn := range p.AllFuncs() {
		info := fn.Info()
		ast.Inspect(fn.Decl.Body, func(nd ast.Node) bool {
			switch t := nd.(type) {
			case *ast.AssignStmt:
				for _, l := range t.Lhs {
					if ix, ok := ast.Unparen(l).(*ast.IndexExpr); ok && identObjSel(info, ix.Index) == delObj {
						sites = append(sites, site{fn, t})
					}
				}
			case *ast.KeyValueExpr:
				if identObjSel(info, t.Key) == delObj {
					sites = append(sites, site{fn, t})
				}
			}
			return true
		})
	}
	m := map[*FuncInfo][]ast.Node{}
	for _, s := range sites {
		m[s.fn] = append(m[s.fn], s.node)
	}
	c.WhoMay("C03.R4", "write a 'deleted' runtime status", m, map[string]string{
		eniPkg + ".CRDV2.syncNodeRuntime":              "flushes the DELs the daemon processed",
		daemonPkg + ".networkService.cleanRuntimeNode": "pods verified gone",
	})
	c.Floor("C03.R4", "writers of the 'deleted' status", 2, len(sites))

	// syncNodeRuntime: the store is inside a range over r.deletedPods, on the entry of that key
	sn := p.Func(eniPkg, "CRDV2.syncNodeRuntime")
	dp := p.Field(eniPkg, "CRDV2", "deletedPods")
	if sn == nil || dp == nil {
		c.Unres("C03.R4", "CRDV2.syncNodeRuntime / deletedPods", "not found")
	} else {
		info := sn.Info()
		for _, s := range sites {
			if s.fn != sn {
				continue
			}
			var rs *ast.RangeStmt
			for _, nd := range pathTo(sn.Decl.Body, s.node) {
				if r, ok := nd.(*ast.RangeStmt); ok {
					rs = r
				}
			}
			ok := rs != nil && fieldOf(info, rs.X) == dp
			c.Check(ok, "C03.R4", "syncNodeRuntime reports only pods in the processed-DEL set", p.Pos(s.node), sn.Key(), "for uid := range r.deletedPods { status[uid][deleted] = now }", "store outside a range over deletedPods")
		}
		// deletedPods reset only after saveStatus succeeded
		save := p.Func(eniPkg, "saveStatus")
		q := NewPathQuery(p, sn, nil)
		for _, s := range p.StoresTo([]*FuncInfo{sn}, dp) {
			if save == nil {
				break
			}
			w := q.Escapes(nil, isExactly(s.Node), q.callTo(save.Obj), nil)
			c.Check(w == nil, "C03.R4", "processed-DEL set cleared only after it was saved", p.Pos(s.Node), sn.Key(), "must-pass: saveStatus → deletedPods = {}", "path: "+p.describePath(w))
			for _, cs := range p.CallsTo([]*FuncInfo{sn}, save.Obj) {
				_, lhs := assignedFromCall(sn, cs.Call)
				if len(lhs) == 1 && lhs[0] != nil {
					errObj := lhs[0]
					c.RequireF("C03.R4", "processed-DEL set cleared only when the save succeeded", sn, s.Node, "err == nil of saveStatus", func(e *FactEngine) (*Formula, error) {
						return e.eqAtom(objID(errObj), "nil", []string{objID(errObj)}), nil
					})
				}
			}
		}
		// writers of deletedPods entries
		var adds []ast.Node
		addFns := map[*FuncInfo][]ast.Node{}
		for _, fn := range p.FuncsInPkg(eniPkg) {
			ast.Inspect(fn.Decl.Body, func(nd ast.Node) bool {
				if as, ok := nd.(*ast.AssignStmt); ok {
					for _, l := range as.Lhs {
						if ix, ok := ast.Unparen(l).(*ast.IndexExpr); ok && fieldOf(fn.Info(), ix.X) == dp {
							adds = append(adds, as)
							addFns[fn] = append(addFns[fn], as)
						}
					}
				}
				return true
			})
		}
		c.WhoMay("C03.R4", "add a pod to the processed-DEL set", addFns, map[string]string{eniPkg + ".CRDV2.Release": "CNI DEL processed"})
		c.Floor("C03.R4", "insertions into deletedPods", 1, len(adds))
		// keyed by the request's pod UID
		if rel := p.Func(eniPkg, "CRDV2.Release"); rel != nil {
			for _, nd := range addFns[rel] {
				as := nd.(*ast.AssignStmt)
				ix := ast.Unparen(as.Lhs[0]).(*ast.IndexExpr)
				c.Check(strings.HasSuffix(exprString(ix.Index), ".PodUID"), "C03.R4", "processed-DEL set keyed by the request's pod UID", p.Pos(as), rel.Key(), "deletedPods[cni.PodUID]", exprString(ix.Index))
			}
		}
	}
	// Manager.Release callers
	mrel := p.Method(eniPkg, "Manager", "Release")
	relAllowed := map[string]string{
		daemonPkg + ".networkService.ReleaseIP": "CNI DEL behind the container-ID guard (C04.R3)",
		daemonPkg + ".networkService.AllocIP":   "roll-back of a failed ADD (C04.R4)",
		daemonPkg + ".networkService.gcPods":    "GC behind both absence checks (C09.R2)",
	}
	c.WhoMay("C03.R4", "call eniMgr.Release", groupCalls(p.CallsTo(nil, mrel)), relAllowed)
	c.WhoMayCallDeep("C03.R4", "call eniMgr.Release", []*types.Func{mrel}, relAllowed)
	c04R3(c)
	c09R2(c)

	// cleanRuntimeNode guards
	cr := p.Func(daemonPkg, "networkService.cleanRuntimeNode")
	if cr == nil {
		c.Unres("C03.R4", "cleanRuntimeNode", "not found")
		return
	}
	info := cr.Info()
	podExist := p.Method("pkg/k8s", "Kubernetes", "PodExist")
	var apiOK, apiErr types.Object
	for _, cs := range p.CallsTo([]*FuncInfo{cr}, podExist) {
		_, lhs := assignedFromCall(cr, cs.Call)
		if len(lhs) == 2 {
			apiOK, apiErr = lhs[0], lhs[1]
		}
	}
	finalM := p.Func("pkg/utils", "RuntimeFinalStatus")
	var finOK, finStatus, finLast types.Object
	if finalM != nil {
		for _, cs := range p.CallsTo([]*FuncInfo{cr}, finalM.Obj) {
			_, lhs := assignedFromCall(cr, cs.Call)
			if len(lhs) == 3 {
				finStatus, finLast, finOK = lhs[0], lhs[1], lhs[2]
			}
		}
	}
	param := cr.Decl.Type.Params.List[1].Names[0].Name
	for _, s := range sites {
		if s.fn != cr {
			continue
		}
		if apiOK == nil || apiErr == nil || finOK == nil || finStatus == nil || finLast == nil {
			c.Undec("C03.R4", "cleanRuntimeNode structure", p.Pos(s.node), cr.Key(), "", "PodExist / RuntimeFinalStatus results not found")
			continue
		}
		var rs *ast.RangeStmt
		for _, nd := range pathTo(cr.Decl.Body, s.node) {
			if r, ok := nd.(*ast.RangeStmt); ok && rs == nil {
				rs = r
			}
		}
		if rs == nil || rs.Key == nil {
			c.Undec("C03.R4", "cleanRuntimeNode loop", p.Pos(s.node), cr.Key(), "", "no enclosing range with a key")
			continue
		}
		uid := exprString(rs.Key)
		initial := constLit(p, apiPkg, "CNIStatusInitial")
		c.RequireF("C03.R4", "cleanRuntimeNode marks deleted only a pod verified gone", cr, s.node,
			"uid ∉ local records ∧ final status == initial ∧ older than 30s ∧ PodExist == (false, nil)", func(e *FactEngine) (*Formula, error) {
				notLocal, err := e.Expr("!"+param+".Has("+uid+")", s.node.Pos())
				if err != nil {
					return nil, err
				}
				st, err := e.Expr(finStatus.Name()+" == "+initial, s.node.Pos())
				if err != nil {
					return nil, err
				}
				old, err := e.Expr("!time.Now().Before("+finLast.Name()+".LastUpdateTime.Add(30 * time.Second))", s.node.Pos())
				if err != nil {
					return nil, err
				}
				fin := e.Cond(identFor(info, finOK))
				api := mkAnd(mkNot(e.Cond(identFor(info, apiOK))), e.eqAtom(objID(apiErr), "nil", []string{objID(apiErr)}))
				return mkAnd(notLocal, mkAnd(mkAnd(fin, st), mkAnd(old, api))), nil
			})
	}
	// the local UID set handed to cleanRuntimeNode is built from the stored records
	gc := p.Func(daemonPkg, "networkService.gcPods")
	if gc != nil {
		okSet := false
		for _, cs := range p.CallsTo([]*FuncInfo{gc}, cr.Obj) {
			if o := identObj(gc.Info(), cs.Call.Args[1]); o != nil {
				ast.Inspect(gc.Decl.Body, func(nd ast.Node) bool {
					if call, ok := nd.(*ast.CallExpr); ok {
						if sel, ok := ast.Unparen(call.Fun).(*ast.SelectorExpr); ok && sel.Sel.Name == "Insert" && identObj(gc.Info(), sel.X) == o && len(call.Args) == 1 && strings.HasSuffix(derefString(gc, call.Args[0]), ".PodInfo.PodUID") {
							okSet = true
						}
					}
					return true
				})
			}
		}
		c.Check(okSet, "C03.R4", "gcPods passes the UIDs of all stored records to cleanRuntimeNode", p.Pos(gc.Decl), gc.Key(), "uidInLocal.Insert(record.PodInfo.PodUID) for every record", "not recognised")
	}
}

// R5: the daemon side of "never unassign an owned address" is C06.R3 (shared).
func c03R5(c *Ctx) {
	c.Rule("C03.R5", "cross-reference: the local pool (non-CRD mode) disposes only unowned addresses — C06.R3")
	c06R3(c)
}

// R6: the "does anybody use this interface" count that licenses marking a whole interface
// Deleting counts every bound address (the primary address of a secondary interface is handed to
// pods like any other).
func c03R6(c *Ctx) {
	p := c.P
	c.Rule("C03.R6", "node.IPUsage counts as in use every address that has a PodID (no address is left out of the count that decides whether an interface is unused)")
	fn := p.Func(nodeCtlPkg, "IPUsage")
	if fn == nil {
		c.Unres("C03.R6", "node.IPUsage", "not found")
		return
	}
	info := fn.Info()
	rets := returnsOf(fn)
	if len(rets) == 0 || len(rets[len(rets)-1].Results) != 2 {
		c.Undec("C03.R6", "IPUsage result", p.Pos(fn.Decl), fn.Key(), "", "expected `return idle, inUse`")
		return
	}
	inUse := identObj(info, rets[len(rets)-1].Results[1])
	var loop *ast.RangeStmt
	var inc ast.Stmt
	ast.Inspect(fn.Decl.Body, func(nd ast.Node) bool {
		if rs, ok := nd.(*ast.RangeStmt); ok && loop == nil {
			loop = rs
		}
		switch t := nd.(type) {
		case *ast.IncDecStmt:
			if identObj(info, t.X) == inUse && t.Tok == token.INC {
				inc = t
			}
		case *ast.AssignStmt:
			if len(t.Lhs) == 1 && identObj(info, t.Lhs[0]) == inUse && (t.Tok == token.ADD_ASSIGN) {
				inc = t
			}
		}
		return true
	})
	if inUse == nil || loop == nil || inc == nil || loop.Value == nil {
		c.Undec("C03.R6", "IPUsage counting loop", p.Pos(fn.Decl), fn.Key(), "", "for _, v := range m { … inUse++ … } not found")
		return
	}
	v := exprString(loop.Value)
	c.RequireReached("C03.R6", "every bound address is counted as in use", fn, loop.Body, inc, v+`.PodID != ""`, nil)
	// callers decide "unused" from this count
	n := 0
	for _, cs := range p.CallsTo(p.FuncsInPkg(nodeCtlPkg), fn.Obj) {
		_ = cs
		n++
	}
	c.Floor("C03.R6", "callers of IPUsage", 1, n)
}

// R8: the teardown of a sandbox is reported under the pod UID recorded for that sandbox, not
// under the UID of whatever pod carries the name now.
func c03R8(c *Ctx) {
	p := c.P
	c.Rule("C03.R8", "ReleaseIP hands the release (and so the 'deleted' report) the UID stored with the sandbox being torn down whenever the record has one; the API server's answer for the pod name is only a fallback")
	rel := p.Func(daemonPkg, "networkService.ReleaseIP")
	relM := p.Method(eniPkg, "Manager", "Release")
	if rel == nil || relM == nil {
		c.Unres("C03.R8", "ReleaseIP / Manager.Release", "not found")
		return
	}
	info := rel.Info()
	var rec string
	ast.Inspect(rel.Decl.Body, func(nd ast.Node) bool {
		if as, ok := nd.(*ast.AssignStmt); ok && len(as.Rhs) == 1 && len(as.Lhs) == 2 && rec == "" {
			if call, ok := as.Rhs[0].(*ast.CallExpr); ok && lastSeg(calleeName(info, call)) == "getPodResource" {
				rec = exprString(as.Lhs[0])
			}
		}
		return true
	})
	n := 0
	for _, cs := range p.CallsTo([]*FuncInfo{rel}, relM) {
		if len(cs.Call.Args) < 2 || rec == "" {
			c.Undec("C03.R8", "release carries the recorded UID", p.Pos(cs.Call), rel.Key(), "", "stored record / request argument not recognised")
			continue
		}
		n++
		cni := exprString(cs.Call.Args[1])
		c.Require("C03.R8", "release carries the recorded UID", rel, cs.Call,
			rec+".PodInfo == nil || "+rec+`.PodInfo.PodUID == "" || `+cni+".PodUID == "+rec+".PodInfo.PodUID", nil)
	}
	c.Floor("C03.R8", "eniMgr.Release calls in ReleaseIP", 1, n)
}
