package main

// C12 — every ADD yields a complete, self-consistent network configuration.

import (
	"fmt"
	"go/ast"
	"go/constant"
	"go/token"
	"go/types"
	"sort"
	"strings"
)

func init() { registry["C12"] = c12 }

const pluginPkg = "plugin/terway"

func c12(c *Ctx) {
	if c.P.Pkg(daemonPkg) == nil || c.P.Pkg(pluginPkg) == nil {
		c.Unres("C12", daemonPkg+" / "+pluginPkg, "package not loaded")
		return
	}
	c12R1(c)
	c12R2(c)
	c12R3(c)
	c12R4(c)
	c12R5(c)
	var fns []*FuncInfo
	for _, pk := range []string{eniPkg, daemonPkg, "types/daemon", "types", pluginPkg, "rpc"} {
		fns = append(fns, c.P.FuncsInPkg(pk)...)
	}
	c12R7(c)
	itemIndependent(c, "C14.R8", [][3]string{{eniPkg, "RemoteIPResource.ToRPC", "one configuration (with its own gateway) per allocation"}})
	// an address handed out belongs to the interface it is reported with: the sets of a deleted
	// interface are emptied for both families (shared rule)
	c01R11(c)
	ruleMakeThenAppend(c, "C12.R6", fns, "configuration entries (routes, addresses, interfaces) handed from the daemon to the plugin")
	c12R8(c)
	// shared: the plugin takes the default-route flag from the daemon as it is (C13.R14)
	c13R14(c)
	ruleRoleMismatch(c, "C12.R9", "the whole module (gateway, mask, address and CIDR travel as strings through the factories)")
}

func c12R1(c *Ctx) {
	p := c.P
	c.Rule("C12.R1", "default-route normalisation: AllocIP passes defaultForNetConf (and fails on its error) before the record is written; defaultForNetConf scans EVERY configuration, rejects a second default route and a missing primary interface, and defaults exactly one primary interface when none asked for the route")
	alloc := p.Func(daemonPkg, "networkService.AllocIP")
	dfn := p.Func(daemonPkg, "defaultForNetConf")
	if alloc == nil || dfn == nil {
		c.Unres("C12.R1", "AllocIP / defaultForNetConf", "not found")
		return
	}
	putM := p.Method(storagePkg, "Storage", "Put")
	q := NewPathQuery(p, alloc, nil)
	for _, cs := range p.CallsTo([]*FuncInfo{alloc}, putM) {
		w := q.Escapes(nil, isExactly(cs.Call), q.callTo(dfn.Obj), nil)
		c.Check(w == nil, "C12.R1", "AllocIP normalises the default route before storing / replying", p.Pos(cs.Call), alloc.Key(), "must-pass: defaultForNetConf → resourceDB.Put", "path: "+p.describePath(w))
	}
	for _, cs := range p.CallsTo([]*FuncInfo{alloc}, dfn.Obj) {
		_, lhs := assignedFromCall(alloc, cs.Call)
		ok := false
		if len(lhs) == 1 && lhs[0] != nil {
			if arm := errArm(alloc, lhs[0], cs.Call.End()); arm != nil && len(arm.Body.List) > 0 {
				_, ok = arm.Body.List[len(arm.Body.List)-1].(*ast.ReturnStmt)
			}
		}
		c.Check(ok, "C12.R1", "AllocIP fails when the configuration set is inconsistent", p.Pos(cs.Call), alloc.Key(), "err = defaultForNetConf(netConf); if err != nil { return … }", "error not tested")
		// the normalised slice is the one replied and marshalled
		arg := identObj(alloc.Info(), cs.Call.Args[0])
		nc := p.Field("rpc", "AllocIPReply", "NetConfs")
		same := false
		for _, s := range p.StoresTo([]*FuncInfo{alloc}, nc) {
			if s.RHS != nil && identObj(alloc.Info(), s.RHS) == arg {
				same = true
			}
		}
		c.Check(same && arg != nil, "C12.R1", "the normalised configurations are the ones replied", p.Pos(cs.Call), alloc.Key(), "reply.NetConfs = <the slice passed to defaultForNetConf>", "different variable")
	}
	info := dfn.Info()
	param := info.Defs[dfn.Decl.Type.Params.List[0].Names[0]]
	// loops over the parameter
	var loops []ast.Stmt
	for _, s := range dfn.Decl.Body.List {
		switch t := s.(type) {
		case *ast.ForStmt:
			if t.Cond != nil && strings.Contains(exprString(t.Cond), "len("+param.Name()+")") {
				loops = append(loops, t)
			}
		case *ast.RangeStmt:
			if identObj(info, t.X) == param {
				loops = append(loops, t)
			}
		}
	}
	// the validating loop: contains the duplicate-route error return
	var vloop ast.Stmt
	var dupRet *ast.ReturnStmt
	for _, l := range loops {
		ast.Inspect(l, func(nd ast.Node) bool {
			if r, ok := nd.(*ast.ReturnStmt); ok && len(r.Results) == 1 && !info.Types[ast.Unparen(r.Results[0])].IsNil() && vloop == nil {
				vloop, dupRet = l, r
			}
			return true
		})
	}
	if vloop == nil {
		c.Bad("C12.R1", "defaultForNetConf validates in a loop over all configurations", p.Pos(dfn.Decl), dfn.Key(), "loop over netConf containing the duplicate-default-route error", "not found")
		return
	}
	// complete scan: no break / continue / nil-return / goto inside the validating loop
	var early []string
	ast.Inspect(vloop, func(nd ast.Node) bool {
		switch t := nd.(type) {
		case *ast.BranchStmt:
			early = append(early, t.Tok.String()+" at "+p.Pos(t))
		case *ast.ReturnStmt:
			if len(t.Results) == 1 && info.Types[ast.Unparen(t.Results[0])].IsNil() {
				early = append(early, "return nil at "+p.Pos(t))
			}
		}
		return true
	})
	c.Check(len(early) == 0, "C12.R1", "defaultForNetConf inspects every configuration", p.Pos(vloop), dfn.Key(), "the validating loop has no early exit other than the error return", strings.Join(early, ", "))
	if fs, ok := vloop.(*ast.ForStmt); ok {
		okBounds := fs.Init != nil && strings.HasSuffix(exprString2(fs.Init), "0") && strings.Contains(exprString(fs.Cond), "< len("+param.Name()+")") && fs.Post != nil
		if inc, ok := fs.Post.(*ast.IncDecStmt); !ok || inc.Tok != token.INC {
			okBounds = false
		}
		c.Check(okBounds, "C12.R1", "validating loop runs from 0 to len", p.Pos(fs), dfn.Key(), "for i := 0; i < len(netConf); i++", "bounds not of that form")
	}
	// the flag tested in the duplicate check
	var seenFlag types.Object
	for _, nd := range pathTo(dfn.Decl.Body, dupRet) {
		if is, ok := nd.(*ast.IfStmt); ok {
			ast.Inspect(is.Cond, func(k ast.Node) bool {
				if id, ok := k.(*ast.Ident); ok {
					if o, ok := info.ObjectOf(id).(*types.Var); ok && !o.IsField() {
						if b, ok := o.Type().Underlying().(*types.Basic); ok && b.Kind() == types.Bool {
							seenFlag = o
						}
					}
				}
				return true
			})
		}
	}
	if seenFlag == nil {
		c.Bad("C12.R1", "duplicate default route detected with a seen-flag", p.Pos(dupRet), dfn.Key(), "if conf.DefaultRoute && seen { return error }", "no bool flag in the condition")
		return
	}
	elem := func(nd ast.Node) string { // the element expression used near nd
		s := ""
		ast.Inspect(vloop, func(k ast.Node) bool {
			if ix, ok := k.(*ast.IndexExpr); ok && identObj(info, ix.X) == param && s == "" {
				s = exprString(ix)
			}
			return true
		})
		if rs, ok := vloop.(*ast.RangeStmt); ok && rs.Value != nil {
			s = exprString(rs.Value)
		}
		return s
	}(dupRet)
	c.Require("C12.R1", "second default route is rejected", dfn, dupRet, elem+".DefaultRoute && "+seenFlag.Name(), nil)
	// the flag accumulates: after every completed iteration, an element that asks for the default
	// route has been counted
	for _, d := range varDefs(dfn, seenFlag) {
		if d.tok == token.DEFINE {
			okInit := d.rhs != nil && info.Types[d.rhs].Value != nil && !constant.BoolVal(info.Types[d.rhs].Value)
			c.Check(okInit, "C12.R1", "seen-flag starts false", p.Pos(d.node), dfn.Key(), seenFlag.Name()+" := false", exprString2(d.node))
		}
	}
	c.RequireAtEnd("C12.R1", "seen-flag accumulates every default route", dfn, loopBody(vloop), "!"+elem+".DefaultRoute || "+seenFlag.Name(), nil)
	okAcc := true
	_ = okAcc
	// missing primary interface is an error
	okIf := false
	for _, s := range dfn.Decl.Body.List {
		if is, ok := s.(*ast.IfStmt); ok && is.Pos() > vloop.End() {
			if ue, ok := ast.Unparen(is.Cond).(*ast.UnaryExpr); ok && ue.Op == token.NOT && len(is.Body.List) == 1 {
				if r, ok := is.Body.List[0].(*ast.ReturnStmt); ok && !info.Types[ast.Unparen(r.Results[0])].IsNil() {
					if o := identObj(info, ue.X); o != nil && o != seenFlag {
						// the flag is set from defaultIf(IfName) in the validating loop
						for _, d := range varDefs(dfn, o) {
							if d.rhs != nil && info.Types[d.rhs].Value != nil && constant.BoolVal(info.Types[d.rhs].Value) && d.node.Pos() > vloop.Pos() && d.node.End() < vloop.End() {
								okIf = true
							}
						}
					}
				}
			}
		}
	}
	c.Check(okIf, "C12.R1", "a configuration set without the primary interface is rejected", p.Pos(dfn.Decl), dfn.Key(), "if !primarySeen { return error } after the scan", "not recognised")
	// defaulting store
	dr := p.Field("rpc", "NetConf", "DefaultRoute")
	n := 0
	for _, s := range p.StoresTo([]*FuncInfo{dfn}, dr) {
		n++
		base := exprString(s.LHS.(*ast.SelectorExpr).X)
		eth0 := constLit(p, daemonPkg, "IfEth0")
		c.Require("C12.R1", "default route is defaulted only when nobody asked for it, onto a primary interface", dfn, s.Node, fmt.Sprintf(`!%s && (%s.IfName == "" || %s.IfName == %s)`, seenFlag.Name(), base, base, eth0), nil)
		tv := info.Types[s.RHS]
		c.Check(tv.Value != nil && constant.BoolVal(tv.Value), "C12.R1", "defaulting sets the flag", p.Pos(s.Node), dfn.Key(), "DefaultRoute = true", exprString(s.RHS))
		q2 := NewPathQuery(p, dfn, nil)
		w := q2.Escapes(isExactly(s.Node), isExactly(s.Node), nil, nil)
		c.Check(w == nil, "C12.R1", "exactly one interface is defaulted", p.Pos(s.Node), dfn.Key(), "the defaulting store is followed by break", "path: "+p.describePath(w))
	}
	c.Floor("C12.R1", "defaulting stores", 1, n)
}

func loopBody(s ast.Stmt) *ast.BlockStmt {
	switch t := s.(type) {
	case *ast.ForStmt:
		return t.Body
	case *ast.RangeStmt:
		return t.Body
	}
	return nil
}

func c12R2(c *Ctx) {
	p := c.P
	c.Rule("C12.R2", "the gateway reported for a family is derived (DeriveGatewayIP) from the very CIDR reported as that family's subnet; a configuration with an address but without subnet or gateway is not emitted")
	derive := p.Func("pkg/ip", "DeriveGatewayIP")
	if derive == nil {
		c.Unres("C12.R2", "ip.DeriveGatewayIP", "not found")
		return
	}
	sites := p.CallsTo(p.FuncsInPkg(eniPkg), derive.Obj)
	c.Floor("C12.R2", "DeriveGatewayIP call sites in pkg/eni", 4, len(sites))
	for _, cs := range sites {
		fn := cs.Fn
		info := fn.Info()
		x := cs.Call.Args[0]
		xs := exprString(x)
		fam := ""
		if strings.Contains(xs, "IPv4") {
			fam = "IPv4"
		} else if strings.Contains(xs, "IPv6") {
			fam = "IPv6"
		}
		// enclosing block
		var blk *ast.BlockStmt
		var stmt ast.Stmt
		path := pathTo(fn.Decl.Body, cs.Call)
		for i, nd := range path {
			if b, ok := nd.(*ast.BlockStmt); ok {
				blk = b
				if i+1 < len(path) {
					stmt, _ = path[i+1].(ast.Stmt)
				}
			}
		}
		key := fmt.Sprintf("%s: gateway from %s", fn.Key(), xs)
		if blk == nil || fam == "" {
			c.Undec("C12.R2", key, p.Pos(cs.Call), fn.Key(), "", "family of the CIDR expression not recognisable")
			continue
		}
		// the gateway statement targets the same family (through one temporary, if any)
		tgt := exprString2(stmt)
		if as, ok := stmt.(*ast.AssignStmt); ok {
			tgt = exprString(as.Lhs[0])
			if tmp := identObj(info, as.Lhs[0]); tmp != nil {
				if v, isVar := tmp.(*types.Var); isVar && !v.IsField() {
					ast.Inspect(fn.Decl.Body, func(k ast.Node) bool {
						a2, ok := k.(*ast.AssignStmt)
						if !ok || len(a2.Lhs) != len(a2.Rhs) {
							return true
						}
						for i, r := range a2.Rhs {
							if identObj(info, r) == tmp {
								if _, plain := ast.Unparen(a2.Lhs[i]).(*ast.Ident); !plain {
									tgt = exprString(a2.Lhs[i])
								}
							}
						}
						return true
					})
				}
			}
		}
		roots := map[types.Object]bool{}
		addRoot := func(x ast.Expr) {
			if sel, ok := ast.Unparen(x).(*ast.SelectorExpr); ok {
				if v, ok := identObj(info, sel.X).(*types.Var); ok && !v.IsField() {
					if _, isStruct := v.Type().Underlying().(*types.Struct); isStruct {
						roots[v] = true
					}
				}
			}
		}
		if as, ok := stmt.(*ast.AssignStmt); ok {
			addRoot(as.Lhs[0])
		}
		famOK := !strings.Contains(tgt, "IPv4") && !strings.Contains(tgt, "IPv6") || strings.Contains(tgt, fam)
		// a statement of an enclosing block reports the same CIDR expression as the subnet
		sib := false
		for i, nd := range path {
			b, ok := nd.(*ast.BlockStmt)
			if !ok || i+1 >= len(path) {
				continue
			}
			for _, s := range b.List {
				if ast.Node(s) == path[i+1] {
					continue
				}
				if as, ok := s.(*ast.AssignStmt); ok {
					if len(as.Lhs) == len(as.Rhs) {
						for k, r := range as.Rhs {
							if exprString(r) == xs && strings.Contains(exprString(as.Lhs[k]), fam) {
								sib = true
								addRoot(as.Lhs[k])
							}
						}
					}
					if strings.Contains(exprString2(s), "ParseCIDR("+xs+")") {
						sib = true
					}
				}
				if es, ok := s.(*ast.ExprStmt); ok && strings.Contains(exprString(es.X), "SetIPNet("+xs+")") {
					sib = true
				}
			}
		}
		// family guard of the block (getTrunkENI: if EnableIPvN)
		c.Check(famOK && sib, "C12.R2", key, p.Pos(cs.Call), fn.Key(), "gateway."+fam+" = DeriveGatewayIP(X) next to subnet."+fam+" = X (same expression X, same family)", fmt.Sprintf("target=%s familyOK=%v subnetSibling=%v", tgt, famOK, sib))
		// the local aggregates that receive the derived gateway / the parsed subnet have no other
		// source: apart from the empty value they start from, they are filled field by field
		for _, root := range sortedObjs(roots) {
			for _, d := range varDefs(fn, root) {
				if d.rhs == nil {
					if _, isDecl := d.node.(*ast.ValueSpec); isDecl {
						continue
					}
				} else if cl, ok := ast.Unparen(d.rhs).(*ast.CompositeLit); ok && len(cl.Elts) == 0 {
					continue
				}
				c.Bad("C12.R2", fn.Key()+": "+root.Name()+" is filled only from the record's CIDR", p.Pos(d.node), fn.Key(),
					"the aggregate starts empty and is filled per family from DeriveGatewayIP / ParseCIDR of the record's CIDR", "also assigned as a whole at "+p.Pos(d.node))
			}
		}
	}
	// RemoteIPResource.ToRPC: no configuration with an address but an empty subnet / gateway
	fn := p.Func(eniPkg, "RemoteIPResource.ToRPC")
	if fn == nil {
		c.Unres("C12.R2", "RemoteIPResource.ToRPC", "not found")
		return
	}
	info := fn.Info()
	n := 0
	ast.Inspect(fn.Decl.Body, func(nd ast.Node) bool {
		as, ok := nd.(*ast.AssignStmt)
		if !ok || len(as.Rhs) != 1 {
			return true
		}
		call, ok := isBuiltinCall(info, as.Rhs[0], "append")
		if !ok || len(call.Args) != 2 || !typeIs(info.TypeOf(call.Args[1]), modPath+"/rpc", "NetConf") {
			return true
		}
		n++
		// the literal uses podIP / cidr / gw variables: find them
		vars := map[string]string{}
		ast.Inspect(call.Args[1], func(k ast.Node) bool {
			if kv, ok := k.(*ast.KeyValueExpr); ok {
				switch exprString(kv.Key) {
				case "PodIP", "PodCIDR", "GatewayIP":
					vars[exprString(kv.Key)] = exprString(kv.Value)
				}
			}
			return true
		})
		if len(vars) != 3 {
			c.Undec("C12.R2", "ToRPC configuration literal", p.Pos(as), fn.Key(), "", "BasicInfo{PodIP, PodCIDR, GatewayIP} not found")
			return true
		}
		for _, fam := range []string{"IPv4", "IPv6"} {
			c.Require("C12.R2", "ToRPC emits "+fam+" only with subnet and gateway", fn, as,
				fmt.Sprintf(`%[1]s.%[4]s == "" || (%[2]s.%[4]s != "" && %[3]s.%[4]s != "")`, vars["PodIP"], vars["PodCIDR"], vars["GatewayIP"], fam), nil)
		}
		return true
	})
	c.Floor("C12.R2", "configuration emission sites in RemoteIPResource.ToRPC", 1, n)
	// DeriveGatewayIP: third-from-last (constant −3) and "" for nil  (also C14.R4)
	c14R4(c, "C12.R2")
}

func c12R3(c *Ctx) {
	p := c.P
	c.Rule("C12.R3", "the datapath is a pure function of IP type, VLAN-strip mode and trunking, total over the declared IP types; ADD and CHECK pass the daemon's trunk flag unmodified (sibling agreement), DEL passes false")
	fn := p.Func(pluginPkg, "getDatePath")
	if fn == nil {
		c.Unres("C12.R3", "getDatePath", "not found")
		return
	}
	info := fn.Info()
	params := map[types.Object]bool{}
	for _, fld := range fn.Decl.Type.Params.List {
		for _, nm := range fld.Names {
			params[info.Defs[nm]] = true
		}
	}
	var impure []string
	ast.Inspect(fn.Decl.Body, func(nd ast.Node) bool {
		id, ok := nd.(*ast.Ident)
		if !ok {
			return true
		}
		switch o := info.ObjectOf(id).(type) {
		case *types.Var:
			if !params[o] && !o.IsField() {
				impure = append(impure, id.Name)
			}
		case *types.Func:
			if o.Pkg() != nil && o.Pkg().Path() != "fmt" {
				impure = append(impure, id.Name+"()")
			}
		}
		return true
	})
	c.Check(len(impure) == 0, "C12.R3", "getDatePath reads only its parameters and constants", p.Pos(fn.Decl), fn.Key(), "no package variable, no call besides fmt", strings.Join(impure, ","))
	// exhaustive switch over rpc.IPType
	ipType := p.LookupObj("rpc", "IPType")
	var all []string
	if ipType != nil {
		sc := ipType.Pkg().Scope()
		for _, nm := range sc.Names() {
			if cst, ok := sc.Lookup(nm).(*types.Const); ok && types.Identical(cst.Type(), ipType.Type()) {
				all = append(all, nm)
			}
		}
	}
	covered := map[string]bool{}
	ast.Inspect(fn.Decl.Body, func(nd ast.Node) bool {
		if sw, ok := nd.(*ast.SwitchStmt); ok && sw.Tag != nil && types.Identical(info.TypeOf(sw.Tag), ipType.Type()) {
			for _, cl := range sw.Body.List {
				for _, x := range cl.(*ast.CaseClause).List {
					if o := identObjSel(info, x); o != nil {
						covered[o.Name()] = true
					}
				}
			}
		}
		// the if-chain form: ipType == rpc.IPType_X
		if be, ok := nd.(*ast.BinaryExpr); ok && be.Op == token.EQL {
			for _, side := range []ast.Expr{be.X, be.Y} {
				if o, ok := identObjSel(info, side).(*types.Const); ok && types.Identical(o.Type(), ipType.Type()) {
					covered[o.Name()] = true
				}
			}
		}
		return true
	})
	var missing []string
	for _, a := range all {
		if !covered[a] {
			missing = append(missing, a)
		}
	}
	c.Check(len(all) >= 3 && len(missing) == 0, "C12.R3", "getDatePath covers every declared IP type", p.Pos(fn.Decl), fn.Key(), "switch cases ⊇ "+strings.Join(all, ","), "missing: "+strings.Join(missing, ","))
	c.Floor("C12.R3", "declared rpc.IPType constants", 3, len(all))
	// each return yields a DataPath constant
	for _, r := range declReturns(fn.Decl.Body) {
		o := identObjSel(info, r.Results[0])
		_, isConst := o.(*types.Const)
		c.Check(isConst, "C12.R3", "getDatePath returns a declared datapath", p.Pos(r), fn.Key(), "return types.<DataPath constant>", exprString(r.Results[0]))
	}
	// callers: trunk argument provenance
	for _, spec := range []struct {
		fn   string
		want string
	}{{"parseSetupConf", "GetTrunk"}, {"parseCheckConf", "GetTrunk"}, {"parseTearDownConf", "false"}} {
		caller := p.Func(pluginPkg, spec.fn)
		if caller == nil {
			c.Unres("C12.R3", spec.fn, "not found")
			continue
		}
		cinfo := caller.Info()
		for _, cs := range p.CallsTo([]*FuncInfo{caller}, fn.Obj) {
			arg := cs.Call.Args[2]
			ok := false
			detail := exprString(arg)
			if spec.want == "false" {
				tv := cinfo.Types[arg]
				ok = tv.Value != nil && !constant.BoolVal(tv.Value)
			} else if o := identObj(cinfo, arg); o != nil {
				ok = true
				for _, d := range varDefs(caller, o) {
					if d.rhs == nil {
						continue // var declaration (zero value)
					}
					src := exprString(d.rhs)
					if !(strings.HasSuffix(src, ".GetENIInfo().GetTrunk()")) {
						ok = false
						detail = "trunk flag defined as " + src
					}
				}
			}
			c.Check(ok, "C12.R3", spec.fn+" passes the daemon's trunk flag to the selector", p.Pos(cs.Call), caller.Key(), "trunk = alloc.GetENIInfo().GetTrunk() (unmodified)", detail)
			// ip type and strip type arguments are the function's own inputs
			ok2 := identObj(cinfo, cs.Call.Args[0]) != nil && strings.HasSuffix(exprString(cs.Call.Args[1]), ".VlanStripType")
			c.Check(ok2, "C12.R3", spec.fn+" passes the IP type and the configured VLAN-strip mode", p.Pos(cs.Call), caller.Key(), "getDatePath(ipType, conf.VlanStripType, …)", exprString(cs.Call.Args[0])+", "+exprString(cs.Call.Args[1]))
		}
	}
}

func c12R4(c *Ctx) {
	p := c.P
	c.Rule("C12.R4", "field agreement between the daemon (writer) and the plugin (reader) of the RPC configuration: every field the plugin's parsers read is written by some daemon constructor, and every written field is read")
	rpcPkg := p.All[modPath+"/rpc"]
	if rpcPkg == nil {
		c.Unres("C12.R4", "rpc package", "not loaded")
		return
	}
	typesOfInterest := []string{"NetConf", "BasicInfo", "ENIInfo", "Pod"}
	written := map[string]bool{}
	read := map[string]bool{}
	for _, tn := range typesOfInterest {
		o := p.LookupObj("rpc", tn)
		if o == nil {
			c.Unres("C12.R4", "rpc."+tn, "not found")
			continue
		}
		st := o.Type().Underlying().(*types.Struct)
		for i := 0; i < st.NumFields(); i++ {
			f := st.Field(i)
			if !f.Exported() {
				continue
			}
			for _, s := range p.StoresTo(nil, f) {
				if strings.HasPrefix(s.Fn.Pkg.PkgPath, modPath+"/pkg/eni") || strings.HasPrefix(s.Fn.Pkg.PkgPath, modPath+"/daemon") {
					// nil / zero stores are not "written"
					if s.RHS != nil {
						tv := s.Fn.Info().Types[ast.Unparen(s.RHS)]
						if tv.IsNil() {
							continue
						}
					}
					written[tn+"."+f.Name()] = true
				}
			}
		}
	}
	for _, fn := range p.FuncsInPkg(pluginPkg) {
		info := fn.Info()
		ast.Inspect(fn.Decl.Body, func(nd ast.Node) bool {
			switch t := nd.(type) {
			case *ast.CallExpr:
				if cal := Callee(info, t); cal != nil && strings.HasPrefix(cal.Name(), "Get") {
					if sig := cal.Type().(*types.Signature); sig.Recv() != nil {
						if n := derefNamed(sig.Recv().Type()); n != nil && n.Obj().Pkg() != nil && n.Obj().Pkg().Path() == modPath+"/rpc" {
							read[n.Obj().Name()+"."+strings.TrimPrefix(cal.Name(), "Get")] = true
						}
					}
				}
			case *ast.SelectorExpr:
				if fv := fieldOf(info, t); fv != nil && fv.Pkg() != nil && fv.Pkg().Path() == modPath+"/rpc" {
					if n := derefNamed(info.TypeOf(t.X)); n != nil {
						read[n.Obj().Name()+"."+fv.Name()] = true
					}
				}
			}
			return true
		})
	}
	// the daemon itself reads a few fields when it re-syncs rules from the stored configuration
	for _, fn := range p.FuncsInPkg(daemonPkg) {
		info := fn.Info()
		ast.Inspect(fn.Decl.Body, func(nd ast.Node) bool {
			if t, ok := nd.(*ast.SelectorExpr); ok {
				if fv := fieldOf(info, t); fv != nil && fv.Pkg() != nil && fv.Pkg().Path() == modPath+"/rpc" {
					if n := derefNamed(info.TypeOf(t.X)); n != nil {
						read[n.Obj().Name()+"."+fv.Name()] = true
					}
				}
			}
			return true
		})
	}
	interesting := func(k string) bool {
		for _, tn := range typesOfInterest {
			if strings.HasPrefix(k, tn+".") {
				return true
			}
		}
		return false
	}
	var rs, ws []string
	for k := range read {
		if interesting(k) {
			rs = append(rs, k)
		}
	}
	for k := range written {
		ws = append(ws, k)
	}
	sort.Strings(rs)
	sort.Strings(ws)
	for _, k := range rs {
		c.Check(written[k], "C12.R4", "read ⇒ written: "+k, "", pluginPkg, "some daemon constructor sets "+k, "the plugin reads a field the daemon never sets")
	}
	readExceptions := map[string]string{
		"ENIInfo.Vid": "consumed by the datapath drivers through SetupConfig.Vid",
	}
	for _, k := range ws {
		if _, ok := readExceptions[k]; ok && !read[k] {
			c.OK("C12.R4", "written ⇒ read: "+k+" (listed exception)", "", "", readExceptions[k])
			continue
		}
		c.Check(read[k], "C12.R4", "written ⇒ read: "+k, "", daemonPkg, "some parser of the plugin (or the daemon's rule re-sync) reads "+k, "the daemon sends a field nobody recovers")
	}
	c.Floor("C12.R4", "configuration fields read by the plugin", 10, len(rs))
	c.Floor("C12.R4", "configuration fields written by the daemon", 10, len(ws))
}

func c12R5(c *Ctx) {
	p := c.P
	c.Rule("C12.R5", "runtime bandwidth overrides are converted from bits to bytes (÷ 8) for both directions, each direction from its own rate")
	fn := p.Func(pluginPkg, "parseSetupConf")
	if fn == nil {
		c.Unres("C12.R5", "parseSetupConf", "not found")
		return
	}
	info := fn.Info()
	got := map[string]bool{}
	ast.Inspect(fn.Decl.Body, func(nd ast.Node) bool {
		as, ok := nd.(*ast.AssignStmt)
		if !ok || len(as.Lhs) != 1 || len(as.Rhs) != 1 {
			return true
		}
		src := derefString(fn, as.Rhs[0])
		if !strings.Contains(src, ".Bandwidth.") || isPurePath(as.Rhs[0]) {
			return true // (a plain copy of the rate into a local is seen through, not judged)
		}
		lhs := exprString(as.Lhs[0])
		dir := ""
		if strings.Contains(src, "EgressRate") {
			dir = "egress"
		} else if strings.Contains(src, "IngressRate") {
			dir = "ingress"
		}
		// find the division constant
		div := int64(0)
		ast.Inspect(as.Rhs[0], func(k ast.Node) bool {
			if be, ok := k.(*ast.BinaryExpr); ok && be.Op == token.QUO {
				if tv := info.Types[be.Y]; tv.Value != nil {
					div, _ = constant.Int64Val(constant.ToInt(tv.Value))
				}
			}
			return true
		})
		ok2 := dir != "" && lhs == dir && div == 8
		c.Check(ok2, "C12.R5", "runtime "+dir+" override", p.Pos(as), fn.Key(), dir+" = uint64(RuntimeConfig.Bandwidth."+strings.Title(dir)+"Rate / 8)", fmt.Sprintf("%s = %s (divisor %d)", lhs, src, div))
		if ok2 {
			got[dir] = true
		}
		return true
	})
	c.Check(got["egress"] && got["ingress"], "C12.R5", "both directions have an override", p.Pos(fn.Decl), fn.Key(), "egress and ingress", fmt.Sprintf("%v", got))
	// precedence: the runtime's value is the last word — a limit variable is not assigned from the
	// daemon's answer after it took the runtime's override
	q := NewPathQuery(p, fn, nil)
	n := 0
	ast.Inspect(fn.Decl.Body, func(nd ast.Node) bool {
		as, ok := nd.(*ast.AssignStmt)
		if !ok || len(as.Lhs) != 1 || len(as.Rhs) != 1 || !strings.Contains(derefString(fn, as.Rhs[0]), ".Bandwidth.") || isPurePath(as.Rhs[0]) {
			return true
		}
		v := identObj(info, as.Lhs[0])
		if v == nil {
			return true
		}
		n++
		var w []ast.Node
		for _, d := range varDefs(fn, v) {
			if d.node == ast.Node(as) || d.rhs == nil || strings.Contains(derefString(fn, d.rhs), ".Bandwidth.") {
				continue
			}
			if w == nil {
				w = q.Escapes(isExactly(as), isExactly(d.node), nil, nil)
			}
		}
		c.Check(w == nil, "C12.R5", "the runtime override of "+v.Name()+" is not overwritten afterwards", p.Pos(as), fn.Key(), "never-before: runtime override → another assignment of "+v.Name(), "path: "+p.describePath(w))
		return true
	})
	c.Floor("C12.R5", "runtime overrides", 2, n)
}

func sortedObjs(m map[types.Object]bool) []types.Object {
	var out []types.Object
	for o := range m {
		out = append(out, o)
	}
	sort.Slice(out, func(i, j int) bool { return out[i].Pos() < out[j].Pos() })
	return out
}

// R7: the interface description is complete or absent. ENIMetadata.GetENIByMac
// reads id, primary address, gateway and subnet (per family) from the metadata
// service; an error of any of these reads makes it fail — with the error
// non-nil (followed through copies) no exit reports success. An interface
// adopted with a subnet but without that subnet's gateway would make every
// later ADD served from it return an address with no gateway.
func c12R7(c *Ctx) {
	p := c.P
	c.Rule("C12.R7", "ENIMetadata.GetENIByMac fails when any metadata read fails: with the error of a metadata getter non-nil, every exit returns a non-nil error (no read of a gateway / subnet is tolerated away, so a described interface has both for each family it carries)")
	fn := p.Func("pkg/aliyun/eni", "ENIMetadata.GetENIByMac")
	if fn == nil {
		c.Unres("C12.R7", "ENIMetadata.GetENIByMac", "not found")
		return
	}
	n := stickyErrors(c, "C12.R7", fn, func(f *types.Func) bool {
		return f.Pkg() != nil && strings.HasSuffix(f.Pkg().Path(), "pkg/aliyun/metadata")
	}, "metadata read")
	c.Floor("C12.R7", "metadata reads in GetENIByMac", 5, n)
}

// stickyErrors: for every call in fn selected by pick whose last result is an error bound to a
// variable, with that error forced non-nil every exit of fn returns a non-nil error.
func stickyErrors(c *Ctx, rule string, fn *FuncInfo, pick func(*types.Func) bool, what string) int {
	p := c.P
	info := fn.Info()
	sig := fn.Obj.Type().(*types.Signature)
	ei := errResultIndex(sig)
	if ei < 0 {
		return 0
	}
	var errVars []types.Object
	seenE := map[types.Object]bool{}
	ast.Inspect(fn.Decl, func(k ast.Node) bool {
		if id, ok := k.(*ast.Ident); ok {
			if v, ok := info.ObjectOf(id).(*types.Var); ok && !v.IsField() && !seenE[v] && v.Type().String() == "error" && len(errVars) < 14 {
				seenE[v] = true
				errVars = append(errVars, v)
			}
		}
		return true
	})
	n := 0
	for _, cs := range p.CallsIn(fn) {
		if cs.Callee == nil || cs.Lit != nil || !pick(cs.Callee) {
			continue
		}
		csig, _ := cs.Callee.Type().(*types.Signature)
		if csig == nil || errResultIndex(csig) < 0 {
			continue
		}
		as, lhs := assignedFromCall(fn, cs.Call)
		if as == nil || len(lhs) == 0 || lhs[len(lhs)-1] == nil {
			if _, isRet := parentStmt(fn, cs.Call).(*ast.ReturnStmt); isRet {
				continue // forwarded as the function's own result
			}
			n++
			c.Bad(rule, fn.Name+": the error of the "+what+" "+cs.Callee.Name()+" is bound", p.Pos(cs.Call), fn.Key(), "x, err := …", "error discarded")
			continue
		}
		n++
		errObj := lhs[len(lhs)-1]
		q := NewPathQuery(p, fn, nil)
		q.TrackNils = errVars
		q.StartNil = map[types.Object]int{errObj: nilNo}
		q.ExitState = func(ret *ast.ReturnStmt, st int) bool {
			var x types.Object
			switch {
			case len(ret.Results) == 0:
				x = sig.Results().At(ei)
			case len(ret.Results) == sig.Results().Len():
				if nonNilProducer(info, ret.Results[ei]) {
					return true
				}
				x = identObj(info, ret.Results[ei])
			}
			return x != nil && q.nilStateOf(x, st) == nilNo
		}
		w := q.Escapes(isExactly(as), nil, nil, nil)
		c.Check(w == nil, rule, fn.Name+": a failed "+what+" "+cs.Callee.Name()+" makes the function fail", p.Pos(cs.Call), fn.Key(), "with err != nil after the call every exit returns a non-nil error", "path to an exit that can report success: "+p.describePath(w))
	}
	return n
}

func parentStmt(fn *FuncInfo, n ast.Node) ast.Stmt {
	var st ast.Stmt
	for _, x := range pathTo(fn.Decl.Body, n) {
		if s, ok := x.(ast.Stmt); ok {
			if _, isBlock := s.(*ast.BlockStmt); !isBlock {
				st = s
			}
		}
	}
	return st
}

// R8: the plugin recovers exactly the daemon's extra routes. In parseSetupConf every route of the
// allocation is appended to the configuration unless the function fails; nothing skips an entry.
func c12R8(c *Ctx) {
	p := c.P
	c.Rule("C12.R8", "parseSetupConf: every extra route the daemon sent becomes a route of the set-up configuration (the append in the loop over the allocation's routes is reached in every iteration that does not fail)")
	fn := p.Func(pluginPkg, "parseSetupConf")
	if fn == nil {
		c.Unres("C12.R8", "parseSetupConf", "not found")
		return
	}
	info := fn.Info()
	n := 0
	ast.Inspect(fn.Decl.Body, func(k ast.Node) bool {
		rs, ok := k.(*ast.RangeStmt)
		if !ok {
			return true
		}
		call, ok := ast.Unparen(derefExpr(fn, rs.X)).(*ast.CallExpr)
		if !ok {
			return true
		}
		if f := Callee(info, call); f == nil || f.Name() != "GetExtraRoutes" {
			return true
		}
		n++
		var app ast.Node
		ast.Inspect(rs.Body, func(j ast.Node) bool {
			if as, ok := j.(*ast.AssignStmt); ok && len(as.Rhs) == 1 {
				if _, isApp := isBuiltinCall(info, as.Rhs[0], "append"); isApp && app == nil {
					app = as
				}
			}
			return true
		})
		if app == nil {
			c.Bad("C12.R8", "parseSetupConf: routes are collected", p.Pos(rs), fn.Key(), "routes = append(routes, …) in the loop", "no append")
			return false
		}
		c.RequireReachedF("C12.R8", "parseSetupConf: no extra route is skipped", fn, rs.Body, app, "always", func(e *FactEngine) (*Formula, error) { return fT, nil })
		return false
	})
	c.Floor("C12.R8", "loops over the allocation's extra routes", 1, n)
}
