package main

// Obligation model, evidence writer, known-findings handling.

import (
	"encoding/json"
	"fmt"
	"os"
	"path/filepath"
	"sort"
	"strings"
	"time"
)

type Verdict string

const (
	Discharged Verdict = "discharged"
	Violated   Verdict = "violated"
	Undecided  Verdict = "undecided"
	Unresolved Verdict = "unresolved"
)

// Obligation is one instantiation (property, rule, construct).
type Obligation struct {
	Property   string  `json:"property"`
	Rule       string  `json:"rule"`
	Key        string  `json:"key"` // semantic construct key (never a line number)
	Pos        string  `json:"pos,omitempty"`
	Func       string  `json:"func,omitempty"`
	Verdict    Verdict `json:"verdict"`
	Require    string  `json:"require,omitempty"`
	Detail     string  `json:"detail,omitempty"`
	NonTrivial bool    `json:"nontrivial"`
	Config     string  `json:"config,omitempty"`
}

func (o *Obligation) ID() string { return o.Rule + " " + o.Key }

type Floor struct {
	Rule  string `json:"rule"`
	What  string `json:"what"`
	Want  int    `json:"floor"`
	Found int    `json:"found"`
}

// Ctx is the state of one property check on one loaded configuration.
type Ctx struct {
	P      *Prog
	Prop   string
	Tier   string
	Obls   []*Obligation
	Floors []Floor
	Notes  []string
	Rules  map[string]string // rule id -> description
	keys   map[string]int
	Stats  map[string]int
}

func NewCtx(p *Prog, prop, tier string) *Ctx {
	return &Ctx{P: p, Prop: prop, Tier: tier, Rules: map[string]string{}, keys: map[string]int{}, Stats: map[string]int{}}
}

func (c *Ctx) Rule(id, desc string) { c.Rules[id] = desc }

func (c *Ctx) add(rule, key, pos, fn string, v Verdict, req, detail string, nontrivial bool) *Obligation {
	// make keys unique per rule by occurrence index
	k := rule + "\x00" + key
	c.keys[k]++
	if n := c.keys[k]; n > 1 {
		key = fmt.Sprintf("%s#%d", key, n)
	}
	o := &Obligation{Property: c.Prop, Rule: rule, Key: key, Pos: pos, Func: fn, Verdict: v, Require: req, Detail: detail, NonTrivial: nontrivial, Config: c.P.Config}
	c.Obls = append(c.Obls, o)
	return o
}

func (c *Ctx) OK(rule, key, pos, fn, req string) *Obligation {
	return c.add(rule, key, pos, fn, Discharged, req, "", true)
}
func (c *Ctx) Bad(rule, key, pos, fn, req, detail string) *Obligation {
	return c.add(rule, key, pos, fn, Violated, req, detail, true)
}
func (c *Ctx) Unres(rule, key, detail string) *Obligation {
	return c.add(rule, key, "", "", Unresolved, "", detail, false)
}
func (c *Ctx) Undec(rule, key, pos, fn, req, detail string) *Obligation {
	return c.add(rule, key, pos, fn, Undecided, req, detail, true)
}

// Check records discharged when ok, violated otherwise.
func (c *Ctx) Check(ok bool, rule, key, pos, fn, req, detail string) *Obligation {
	if ok {
		return c.OK(rule, key, pos, fn, req)
	}
	return c.Bad(rule, key, pos, fn, req, detail)
}

func (c *Ctx) Floor(rule, what string, want, found int) {
	c.Floors = append(c.Floors, Floor{rule, what, want, found})
}

func (c *Ctx) Note(f string, a ...any) { c.Notes = append(c.Notes, fmt.Sprintf(f, a...)) }

// ---- known findings ----

type Finding struct {
	Property string `json:"property"`
	Key      string `json:"key"`    // "<rule> <construct key>"
	Status   string `json:"status"` // known | fixed
	Commit   string `json:"commit,omitempty"`
	Text     string `json:"text"`
}

// loadFindings parses /verif/known_findings.txt. Line formats:
//
//	known: property=<id> key="<rule> <construct>" <what fails>
//	fixed: property=<id> <commit> <what failed>          (suppresses nothing)
func loadFindings(path string) ([]Finding, error) {
	b, err := os.ReadFile(path)
	if err != nil {
		if os.IsNotExist(err) {
			return nil, nil
		}
		return nil, err
	}
	var out []Finding
	for ln, line := range strings.Split(string(b), "\n") {
		line = strings.TrimSpace(line)
		if line == "" || strings.HasPrefix(line, "#") {
			continue
		}
		var f Finding
		switch {
		case strings.HasPrefix(line, "known:"):
			f.Status = "known"
			line = strings.TrimSpace(strings.TrimPrefix(line, "known:"))
		case strings.HasPrefix(line, "fixed:"):
			f.Status = "fixed"
			line = strings.TrimSpace(strings.TrimPrefix(line, "fixed:"))
		default:
			return nil, fmt.Errorf("%s:%d: line must start with known: or fixed:", path, ln+1)
		}
		if !strings.HasPrefix(line, "property=") {
			return nil, fmt.Errorf("%s:%d: missing property=", path, ln+1)
		}
		sp := strings.IndexByte(line, ' ')
		if sp < 0 {
			return nil, fmt.Errorf("%s:%d: truncated", path, ln+1)
		}
		f.Property = line[len("property="):sp]
		rest := strings.TrimSpace(line[sp:])
		if f.Status == "known" {
			if !strings.HasPrefix(rest, "key=\"") {
				return nil, fmt.Errorf("%s:%d: known entry needs key=\"...\"", path, ln+1)
			}
			rest = rest[len("key=\""):]
			q := strings.IndexByte(rest, '"')
			if q < 0 {
				return nil, fmt.Errorf("%s:%d: unterminated key", path, ln+1)
			}
			f.Key = rest[:q]
			f.Text = strings.TrimSpace(rest[q+1:])
		} else {
			f.Text = rest
		}
		out = append(out, f)
	}
	return out, nil
}

// ---- result / evidence ----

type Result struct {
	Prop       string
	Tier       string
	Seed       int
	Obls       []*Obligation
	Floors     []Floor
	Notes      []string
	Normalised string
	Expanded   []string
	ViewDiff   []string
	Rules      map[string]string
	Configs    []string
	Pkgs       int
	Funcs      int
	Stats      map[string]int
	Fatal      []string
	Insens     []string
	Mutations  int
	Start      time.Time
}

func (r *Result) merge(c *Ctx) {
	r.Obls = append(r.Obls, c.Obls...)
	r.Floors = append(r.Floors, c.Floors...)
	r.Notes = append(r.Notes, c.Notes...)
	if r.Rules == nil {
		r.Rules = map[string]string{}
	}
	for k, v := range c.Rules {
		r.Rules[k] = v
	}
	if r.Stats == nil {
		r.Stats = map[string]int{}
	}
	for k, v := range c.Stats {
		r.Stats[k] += v
	}
}

// finish prints the verdict lines, writes the evidence and violation reports
// and returns the process exit code.
func (r *Result) finish(verifDir string, findings []Finding) int {
	evDir := filepath.Join(verifDir, "evidence")
	vioDir := filepath.Join(evDir, "violations")
	os.MkdirAll(vioDir, 0o755)
	// remove stale violation reports of this property
	if old, _ := filepath.Glob(filepath.Join(vioDir, r.Prop+"-*.json")); old != nil {
		for _, f := range old {
			os.Remove(f)
		}
	}
	known := map[string]Finding{}
	for _, f := range findings {
		if f.Property == r.Prop && f.Status == "known" {
			known[f.Key] = f
		}
	}
	sort.SliceStable(r.Obls, func(i, j int) bool {
		a, b := r.Obls[i], r.Obls[j]
		if a.Rule != b.Rule {
			return a.Rule < b.Rule
		}
		return a.Key < b.Key
	})
	type vio struct {
		Kind    string      `json:"kind"`
		Obl     *Obligation `json:"obligation,omitempty"`
		Floor   *Floor      `json:"floor,omitempty"`
		Fatal   string      `json:"fatal,omitempty"`
		RuleDoc string      `json:"rule_doc,omitempty"`
	}
	var vios []vio
	discharged, nontriv := 0, 0
	distinct := map[string]bool{}
	knownHit := map[string]bool{}
	for _, o := range r.Obls {
		if o.Verdict == Discharged {
			discharged++
			if o.NonTrivial && !distinct[o.ID()] {
				distinct[o.ID()] = true
				nontriv++
			}
			continue
		}
		if kf, ok := known[o.ID()]; ok && o.Verdict == Violated {
			if !knownHit[o.ID()] {
				fmt.Printf("KNOWN-FINDING: property=%s %s — %s (%s)\n", r.Prop, o.ID(), kf.Text, o.Pos)
				knownHit[o.ID()] = true
			}
			continue
		}
		vios = append(vios, vio{Kind: string(o.Verdict), Obl: o, RuleDoc: r.Rules[o.Rule]})
	}
	for i := range r.Floors {
		f := r.Floors[i]
		if f.Found < f.Want {
			vios = append(vios, vio{Kind: "below-floor", Floor: &r.Floors[i], RuleDoc: r.Rules[f.Rule]})
		}
	}
	for _, f := range r.Fatal {
		vios = append(vios, vio{Kind: "fatal", Fatal: f})
	}
	for i, v := range vios {
		path := filepath.Join(vioDir, fmt.Sprintf("%s-%d.json", r.Prop, i+1))
		b, _ := json.MarshalIndent(v, "", " ")
		os.WriteFile(path, b, 0o644)
		switch {
		case v.Obl != nil:
			fmt.Printf("%s: [%s] %s %s in %s: require %s — %s\n", v.Obl.Pos, v.Kind, v.Obl.Rule, v.Obl.Key, v.Obl.Func, v.Obl.Require, v.Obl.Detail)
		case v.Floor != nil:
			fmt.Printf("[below-floor] %s: %s: found %d < floor %d\n", v.Floor.Rule, v.Floor.What, v.Floor.Found, v.Floor.Want)
		default:
			fmt.Printf("[fatal] %s\n", v.Fatal)
		}
		fmt.Printf("VIOLATION property=%s replay=%s\n", r.Prop, path)
	}
	// evidence
	var samples []any
	seenRule := map[string]int{}
	for _, o := range r.Obls {
		if seenRule[o.Rule] < 2 && len(samples) < 40 {
			samples = append(samples, o)
			seenRule[o.Rule]++
		}
	}
	if len(samples) == 0 {
		samples = append(samples, "no obligations generated")
	}
	var ruleDocs []string
	for k, v := range r.Rules {
		ruleDocs = append(ruleDocs, k+": "+v)
	}
	sort.Strings(ruleDocs)
	perRule := map[string][2]int{}
	for _, o := range r.Obls {
		x := perRule[o.Rule]
		x[0]++
		if o.Verdict == Discharged {
			x[1]++
		}
		perRule[o.Rule] = x
	}
	ev := map[string]any{
		"property_id": r.Prop,
		"tier":        r.Tier,
		"seed":        r.Seed,
		"level":       "other",
		"coverage": map[string]any{
			"explanation":                 "static necessary-condition analysis of /repo's current source (go/packages + go/types + go/cfg); rules applied: " + strings.Join(ruleDocs, " | "),
			"obligations":                 len(r.Obls),
			"discharged":                  discharged,
			"evaluations":                 len(r.Obls),
			"distinct_nontrivial":         nontriv,
			"rule":                        "one obligation per (rule, construct); non-trivial = carries a guard/path/lock/writer-set requirement that was evaluated; distinct by rule+construct key",
			"samples":                     samples,
			"per_rule":                    perRule,
			"instance_floors":             r.Floors,
			"build_configs":               r.Configs,
			"packages_loaded":             r.Pkgs,
			"functions_indexed":           r.Funcs,
			"stats":                       r.Stats,
			"known_findings_hit":          len(knownHit),
			"sensitivity_mutations":       r.Mutations,
			"insensitive":                 r.Insens,
			"notes":                       r.Notes,
			"rules":                       r.Rules,
			"holds_only_in_expanded_view": r.ViewDiff,
			"normalised_view":             r.Normalised,
			"expanded_helpers":            r.Expanded,
			"checker_cmd":                 "bin/tvc -property " + r.Prop + " -tier " + r.Tier,
			"trusted_base":                []string{"go/types", "golang.org/x/tools v0.29.0 (go/packages, go/cfg)", "rule tables in /verif/tvc"},
		},
		"assumptions": []string{
			"decides structural necessary conditions, not the runtime behaviour",
			"predicate calls used as guards are pure between guard and use unless an assignment or method call on the same access path intervenes",
			"sync.Mutex/sync.Map/bolt/controller-runtime/Aliyun SDK behave as documented",
		},
		"wall_s":     time.Since(r.Start).Seconds(),
		"violations": len(vios),
	}
	b, _ := json.MarshalIndent(ev, "", " ")
	os.WriteFile(filepath.Join(evDir, r.Prop+".json"), b, 0o644)
	fmt.Printf("%s %s: %d obligations, %d discharged, %d known findings, %d violations (%d rules, %.1fs)\n",
		r.Prop, r.Tier, len(r.Obls), discharged, len(knownHit), len(vios), len(r.Rules), time.Since(r.Start).Seconds())
	if len(vios) > 0 {
		return 1
	}
	return 0
}
