package main

// C19 — advertised node capacity never exceeds what the instance can deliver (partial).

import (
	"fmt"
	"go/ast"
	"go/token"
	"go/types"
	"sort"
	"strings"
)

func init() { registry["C19"] = c19 }

func c19(c *Ctx) {
	if c.P.Pkg(daemonPkg) == nil || c.P.Pkg(eniPkg) == nil {
		c.Unres("C19", "packages", "daemon / pkg/eni not loaded")
		return
	}
	c19R1(c)
	c19R2(c)
	c19R3(c)
	c19R4(c)
	c19R5(c)
	c19R6(c)
	c19R7(c)
	c19R8(c)
	c19R9(c)
	c19R10(c)
	c19R11(c)
	// shared: the trunk interface is created only into a free slot counted over all attached interfaces (C06.R6)
	c06R6(c)
}

// R1 slot conservation in the node reconciler.
func c19R1(c *Ctx) {
	p := c.P
	c.Rule("C19.R1", "interface-flavor slots sum to the attachable secondary interfaces: secondary := Adapters − 1; every flavor with a constant count c is appended only under secondary > 0 together with secondary -= c; the last flavor takes exactly the remainder")
	fn := p.Func(eniPkg, "nodeReconcile.Reconcile")
	if fn == nil {
		c.Unres("C19.R1", "nodeReconcile.Reconcile", "not found")
		return
	}
	info := fn.Info()
	// flavor literals
	type flav struct {
		lit   *ast.CompositeLit
		count ast.Expr
		stmt  ast.Stmt
	}
	var flavs []flav
	ast.Inspect(fn.Decl.Body, func(nd ast.Node) bool {
		as, ok := nd.(*ast.AssignStmt)
		if !ok || len(as.Rhs) != 1 {
			return true
		}
		call, ok := isBuiltinCall(info, as.Rhs[0], "append")
		if !ok || len(call.Args) != 2 {
			return true
		}
		cl, ok := ast.Unparen(call.Args[1]).(*ast.CompositeLit)
		if !ok || !typeIs(info.TypeOf(cl), modPath+"/"+apiPkg, "Flavor") {
			return true
		}
		f := flav{lit: cl, stmt: as}
		for _, el := range cl.Elts {
			if kv, ok := el.(*ast.KeyValueExpr); ok && exprString(kv.Key) == "Count" {
				f.count = kv.Value
			}
		}
		flavs = append(flavs, f)
		return true
	})
	// a separate arm that hands every slot to one flavor (Count: Adapters − 1, the Lingjun arm) shares no
	// path with the slot accounting below: such a flavor is checked by its form and set aside
	{
		q := NewPathQuery(p, fn, nil)
		var main []flav
		for i, f := range flavs {
			whole := false
			if f.count != nil {
				e := NewFactEngine(p, fn)
				var ps []string
				l := e.linearOf(f.count, e.fnScope(), &ps)
				nz, adapters := 0, false
				for n, v := range l.terms {
					if v != 0 {
						nz++
						if v == 1 && strings.HasSuffix(n, ".Adapters") {
							adapters = true
						}
					}
				}
				whole = l.ok && nz == 1 && adapters && l.k == -1
			}
			if whole {
				for j, g := range flavs {
					if i != j && (q.Escapes(isExactly(f.stmt), isExactly(g.stmt), nil, nil) != nil || q.Escapes(isExactly(g.stmt), isExactly(f.stmt), nil, nil) != nil) {
						whole = false
					}
				}
			}
			if whole {
				c.OK("C19.R1", "a flavor that takes every slot stands alone on its path", p.Pos(f.stmt), fn.Key(), "Count: Adapters − 1, no other flavor on any path through it")
				continue
			}
			main = append(main, f)
		}
		flavs = main
	}
	c.Floor("C19.R1", "flavor entries built by the node reconciler", 3, len(flavs))
	// the remainder variable
	var rem types.Object
	for _, f := range flavs {
		if f.count != nil {
			if _, isC := constInt(info, f.count); !isC {
				rem = identObj(info, f.count)
			}
		}
	}
	if rem == nil {
		c.Bad("C19.R1", "a remainder flavor takes the unclaimed slots", p.Pos(fn.Decl), fn.Key(), "Count: secondary", "no flavor with a variable count")
		return
	}
	// its definition: Adapters − 1
	okDef := false
	for _, d := range varDefs(fn, rem) {
		if d.tok == token.DEFINE && d.rhs != nil {
			e := NewFactEngine(p, fn)
			var ps []string
			l := e.linearOf(d.rhs, e.fnScope(), &ps)
			nz := 0
			adapters := false
			for n, v := range l.terms {
				if v != 0 {
					nz++
					if v == 1 && strings.HasSuffix(n, ".Adapters") {
						adapters = true
					}
				}
			}
			okDef = l.ok && nz == 1 && adapters && l.k == -1
		}
	}
	c.Check(okDef, "C19.R1", "slots start at Adapters − 1 (the primary interface is not a slot)", p.Pos(fn.Decl), fn.Key(), rem.Name()+" := node.Spec.NodeCap.Adapters - 1", "definition not of that form")
	nConst := 0
	var last *flav
	for i := range flavs {
		f := &flavs[i]
		if f.count == nil {
			c.Bad("C19.R1", "flavor has a count", p.Pos(f.lit), fn.Key(), "Count: …", "missing")
			continue
		}
		if cv, isC := constInt(info, f.count); isC {
			nConst++
			c.Require("C19.R1", fmt.Sprintf("constant-count flavor #%d only while a slot is left", nConst), fn, f.stmt, fmt.Sprintf("%s >= %d", rem.Name(), cv), nil)
			// paired decrement in the same block
			dec := int64(0)
			// the block of the flavor statement; plain nested blocks ({ … } directly inside a block)
			// are transparent
			var blk *ast.BlockStmt
			path := pathTo(fn.Decl.Body, f.stmt)
			var stmts []ast.Stmt
			for i := len(path) - 1; i >= 0; i-- {
				b, ok := path[i].(*ast.BlockStmt)
				if !ok {
					continue
				}
				blk = b
				stmts = append(stmts, b.List...)
				if i > 0 {
					if _, parentIsBlock := path[i-1].(*ast.BlockStmt); parentIsBlock {
						continue
					}
				}
				break
			}
			if blk != nil {
				for _, s := range stmts {
					switch t := s.(type) {
					case *ast.IncDecStmt:
						if identObj(info, t.X) == rem && t.Tok == token.DEC {
							dec++
						}
					case *ast.AssignStmt:
						if len(t.Lhs) == 1 && identObj(info, t.Lhs[0]) == rem && t.Tok == token.SUB_ASSIGN {
							if v, ok := constInt(info, t.Rhs[0]); ok {
								dec += v
							}
						}
					}
				}
			}
			c.Check(dec == cv, "C19.R1", fmt.Sprintf("constant-count flavor #%d consumes exactly its slots", nConst), p.Pos(f.stmt), fn.Key(), fmt.Sprintf("%s decremented by %d in the same block", rem.Name(), cv), fmt.Sprintf("decrement %d", dec))
		} else if identObj(info, f.count) == rem {
			last = f
		} else {
			c.Bad("C19.R1", "flavor count is a constant or the remainder", p.Pos(f.lit), fn.Key(), "Count: <const> | "+rem.Name(), exprString(f.count))
		}
	}
	c.Floor("C19.R1", "constant-count flavors (trunk, erdma)", 2, nConst)
	if last != nil {
		// nothing modifies the remainder after the last flavor and no other flavor follows
		after := 0
		for _, d := range varDefs(fn, rem) {
			if d.node.Pos() > last.stmt.End() {
				after++
			}
		}
		following := 0
		for _, f := range flavs {
			if f.stmt.Pos() > last.stmt.End() {
				following++
			}
		}
		c.Check(after == 0 && following == 0, "C19.R1", "the remainder flavor is the last one", p.Pos(last.stmt), fn.Key(), "no later decrement or flavor", fmt.Sprintf("later decrements=%d, later flavors=%d", after, following))
		// and no other writes of the remainder than the definition and the paired decrements
		other := 0
		for _, d := range varDefs(fn, rem) {
			if d.tok == token.DEFINE || d.tok == token.DEC || d.tok == token.SUB_ASSIGN {
				continue
			}
			other++
		}
		c.Check(other == 0, "C19.R1", "the slot counter is only ever decremented", p.Pos(fn.Decl), fn.Key(), "definition + decrements only", fmt.Sprintf("%d other assignments", other))
	}
	// Flavor is reset before being rebuilt
	okReset := false
	ast.Inspect(fn.Decl.Body, func(nd ast.Node) bool {
		if as, ok := nd.(*ast.AssignStmt); ok && len(as.Lhs) == 1 && strings.HasSuffix(exprString(as.Lhs[0]), ".Spec.Flavor") && info.Types[ast.Unparen(as.Rhs[0])].IsNil() && len(flavs) > 0 && as.Pos() < flavs[0].stmt.Pos() {
			okReset = true
		}
		return true
	})
	c.Check(okReset, "C19.R1", "the flavor list is rebuilt from scratch", p.Pos(fn.Decl), fn.Key(), "node.Spec.Flavor = nil before the appends", "not found")
}

// R2 pool-size clamps.
func c19R2(c *Ctx) {
	p := c.P
	c.Rule("C19.R2", "pool watermarks: capacity = maxENI · ipPerENI; at the return of getPoolConfig MinPoolSize ≤ MaxPoolSize ≤ capacity holds (clamp idioms followed through assignments); the interface count honours the configured maximum; centralized IPAM zeroes both watermarks")
	fn := p.Func(daemonPkg, "getPoolConfig")
	if fn == nil {
		c.Unres("C19.R2", "getPoolConfig", "not found")
		return
	}
	info := fn.Info()
	sig := fn.Obj.Type().(*types.Signature)
	var pc types.Object
	n := 0
	for _, r := range declReturns(fn.Decl.Body) {
		if ok, known := isSuccessReturn(info, sig, r); !ok || !known {
			continue
		}
		pc = identObj(info, r.Results[0])
		if pc == nil {
			continue
		}
		n++
		v := pc.Name()
		c.Require("C19.R2", "min watermark ≤ max watermark at return", fn, r, fmt.Sprintf("%[1]s.MinPoolSize <= %[1]s.MaxPoolSize", v), nil)
		c.Require("C19.R2", "watermarks are not negative at return", fn, r, fmt.Sprintf("%[1]s.MinPoolSize >= 0 && %[1]s.MaxPoolSize >= 0", v), nil)
		c.Require("C19.R2", "max watermark ≤ capacity at return (or both zero in centralized IPAM)", fn, r, fmt.Sprintf("%[1]s.MaxPoolSize <= %[1]s.Capacity || %[1]s.MaxPoolSize == 0", v), nil)
	}
	c.Floor("C19.R2", "returns of getPoolConfig", 1, n)
	// the capacity and interface-count variables are the ones stored into the record's Capacity and
	// MaxENI fields (whatever they are called)
	storedTo := func(field string) types.Object {
		var o types.Object
		ast.Inspect(fn.Decl.Body, func(nd ast.Node) bool {
			if as, ok := nd.(*ast.AssignStmt); ok && len(as.Lhs) == 1 && len(as.Rhs) == 1 {
				if sel, ok := ast.Unparen(as.Lhs[0]).(*ast.SelectorExpr); ok && sel.Sel.Name == field && typeIs(info.TypeOf(sel.X), modPath+"/types/daemon", "PoolConfig") {
					o = identObj(info, as.Rhs[0])
				}
			}
			return true
		})
		return o
	}
	capObj, maxObj := storedTo("Capacity"), storedTo("MaxENI")
	// capacity = maxENI * ipPerENI
	okCap := false
	ast.Inspect(fn.Decl.Body, func(nd ast.Node) bool {
		if as, ok := nd.(*ast.AssignStmt); ok && len(as.Lhs) == 1 && capObj != nil && identObj(info, as.Lhs[0]) == capObj {
			if be, ok := ast.Unparen(as.Rhs[0]).(*ast.BinaryExpr); ok && be.Op == token.MUL && maxObj != nil && (identObj(info, be.X) == maxObj || identObj(info, be.Y) == maxObj) {
				okCap = true
			}
		}
		return true
	})
	c.Check(okCap, "C19.R2", "capacity is the product of interface count and addresses per interface", p.Pos(fn.Decl), fn.Key(), "capacity = maxENI * ipPerENI", "not found")
	// configured max ENI honoured
	okMax := false
	ast.Inspect(fn.Decl.Body, func(nd ast.Node) bool {
		is, ok := nd.(*ast.IfStmt)
		if !ok || len(is.Body.List) != 1 || maxObj == nil {
			return true
		}
		and, ok := ast.Unparen(is.Cond).(*ast.BinaryExpr)
		if !ok || and.Op != token.LAND {
			return true
		}
		isCfgMax := func(x ast.Expr) bool {
			sel, ok := ast.Unparen(x).(*ast.SelectorExpr)
			return ok && sel.Sel.Name == "MaxENI" && typeIs(info.TypeOf(sel.X), modPath+"/types/daemon", "Config")
		}
		pos, below := false, false
		for _, side := range []ast.Expr{and.X, and.Y} {
			be, ok := ast.Unparen(side).(*ast.BinaryExpr)
			if !ok {
				continue
			}
			if v, isC := constInt(info, be.Y); be.Op == token.GTR && isCfgMax(be.X) && isC && v == 0 {
				pos = true
			}
			if (be.Op == token.LSS && isCfgMax(be.X) && identObj(info, be.Y) == maxObj) || (be.Op == token.GTR && isCfgMax(be.Y) && identObj(info, be.X) == maxObj) {
				below = true
			}
		}
		if as, ok := is.Body.List[0].(*ast.AssignStmt); ok && pos && below && len(as.Lhs) == 1 && identObj(info, as.Lhs[0]) == maxObj && isCfgMax(as.Rhs[0]) {
			okMax = true
		}
		return true
	})
	c.Check(okMax, "C19.R2", "the configured maximum interface count can only lower the limit", p.Pos(fn.Decl), fn.Key(), "if cfg.MaxENI > 0 && cfg.MaxENI < maxENI { maxENI = cfg.MaxENI }", "not recognised")
	// per-interface cap handed to the pool is the instance limit (minus one on windows)
	okPer := false
	ast.Inspect(fn.Decl.Body, func(nd ast.Node) bool {
		if as, ok := nd.(*ast.AssignStmt); ok && len(as.Lhs) == 1 && strings.HasSuffix(exprString(as.Lhs[0]), ".MaxIPPerENI") {
			if o := identObj(info, as.Rhs[0]); o != nil {
				for _, d := range varDefs(fn, o) {
					if d.tok == token.DEFINE && d.rhs != nil && strings.HasSuffix(exprString(d.rhs), ".IPv4PerAdapter") {
						okPer = true
					}
				}
			}
		}
		return true
	})
	c.Check(okPer, "C19.R2", "per-interface address cap = the instance type's addresses per adapter", p.Pos(fn.Decl), fn.Key(), "ipPerENI := limit.IPv4PerAdapter; poolConfig.MaxIPPerENI = ipPerENI", "not recognised")
	// number of pool slots built by the daemon ≤ MaxENI (C06.R2 cross-reference): loop bounds in setupENIManager
	sm := p.Func(daemonPkg, "NetworkServiceBuilder.setupENIManager")
	if sm != nil {
		sinfo := sm.Info()
		okSlots := 0
		ast.Inspect(sm.Decl.Body, func(nd ast.Node) bool {
			as, ok := nd.(*ast.AssignStmt)
			if !ok || len(as.Lhs) != 1 || len(as.Rhs) != 1 {
				return true
			}
			o := identObj(sinfo, as.Lhs[0])
			if o == nil || !strings.Contains(o.Name(), "ENINeeded") {
				return true
			}
			e := NewFactEngine(p, sm)
			var ps []string
			l := e.linearOf(as.Rhs[0], e.fnScope(), &ps)
			pos, neg := false, false
			for nme, v := range l.terms {
				if strings.HasSuffix(nme, ".MaxENI") && v == 1 {
					pos = true
				}
				if strings.Contains(nme, "normalENICount") && v == -1 {
					neg = true
				}
			}
			if l.ok && pos && neg {
				okSlots++
			}
			return true
		})
		c.Check(okSlots >= 1, "C19.R2", "empty pool slots = MaxENI − attached interfaces (− RDMA slots)", p.Pos(sm.Decl), sm.Key(), "normalENINeeded affine in poolConfig.MaxENI (+1) and the attached count (−1)", fmt.Sprintf("%d matching definitions", okSlots))
	}
}

// R3 feature gating.
func c19R3(c *Ctx) {
	p := c.P
	c.Rule("C19.R3", "features the instance type cannot deliver are reported disabled: after checkInstance IPv6 ⇒ the type supports IPv6 (and multi-IP IPv6 in shared-ENI mode), trunking ⇒ member interfaces > 0, RDMA ⇒ RDMA interfaces > 0; the node reconciler gates the same features on the node's declared limits")
	fn := p.Func(daemonPkg, "checkInstance")
	if fn == nil {
		c.Unres("C19.R3", "checkInstance", "not found")
		return
	}
	info := fn.Info()
	multi := constLit(p, "types/daemon", "ModeENIMultiIP")
	var limit, mode, cfg string
	for _, fld := range fn.Decl.Type.Params.List {
		for _, nm := range fld.Names {
			t := types.TypeString(info.Defs[nm].Type(), nil)
			switch {
			case strings.HasSuffix(t, "client.Limits"):
				limit = nm.Name
			case t == "string":
				mode = nm.Name
			case strings.HasSuffix(t, "daemon.Config"):
				cfg = nm.Name
			}
		}
	}
	n := 0
	for _, r := range declReturns(fn.Decl.Body) {
		if len(r.Results) != 2 {
			continue
		}
		n++
		v6 := exprString(r.Results[1])
		c.Require("C19.R3", "IPv6 reported enabled only when the instance type supports it", fn, r,
			fmt.Sprintf("!%[1]s || (%[2]s.SupportIPv6() && (%[3]s != %[4]s || %[2]s.SupportMultiIPIPv6()))", v6, limit, mode, multi), nil)
		c.Require("C19.R3", "trunking left enabled only with member-interface quota", fn, r, fmt.Sprintf("!%s.EnableENITrunking || %s.TrunkPod() > 0", cfg, limit), nil)
		c.Require("C19.R3", "RDMA left enabled only with RDMA interfaces", fn, r, fmt.Sprintf("!%s.EnableERDMA || %s.ERDMARes() > 0", cfg, limit), nil)
	}
	c.Floor("C19.R3", "returns of checkInstance", 1, n)
	// the limits checked are the ones of the running instance: initInstanceLimit uses a cached annotation only after comparing its type id with the metadata service (or fetches fresh limits)
	il := p.Func(daemonPkg, "NetworkServiceBuilder.initInstanceLimit")
	if il == nil {
		c.Unres("C19.R3", "initInstanceLimit", "not found")
	} else {
		iinfo := il.Info()
		verified := containsNode(func(k ast.Node) bool {
			switch t := k.(type) {
			case *ast.BinaryExpr:
				return strings.Contains(exprString(t), ".InstanceTypeID")
			case *ast.CallExpr:
				return calleeName(iinfo, t) == "LimitProvider.GetLimit"
			}
			return false
		})
		m := 0
		// ECS path only: the EFLO provider describes the node, not an instance type
		efloEdge := func(cond ast.Expr, takeTrue bool) bool {
			x := ast.Unparen(cond)
			neg := false
			if u, ok := x.(*ast.UnaryExpr); ok && u.Op == token.NOT {
				x, neg = ast.Unparen(u.X), true
			}
			sel, ok := x.(*ast.SelectorExpr)
			if !ok {
				return false
			}
			fv, _ := iinfo.ObjectOf(sel.Sel).(*types.Var)
			if fv == nil || !fv.IsField() || fv.Name() != "eflo" {
				return false
			}
			return takeTrue != neg // the edge on which b.eflo is true
		}
		stores := p.StoresTo([]*FuncInfo{il}, p.Field(daemonPkg, "NetworkServiceBuilder", "limit"))
		for _, s := range stores {
			// a store that only the EFLO path reaches is not an ECS store
			q0 := NewPathQuery(p, il, nil)
			q0.Prune = efloEdge
			if q0.Escapes(nil, isExactly(s.Node), nil, nil) == nil {
				continue
			}
			m++
			q := NewPathQuery(p, il, nil)
			q.Prune = efloEdge
			q.TrackNil = identObj(iinfo, s.RHS)
			w := q.Escapes(nil, isExactly(s.Node), verified, nil)
			c.Check(w == nil, "C19.R3", "instance limits are verified against the running instance type (or fetched fresh) before use", p.Pos(s.Node), il.Key(), "must-pass (ECS path): (annotation type id == metadata type | provider.GetLimit) → b.limit = limit", "path: "+p.describePath(w))
		}
		c.Floor("C19.R3", "ECS-path stores of the instance limits", 1, m)
		// value flow: what is stored is the variable that was verified or refreshed — from the
		// definition of the stored variable by the annotation reader, every ECS path to the store
		// either re-assigns that same variable (a refresh into a shadowing `limit, err :=` does not
		// count) or leaves a test "it is nil / its type id equals the metadata type" on the good edge
		for _, s := range stores {
			v := identObj(iinfo, s.RHS)
			if v == nil {
				continue
			}
			q0 := NewPathQuery(p, il, nil)
			q0.Prune = efloEdge
			if q0.Escapes(nil, isExactly(s.Node), nil, nil) == nil {
				continue // reached on the EFLO path only
			}
			var annoDef ast.Node
			for _, cs := range p.CallsIn(il) {
				if cs.Callee != nil && cs.Callee.Name() == "GetLimitFromAnno" && cs.Lit == nil {
					if as, lhs := assignedFromCall(il, cs.Call); as != nil && len(lhs) >= 1 && lhs[0] == v {
						annoDef = as
					}
				}
			}
			if annoDef == nil {
				continue
			}
			var good func(e ast.Expr, edge bool) bool
			good = func(e ast.Expr, edge bool) bool {
				e = ast.Unparen(e)
				switch t := e.(type) {
				case *ast.UnaryExpr:
					if t.Op == token.NOT {
						return good(t.X, !edge)
					}
				case *ast.BinaryExpr:
					switch t.Op {
					case token.LAND:
						if edge {
							return good(t.X, true) || good(t.Y, true)
						}
						return good(t.X, false) && good(t.Y, false)
					case token.LOR:
						if edge {
							return good(t.X, true) && good(t.Y, true)
						}
						return good(t.X, false) || good(t.Y, false)
					case token.EQL, token.NEQ:
						isV := func(x ast.Expr) bool { return identObj(iinfo, x) == v }
						isNil := func(x ast.Expr) bool { return iinfo.Types[ast.Unparen(x)].IsNil() }
						isTypeID := func(x ast.Expr) bool {
							sel, ok := ast.Unparen(x).(*ast.SelectorExpr)
							return ok && sel.Sel.Name == "InstanceTypeID" && identObj(iinfo, sel.X) == v
						}
						eqEdge := (t.Op == token.EQL) == edge
						if (isV(t.X) && isNil(t.Y)) || (isV(t.Y) && isNil(t.X)) || isTypeID(t.X) || isTypeID(t.Y) {
							return eqEdge
						}
					}
				}
				return false
			}
			q := NewPathQuery(p, il, nil)
			q.Prune = func(cond ast.Expr, takeTrue bool) bool {
				return efloEdge(cond, takeTrue) || good(cond, takeTrue)
			}
			reassign := assignsVar(iinfo, v)
			w := q.Escapes(isExactly(annoDef), isExactly(s.Node), func(k ast.Node) bool { return !isExactly(annoDef)(k) && reassign(k) }, nil)
			c.Check(w == nil, "C19.R3", "the stored limits are the verified or refreshed variable", p.Pos(s.Node), il.Key(), "from limit := GetLimitFromAnno(…) every ECS path to b.limit = limit re-assigns limit or passes `limit == nil` / `limit.InstanceTypeID == <metadata type>`", "path: "+p.describePath(w))
		}
		// a metadata failure aborts (the comparison cannot be skipped by an error): with the error of
		// GetInstanceType non-nil — followed through copies into other error variables — no store of
		// the limits is reachable
		var errVars []types.Object
		seenE := map[types.Object]bool{}
		ast.Inspect(il.Decl.Body, func(k ast.Node) bool {
			if id, ok := k.(*ast.Ident); ok {
				if v, ok := iinfo.ObjectOf(id).(*types.Var); ok && !v.IsField() && !seenE[v] && v.Type().String() == "error" && len(errVars) < 12 {
					seenE[v] = true
					errVars = append(errVars, v)
				}
			}
			return true
		})
		for _, cs := range p.CallsIn(il) {
			if cs.Callee == nil || cs.Callee.Name() != "GetInstanceType" || cs.Lit != nil {
				continue
			}
			as, lhs := assignedFromCall(il, cs.Call)
			if len(lhs) != 2 || lhs[1] == nil {
				c.Bad("C19.R3", "a metadata failure aborts initialisation", p.Pos(cs.Call), il.Key(), "the error of GetInstanceType is bound", "error discarded")
				continue
			}
			q := NewPathQuery(p, il, nil)
			q.TrackNils = errVars
			q.StartNil = map[types.Object]int{lhs[1]: nilNo}
			var w []ast.Node
			for _, s := range stores {
				if w == nil {
					w = q.Escapes(isExactly(as), isExactly(s.Node), nil, nil)
				}
			}
			c.Check(w == nil, "C19.R3", "a metadata failure aborts initialisation", p.Pos(cs.Call), il.Key(), "with err != nil after GetInstanceType no store of b.limit is reachable", "unverified limits could be used: "+p.describePath(w))
		}
	}
	// node reconciler
	nr := p.Func(eniPkg, "nodeReconcile.Reconcile")
	if nr == nil {
		c.Unres("C19.R3", "nodeReconcile.Reconcile", "not found")
		return
	}
	ninfo := nr.Info()
	// find the last statement of the gating region: the Flavor reset
	var at ast.Node
	ast.Inspect(nr.Decl.Body, func(nd ast.Node) bool {
		if as, ok := nd.(*ast.AssignStmt); ok && len(as.Lhs) == 1 && strings.HasSuffix(exprString(as.Lhs[0]), ".Spec.Flavor") && ninfo.Types[ast.Unparen(as.Rhs[0])].IsNil() {
			at = as
		}
		return true
	})
	if at == nil {
		c.Undec("C19.R3", "node reconciler gating point", p.Pos(nr.Decl), nr.Key(), "", "flavor reset not found")
		return
	}
	c.Require("C19.R3", "node record: RDMA enabled only with RDMA quantity > 0", nr, at, "!node.Spec.ENISpec.EnableERDMA || node.Spec.NodeCap.EriQuantity > 0", nil)
	c.Require("C19.R3", "node record: trunk enabled only with member-interface quota", nr, at, "!node.Spec.ENISpec.EnableTrunk || node.Spec.NodeCap.MemberAdapterLimit > 0", nil)
	// dual stack requires equal per-adapter counts: the store ipv6 = false under the mismatch
	okDual := false
	ast.Inspect(nr.Decl.Body, func(nd ast.Node) bool {
		if is, ok := nd.(*ast.IfStmt); ok {
			s := strings.ReplaceAll(exprString(is.Cond), " ", "")
			if strings.Contains(s, ".IPv6PerAdapter!=") && strings.Contains(s, ".IPv4PerAdapter") {
				for _, st := range is.Body.List {
					if as, ok := st.(*ast.AssignStmt); ok && exprString(as.Lhs[0]) == "ipv6" && exprString(as.Rhs[0]) == "false" {
						okDual = true
					}
				}
			}
		}
		return true
	})
	c.Check(okDual, "C19.R3", "node record: IPv6 dropped in dual stack when per-adapter counts differ", p.Pos(nr.Decl), nr.Key(), "if IPv6PerAdapter != IPv4PerAdapter { ipv6 = false }", "not found")
}

// R4 limit derivation.
func c19R4(c *Ctx) {
	p := c.P
	c.Rule("C19.R4", "limits derived from the instance-type description are clamped at zero; the member-interface limit is total − ordinary interfaces and zero without trunk support; the RDMA allowance never exceeds the RDMA interfaces of the type")
	fn := p.Func(clientPkg, "getInstanceType")
	if fn == nil {
		c.Unres("C19.R4", "getInstanceType", "not found")
		return
	}
	info := fn.Info()
	need := map[string]bool{"IPv4PerAdapter": false, "IPv6PerAdapter": false, "MemberAdapterLimit": false, "MaxMemberAdapterLimit": false, "ERdmaAdapters": false}
	ast.Inspect(fn.Decl.Body, func(nd ast.Node) bool {
		kv, ok := nd.(*ast.KeyValueExpr)
		if !ok {
			return true
		}
		k := exprString(kv.Key)
		if _, want := need[k]; !want {
			return true
		}
		if mc, ok := isBuiltinCall(info, kv.Value, "max"); ok && len(mc.Args) == 2 {
			if v, isC := constInt(info, mc.Args[1]); isC && v == 0 {
				need[k] = true
			}
		}
		return true
	})
	for k, ok := range need {
		c.Check(ok, "C19.R4", "limit "+k+" is clamped at zero", p.Pos(fn.Decl), fn.Key(), k+": max(x, 0)", "not clamped")
	}
	// member limit: total − ordinary with trunk support, zero without — stated as facts at the
	// point where the limits are assembled, whatever order the code computes them in
	var memberKV *ast.KeyValueExpr
	ast.Inspect(fn.Decl.Body, func(nd ast.Node) bool {
		if kv, ok := nd.(*ast.KeyValueExpr); ok && exprString(kv.Key) == "MemberAdapterLimit" {
			memberKV = kv
		}
		return true
	})
	if memberKV == nil {
		c.Bad("C19.R4", "member-interface limit = total − ordinary, zero without trunk support", p.Pos(fn.Decl), fn.Key(), "Limits{MemberAdapterLimit: …}", "field not set")
	} else {
		val := memberKV.Value
		if mc, ok := isBuiltinCall(info, val, "max"); ok && len(mc.Args) == 2 {
			val = mc.Args[0]
		}
		v := exprString(val)
		// the instance-type record: the expression whose EniTrunkSupported field the function reads
		rec := ""
		ast.Inspect(fn.Decl.Body, func(nd ast.Node) bool {
			if sel, ok := nd.(*ast.SelectorExpr); ok && sel.Sel.Name == "EniTrunkSupported" && rec == "" {
				rec = exprString(sel.X)
			}
			return true
		})
		if rec == "" {
			c.Bad("C19.R4", "member-interface limit = total − ordinary, zero without trunk support", p.Pos(memberKV), fn.Key(), "the trunk capability gates the member limit", "EniTrunkSupported is never read")
		} else {
			c.Require("C19.R4", "member-interface limit is zero without trunk support", fn, memberKV, rec+".EniTrunkSupported || "+v+" == 0", nil)
			c.Require("C19.R4", "member-interface limit = total − ordinary with trunk support", fn, memberKV, "!"+rec+".EniTrunkSupported || "+v+" == "+rec+".EniTotalQuantity - "+rec+".EniQuantity", nil)
		}
	}
	// ERDMARes ≤ ERdmaAdapters: every non-zero return is min(k, l.ERdmaAdapters)
	er := p.Func(clientPkg, "Limits.ERDMARes")
	if er == nil {
		c.Unres("C19.R4", "Limits.ERDMARes", "not found")
		return
	}
	einfo := er.Info()
	for _, r := range declReturns(er.Decl.Body) {
		if v, isC := constInt(einfo, r.Results[0]); isC && v == 0 {
			continue
		}
		ok := false
		if mc, isMin := isBuiltinCall(einfo, r.Results[0], "min"); isMin {
			for _, a := range mc.Args {
				if strings.HasSuffix(exprString(a), ".ERdmaAdapters") {
					ok = true
				}
			}
		}
		c.Check(ok, "C19.R4", "RDMA allowance bounded by the type's RDMA interfaces", p.Pos(r), er.Key(), "return min(k, l.ERdmaAdapters)", exprString(r.Results[0]))
	}
}

// R5 IP capacity advertised by the daemon is slots × addresses per interface.
func c19R5(c *Ctx) {
	p := c.P
	c.Rule("C19.R5", "capacity formulas are the limits' products: MultiIPPod = (Adapters − 1) · IPv4PerAdapter, ExclusiveENIPod = Adapters − 1 (the primary interface is never counted)")
	for _, spec := range []struct{ fn, want string }{
		{"Limits.MultiIPPod", "(l.Adapters-1)*l.IPv4PerAdapter"},
		{"Limits.ExclusiveENIPod", "l.Adapters-1"},
	} {
		fn := p.Func(clientPkg, spec.fn)
		if fn == nil {
			c.Unres("C19.R5", spec.fn, "not found")
			continue
		}
		got := ""
		if len(fn.Decl.Body.List) == 1 {
			if r, ok := fn.Decl.Body.List[0].(*ast.ReturnStmt); ok {
				got = strings.ReplaceAll(exprString(r.Results[0]), " ", "")
			}
		}
		recv := recvObj(fn).Name()
		want := strings.ReplaceAll(spec.want, "l.", recv+".")
		c.Check(got == want, "C19.R5", spec.fn+" formula", p.Pos(fn.Decl), fn.Key(), want, got)
	}
}

// R6: a cached description of the instance type (node annotation) is believed
// only for the type the machine reports itself: the InstanceTypeID of the
// cached limits is compared with the metadata service's instance type, not with
// anything else stored on the Node object (labels and annotations go stale
// together when an instance is resized in place).
func c19R6(c *Ctx) {
	p := c.P
	c.Rule("C19.R6", "initInstanceLimit validates cached limits against the machine itself: every comparison of a limit's InstanceTypeID in the daemon has the metadata service's GetInstanceType() on the other side")
	fn := p.Func(daemonPkg, "NetworkServiceBuilder.initInstanceLimit")
	if fn == nil {
		c.Unres("C19.R6", "NetworkServiceBuilder.initInstanceLimit", "not found")
		return
	}
	n := 0
	for _, f := range p.FuncsInPkg(daemonPkg) {
		if f.Decl.Body == nil {
			continue
		}
		info := f.Info()
		ast.Inspect(f.Decl.Body, func(nd ast.Node) bool {
			be, ok := nd.(*ast.BinaryExpr)
			if !ok || (be.Op != token.EQL && be.Op != token.NEQ) {
				return true
			}
			for i, side := range []ast.Expr{be.X, be.Y} {
				sel, ok := ast.Unparen(side).(*ast.SelectorExpr)
				if !ok {
					continue
				}
				fv, _ := info.ObjectOf(sel.Sel).(*types.Var)
				if fv == nil || !fv.IsField() || fv.Name() != "InstanceTypeID" {
					continue
				}
				other := []ast.Expr{be.Y, be.X}[i]
				src := ast.Unparen(derefLoose(f, other))
				if o := identObj(info, src); o != nil {
					// v, err := call(): the value is result 0 of the call
					for _, d := range varDefs(f, o) {
						if as, ok := d.node.(*ast.AssignStmt); ok && len(as.Rhs) == 1 && len(as.Lhs) > 1 && identObj(info, as.Lhs[0]) == o {
							src = ast.Unparen(as.Rhs[0])
						}
					}
				}
				okSrc := false
				if call, isCall := src.(*ast.CallExpr); isCall {
					if cal := Callee(info, call); cal != nil && cal.Name() == "GetInstanceType" && cal.Pkg() != nil && strings.HasSuffix(cal.Pkg().Path(), "pkg/aliyun/instance") {
						okSrc = true
					}
				}
				n++
				c.Check(okSrc, "C19.R6", f.Name+": cached limits are compared with the metadata instance type", p.Pos(be), f.Key(), "limit.InstanceTypeID is compared with instance.GetInstanceMeta().GetInstanceType()", "compared with "+exprString(src))
			}
			return true
		})
	}
	c.Floor("C19.R6", "comparisons of a cached InstanceTypeID in the daemon", 1, n)
}

// R7: the capacity annotations are published unless ALL of them are already on
// the node with the wanted value. PatchNodeAnnotations may skip the API call
// only after a loop over the wanted annotations completed without finding a
// difference. Two forms of "all": a flag that starts "nothing to do" and is
// flipped for every absent or different entry (no success return inside the
// loop), or a helper that returns inside its loop for a difference and the
// opposite constant after it.
func c19R7(c *Ctx) {
	p := c.P
	c.Rule("C19.R7", "k8s.PatchNodeAnnotations skips the patch only when every wanted annotation is present with the wanted value: the skip tests a universal match over the wanted map (a flag flipped for every absent or different entry, or a helper that leaves its loop at the first difference); no success return inside the loop over the wanted map")
	fn := p.Func("pkg/k8s", "k8s.PatchNodeAnnotations")
	if fn == nil {
		c.Unres("C19.R7", "k8s.PatchNodeAnnotations", "not found")
		return
	}
	info := fn.Info()
	sig := fn.Obj.Type().(*types.Signature)
	want := info.Defs[fn.Decl.Type.Params.List[0].Names[0]]
	var patch *ast.CallExpr
	for _, cs := range p.CallsIn(fn) {
		if cs.Callee != nil && cs.Callee.Name() == "Patch" {
			patch = cs.Call
		}
	}
	if patch == nil {
		c.Undec("C19.R7", "PatchNodeAnnotations: the patch call", p.Pos(fn.Decl), fn.Key(), "a Patch call", "not found")
		return
	}
	var loop *ast.RangeStmt
	ast.Inspect(fn.Decl.Body, func(nd ast.Node) bool {
		if rs, ok := nd.(*ast.RangeStmt); ok && identObj(info, rs.X) == want && loop == nil {
			loop = rs
		}
		return true
	})
	// per-iteration obligation, shared by both forms: an iteration that completes saw an equal entry
	// (or, flag form, flipped the flag)
	iterEq := func(f *FuncInfo, l *ast.RangeStmt, orFlag *ast.Ident, flagWhen bool, what string) {
		finfo := f.Info()
		ko, vo := identObj(finfo, l.Key), identObj(finfo, l.Value)
		var okId *ast.Ident
		var got types.Object
		var cmp *ast.BinaryExpr
		ast.Inspect(l.Body, func(k ast.Node) bool {
			if as, ok := k.(*ast.AssignStmt); ok && len(as.Lhs) == 2 && len(as.Rhs) == 1 {
				if ix, ok := ast.Unparen(as.Rhs[0]).(*ast.IndexExpr); ok && ko != nil && identObj(finfo, ix.Index) == ko {
					got = identObj(finfo, as.Lhs[0])
					okId, _ = ast.Unparen(as.Lhs[1]).(*ast.Ident)
				}
			}
			return true
		})
		ast.Inspect(l.Body, func(k ast.Node) bool {
			be, ok := k.(*ast.BinaryExpr)
			if !ok || (be.Op != token.EQL && be.Op != token.NEQ) || vo == nil {
				return true
			}
			a, b := ast.Unparen(be.X), ast.Unparen(be.Y)
			isGot := func(x ast.Expr) bool {
				if got != nil && identObj(finfo, x) == got {
					return true
				}
				ix, ok := x.(*ast.IndexExpr)
				return ok && got == nil && identObj(finfo, ix.Index) == ko
			}
			if (isGot(a) && identObj(finfo, b) == vo) || (isGot(b) && identObj(finfo, a) == vo) {
				cmp = be
			}
			return true
		})
		if cmp == nil {
			c.Undec("C19.R7", what, p.Pos(l), f.Key(), "the node's value is compared with the wanted value", "comparison not recognised")
			return
		}
		c.RequireAtEndF("C19.R7", what, f, l.Body, "the entry is present and equal"+map[bool]string{true: " or the flag was flipped", false: ""}[orFlag != nil], func(e *FactEngine) (*Formula, error) {
			eq := e.Cond(cmp)
			if cmp.Op == token.NEQ {
				eq = mkNot(eq)
			}
			if okId != nil && okId.Name != "_" {
				eq = mkAnd(e.Cond(okId), eq)
			}
			if orFlag != nil {
				fl := e.Cond(orFlag)
				if !flagWhen {
					fl = mkNot(fl)
				}
				eq = mkOr(eq, fl)
			}
			return eq, nil
		})
	}
	// 1. nothing succeeds from inside the loop of the function itself
	inLoop := 0
	if loop != nil {
		for _, r := range declReturns(fn.Decl.Body) {
			if r.Pos() > loop.Body.Pos() && r.End() < loop.Body.End() {
				if ok, known := isSuccessReturn(info, sig, r); (ok && known) || !known {
					inLoop++
					c.Bad("C19.R7", "PatchNodeAnnotations: no skip before every entry was compared", p.Pos(r), fn.Key(), "no success return inside the loop over the wanted annotations", "returns from inside the loop: one matching entry skips the patch of all others")
				}
			}
		}
		if inLoop == 0 {
			c.OK("C19.R7", "PatchNodeAnnotations: no skip before every entry was compared", p.Pos(loop), fn.Key(), "no success return inside the loop")
		}
	}
	// 2. the skips before the patch (after the loop, when there is one)
	nskip := 0
	for _, r := range declReturns(fn.Decl.Body) {
		if r.Pos() > patch.Pos() || (loop != nil && r.Pos() < loop.End()) {
			continue
		}
		if ok, known := isSuccessReturn(info, sig, r); !ok || !known {
			continue
		}
		var guard *ast.IfStmt
		for _, x := range pathTo(fn.Decl.Body, r) {
			if is, ok := x.(*ast.IfStmt); ok && is.Body.Pos() <= r.Pos() && r.End() <= is.Body.End() {
				guard = is
			}
		}
		if guard == nil {
			c.Bad("C19.R7", "PatchNodeAnnotations: the skip is conditional", p.Pos(r), fn.Key(), "if <all present> { return nil }", "unconditional success return before the patch")
			continue
		}
		cond := ast.Unparen(guard.Cond)
		// `len(anno) == 0`: nothing is wanted
		if be, ok := cond.(*ast.BinaryExpr); ok {
			if lc, isLen := isBuiltinCall(info, be.X, "len"); isLen && identObj(info, lc.Args[0]) == want {
				continue
			}
		}
		nskip++
		skipWhen := true
		if u, ok := cond.(*ast.UnaryExpr); ok && u.Op == token.NOT {
			cond, skipWhen = ast.Unparen(u.X), false
		}
		// helper form
		if call, ok := cond.(*ast.CallExpr); ok {
			h := p.FuncOf(Callee(info, call))
			if h == nil || h.Decl.Body == nil {
				c.Undec("C19.R7", "PatchNodeAnnotations: the skip tests a universal match", p.Pos(guard.Cond), fn.Key(), "a module helper", exprString(cond))
				continue
			}
			hinfo := h.Info()
			// the helper ranges over the parameter bound to the wanted map
			var hl *ast.RangeStmt
			ast.Inspect(h.Decl.Body, func(nd ast.Node) bool {
				rs, ok := nd.(*ast.RangeStmt)
				if !ok || hl != nil {
					return true
				}
				if v, ok := identObj(hinfo, rs.X).(*types.Var); ok {
					if pi := paramIndex(h, v); pi >= 0 && pi < len(call.Args) && identObj(info, call.Args[pi]) == want {
						hl = rs
					}
				}
				return true
			})
			if hl == nil {
				c.Bad("C19.R7", "PatchNodeAnnotations: the skip tests a universal match", p.Pos(guard.Cond), fn.Key(), h.Name+" ranges over the wanted annotations", "no loop over the parameter that receives the wanted map")
				continue
			}
			okShape, why := true, ""
			nIn, nOut := 0, 0
			for _, hr := range declReturns(h.Decl.Body) {
				if len(hr.Results) != 1 {
					okShape, why = false, "result count"
					continue
				}
				tv := hinfo.Types[ast.Unparen(hr.Results[0])]
				if tv.Value == nil {
					okShape, why = false, "non-constant return "+exprString(hr.Results[0])
					continue
				}
				val := tv.Value.String() == "true"
				inside := hr.Pos() > hl.Body.Pos() && hr.End() < hl.Body.End()
				switch {
				case inside && val != skipWhen:
					nIn++
				case !inside && hr.Pos() > hl.End() && val == skipWhen:
					nOut++
				default:
					okShape, why = false, fmt.Sprintf("returns %v at %s", val, p.Pos(hr))
				}
			}
			c.Check(okShape && nIn > 0 && nOut > 0, "C19.R7", "PatchNodeAnnotations: the skip tests a universal match", p.Pos(guard.Cond), fn.Key(),
				h.Name+" returns "+fmt.Sprint(!skipWhen)+" inside its loop and "+fmt.Sprint(skipWhen)+" only after it", why)
			if okShape {
				iterEq(h, hl, nil, false, h.Name+": an iteration that completes saw an equal entry")
			}
			continue
		}
		flag := identObj(info, cond)
		if flag == nil || loop == nil {
			c.Undec("C19.R7", "PatchNodeAnnotations: the skip tests a universal match", p.Pos(guard.Cond), fn.Key(), "a flag maintained by a loop over the wanted map, or a helper", exprString(guard.Cond))
			continue
		}
		okShape, why := true, ""
		var flips []ast.Node
		for _, d := range varDefs(fn, flag) {
			if d.rhs == nil {
				if _, isDecl := d.node.(*ast.ValueSpec); isDecl && !skipWhen {
					continue
				}
				okShape, why = false, "assigned from a multi-value expression"
				continue
			}
			tv := info.Types[ast.Unparen(d.rhs)]
			if tv.Value == nil {
				okShape, why = false, "assigned "+exprString(d.rhs)
				continue
			}
			val := tv.Value.String() == "true"
			inside := d.node.Pos() > loop.Body.Pos() && d.node.End() < loop.Body.End()
			switch {
			case !inside && val == skipWhen:
			case inside && val != skipWhen:
				flips = append(flips, d.node)
			default:
				okShape, why = false, fmt.Sprintf("assigned %v at %s", val, p.Pos(d.node))
			}
		}
		c.Check(okShape && len(flips) > 0, "C19.R7", "PatchNodeAnnotations: the skip tests a universal match", p.Pos(guard.Cond), fn.Key(),
			"flag := "+fmt.Sprint(skipWhen)+" before the loop; flag = "+fmt.Sprint(!skipWhen)+" inside it", why)
		if !okShape || len(flips) == 0 {
			continue
		}
		flagId, _ := cond.(*ast.Ident)
		iterEq(fn, loop, flagId, !skipWhen, "PatchNodeAnnotations: an iteration that completes saw an equal entry or flipped the flag")
		// an iteration that is cut short (break) flipped the flag just before
		ast.Inspect(loop.Body, func(k ast.Node) bool {
			blk, ok := k.(*ast.BlockStmt)
			if !ok {
				return true
			}
			for i, st := range blk.List {
				br, ok := st.(*ast.BranchStmt)
				if !ok || br.Tok != token.BREAK {
					continue
				}
				after := false
				if i > 0 {
					for _, fl := range flips {
						if ast.Node(blk.List[i-1]) == fl {
							after = true
						}
					}
				}
				c.Check(after, "C19.R7", "PatchNodeAnnotations: the loop is cut short only after flipping the flag", p.Pos(br), fn.Key(), "flag flipped; break", "break without a flip directly before it")
			}
			return true
		})
	}
	c.Floor("C19.R7", "skips of the patch", 1, nskip+inLoop)
}

// R8: the limits recorded for a node are those of the instance type recorded
// next to them. In the cluster controller's createOrUpdate, whenever the node's
// metadata (instance type, id, zone, region) is rewritten, the limits (NodeCap)
// are rewritten on the same path from the limits of that instance type — a
// resize in place keeps the instance id, so "same id" is no reason to keep them.
func c19R8(c *Ctx) {
	p := c.P
	c.Rule("C19.R8", "controller/node createOrUpdate: every path that rewrites Spec.NodeMetadata and goes on to succeed also rewrites Spec.NodeCap, from GetLimit of the new instance type")
	fn := p.Func("pkg/controller/node", "ReconcileNode.createOrUpdate")
	meta := p.Field(apiPkg, "NodeSpec", "NodeMetadata")
	capF := p.Field(apiPkg, "NodeSpec", "NodeCap")
	if fn == nil || meta == nil || capF == nil {
		c.Unres("C19.R8", "createOrUpdate / NodeSpec.NodeMetadata / NodeSpec.NodeCap", "not found")
		return
	}
	info := fn.Info()
	sig := fn.Obj.Type().(*types.Signature)
	ms := p.StoresTo([]*FuncInfo{fn}, meta)
	cs := p.StoresTo([]*FuncInfo{fn}, capF)
	isCap := func(n ast.Node) bool {
		for _, s := range cs {
			if !s.InLit && n.Pos() <= s.Node.Pos() && s.Node.End() <= n.End() {
				return true
			}
		}
		return false
	}
	q := NewPathQuery(p, fn, nil)
	n := 0
	for _, s := range ms {
		if s.InLit {
			continue
		}
		n++
		w := q.Escapes(isExactly(s.Node), nil, isCap, func(ret *ast.ReturnStmt) bool {
			return guardedFailure(fn, sig, ret)
		})
		c.Check(w == nil, "C19.R8", "createOrUpdate: new metadata comes with new limits", p.Pos(s.Node), fn.Key(), "must-pass: Spec.NodeMetadata = … → Spec.NodeCap = … → success", "path: "+p.describePath(w))
	}
	c.Floor("C19.R8", "stores of Spec.NodeMetadata in createOrUpdate", 1, n)
	// the limits are those of the node's instance type
	for _, s := range cs {
		if s.InLit {
			continue
		}
		src := sliceText(fn, nil, 0)
		_ = src
		okSrc := false
		ast.Inspect(s.RHS, func(k ast.Node) bool {
			if id, ok := k.(*ast.Ident); ok {
				if v, ok := info.ObjectOf(id).(*types.Var); ok && !v.IsField() {
					if t := sliceText(fn, v, 3); strings.Contains(t, "GetLimit(") && strings.Contains(t, ".InstanceType") {
						okSrc = true
					}
				}
			}
			return true
		})
		c.Check(okSrc, "C19.R8", "createOrUpdate: the limits come from GetLimit(<instance type>)", p.Pos(s.Node), fn.Key(), "NodeCap{…limit…} with limit := GetLimit(…, <node>.InstanceType)", "source not recognised")
	}
}

// R9: the advertised pod-address capacity counts only interfaces that serve
// ordinary pod addresses. In k8sAnno every addition of a flavor's slots to the
// normal-address total is under "secondary interface in standard traffic mode,
// or trunk": a high-performance (RDMA) interface is advertised separately and
// must not be counted twice.
func c19R9(c *Ctx) {
	p := c.P
	c.Rule("C19.R9", "controller/node k8sAnno: a flavor's count enters the normal pod-address capacity only for (Secondary ∧ Standard traffic mode) ∨ Trunk — the RDMA interface, advertised as its own resource, is not counted as ordinary capacity")
	fn := p.Func("pkg/controller/node", "ReconcileNode.k8sAnno")
	if fn == nil {
		c.Unres("C19.R9", "ReconcileNode.k8sAnno", "not found")
		return
	}
	info := fn.Info()
	// spellings of the constants as the file writes them
	spell := map[string]string{}
	ast.Inspect(fn.Decl.Body, func(k ast.Node) bool {
		if sel, ok := k.(*ast.SelectorExpr); ok {
			switch sel.Sel.Name {
			case "ENITypeSecondary", "ENITypeTrunk", "NetworkInterfaceTrafficModeStandard":
				spell[sel.Sel.Name] = exprString(sel)
			}
		}
		return true
	})
	n := 0
	ast.Inspect(fn.Decl.Body, func(k ast.Node) bool {
		as, ok := k.(*ast.AssignStmt)
		if !ok || len(as.Lhs) != 1 || len(as.Rhs) != 1 || (as.Tok != token.ADD_ASSIGN && as.Tok != token.ASSIGN) {
			return true
		}
		// RHS mentions <item>.Count with item a Flavor, and the per-adapter address count
		var item string
		ast.Inspect(as.Rhs[0], func(j ast.Node) bool {
			if sel, ok := j.(*ast.SelectorExpr); ok && sel.Sel.Name == "Count" && typeIs(info.TypeOf(sel.X), modPath+"/"+apiPkg, "Flavor") {
				item = exprString(sel.X)
			}
			return true
		})
		if item == "" || !strings.Contains(exprString(as.Rhs[0]), "IPv4PerAdapter") {
			return true
		}
		// only the shared-interface branch (exclusive mode counts interfaces, not addresses)
		n++
		if spell["ENITypeSecondary"] == "" || spell["ENITypeTrunk"] == "" || spell["NetworkInterfaceTrafficModeStandard"] == "" {
			c.Undec("C19.R9", "k8sAnno: capacity term for "+item, p.Pos(as), fn.Key(), "the type / mode constants are tested in the function", "a constant is not mentioned at all")
			return true
		}
		req := fmt.Sprintf("(%[1]s.NetworkInterfaceType == %[2]s && %[1]s.NetworkInterfaceTrafficMode == %[4]s) || %[1]s.NetworkInterfaceType == %[3]s", item, spell["ENITypeSecondary"], spell["ENITypeTrunk"], spell["NetworkInterfaceTrafficModeStandard"])
		c.Require("C19.R9", "k8sAnno: a flavor counts as ordinary capacity only if Secondary∧Standard or Trunk", fn, as, req, nil)
		return true
	})
	c.Floor("C19.R9", "capacity terms in k8sAnno", 1, n)
}

// R10: the published capability is the looked-up limit, field for field. The NodeCap the node controller
// writes into the node record is a copy of the Limits of the instance type: where Limits has a field of
// the same name, that field (directly or through its one-line accessor) is the source. The daemon's
// trunk switch and the member-ENI capacity read this record.
func c19R10(c *Ctx) {
	p := c.P
	c.Rule("C19.R10", "controller/node createOrUpdate: every NodeCap field that Limits has under the same name is copied from that Limits field (directly or through an accessor that returns it)")
	fn := p.Func("pkg/controller/node", "ReconcileNode.createOrUpdate")
	limits := p.LookupObj(clientPkg, "Limits")
	if fn == nil || limits == nil {
		c.Unres("C19.R10", "ReconcileNode.createOrUpdate / client.Limits", "not found")
		return
	}
	lst, _ := limits.Type().Underlying().(*types.Struct)
	has := map[string]bool{}
	for i := 0; lst != nil && i < lst.NumFields(); i++ {
		has[lst.Field(i).Name()] = true
	}
	info := fn.Info()
	isLimits := func(t types.Type) bool {
		if ptr, ok := t.(*types.Pointer); ok {
			t = ptr.Elem()
		}
		n, ok := t.(*types.Named)
		return ok && n.Obj() == limits
	}
	// the Limits field an expression reads: limit.F, or limit.M() with M returning its receiver's F
	srcField := func(x ast.Expr) string {
		x = ast.Unparen(x)
		if sel, ok := x.(*ast.SelectorExpr); ok && info.TypeOf(sel.X) != nil && isLimits(info.TypeOf(sel.X)) {
			return sel.Sel.Name
		}
		if call, ok := x.(*ast.CallExpr); ok && len(call.Args) == 0 {
			if sel, ok := ast.Unparen(call.Fun).(*ast.SelectorExpr); ok && info.TypeOf(sel.X) != nil && isLimits(info.TypeOf(sel.X)) {
				if m := p.FuncOf(Callee(info, call)); m != nil && m.Decl.Body != nil && len(m.Decl.Body.List) == 1 {
					if r, ok := m.Decl.Body.List[0].(*ast.ReturnStmt); ok && len(r.Results) == 1 {
						if s2, ok := ast.Unparen(r.Results[0]).(*ast.SelectorExpr); ok {
							return s2.Sel.Name
						}
					}
				}
				return "?" + sel.Sel.Name + "()"
			}
		}
		return ""
	}
	n := 0
	check := func(at ast.Node, field string, v ast.Expr) {
		if !has[field] {
			return
		}
		src := srcField(derefExpr(fn, v))
		if src == "" {
			return // not a copy from the limits (a constant, another source): not this rule's business
		}
		n++
		c.Check(src == field, "C19.R10", "NodeCap."+field+" is the limit of the same name", p.Pos(at), fn.Key(), "NodeCap."+field+" ← Limits."+field, "← Limits."+src)
	}
	ast.Inspect(fn.Decl.Body, func(k ast.Node) bool {
		switch t := k.(type) {
		case *ast.CompositeLit:
			if typeIs(info.TypeOf(t), modPath+"/"+apiPkg, "NodeCap") {
				for _, el := range t.Elts {
					if kv, ok := el.(*ast.KeyValueExpr); ok {
						check(kv, exprString(kv.Key), kv.Value)
					}
				}
			}
		case *ast.AssignStmt:
			for i, l := range t.Lhs {
				if sel, ok := ast.Unparen(l).(*ast.SelectorExpr); ok && i < len(t.Rhs) {
					if inner, ok := ast.Unparen(sel.X).(*ast.SelectorExpr); ok && inner.Sel.Name == "NodeCap" {
						check(t, sel.Sel.Name, t.Rhs[i])
					}
				}
			}
		}
		return true
	})
	c.Floor("C19.R10", "NodeCap fields copied from Limits", 5, n)
}

// R11: the two readers of the Lingjun quota answer agree. The daemon's limit provider and the node
// controller both turn the GetNodeInfoForPod answer into (interfaces, addresses per interface); for
// every target of the same name they read the same field of the answer.
func c19R11(c *Ctx) {
	p := c.P
	c.Rule("C19.R11", "sibling agreement: EfloLimitProvider.GetLimit (daemon) and the node controller's Lingjun branch read the same field of the GetNodeInfoForPod answer for Adapters / TotalAdapters / IPv4PerAdapter")
	a := p.Func(clientPkg, "EfloLimitProvider.GetLimit")
	b := p.Func("pkg/controller/node", "ReconcileNode.handleEFLO")
	if a == nil || b == nil {
		c.Unres("C19.R11", "EfloLimitProvider.GetLimit / ReconcileNode.handleEFLO", "not found")
		return
	}
	table := func(fn *FuncInfo) map[string]string {
		info := fn.Info()
		out := map[string]string{}
		// the answer: the first result of GetNodeInfoForPod
		var resp types.Object
		ast.Inspect(fn.Decl.Body, func(k ast.Node) bool {
			if as, ok := k.(*ast.AssignStmt); ok && len(as.Rhs) == 1 && len(as.Lhs) >= 1 {
				if call, ok := ast.Unparen(as.Rhs[0]).(*ast.CallExpr); ok {
					if f := Callee(info, call); f != nil && f.Name() == "GetNodeInfoForPod" {
						resp = identObj(info, as.Lhs[0])
					}
				}
			}
			return true
		})
		if resp == nil {
			return out
		}
		fromResp := func(x ast.Expr) string {
			if sel, ok := ast.Unparen(derefExpr(fn, x)).(*ast.SelectorExpr); ok && identObj(info, sel.X) == resp {
				return sel.Sel.Name
			}
			return ""
		}
		ast.Inspect(fn.Decl.Body, func(k ast.Node) bool {
			switch t := k.(type) {
			case *ast.KeyValueExpr:
				if s := fromResp(t.Value); s != "" {
					out[exprString(t.Key)] = s
				}
			case *ast.AssignStmt:
				for i, l := range t.Lhs {
					if sel, ok := ast.Unparen(l).(*ast.SelectorExpr); ok && i < len(t.Rhs) {
						if s := fromResp(t.Rhs[i]); s != "" {
							out[sel.Sel.Name] = s
						}
					}
				}
			}
			return true
		})
		return out
	}
	ta, tb := table(a), table(b)
	n := 0
	var names []string
	for k := range ta {
		if _, ok := tb[k]; ok {
			names = append(names, k)
		}
	}
	sort.Strings(names)
	for _, k := range names {
		n++
		c.Check(ta[k] == tb[k], "C19.R11", k+" is read from the same field of the answer on both sides", p.Pos(a.Decl), a.Key(), "daemon and controller agree", fmt.Sprintf("daemon: %s ← %s; controller: %s ← %s", k, ta[k], k, tb[k]))
	}
	c.Floor("C19.R11", "targets both sides fill from the answer", 2, n)
}
