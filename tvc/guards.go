package main

// Exact-guard obligations: besides "target ⇒ req" (Require), show "req ⇒ target is reached"
// within one scope (a loop body or a function body), i.e. the guard of an action is no
// stronger than the property's condition. The deciding step re-uses the valuation walk of
// the fact engine, started at the scope with every valid valuation, with every branch
// condition of the scope that precedes the target forced into the universe; the reach set
// at the target must contain every valuation where req is true. Kills (assignments to
// tracked terms, unknown calls) only widen the reach set, so the check can miss a
// strengthening through a mutated term but never reports one that is not in the text.

import (
	"fmt"
	"go/ast"
	"go/constant"
	"go/token"
	"sort"
	"strings"
)

func substReq(req string, subst map[string]string) string {
	var ks []string
	for k := range subst {
		ks = append(ks, k)
	}
	sort.Slice(ks, func(i, j int) bool { return len(ks[i]) > len(ks[j]) })
	for _, k := range ks {
		req = strings.ReplaceAll(req, k, subst[k])
	}
	return req
}

// condsBefore lists the branch conditions inside scope that start before target ends
// (function literals are skipped unless they contain the target).
func condsBefore(scope *ast.BlockStmt, target ast.Node) []ast.Expr {
	var out []ast.Expr
	ast.Inspect(scope, func(n ast.Node) bool {
		if n == nil {
			return true
		}
		if n.Pos() >= target.End() {
			return false
		}
		switch t := n.(type) {
		case *ast.FuncLit:
			return t.Pos() <= target.Pos() && target.End() <= t.End()
		case *ast.IfStmt:
			out = append(out, t.Cond)
		case *ast.SwitchStmt:
			for _, cc := range t.Body.List {
				for _, x := range cc.(*ast.CaseClause).List {
					if t.Tag == nil {
						out = append(out, x)
					} else {
						out = append(out, &ast.BinaryExpr{X: t.Tag, Op: token.EQL, Y: x})
					}
				}
			}
		}
		return true
	})
	return out
}

// RequireReached: inside scope (which must contain target), no execution of the scope that
// does not execute target ends (falls off the end, continues, breaks or returns) in a state
// where req holds: whenever req holds, target was reached. req is evaluated where the skipping
// path leaves the scope, so it may mention variables the scope defines.
func (c *Ctx) RequireReached(rule, key string, fn *FuncInfo, scope *ast.BlockStmt, target ast.Node, req string, subst map[string]string) *Obligation {
	src := substReq(req, subst)
	return c.RequireReachedF(rule, key, fn, scope, target, src, func(e *FactEngine) (*Formula, error) {
		return e.ParseReq(src, target.Pos())
	})
}

// RequireReachedF is RequireReached with the condition built from the function's own syntax.
func (c *Ctx) RequireReachedF(rule, key string, fn *FuncInfo, scope *ast.BlockStmt, target ast.Node, src string, build func(e *FactEngine) (*Formula, error)) *Obligation {
	desc := src + " ⇒ reached"
	// the simple statement that executes the target
	var cut ast.Stmt
	for _, n := range pathTo(scope, target) {
		if st, ok := n.(ast.Stmt); ok {
			cut = st
		}
	}
	switch cut.(type) {
	case *ast.ExprStmt, *ast.AssignStmt, *ast.IncDecStmt, *ast.SendStmt, *ast.GoStmt, *ast.DeferStmt:
	default:
		return c.Undec(rule, key, c.P.Pos(target), fn.Key(), desc, "the target is not executed by a simple statement")
	}
	e := NewFactEngine(c.P, fn)
	f, err := build(e)
	if err != nil {
		return c.Undec(rule, key, c.P.Pos(target), fn.Key(), desc, err.Error())
	}
	force := f
	for _, x := range condsBefore(scope, target) {
		g := e.Cond(x)
		force = mkAnd(force, mkOr(g, mkNot(g)))
	}
	u, err := e.newUniverse(mkOr(force, mkNot(force)), scope, target)
	if err != nil {
		return c.Undec(rule, key, c.P.Pos(target), fn.Key(), desc, err.Error())
	}
	exits := newVset(len(u.atoms))
	frame := &loopFrame{isLoop: true, breaks: newVset(len(u.atoms)), continues: newVset(len(u.atoms))}
	w := &walker{e: e, u: u, sc: e.fnScope(), cutStmt: cut, exits: &exits, frames: []*loopFrame{frame}}
	// a return that reports failure abandons the operation: what it skipped does not matter
	if sig := sigOfBody(fn, innermostBody(fn, target)); sig != nil && errResultIndex(sig) >= 0 {
		w.failingExit = func(r *ast.ReturnStmt) bool {
			return guardedFailure(fn, sig, r)
		}
	}
	end := w.stmts(scope.List, u.valid.clone())
	if e.undecided != "" {
		return c.Undec(rule, key, c.P.Pos(target), fn.Key(), desc, "unsupported control flow: "+e.undecided)
	}
	if !w.hit {
		return c.Undec(rule, key, c.P.Pos(target), fn.Key(), desc, "target not reached by the structured walk")
	}
	skip := end.or(frame.continues).or(frame.breaks).or(exits)
	for v := 0; v < 1<<uint(len(u.atoms)); v++ {
		if skip.has(v) && evalFormula(f, u, v) {
			return c.Bad(rule, key, c.P.Pos(target), fn.Key(), desc, "skipped although the condition holds, with: "+u.describe(v))
		}
	}
	return c.OK(rule, key, c.P.Pos(target), fn.Key(), desc)
}

var _ = fmt.Sprintf

// RequireAtEnd: req holds whenever control falls off the end of scope (a loop body: at the end
// of every iteration that completes), whatever state the scope was entered in. Statements that
// leave the scope early (return, break, continue, panic) are not end points.
func (c *Ctx) RequireAtEnd(rule, key string, fn *FuncInfo, scope *ast.BlockStmt, req string, subst map[string]string) *Obligation {
	src := substReq(req, subst)
	desc := src + " at the end of the block"
	if len(scope.List) == 0 {
		return c.Undec(rule, key, c.P.Pos(scope), fn.Key(), desc, "empty block")
	}
	last := scope.List[len(scope.List)-1]
	e := NewFactEngine(c.P, fn)
	f, err := e.ParseReq(src, last.End())
	if err != nil {
		// names declared inside the block are out of scope at its end: try at the last statement
		f, err = e.ParseReq(src, last.Pos())
		if err != nil {
			return c.Undec(rule, key, c.P.Pos(scope), fn.Key(), desc, err.Error())
		}
	}
	u, err := e.newUniverse(f, scope, last)
	if err != nil {
		return c.Undec(rule, key, c.P.Pos(scope), fn.Key(), desc, err.Error())
	}
	w := &walker{e: e, u: u, sc: e.fnScope()}
	end := w.stmts(scope.List, u.valid.clone())
	if e.undecided != "" {
		return c.Undec(rule, key, c.P.Pos(scope), fn.Key(), desc, "unsupported control flow: "+e.undecided)
	}
	for v := 0; v < 1<<uint(len(u.atoms)); v++ {
		if end.has(v) && !evalFormula(f, u, v) {
			return c.Bad(rule, key, c.P.Pos(last), fn.Key(), desc, "the block can end with: "+u.describe(v))
		}
	}
	return c.OK(rule, key, c.P.Pos(last), fn.Key(), desc)
}

// RequireAnyOf: at target, at least one of the alternatives holds. Alternatives that do not
// type-check at the target (they mention a name that is not in scope there) are dropped — what
// they talk about cannot be the reason this point is reached; with none left the obligation is
// violated.
func (c *Ctx) RequireAnyOf(rule, key string, fn *FuncInfo, target ast.Node, alts []string) *Obligation {
	desc := strings.Join(alts, "  ∨  ")
	return c.RequireF(rule, key, fn, target, desc, func(e *FactEngine) (*Formula, error) {
		f := fF
		n := 0
		for _, a := range alts {
			g, err := e.ParseReq(a, target.Pos())
			if err != nil {
				continue
			}
			n++
			f = mkOr(f, g)
		}
		if n == 0 {
			return fF, nil
		}
		return f, nil
	})
}

// returnsOf lists the return statements of fn's own body (function literals excluded).
func returnsOf(fn *FuncInfo) []*ast.ReturnStmt {
	var out []*ast.ReturnStmt
	var walk func(n ast.Node)
	walk = func(n ast.Node) {
		ast.Inspect(n, func(m ast.Node) bool {
			switch t := m.(type) {
			case *ast.FuncLit:
				return false
			case *ast.ReturnStmt:
				out = append(out, t)
			}
			return true
		})
	}
	walk(fn.Decl.Body)
	return out
}

// ResultOnlyUnder: result idx of fn is `val` (a boolean) only where one of alts holds. For a
// return whose result is not a constant the obligation is (result == val) ⇒ alternatives.
func (c *Ctx) ResultOnlyUnder(rule, what string, fn *FuncInfo, idx int, val bool, alts []string) int {
	info := fn.Info()
	n := 0
	for _, r := range returnsOf(fn) {
		if idx >= len(r.Results) {
			c.Undec(rule, what, c.P.Pos(r), fn.Key(), "", "bare return: result not visible")
			continue
		}
		x := r.Results[idx]
		if tv := info.Types[x]; tv.Value != nil {
			if constant.BoolVal(tv.Value) != val {
				continue
			}
			n++
			c.RequireAnyOf(rule, what, fn, r, alts)
			continue
		}
		n++
		xs := exprString(x)
		if !val {
			xs = "!(" + xs + ")"
		}
		var wrapped []string
		for _, a := range alts {
			wrapped = append(wrapped, "!("+xs+") || ("+a+")")
		}
		c.RequireAnyOf(rule, what, fn, r, wrapped)
	}
	return n
}

// ResultOnlyUnderF is ResultOnlyUnder with the licence given as a formula built from the
// function's own syntax (so it may mention variables that are not in scope at the return, such
// as the locals of an expanded helper).
func (c *Ctx) ResultOnlyUnderF(rule, what string, fn *FuncInfo, idx int, val bool, desc string, build func(e *FactEngine) *Formula) int {
	info := fn.Info()
	n := 0
	for _, r := range returnsOf(fn) {
		if idx >= len(r.Results) {
			c.Undec(rule, what, c.P.Pos(r), fn.Key(), "", "bare return: result not visible")
			continue
		}
		x := r.Results[idx]
		if tv := info.Types[x]; tv.Value != nil {
			if constant.BoolVal(tv.Value) != val {
				continue
			}
			n++
			c.RequireF(rule, what, fn, r, desc, func(e *FactEngine) (*Formula, error) { return build(e), nil })
			continue
		}
		n++
		c.RequireF(rule, what, fn, r, "("+exprString(x)+fmt.Sprintf(" == %v", val)+") ⇒ "+desc, func(e *FactEngine) (*Formula, error) {
			res := e.Cond(x)
			if !val {
				res = mkNot(res)
			}
			return mkOr(mkNot(res), build(e)), nil
		})
	}
	return n
}

// RequireAtEndF is RequireAtEnd with the requirement built from the function's own syntax.
func (c *Ctx) RequireAtEndF(rule, key string, fn *FuncInfo, scope *ast.BlockStmt, desc string, build func(e *FactEngine) (*Formula, error)) *Obligation {
	desc += " at the end of the block"
	if len(scope.List) == 0 {
		return c.Undec(rule, key, c.P.Pos(scope), fn.Key(), desc, "empty block")
	}
	last := scope.List[len(scope.List)-1]
	e := NewFactEngine(c.P, fn)
	f, err := build(e)
	if err != nil {
		return c.Undec(rule, key, c.P.Pos(scope), fn.Key(), desc, err.Error())
	}
	u, err := e.newUniverse(f, scope, last)
	if err != nil {
		return c.Undec(rule, key, c.P.Pos(scope), fn.Key(), desc, err.Error())
	}
	w := &walker{e: e, u: u, sc: e.fnScope()}
	end := w.stmts(scope.List, u.valid.clone())
	if e.undecided != "" {
		return c.Undec(rule, key, c.P.Pos(scope), fn.Key(), desc, "unsupported control flow: "+e.undecided)
	}
	for v := 0; v < 1<<uint(len(u.atoms)); v++ {
		if end.has(v) && !evalFormula(f, u, v) {
			return c.Bad(rule, key, c.P.Pos(last), fn.Key(), desc, "the block can end with: "+u.describe(v))
		}
	}
	return c.OK(rule, key, c.P.Pos(last), fn.Key(), desc)
}
