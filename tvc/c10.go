package main

// C10 — PodENI follows its state machine and an ENI is never pulled from a live pod.

import (
	"fmt"
	"go/ast"
	"go/token"
	"go/types"
	"sort"
	"strings"
)

func init() { registry["C10"] = c10 }

const (
	podCtlPkg    = "pkg/controller/pod"
	podENICtlPkg = "pkg/controller/pod-eni"
)

var phaseNames = []string{"ENIPhaseInitial", "ENIPhaseBinding", "ENIPhaseBind", "ENIPhaseDetaching", "ENIPhaseUnbind", "ENIPhaseDeleting"}

func shortPhase(n string) string { return strings.TrimPrefix(n, "ENIPhase") }

func c10(c *Ctx) {
	if c.P.Pkg(podCtlPkg) == nil || c.P.Pkg(podENICtlPkg) == nil {
		c.Unres("C10", podCtlPkg+" / "+podENICtlPkg, "package not loaded")
		return
	}
	ruleShadow(c, "C10.R12", "the whole module")
	c10R13(c)
	c10R14(c)
	c10R1(c)
	c10R2(c)
	c10R3(c)
	c10R4(c)
	c10R5(c)
	c10R6(c)
	c10R7(c)
	ruleSandboxExited(c, "C10.R9")
	c10R10(c)
	c10R11(c)
	// an interface is collected as leaked only against a complete list of the records (shared rule)
	c11R7(c)
	ruleCASPublication(c, "C10.R8", "PodENI", map[string]string{
		"Status.PodLastSeen": "a timestamp; the latest writer winning is the intent",
		"Labels":             "node label follows the pod; no transition is decided on it",
	})
}

// phaseSource resolves the object whose phase is the "from" phase of a store
// on x: through `x := y.DeepCopy()`.
func phaseSource(fn *FuncInfo, x ast.Expr) ast.Expr {
	info := fn.Info()
	if o := identObj(info, x); o != nil {
		ds := varDefs(fn, o)
		if len(ds) == 1 && ds[0].rhs != nil {
			if call, ok := ast.Unparen(ds[0].rhs).(*ast.CallExpr); ok {
				if sel, ok := ast.Unparen(call.Fun).(*ast.SelectorExpr); ok && sel.Sel.Name == "DeepCopy" {
					return sel.X
				}
			}
		}
	}
	return x
}

// possiblePhases computes which phases obj.Status.Phase may have at node n of
// fn; when obj is a parameter without local facts the call sites are consulted.
func possiblePhases(c *Ctx, fn *FuncInfo, n ast.Node, obj ast.Expr, depth int) map[string]bool {
	return possiblePhasesUnder(c, fn, n, obj, depth, "")
}

func possiblePhasesUnder(c *Ctx, fn *FuncInfo, n ast.Node, obj ast.Expr, depth int, assume string) map[string]bool {
	p := c.P
	out := map[string]bool{}
	info := fn.Info()
	for _, ph := range phaseNames {
		lit := constLit(p, apiPkg, ph)
		e := NewFactEngine(p, fn)
		req := exprString(obj) + ".Status.Phase != " + lit
		if assume != "" {
			req = "!(" + assume + ") || " + req
		}
		f, err := e.ParseReq(req, n.Pos())
		if err != nil {
			out[ph] = true
			continue
		}
		if ok, _, err := e.FactsAt(n, f); err != nil || !ok {
			out[ph] = true
		}
	}
	if len(out) < len(phaseNames) || depth >= 2 {
		return out
	}
	// no local knowledge: if obj is a parameter, take the union over call sites
	po := identObj(info, obj)
	idx := -1
	i := 0
	for _, fld := range fn.Decl.Type.Params.List {
		for _, nm := range fld.Names {
			if info.Defs[nm] == po {
				idx = i
			}
			i++
		}
	}
	if idx < 0 {
		return out
	}
	p.buildCallers()
	callers := p.callers[fn.Obj]
	if len(callers) == 0 {
		return out
	}
	union := map[string]bool{}
	for _, caller := range callers {
		for _, cs := range p.CallsIn(caller) {
			if cs.Callee != fn.Obj || idx >= len(cs.Call.Args) {
				continue
			}
			for ph := range possiblePhases(c, caller, cs.Call, phaseSource(caller, cs.Call.Args[idx]), depth+1) {
				union[ph] = true
			}
		}
	}
	if len(union) == 0 {
		return out
	}
	return union
}

var documentedTransitions = map[string]map[string]bool{
	"Bind":      {"Initial": true, "Binding": true},
	"Detaching": {"Bind": true},
	"Unbind":    {"Detaching": true},
	"Binding":   {"Unbind": true},
	"Deleting":  {"Initial": true, "Binding": true, "Bind": true, "Detaching": true, "Unbind": true, "Deleting": true},
}

type phaseStore struct {
	st   Store
	to   string
	from map[string]bool
	obj  ast.Expr
	// assume: for a store of a phase *variable* (`x.Status.Phase = next`), the condition under
	// which this entry's constant is the one stored (`next == ENIPhaseDetaching`)
	assume string
}

// req states r under the entry's assumption.
func (ps phaseStore) req(r string) string {
	if ps.assume == "" {
		return r
	}
	return "!(" + ps.assume + ") || (" + r + ")"
}

// phaseConstsOf: the declared phase constants a phase-typed local is assigned (nil when some
// definition is not one of them).
func phaseConstsOf(fn *FuncInfo, x ast.Expr) []types.Object {
	info := fn.Info()
	v, ok := identObj(info, x).(*types.Var)
	if !ok || v.IsField() || v.Pkg() == nil || v.Parent() == v.Pkg().Scope() {
		return nil
	}
	var out []types.Object
	for _, d := range varDefs(fn, v) {
		if d.rhs == nil {
			if _, isDecl := d.node.(*ast.ValueSpec); isDecl {
				continue // declared without a value and assigned on every path that stores it (checked by the facts)
			}
			return nil
		}
		o := identObjSel(info, d.rhs)
		if o == nil || !strings.HasPrefix(o.Name(), "ENIPhase") {
			return nil
		}
		out = append(out, o)
	}
	return out
}

func phaseStores(c *Ctx) []phaseStore {
	p := c.P
	phaseF := p.Field(apiPkg, "PodENIStatus", "Phase")
	if phaseF == nil {
		return nil
	}
	var out []phaseStore
	for _, s := range p.StoresTo(nil, phaseF) {
		if s.RHS == nil || s.InLit {
			continue
		}
		// X.Status.Phase
		sel := s.LHS.(*ast.SelectorExpr)
		stSel, ok := ast.Unparen(sel.X).(*ast.SelectorExpr)
		if !ok {
			continue
		}
		src := phaseSource(s.Fn, stSel.X)
		o := identObjSel(s.Fn.Info(), s.RHS)
		if o == nil || !strings.HasPrefix(o.Name(), "ENIPhase") {
			// a phase variable chosen among constants: one entry per constant, under `var == const`
			seen := map[types.Object]bool{}
			for _, co := range phaseConstsOf(s.Fn, s.RHS) {
				if seen[co] {
					continue
				}
				seen[co] = true
				out = append(out, phaseStore{st: s, to: shortPhase(co.Name()), obj: src, assume: exprString(s.RHS) + " == " + constLit(p, apiPkg, co.Name())})
			}
			continue
		}
		out = append(out, phaseStore{st: s, to: shortPhase(o.Name()), obj: src, from: nil})
	}
	return out
}

func c10R1(c *Ctx) {
	p := c.P
	c.Rule("C10.R1", "transition extraction: every store of a phase constant into PodENI.Status.Phase, paired with the phases the source record may have there (facts through DeepCopy aliases and call sites), yields a {from → to} table that must be contained in the documented relation: Initial→Bind, Binding→Bind, Bind→Detaching, Detaching→Unbind, Unbind→Binding, any→Deleting")
	stores := phaseStores(c)
	c.Floor("C10.R1", "phase stores", 7, len(stores))
	for _, ps := range stores {
		from := possiblePhasesUnder(c, ps.st.Fn, ps.st.Node, ps.obj, 0, ps.assume)
		var names []string
		for ph := range from {
			names = append(names, shortPhase(ph))
		}
		sort.Strings(names)
		for _, f := range names {
			key := fmt.Sprintf("%s: %s→%s", ps.st.Fn.Key(), f, ps.to)
			allowed := documentedTransitions[ps.to][f]
			c.Check(allowed, "C10.R1", key, p.Pos(ps.st.Node), ps.st.Fn.Key(), "transition is in the documented relation", "phase "+f+" is not excluded at this store of "+ps.to)
		}
	}
	// the phase is written nowhere with a non-constant value
	phaseF := p.Field(apiPkg, "PodENIStatus", "Phase")
	for _, s := range p.StoresTo(nil, phaseF) {
		if s.RHS == nil || s.InLit {
			continue
		}
		if o := identObjSel(s.Fn.Info(), s.RHS); (o == nil || !strings.HasPrefix(o.Name(), "ENIPhase")) && len(phaseConstsOf(s.Fn, s.RHS)) == 0 {
			c.Bad("C10.R1", "non-constant phase store in "+s.Fn.Key(), p.Pos(s.Node), s.Fn.Key(), "phases are assigned from the declared constants only", exprString(s.RHS))
		}
	}
}

func c10R2(c *Ctx) {
	p := c.P
	c.Rule("C10.R2", "the cloud interface of a PodENI is detached / deleted only from the phase-driven helpers (detachMemberENI, deleteMemberENI), the leak collector and the creation roll-back; detach runs only in phase Detaching, finalisation only for a record being deleted that still carries the finalizer")
	var sites []CallSite
	for _, pk := range []string{podCtlPkg, podENICtlPkg} {
		for _, fn := range p.FuncsInPkg(pk) {
			for _, cs := range p.CallsIn(fn) {
				if cs.Callee != nil && (cs.Callee.Name() == "DetachNetworkInterface" || cs.Callee.Name() == "DeleteNetworkInterface") {
					sites = append(sites, cs)
				}
			}
		}
	}
	c.WhoMay("C10.R2", "detach / delete a PodENI interface", groupCalls(sites), map[string]string{
		podENICtlPkg + ".ReconcilePodENI.detachMemberENI": "phase Detaching / finalisation",
		podENICtlPkg + ".ReconcilePodENI.deleteMemberENI": "finalisation",
		podENICtlPkg + ".ReconcilePodENI.gcENIs":          "leak collector (C11.R3)",
		podCtlPkg + ".ReconcilePod.deleteAllENI":          "roll-back of a failed creation",
	})
	c.Floor("C10.R2", "detach/delete call sites", 5, len(sites))
	p.buildCallers()
	// detach only under phase Detaching
	if detach := p.Func(podENICtlPkg, "ReconcilePodENI.detach"); detach != nil {
		for _, caller := range p.callers[detach.Obj] {
			for _, cs := range p.CallsTo([]*FuncInfo{caller}, detach.Obj) {
				c.Require("C10.R2", "detach() only in phase Detaching", caller, cs.Call, exprString(cs.Call.Args[1])+".Status.Phase == "+constLit(p, apiPkg, "ENIPhaseDetaching"), nil)
			}
		}
	} else {
		c.Unres("C10.R2", "ReconcilePodENI.detach", "not found")
	}
	for _, name := range []string{"detachMemberENI", "deleteMemberENI"} {
		fn := p.Func(podENICtlPkg, "ReconcilePodENI."+name)
		if fn == nil {
			c.Unres("C10.R2", name, "not found")
			continue
		}
		var ks []string
		for _, caller := range p.callers[fn.Obj] {
			ks = append(ks, caller.Name)
		}
		sort.Strings(ks)
		want := "ReconcilePodENI.podENIDelete"
		if name == "detachMemberENI" {
			want = "ReconcilePodENI.detach,ReconcilePodENI.podENIDelete"
		}
		c.Check(strings.Join(ks, ",") == want, "C10.R2", name+" reached only from "+want, p.Pos(fn.Decl), fn.Key(), "callers = {"+want+"}", strings.Join(ks, ","))
	}
	if del := p.Func(podENICtlPkg, "ReconcilePodENI.podENIDelete"); del != nil {
		for _, caller := range p.callers[del.Obj] {
			for _, cs := range p.CallsTo([]*FuncInfo{caller}, del.Obj) {
				o := exprString(cs.Call.Args[1])
				c.Require("C10.R2", "podENIDelete only for a record being deleted that carries the finalizer", caller, cs.Call, "!"+o+".DeletionTimestamp.IsZero() && controllerutil.ContainsFinalizer("+o+", types.FinalizerPodENI)", nil)
			}
		}
	}
	if da := p.Func(podCtlPkg, "ReconcilePod.deleteAllENI"); da != nil {
		var ks []string
		for _, caller := range p.callers[da.Obj] {
			ks = append(ks, caller.Name)
		}
		c.Check(len(ks) == 1 && ks[0] == "ReconcilePod.podCreate", "C10.R2", "deleteAllENI reached only from podCreate's roll-back", p.Pos(da.Decl), da.Key(), "callers = {podCreate}", strings.Join(ks, ","))
	}
}

func c10R3(c *Ctx) {
	p := c.P
	c.Rule("C10.R3", "a teardown (store of Detaching / Deleting, or Delete of the record) is started only when the pod is gone (Get → NotFound), its sandbox exited, the recorded UID differs from the live pod's UID, the pod no longer requires a PodENI, or the record is already Deleting")
	detachingLit := constLit(p, apiPkg, "ENIPhaseDetaching")
	deletingLit := constLit(p, apiPkg, "ENIPhaseDeleting")
	_ = detachingLit
	n := 0
	for _, ps := range phaseStores(c) {
		if ps.to != "Detaching" && ps.to != "Deleting" {
			continue
		}
		n++
		fn := ps.st.Fn
		key := fmt.Sprintf("%s: store %s justified", fn.Key(), ps.to)
		switch fn.Name {
		case "ReconcilePod.podCreate":
			c.Require("C10.R3", key, fn, ps.st.Node, ps.req("prePodENI.Annotations[types.PodUID] != string(pod.UID)"), nil)
		case "ReconcilePod.podDelete":
			// justified at the call sites
			p.buildCallers()
			for _, caller := range p.callers[fn.Obj] {
				for _, cs := range p.CallsTo([]*FuncInfo{caller}, fn.Obj) {
					c.Require("C10.R3", key+" (call site in "+caller.Name+")", caller, cs.Call, "k8sErr.IsNotFound(err) || utils.PodSandboxExited(pod)", nil)
				}
			}
		case "ReconcilePodENI.gcCRPodENIs":
			p.Func(podENICtlPkg, "ReconcilePodENI.podRequirePodENI") // anchor: the requirement names the predicate
			errName, pred := podGetAndPredicate(p, fn)
			if pred == "" {
				c.Undec("C10.R3", key, p.Pos(ps.st.Node), fn.Key(), "the pod's Get and the podRequirePodENI test", "not recognised")
				break
			}
			c.Require("C10.R3", key, fn, ps.st.Node, ps.req(errName+" != nil || !"+pred), nil)
		default:
			c.Bad("C10.R3", key, p.Pos(ps.st.Node), fn.Key(), "teardown started only from the three known sites", "new site")
		}
	}
	c.Floor("C10.R3", "teardown-starting stores", 4, n)
	// client.Delete(podENI)
	m := 0
	for _, pk := range []string{podCtlPkg, podENICtlPkg} {
		for _, fn := range p.FuncsInPkg(pk) {
			info := fn.Info()
			for _, cs := range p.CallsIn(fn) {
				if cs.Callee == nil || cs.Callee.Name() != "Delete" || len(cs.Call.Args) < 2 {
					continue
				}
				if !typeIs(info.TypeOf(cs.Call.Args[1]), modPath+"/"+apiPkg, "PodENI") {
					continue
				}
				m++
				key := fn.Key() + ": Delete(PodENI) justified"
				switch fn.Name {
				case "ReconcilePod.podCreate":
					c.Require("C10.R3", key, fn, cs.Call, "prePodENI.Annotations[types.PodUID] != string(pod.UID)", nil)
				case "ReconcilePodENI.podENICreate":
					c.Require("C10.R3", key, fn, cs.Call, exprString(cs.Call.Args[1])+".Status.Phase == "+deletingLit, nil)
				default:
					c.Bad("C10.R3", key, p.Pos(cs.Call), fn.Key(), "record deletion only from the two known sites", "new site")
				}
			}
		}
	}
	c.Floor("C10.R3", "record deletions", 2, m)
	// the gc treats a Get error other than NotFound as 'unknown' and does nothing
	if gc := p.Func(podENICtlPkg, "ReconcilePodENI.gcCRPodENIs"); gc != nil {
		okGuard := false
		ast.Inspect(gc.Decl.Body, func(nd ast.Node) bool {
			if is, ok := nd.(*ast.IfStmt); ok {
				s := exprString(is.Cond)
				if strings.Contains(s, "err != nil") && strings.Contains(s, "!k8sErr.IsNotFound(err)") && len(is.Body.List) > 0 {
					if _, isRet := is.Body.List[len(is.Body.List)-1].(*ast.ReturnStmt); isRet {
						okGuard = true
					}
				}
			}
			return true
		})
		c.Check(okGuard, "C10.R3", "gcCRPodENIs: an unreadable pod is not treated as gone", p.Pos(gc.Decl), gc.Key(), "if err != nil && !IsNotFound(err) { return }", "guard not found")
	}
}

func c10R4(c *Ctx) {
	p := c.P
	c.Rule("C10.R4", "podCreate: once interfaces were created every failure return is covered by the deferred roll-back bound to the function's error variable; the roll-back deletes every recorded allocation")
	fn := p.Func(podCtlPkg, "ReconcilePod.podCreate")
	da := p.Func(podCtlPkg, "ReconcilePod.deleteAllENI")
	create := p.Func(podCtlPkg, "ReconcilePod.createENI")
	if fn == nil || da == nil || create == nil {
		c.Unres("C10.R4", "podCreate / deleteAllENI / createENI", "not found")
		return
	}
	info := fn.Info()
	isUndo := func(call *ast.CallExpr) bool { return Callee(info, call) == da.Obj }
	undos, problems := findDeferredUndo(p, fn, isUndo, nil)
	for _, pr := range problems {
		c.Bad("C10.R4", "podCreate deferred roll-back shape", "", fn.Key(), "defer func(){ if err != nil { deleteAllENI(podENI) } }()", pr)
	}
	if len(undos) == 0 {
		c.Bad("C10.R4", "podCreate has a deferred roll-back", p.Pos(fn.Decl), fn.Key(), "defer func(){ if err != nil { deleteAllENI(podENI) } }()", "none found")
		return
	}
	du := undos[0]
	successKeepsResult(c, "C10.R4", fn, du, "roll-back of the created interfaces")
	var createCall *ast.CallExpr
	for _, cs := range p.CallsTo([]*FuncInfo{fn}, create.Obj) {
		createCall = cs.Call
	}
	if createCall == nil {
		c.Unres("C10.R4", "createENI call in podCreate", "not found")
		return
	}
	// the defer is registered before the creation
	q := NewPathQuery(p, fn, nil)
	w := q.Escapes(nil, isExactly(createCall), isExactly(du.stmt), nil)
	c.Check(w == nil, "C10.R4", "roll-back registered before any interface is created", p.Pos(du.stmt), fn.Key(), "must-pass: defer → createENI", "path: "+p.describePath(w))
	sig := fn.Obj.Type().(*types.Signature)
	n := 0
	for _, r := range declReturns(fn.Decl.Body) {
		if r.Pos() < createCall.Pos() {
			continue
		}
		if ok, known := isSuccessReturn(info, sig, r); ok && known {
			continue
		}
		n++
		ok, why := coveredByDeferredUndo(c, fn, du, nil, r)
		c.Check(ok, "C10.R4", "podCreate failure return after "+lastFallible(fn, r)+" is rolled back", p.Pos(r), fn.Key(), "the returned error is the variable the deferred roll-back tests", why)
	}
	c.Floor("C10.R4", "failure returns of podCreate after createENI", 2, n)
	// same object handed to createENI, Create and the roll-back
	// (the record is the one argument of type *PodENI of either call, wherever it stands)
	a, b := argByNamedType(info, du.undo, "PodENI"), argByNamedType(info, createCall, "PodENI")
	same := a != nil && b != nil && identObj(info, a) != nil && identObj(info, a) == identObj(info, b)
	c.Check(same, "C10.R4", "roll-back deletes the interfaces recorded by createENI", p.Pos(du.undo), fn.Key(), "deleteAllENI(podENI) with the podENI that createENI fills", "different objects")
	// deleteAllENI ranges over all allocations and stops only on error
	dinfo := da.Info()
	okRange := false
	ast.Inspect(da.Decl.Body, func(nd ast.Node) bool {
		if rs, ok := nd.(*ast.RangeStmt); ok {
			if fv := fieldOf(dinfo, rs.X); fv != nil && fv.Name() == "Allocations" {
				hasBreak := false
				ast.Inspect(rs.Body, func(k ast.Node) bool {
					if b, ok := k.(*ast.BranchStmt); ok && b.Tok.String() == "break" {
						hasBreak = true
					}
					return true
				})
				okRange = !hasBreak
			}
		}
		return true
	})
	c.Check(okRange, "C10.R4", "deleteAllENI covers every recorded allocation", p.Pos(da.Decl), da.Key(), "for _, alloc := range podENI.Spec.Allocations { Delete(alloc.ENI.ID) }", "not recognised")
	// createENI records every created interface into podENI.Spec.Allocations (so the roll-back sees it)
	cinfo := create.Info()
	okRec := false
	ast.Inspect(create.Decl.Body, func(nd ast.Node) bool {
		if as, ok := nd.(*ast.AssignStmt); ok && len(as.Lhs) == 1 {
			if fv := fieldOf(cinfo, as.Lhs[0]); fv != nil && fv.Name() == "Allocations" {
				if _, ok := isBuiltinCall(cinfo, as.Rhs[0], "append"); ok {
					okRec = true
				}
			}
		}
		return true
	})
	c.Check(okRec, "C10.R4", "createENI records each created interface in the PodENI spec", p.Pos(create.Decl), create.Key(), "podENI.Spec.Allocations = append(…, *alloc) for every created interface", "not recognised")
}

func c10R5(c *Ctx) {
	p := c.P
	c.Rule("C10.R5", "the daemon accepts a PodENI record only when it is not being deleted, is in phase Bind, carries the requesting pod's UID (when the request has one) and has allocations")
	fn := p.Func(eniPkg, "Remote.Allocate")
	if fn == nil {
		c.Unres("C10.R5", "Remote.Allocate", "not found")
		return
	}
	info := fn.Info()
	n := 0
	ast.Inspect(fn.Decl.Body, func(nd ast.Node) bool {
		r, ok := nd.(*ast.ReturnStmt)
		if !ok || len(r.Results) != 2 {
			return true
		}
		tv := info.Types[r.Results[0]]
		if tv.Value == nil || tv.Value.ExactString() != "true" {
			return true
		}
		n++
		cni := fn.Decl.Type.Params.List[1].Names[0].Name
		c.Require("C10.R5", "poll closure accepts only a bound record of this pod", fn, r,
			fmt.Sprintf(`podENI.DeletionTimestamp.IsZero() && podENI.Status.Phase == %s && (%s.PodUID == "" || podENI.Annotations[types.PodUID] == %s.PodUID) && len(podENI.Spec.Allocations) != 0`, constLit(p, apiPkg, "ENIPhaseBind"), cni, cni), nil)
		return true
	})
	c.Floor("C10.R5", "accepting returns of the poll closure", 1, n)
}

func c10R6(c *Ctx) {
	p := c.P
	c.Rule("C10.R6", "every PodENI is created with the finalizer, and the finalizer is removed only after the interfaces were detached and deleted successfully")
	fn := p.Func(podCtlPkg, "ReconcilePod.podCreate")
	if fn != nil {
		ok := false
		ast.Inspect(fn.Decl.Body, func(nd ast.Node) bool {
			if kv, isKV := nd.(*ast.KeyValueExpr); isKV && exprString(kv.Key) == "Finalizers" {
				ast.Inspect(kv.Value, func(k ast.Node) bool {
					if o := identObjSelNode(fn.Info(), k); o != nil && o.Name() == "FinalizerPodENI" {
						ok = true
					}
					return true
				})
			}
			return true
		})
		c.Check(ok, "C10.R6", "created PodENI carries the finalizer", p.Pos(fn.Decl), fn.Key(), "Finalizers: []string{types.FinalizerPodENI}", "not found")
	}
	del := p.Func(podENICtlPkg, "ReconcilePodENI.podENIDelete")
	if del == nil {
		c.Unres("C10.R6", "podENIDelete", "not found")
		return
	}
	info := del.Info()
	var rm *ast.CallExpr
	for _, cs := range p.CallsIn(del) {
		if cs.Callee != nil && cs.Callee.Name() == "RemoveFinalizer" {
			rm = cs.Call
		}
	}
	if rm == nil {
		c.Bad("C10.R6", "podENIDelete removes the finalizer", p.Pos(del.Decl), del.Key(), "controllerutil.RemoveFinalizer", "not found")
		return
	}
	q := NewPathQuery(p, del, nil)
	for _, name := range []string{"detachMemberENI", "deleteMemberENI"} {
		h := p.Func(podENICtlPkg, "ReconcilePodENI."+name)
		if h == nil {
			continue
		}
		w := q.Escapes(nil, isExactly(rm), q.callTo(h.Obj), nil)
		c.Check(w == nil, "C10.R6", "finalizer removed only after "+name, p.Pos(rm), del.Key(), "must-pass: "+name+" → RemoveFinalizer", "path: "+p.describePath(w))
		for _, cs := range p.CallsTo([]*FuncInfo{del}, h.Obj) {
			_, lhs := assignedFromCall(del, cs.Call)
			ok := false
			if len(lhs) == 1 && lhs[0] != nil {
				if arm := errArm(del, lhs[0], cs.Call.End()); arm != nil && arm.Pos() < rm.Pos() && len(arm.Body.List) > 0 {
					_, ok = arm.Body.List[len(arm.Body.List)-1].(*ast.ReturnStmt)
				}
			}
			c.Check(ok, "C10.R6", "a failed "+name+" keeps the finalizer", p.Pos(cs.Call), del.Key(), "if err != nil { return … } before RemoveFinalizer", "not recognised")
		}
	}
	_ = info
	// nobody else removes it
	var rms []CallSite
	for _, fn := range p.AllFuncs() {
		for _, cs := range p.CallsIn(fn) {
			if cs.Callee != nil && cs.Callee.Name() == "RemoveFinalizer" && len(cs.Call.Args) == 2 {
				if o := identObjSel(fn.Info(), cs.Call.Args[1]); o != nil && o.Name() == "FinalizerPodENI" {
					rms = append(rms, cs)
				}
			}
		}
	}
	c.WhoMay("C10.R6", "remove the PodENI finalizer", groupCalls(rms), map[string]string{podENICtlPkg + ".ReconcilePodENI.podENIDelete": "after detach and delete"})
}

func identObjSelNode(info *types.Info, n ast.Node) types.Object {
	if x, ok := n.(ast.Expr); ok {
		return identObjSel(info, x)
	}
	return nil
}

// R7: phase changes are written with optimistic concurrency.
func c10R7(c *Ctx) {
	p := c.P
	c.Rule("C10.R7", "a decision that changes the phase is written with Update (resourceVersion precondition), never with an unconditional merge Patch, so a stale decision cannot overwrite a record that was rebound meanwhile")
	n := 0
	for _, ps := range phaseStores(c) {
		fn := ps.st.Fn
		info := fn.Info()
		// the object whose phase was stored
		sel := ps.st.LHS.(*ast.SelectorExpr)
		obj := identObj(info, ast.Unparen(sel.X).(*ast.SelectorExpr).X)
		if obj == nil {
			continue
		}
		// the next API write of that object after the store
		var next *ast.CallExpr
		for _, cs := range p.CallsIn(fn) {
			if cs.Callee == nil || cs.Call.Pos() < ps.st.Node.Pos() || len(cs.Call.Args) < 2 {
				continue
			}
			switch cs.Callee.Name() {
			case "Update", "Patch", "Create":
				if identObj(info, cs.Call.Args[1]) == obj && (next == nil || cs.Call.Pos() < next.Pos()) {
					next = cs.Call
				}
			}
		}
		n++
		if next == nil {
			c.Bad("C10.R7", fn.Key()+": phase "+ps.to+" written", p.Pos(ps.st.Node), fn.Key(), "the modified copy is written with Update", "no API write of the object follows the store")
			continue
		}
		name := Callee(info, next).Name()
		c.Check(name == "Update", "C10.R7", fn.Key()+": phase "+ps.to+" written with Update", p.Pos(next), fn.Key(), "Status().Update(ctx, obj)", "written with "+name)
	}
	c.Floor("C10.R7", "phase writes", 7, n)
}

// R10: what the cloud created is known to the roll-back, on failure too.
// createENI records every successfully created interface in
// podENI.Spec.Allocations (podCreate's deferred roll-back iterates exactly that
// list). The recording is not conditional on the group's overall success: a
// store in the function body after the group's Wait lies on every path to an
// exit; a store in a collector goroutine is joined (a receive that every path
// from Wait to an exit passes); a store in a worker of the group is joined by
// Wait itself.
func c10R10(c *Ctx) {
	p := c.P
	c.Rule("C10.R10", "createENI records every interface a worker created in podENI.Spec.Allocations whether or not a sibling worker failed: the recording store is reached (or its collector goroutine joined) on every path from the group's Wait to a return, so the roll-back sees all of them")
	fn := p.Func(podCtlPkg, "ReconcilePod.createENI")
	field := p.Field(modPath+"/"+apiPkg, "PodENISpec", "Allocations")
	if fn == nil || field == nil {
		c.Unres("C10.R10", "ReconcilePod.createENI / PodENISpec.Allocations", "not found")
		return
	}
	info := fn.Info()
	var wait *ast.CallExpr
	for _, cs := range p.CallsIn(fn) {
		if cs.Lit == nil && cs.Callee != nil && cs.Callee.Name() == "Wait" && cs.Callee.Pkg() != nil && strings.HasSuffix(cs.Callee.Pkg().Path(), "sync/errgroup") {
			wait = cs.Call
		}
	}
	if wait == nil {
		c.Undec("C10.R10", "createENI: the workers are joined", p.Pos(fn.Decl), fn.Key(), "errgroup Wait in the function body", "no Wait call")
		return
	}
	q := NewPathQuery(p, fn, nil)
	n := 0
	for _, st := range p.StoresTo([]*FuncInfo{fn}, field) {
		if st.InLit {
			continue
		}
		n++
		if st.Lit == nil {
			if st.Node.Pos() < wait.Pos() {
				c.OK("C10.R10", "createENI: allocations recorded before the join", p.Pos(st.Node), fn.Key(), "store precedes Wait")
				continue
			}
			w := q.Escapes(isExactly(wait), nil, isExactly(st.Node), nil)
			c.Check(w == nil, "C10.R10", "createENI: allocations recorded on every path after the join", p.Pos(st.Node), fn.Key(),
				"must-pass: g.Wait() → store to Spec.Allocations → return (a failed sibling does not skip it)", "path: "+p.describePath(w))
			continue
		}
		// in a literal: a worker of the group (joined by Wait) or a collector goroutine (needs its own join)
		isGo := false
		ast.Inspect(fn.Decl.Body, func(k ast.Node) bool {
			if g, ok := k.(*ast.GoStmt); ok && ast.Unparen(g.Call.Fun) == ast.Expr(st.Lit) {
				isGo = true
			}
			return true
		})
		if !isGo {
			c.OK("C10.R10", "createENI: allocations recorded by a worker of the group", p.Pos(st.Node), fn.Key(), "joined by Wait")
			continue
		}
		recv := func(k ast.Node) bool {
			found := false
			ast.Inspect(k, func(m ast.Node) bool {
				if _, isLit := m.(*ast.FuncLit); isLit {
					return false
				}
				if u, ok := m.(*ast.UnaryExpr); ok && u.Op == token.ARROW {
					found = true
				}
				if call, ok := m.(*ast.CallExpr); ok {
					if f := Callee(info, call); f != nil && f.Name() == "Wait" && call != wait {
						found = true
					}
				}
				return !found
			})
			return found
		}
		w := q.Escapes(isExactly(wait), nil, recv, nil)
		c.Check(w == nil, "C10.R10", "createENI: the collector goroutine is joined on every path after Wait", p.Pos(st.Node), fn.Key(),
			"must-pass: g.Wait() → receive from the collector → return", "path: "+p.describePath(w))
	}
	c.Floor("C10.R10", "stores to Spec.Allocations in createENI", 1, n)
}

// R11: a refused cloud call is not forgotten. In the helpers that tear the
// interfaces of a record down, once DetachNetworkInterface / DeleteNetworkInterface
// returned an error the helper reports failure: followed through copies of the
// error, every exit reached with that error non-nil returns a non-nil error (a
// later successful call must not reset it — the finalizer would be removed and
// the record vanish while the refused interface still exists).
func c10R11(c *Ctx) {
	p := c.P
	c.Rule("C10.R11", "teardown helpers report a refused cloud call: with the error of DetachNetworkInterface / DeleteNetworkInterface non-nil, every exit of detachMemberENI / deleteMemberENI returns a non-nil error (no later success overwrites it)")
	n := 0
	for _, name := range []string{"ReconcilePodENI.deleteMemberENI", "ReconcilePodENI.detachMemberENI"} {
		fn := p.Func(podENICtlPkg, name)
		if fn == nil {
			c.Unres("C10.R11", name, "not found")
			continue
		}
		info := fn.Info()
		sig := fn.Obj.Type().(*types.Signature)
		ei := errResultIndex(sig)
		if ei < 0 {
			continue
		}
		var errVars []types.Object
		seenE := map[types.Object]bool{}
		ast.Inspect(fn.Decl, func(k ast.Node) bool {
			if id, ok := k.(*ast.Ident); ok {
				if v, ok := info.ObjectOf(id).(*types.Var); ok && !v.IsField() && !seenE[v] && v.Type().String() == "error" && len(errVars) < 12 {
					seenE[v] = true
					errVars = append(errVars, v)
				}
			}
			return true
		})
		for _, cs := range p.CallsIn(fn) {
			if cs.Callee == nil || cs.Lit != nil || (cs.Callee.Name() != "DeleteNetworkInterface" && cs.Callee.Name() != "DetachNetworkInterface") {
				continue
			}
			as, lhs := assignedFromCall(fn, cs.Call)
			if as == nil || len(lhs) == 0 || lhs[len(lhs)-1] == nil {
				c.Bad("C10.R11", name+": the cloud call's error is bound", p.Pos(cs.Call), fn.Key(), "err = …", "discarded")
				continue
			}
			n++
			errObj := lhs[len(lhs)-1]
			q := NewPathQuery(p, fn, nil)
			q.TrackNils = errVars
			q.StartNil = map[types.Object]int{errObj: nilNo}
			q.ExitState = func(ret *ast.ReturnStmt, st int) bool {
				var x types.Object
				switch {
				case len(ret.Results) == 0:
					x = sig.Results().At(ei)
				case len(ret.Results) == sig.Results().Len():
					if nonNilProducer(info, ret.Results[ei]) {
						return true
					}
					x = identObj(info, ret.Results[ei])
				}
				return x != nil && q.nilStateOf(x, st) == nilNo
			}
			w := q.Escapes(isExactly(as), nil, nil, nil)
			c.Check(w == nil, "C10.R11", name+": a refused "+cs.Callee.Name()+" makes the helper fail", p.Pos(cs.Call), fn.Key(), "with err != nil after the call every exit returns a non-nil error", "path to an exit that can report success: "+p.describePath(w))
		}
	}
	c.Floor("C10.R11", "cloud teardown calls in the helpers", 2, n)
}

// podGetAndPredicate finds, in the PodENI collector, the test `podRequirePodENI(ctx, P)` and the error
// variable of the Get that filled P — by objects, so that the requirement is stated in the names the
// function uses today.
func podGetAndPredicate(p *Prog, fn *FuncInfo) (errName, pred string) {
	info := fn.Info()
	predM := p.Method(podENICtlPkg, "ReconcilePodENI", "podRequirePodENI")
	var podObj types.Object
	ast.Inspect(fn.Decl.Body, func(k ast.Node) bool {
		if call, ok := k.(*ast.CallExpr); ok && predM != nil && Callee(info, call) == predM && len(call.Args) > 0 && pred == "" {
			pred = exprString(call)
			a := ast.Unparen(call.Args[len(call.Args)-1])
			if u, ok := a.(*ast.UnaryExpr); ok {
				a = u.X
			}
			podObj = identObj(info, a)
		}
		return true
	})
	if pred == "" || podObj == nil {
		return "", ""
	}
	ast.Inspect(fn.Decl.Body, func(k ast.Node) bool {
		as, ok := k.(*ast.AssignStmt)
		if !ok || len(as.Lhs) != 1 || len(as.Rhs) != 1 {
			return true
		}
		call, ok := ast.Unparen(as.Rhs[0]).(*ast.CallExpr)
		if !ok || lastSeg(calleeName(info, call)) != "Get" {
			return true
		}
		for _, a := range call.Args {
			a = ast.Unparen(a)
			if u, ok := a.(*ast.UnaryExpr); ok {
				a = u.X
			}
			if identObj(info, a) == podObj {
				errName = exprString(as.Lhs[0])
			}
		}
		return true
	})
	if errName == "" {
		return "", ""
	}
	return errName, pred
}

// R13: the daemon takes a record only when the wait for it succeeded. In Remote.Allocate the error
// delivered with the allocation is the error of the wait on the record (bound, same UID, right trunk):
// the variable that carries it into AllocResp.Err is defined by that wait and, at most, re-wrapped into
// another non-nil error — never replaced by a value that can be nil while the wait failed.
func c10R13(c *Ctx) {
	p := c.P
	c.Rule("C10.R13", "Remote.Allocate: AllocResp.Err is the error of the wait for the bound record; the variable is assigned by the wait and otherwise only by non-nil producers (a timed-out wait never turns into success)")
	fn := p.Func(eniPkg, "Remote.Allocate")
	if fn == nil {
		c.Unres("C10.R13", "Remote.Allocate", "not found")
		return
	}
	info := fn.Info()
	n := 0
	ast.Inspect(fn.Decl.Body, func(k ast.Node) bool {
		cl, ok := k.(*ast.CompositeLit)
		if !ok || !typeIs(info.TypeOf(cl), modPath+"/"+eniPkg, "AllocResp") {
			return true
		}
		for _, el := range cl.Elts {
			kv, ok := el.(*ast.KeyValueExpr)
			if !ok || exprString(kv.Key) != "Err" {
				continue
			}
			n++
			v := identObj(info, kv.Value)
			if v == nil {
				c.Check(nonNilProducer(info, kv.Value), "C10.R13", "Remote.Allocate: AllocResp.Err", p.Pos(kv), fn.Key(), "the wait's error variable", exprString(kv.Value))
				continue
			}
			waits, others := 0, []string{}
			ast.Inspect(fn.Decl.Body, func(j ast.Node) bool {
				as, ok := j.(*ast.AssignStmt)
				if !ok {
					return true
				}
				for i, l := range as.Lhs {
					if identObj(info, l) != v {
						continue
					}
					var rhs ast.Expr
					if len(as.Rhs) == len(as.Lhs) {
						rhs = as.Rhs[i]
					} else if len(as.Rhs) == 1 {
						rhs = as.Rhs[0]
					}
					if call, ok := ast.Unparen(rhs).(*ast.CallExpr); ok {
						if f := Callee(info, call); f != nil && f.Pkg() != nil && strings.HasSuffix(f.Pkg().Path(), "util/wait") {
							waits++
							continue
						}
					}
					if rhs != nil && nonNilProducer(info, rhs) {
						continue
					}
					others = append(others, p.Pos(as)+": "+exprString2(as))
				}
				return true
			})
			c.Check(waits >= 1 && len(others) == 0, "C10.R13", "Remote.Allocate: the delivered error is the wait's", p.Pos(kv), fn.Key(), v.Name()+" = wait.…(…) and non-nil re-wraps only", fmt.Sprintf("wait definitions=%d; other definitions: %s", waits, strings.Join(others, "; ")))
		}
		return true
	})
	c.Floor("C10.R13", "AllocResp literals with an Err in Remote.Allocate", 1, n)
}

// R14: once the record exists the roll-back is off. podCreate's deferred roll-back deletes the created
// interfaces when the function-level error is set; the record that names them is created last. After
// that Create no statement assigns the error variable again — a later failure (waiting for the cache,
// …) must not delete interfaces a persisted record refers to.
func c10R14(c *Ctx) {
	p := c.P
	c.Rule("C10.R14", "podCreate: after the PodENI record was created the error variable the deferred roll-back tests is never assigned again (never-before: Create(record) → assignment of that variable)")
	fn := p.Func(podCtlPkg, "ReconcilePod.podCreate")
	if fn == nil {
		c.Unres("C10.R14", "ReconcilePod.podCreate", "not found")
		return
	}
	info := fn.Info()
	var create *ast.AssignStmt
	var errObj types.Object
	ast.Inspect(fn.Decl.Body, func(k ast.Node) bool {
		as, ok := k.(*ast.AssignStmt)
		if !ok || len(as.Rhs) != 1 || len(as.Lhs) != 1 {
			return true
		}
		call, ok := ast.Unparen(as.Rhs[0]).(*ast.CallExpr)
		if !ok || len(call.Args) < 2 {
			return true
		}
		if f := Callee(info, call); f == nil || f.Name() != "Create" {
			return true
		}
		if t := info.TypeOf(call.Args[1]); t != nil && strings.HasSuffix(t.String(), ".PodENI") {
			create, errObj = as, identObj(info, as.Lhs[0])
		}
		return true
	})
	if create == nil || errObj == nil {
		c.Undec("C10.R14", "podCreate: creation of the record", p.Pos(fn.Decl), fn.Key(), "err = client.Create(ctx, podENI)", "not recognised")
		return
	}
	// the roll-back reads that variable
	reads := false
	ast.Inspect(fn.Decl.Body, func(k ast.Node) bool {
		if d, ok := k.(*ast.DeferStmt); ok {
			ast.Inspect(d, func(j ast.Node) bool {
				if id, ok := j.(*ast.Ident); ok && info.ObjectOf(id) == errObj {
					reads = true
				}
				return true
			})
		}
		return true
	})
	if !reads {
		c.OK("C10.R14", "podCreate: no deferred roll-back reads the variable", p.Pos(create), fn.Key(), "nothing to protect")
		return
	}
	assigns := func(k ast.Node) bool {
		if k == ast.Node(create) {
			return false
		}
		switch t := k.(type) {
		case *ast.AssignStmt:
			for _, l := range t.Lhs {
				if identObj(info, l) == errObj {
					return true
				}
			}
		}
		return false
	}
	q := NewPathQuery(p, fn, nil)
	w := q.Escapes(isExactly(create), assigns, nil, nil)
	c.Check(w == nil, "C10.R14", "podCreate: the roll-back cannot fire after the record exists", p.Pos(create), fn.Key(), "never-before: Create(record) → "+errObj.Name()+" = …", "path: "+p.describePath(w))
}

// argByNamedType returns the one argument of call whose type is (a pointer to) the named type.
func argByNamedType(info *types.Info, call *ast.CallExpr, name string) ast.Expr {
	var found ast.Expr
	for _, a := range call.Args {
		if n := derefNamed(info.TypeOf(a)); n != nil && n.Obj().Name() == name {
			if found != nil {
				return nil
			}
			found = a
		}
	}
	return found
}
