package main

// Rules on the classifier helpers the properties' guards rely on: the guards of C09, C10, C11
// and C18 are only as good as the definition of "the pod is gone", "the sandbox exited", "the
// pod has a stable name" and "the pod still needs its record". Each rule states under which
// conditions the helper may give the answer that licenses a destructive step.

import (
	"go/ast"
	"go/token"
	"go/types"
	"strings"
)

func paramName(fn *FuncInfo, i int) string {
	k := 0
	for _, f := range fn.Decl.Type.Params.List {
		for _, n := range f.Names {
			if k == i {
				return n.Name
			}
			k++
		}
	}
	return ""
}

func recvName(fn *FuncInfo) string {
	if fn.Decl.Recv != nil && len(fn.Decl.Recv.List) == 1 && len(fn.Decl.Recv.List[0].Names) == 1 {
		return fn.Decl.Recv.List[0].Names[0].Name
	}
	return ""
}

// compTexts lists the source of every comparison `X.<field> == Y` / `!=` in fn.
func compTexts(fn *FuncInfo, field string, op token.Token) []string {
	var out []string
	ast.Inspect(fn.Decl.Body, func(n ast.Node) bool {
		if be, ok := n.(*ast.BinaryExpr); ok && be.Op == op {
			for _, side := range []ast.Expr{be.X, be.Y} {
				if sel, ok := ast.Unparen(side).(*ast.SelectorExpr); ok && sel.Sel.Name == field {
					out = append(out, exprString(be))
				}
			}
		}
		return true
	})
	return out
}

// C18.R6 / shared: IsFixedNamePod says "stable name" only for a bare pod or a pod owned by a
// StatefulSet-like kind.
func ruleFixedNamePod(c *Ctx, rule string) {
	p := c.P
	c.Rule(rule, "utils.IsFixedNamePod answers true only for a pod without owner references or with an owner whose kind is one of the stateful kinds (a pod with a generated name must never pass for one whose name survives re-creation)")
	fn := p.Func("pkg/utils", "IsFixedNamePod")
	if fn == nil {
		c.Unres(rule, "utils.IsFixedNamePod", "not found")
		return
	}
	pod := paramName(fn, 0)
	alts := []string{
		"len(" + pod + ".GetObjectMeta().GetOwnerReferences()) == 0",
		"len(" + pod + ".OwnerReferences) == 0",
		"len(" + pod + ".ObjectMeta.OwnerReferences) == 0",
	}
	alts = append(alts, compTexts(fn, "Kind", token.EQL)...)
	n := c.ResultOnlyUnder(rule, "IsFixedNamePod: true only for bare pods and stateful owners", fn, 0, true, alts)
	c.Floor(rule, "returns of IsFixedNamePod that can be true", 1, n)
	// the kinds compared with come from the declared list of stateful kinds
	okKinds := false
	ast.Inspect(fn.Decl.Body, func(nd ast.Node) bool {
		if rs, ok := nd.(*ast.RangeStmt); ok && exprString(rs.X) == "stsKinds" {
			okKinds = true
		}
		return true
	})
	if !okKinds {
		// or a literal comparison with "StatefulSet"
		for _, t := range compTexts(fn, "Kind", token.EQL) {
			if strings.Contains(t, "StatefulSet") {
				okKinds = true
			}
		}
	}
	c.Check(okKinds, rule, "IsFixedNamePod compares owner kinds with the stateful kinds", p.Pos(fn.Decl), fn.Key(), "range stsKinds / == \"StatefulSet\"", "no such comparison")
}

// C10.R7 / shared: PodSandboxExited only for a terminal pod phase.
func ruleSandboxExited(c *Ctx, rule string) {
	p := c.P
	c.Rule(rule, "utils.PodSandboxExited answers true only for a pod whose phase is Succeeded or Failed (container states lag and flap; a running pod whose containers all crashed keeps its sandbox, its UID and its interfaces)")
	fn := p.Func("pkg/utils", "PodSandboxExited")
	if fn == nil {
		c.Unres(rule, "utils.PodSandboxExited", "not found")
		return
	}
	pod := paramName(fn, 0)
	succ, fail := constLit(p, "k8s.io/api/core/v1", "PodSucceeded"), constLit(p, "k8s.io/api/core/v1", "PodFailed")
	alts := []string{pod + ".Status.Phase == " + succ + " || " + pod + ".Status.Phase == " + fail}
	n := c.ResultOnlyUnder(rule, "PodSandboxExited: true only in a terminal phase", fn, 0, true, alts)
	c.Floor(rule, "returns of PodSandboxExited that can be true", 1, n)
}

// C09.R6: PodExist says "absent" only on the API server's word.
func rulePodExist(c *Ctx, rule string) {
	p := c.P
	c.Rule(rule, "k8s.PodExist answers (false, nil) only after the API server was asked: every return passes the lookup, and 'absent' means NotFound or scheduled to another node")
	fn := p.Func("pkg/k8s", "k8s.PodExist")
	if fn == nil {
		c.Unres(rule, "k8s.PodExist", "not found")
		return
	}
	info := fn.Info()
	// the lookup: a call that takes the receiver's client
	var lookup *ast.CallExpr
	var podVar, errVar string
	ast.Inspect(fn.Decl.Body, func(nd ast.Node) bool {
		as, ok := nd.(*ast.AssignStmt)
		if !ok || len(as.Rhs) != 1 || lookup != nil {
			return true
		}
		call, ok := as.Rhs[0].(*ast.CallExpr)
		if !ok {
			return true
		}
		usesClient := false
		ast.Inspect(call, func(k ast.Node) bool {
			if sel, ok := k.(*ast.SelectorExpr); ok && sel.Sel.Name == "client" {
				usesClient = true
			}
			return true
		})
		if usesClient {
			lookup = call
			if len(as.Lhs) == 2 {
				podVar, errVar = exprString(as.Lhs[0]), exprString(as.Lhs[1])
			} else if len(as.Lhs) == 1 {
				errVar = exprString(as.Lhs[0])
			}
		}
		return true
	})
	if lookup == nil || errVar == "" {
		c.Bad(rule, "PodExist asks the API server", p.Pos(fn.Decl), fn.Key(), "pod, err := getPod(ctx, k.client, …)", "no lookup through the client")
		return
	}
	q := NewPathQuery(p, fn, nil)
	for _, r := range returnsOf(fn) {
		w := q.Escapes(nil, isExactly(r), isExactly(lookup), nil)
		c.Check(w == nil, rule, "PodExist: every answer follows the API lookup", p.Pos(r), fn.Key(), "must-pass: entry → API lookup → return", "path: "+p.describePath(w))
	}
	// the licence, built from the function's own syntax: some error variable is non-nil, some
	// IsNotFound(...) test holds, or the pod is scheduled elsewhere
	var errVars []types.Object
	var conds []ast.Expr
	seenV := map[types.Object]bool{}
	ast.Inspect(fn.Decl.Body, func(nd ast.Node) bool {
		switch t := nd.(type) {
		case *ast.Ident:
			if v, ok := info.ObjectOf(t).(*types.Var); ok && !v.IsField() && !seenV[v] && v.Type().String() == "error" {
				seenV[v] = true
				errVars = append(errVars, v)
			}
		case *ast.CallExpr:
			if lastSeg(calleeName(info, t)) == "IsNotFound" {
				conds = append(conds, t)
			}
		case *ast.BinaryExpr:
			if t.Op == token.NEQ || t.Op == token.EQL {
				for _, side := range []ast.Expr{t.X, t.Y} {
					if sel, ok := ast.Unparen(side).(*ast.SelectorExpr); ok && sel.Sel.Name == "NodeName" {
						conds = append(conds, t)
					}
				}
			}
		}
		return true
	})
	_, _ = podVar, errVar
	c.ResultOnlyUnderF(rule, "PodExist: false only for an error, NotFound or another node", fn, 0, false,
		"some error != nil ∨ IsNotFound(…) ∨ pod.Spec.NodeName != k.nodeName", func(e *FactEngine) *Formula {
			f := fF
			for _, v := range errVars {
				f = mkOr(f, mkNot(e.eqAtom(objID(v), "nil", []string{objID(v)})))
			}
			for _, x := range conds {
				g := e.Cond(x)
				if be, ok := x.(*ast.BinaryExpr); ok && be.Op == token.EQL {
					g = mkNot(g)
				}
				f = mkOr(f, g)
			}
			return f
		})
}

// C11.R4: podRequirePodENI — a pod that exists stops counting only for the listed reasons.
func rulePodRequiresRecord(c *Ctx, rule string) {
	p := c.P
	c.Rule(rule, "podRequirePodENI (does this existing pod still need its record?) answers false only for an exited sandbox, a host-network pod, a pod or node ignored by terway / virtual node, or a node that is not in exclusive-ENI mode — never because the pod is merely terminating")
	fn := p.Func(podENICtlPkg, "ReconcilePodENI.podRequirePodENI")
	if fn == nil {
		c.Unres(rule, "podRequirePodENI", "not found")
		return
	}
	info := fn.Info()
	pod := paramName(fn, 1)
	var alts []string
	// the accepted reasons, taken from the calls and comparisons the function makes
	ast.Inspect(fn.Decl.Body, func(nd ast.Node) bool {
		switch t := nd.(type) {
		case *ast.CallExpr:
			switch lastSeg(calleeName(info, t)) {
			case "PodSandboxExited", "IgnoredByTerway", "ISVKNode":
				alts = append(alts, exprString(t))
			}
		case *ast.SelectorExpr:
			if t.Sel.Name == "HostNetwork" && strings.HasPrefix(exprString(t), pod+".") {
				alts = append(alts, exprString(t))
			}
		case *ast.BinaryExpr:
			if t.Op == token.EQL && strings.Contains(exprString(t), "NodeExclusiveENIMode(") {
				alts = append(alts, "!("+exprString(t)+")")
			}
		}
		return true
	})
	n := c.ResultOnlyUnder(rule, "podRequirePodENI: false only for the listed reasons", fn, 0, false, alts)
	c.Floor(rule, "returns of podRequirePodENI that can be false", 3, n)
	// and the deletion mark plays no part
	uses := false
	ast.Inspect(fn.Decl.Body, func(nd ast.Node) bool {
		if sel, ok := nd.(*ast.SelectorExpr); ok && (sel.Sel.Name == "DeletionTimestamp" || sel.Sel.Name == "DeletionGracePeriodSeconds") {
			uses = true
		}
		return true
	})
	c.Check(!uses, rule, "a terminating pod still counts as observed", p.Pos(fn.Decl), fn.Key(), "podRequirePodENI does not look at the deletion timestamp", "deletion timestamp consulted")
}

// ---- quantifier shape -------------------------------------------------------

// fixedTest: x contains a comparison `… == IPAllocTypeFixed`.
func fixedTest(info *types.Info, x ast.Node) bool {
	found := false
	ast.Inspect(x, func(n ast.Node) bool {
		be, ok := n.(*ast.BinaryExpr)
		if !ok || be.Op != token.EQL {
			return true
		}
		for _, s := range []ast.Expr{be.X, be.Y} {
			if o := identObjSel(info, s); o != nil && o.Name() == "IPAllocTypeFixed" {
				found = true
			}
		}
		return true
	})
	return found
}

func overAllocations(x ast.Expr) bool {
	sel, ok := ast.Unparen(x).(*ast.SelectorExpr)
	return ok && sel.Sel.Name == "Allocations"
}

// quantOverFixed classifies a boolean expression of fn as "any" (some allocation
// is Fixed), "all", "none", or "" (not recognised). Recognised forms: a flag
// initialised false and set true in a range loop over ….Allocations under the
// Fixed test; a call of a function whose body is `for … { if Fixed { return true } }
// return false`; lo.SomeBy / lo.ContainsBy / slices.ContainsFunc with the Fixed
// test as predicate (any); lo.EveryBy (all); lo.NoneBy (none).
func quantOverFixed(p *Prog, fn *FuncInfo, x ast.Expr, depth int) (string, string) {
	info := fn.Info()
	x = ast.Unparen(x)
	if u, ok := x.(*ast.UnaryExpr); ok && u.Op == token.NOT {
		k, why := quantOverFixed(p, fn, u.X, depth)
		switch k {
		case "any":
			return "none", why
		case "none":
			return "any", why
		case "all":
			return "notall", why
		}
		return k, why
	}
	if id, ok := x.(*ast.Ident); ok {
		v, _ := info.ObjectOf(id).(*types.Var)
		if v == nil {
			return "", "not a variable"
		}
		ds := varDefs(fn, v)
		var inits, sets []varDef
		for _, d := range ds {
			if d.rhs == nil {
				if _, isDecl := d.node.(*ast.ValueSpec); isDecl {
					continue // var x bool
				}
				return "", "assigned from a multi-value expression"
			}
			tv := info.Types[ast.Unparen(d.rhs)]
			if tv.Value != nil {
				if tv.Value.String() == "false" && (d.tok == token.DEFINE || len(inits) == 0) {
					inits = append(inits, d)
					continue
				}
				sets = append(sets, d)
				continue
			}
			if len(ds) == 1 {
				return quantOverFixed(p, fn, d.rhs, depth)
			}
			return "", "assigned " + exprString(d.rhs)
		}
		if len(sets) == 0 {
			return "", "never set"
		}
		for _, s := range sets {
			tv := info.Types[ast.Unparen(s.rhs)]
			if tv.Value.String() != "true" {
				return "", "reset to false"
			}
			// inside a range over Allocations, under the Fixed test
			okLoop, okTest := false, false
			for _, n := range pathTo(fn.Decl.Body, s.node) {
				switch t := n.(type) {
				case *ast.RangeStmt:
					if overAllocations(t.X) {
						okLoop = true
					}
				case *ast.IfStmt:
					if okLoop && fixedTest(info, t.Cond) && t.Body.Pos() <= s.node.Pos() && s.node.End() <= t.Body.End() {
						okTest = true
					}
				case *ast.CaseClause:
					if okLoop {
						for _, e := range t.List {
							if o := identObjSel(info, e); o != nil && o.Name() == "IPAllocTypeFixed" {
								okTest = true
							}
						}
					}
				}
			}
			if !okLoop || !okTest {
				return "", "set outside a Fixed test in a loop over the allocations"
			}
		}
		return "any", "flag set in a loop over the allocations under the Fixed test"
	}
	call, ok := x.(*ast.CallExpr)
	if !ok {
		return "", "expression " + exprString(x)
	}
	callee := Callee(info, call)
	if callee == nil {
		return "", "dynamic call"
	}
	if callee.Pkg() != nil && (strings.HasSuffix(callee.Pkg().Path(), "samber/lo") || callee.Pkg().Path() == "slices") && len(call.Args) == 2 {
		lit, _ := ast.Unparen(call.Args[1]).(*ast.FuncLit)
		if !overAllocations(call.Args[0]) || lit == nil {
			return "", callee.Name() + " over something else"
		}
		rets := declReturns(lit.Body)
		if len(rets) != 1 || len(rets[0].Results) != 1 || !fixedTest(info, rets[0].Results[0]) {
			return "", callee.Name() + " with another predicate"
		}
		if _, neg := ast.Unparen(rets[0].Results[0]).(*ast.UnaryExpr); neg {
			return "", "negated predicate"
		}
		switch callee.Name() {
		case "SomeBy", "ContainsBy", "ContainsFunc":
			return "any", callee.Name()
		case "EveryBy":
			return "all", callee.Name()
		case "NoneBy":
			return "none", callee.Name()
		}
		return "", callee.Name()
	}
	if cf := p.FuncOf(callee); cf != nil && depth < 2 && cf.Decl.Body != nil {
		// for … range X.Allocations { if Fixed { return true } } return false
		cinfo := cf.Info()
		rets := declReturns(cf.Decl.Body)
		sawTrue, okShape := false, len(rets) > 0
		for _, r := range rets {
			if len(r.Results) != 1 {
				okShape = false
				continue
			}
			tv := cinfo.Types[ast.Unparen(r.Results[0])]
			if tv.Value == nil {
				k, why := quantOverFixed(p, cf, r.Results[0], depth+1)
				if k == "any" && len(rets) == 1 {
					return k, cf.Name + ": " + why
				}
				okShape = false
				continue
			}
			if tv.Value.String() == "true" {
				inLoop, inTest := false, false
				for _, n := range pathTo(cf.Decl.Body, r) {
					switch t := n.(type) {
					case *ast.RangeStmt:
						if overAllocations(t.X) {
							inLoop = true
						}
					case *ast.IfStmt:
						if inLoop && fixedTest(cinfo, t.Cond) && t.Body.Pos() <= r.Pos() && r.End() <= t.Body.End() {
							inTest = true
						}
					}
				}
				if !inLoop || !inTest {
					okShape = false
				}
				sawTrue = true
			}
		}
		if okShape && sawTrue {
			return "any", cf.Name + " returns true for the first Fixed allocation"
		}
		return "", cf.Name + ": body not of the any-Fixed shape"
	}
	return "", "call of " + callee.Name()
}

// ruleAnyFixedParks: the pod-delete path parks a record (phase Detaching)
// whenever SOME allocation of it is Fixed — the decision is existential.
func ruleAnyFixedParks(c *Ctx, rule string) {
	p := c.P
	c.Rule(rule, "ReconcilePod.podDelete parks the record (Detaching) when some allocation is Fixed: the test guarding the Detaching store is existential over Spec.Allocations (a flag set in a loop, a helper of that shape, or SomeBy/ContainsBy) — with all/none a record mixing Fixed and Elastic interfaces would be destroyed")
	fn := p.Func(podCtlPkg, "ReconcilePod.podDelete")
	if fn == nil {
		c.Unres(rule, "ReconcilePod.podDelete", "not found")
		return
	}
	n := 0
	// the tests of the function that classify the allocations
	var alts []string
	var seen []string
	bad := ""
	ast.Inspect(fn.Decl.Body, func(k ast.Node) bool {
		var conds []ast.Expr
		switch t := k.(type) {
		case *ast.IfStmt:
			conds = append(conds, t.Cond)
		case *ast.SwitchStmt:
			if t.Tag == nil {
				for _, cc := range t.Body.List {
					conds = append(conds, cc.(*ast.CaseClause).List...)
				}
			}
		}
		for _, cond := range conds {
			kind, why := quantOverFixed(p, fn, cond, 0)
			switch kind {
			case "any":
				alts = append(alts, exprString(cond))
				seen = append(seen, why)
			case "none":
				alts = append(alts, "!("+exprString(cond)+")")
				seen = append(seen, "negated: "+why)
			case "all", "notall":
				bad = "the test at " + p.Pos(cond) + " is '" + kind + "' (" + why + ")"
			}
		}
		return true
	})
	for _, ps := range phaseStores(c) {
		if ps.st.Fn != fn || ps.to != "Detaching" {
			continue
		}
		n++
		key := "podDelete: Detaching is chosen when any allocation is Fixed"
		switch {
		case bad != "":
			c.Bad(rule, key, p.Pos(ps.st.Node), fn.Key(), "an existential test over Spec.Allocations", bad)
		case len(alts) == 0:
			c.Undec(rule, key, p.Pos(ps.st.Node), fn.Key(), "an existential test over Spec.Allocations", "no test of the function is recognised as a test on the Fixed allocations")
		default:
			var under []string
			for _, a := range alts {
				under = append(under, ps.req(a))
			}
			c.RequireAnyOf(rule, key, fn, ps.st.Node, under)
		}
	}
	c.Floor(rule, "Detaching stores in podDelete", 1, n)
}

// rulePodUseENI: "this pod asked for its own interface" is decided by the
// pod-eni annotation alone. types.PodUseENI answers true only where the
// annotation was present and parsed: every return of something other than the
// constant false is under ok(annotation lookup) ∧ err(ParseBool) == nil.
func rulePodUseENI(c *Ctx, rule string) {
	p := c.P
	c.Rule(rule, "types.PodUseENI answers true only for a pod whose pod-eni annotation is present and parses as a boolean (no other annotation, label or field turns a pod into one the webhook and the controllers treat as owning an interface)")
	fn := p.Func("types", "PodUseENI")
	if fn == nil {
		c.Unres(rule, "types.PodUseENI", "not found")
		return
	}
	info := fn.Info()
	keyFn := fn
	isKey := func(x ast.Expr) bool {
		o := identObjSel(info, derefExpr(keyFn, x)) // directly, or through a local bound to the constant
		return o != nil && o.Name() == "PodENI"
	}
	// the classifier may hand the decision to a predicate over (annotations, key): `return h(…, PodENI)`
	if len(fn.Decl.Body.List) == 1 {
		if rs, ok := fn.Decl.Body.List[0].(*ast.ReturnStmt); ok && len(rs.Results) == 1 {
			if call, ok := ast.Unparen(rs.Results[0]).(*ast.CallExpr); ok {
				if h := p.FuncOf(Callee(info, call)); h != nil {
					var keyParam types.Object
					i := 0
					for _, f := range h.Decl.Type.Params.List {
						for _, nm := range f.Names {
							if i < len(call.Args) && isKey(call.Args[i]) {
								keyParam = h.Info().Defs[nm]
							}
							i++
						}
					}
					if keyParam != nil {
						fn, info = h, h.Info()
						isKey = func(x ast.Expr) bool { return identObj(info, x) == keyParam }
					}
				}
			}
		}
	}
	var okId *ast.Ident
	var parseErr types.Object
	ast.Inspect(fn.Decl.Body, func(k ast.Node) bool {
		as, ok := k.(*ast.AssignStmt)
		if !ok || len(as.Lhs) != 2 || len(as.Rhs) != 1 {
			return true
		}
		switch r := ast.Unparen(as.Rhs[0]).(type) {
		case *ast.IndexExpr:
			if isKey(r.Index) {
				okId, _ = ast.Unparen(as.Lhs[1]).(*ast.Ident)
			}
		case *ast.CallExpr:
			if f := Callee(info, r); f != nil && f.Name() == "ParseBool" {
				parseErr = identObj(info, as.Lhs[1])
			}
		}
		return true
	})
	if okId == nil || parseErr == nil {
		c.Undec(rule, "PodUseENI: annotation lookup and ParseBool", p.Pos(fn.Decl), fn.Key(), "v, ok := annotations[PodENI]; b, err := strconv.ParseBool(v)", "not recognised")
		return
	}
	n := c.ResultOnlyUnderF(rule, "PodUseENI: true only for a present, well-formed pod-eni annotation", fn, 0, true,
		"ok(annotations[PodENI]) ∧ err(ParseBool) == nil", func(e *FactEngine) *Formula {
			return mkAnd(e.Cond(okId), e.eqAtom(objID(parseErr), "nil", []string{objID(parseErr)}))
		})
	c.Floor(rule, "returns of PodUseENI that can be true", 1, n)
}
