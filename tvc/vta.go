package main

// Thorough tier, E5 deepening: who-may-call tables are re-checked on the VTA call graph
// (golang.org/x/tools/go/callgraph/vta over an SSA build of the loaded program), so a protected
// operation reached through a function value, a method value or an interface is attributed to
// the source function that makes the call.

import (
	"go/ast"
	"go/types"
	"sort"

	"golang.org/x/tools/go/callgraph"
	"golang.org/x/tools/go/callgraph/cha"
	"golang.org/x/tools/go/callgraph/vta"
	"golang.org/x/tools/go/ssa"
	"golang.org/x/tools/go/ssa/ssautil"
)

type vtaGraph struct {
	prog  *ssa.Program
	graph *callgraph.Graph
	byObj map[*types.Func]*ssa.Function
}

func (p *Prog) vta() *vtaGraph {
	if p.vtaG != nil {
		return p.vtaG
	}
	prog, _ := ssautil.AllPackages(p.Roots, ssa.InstantiateGenerics)
	prog.Build()
	all := ssautil.AllFunctions(prog)
	g := vta.CallGraph(all, cha.CallGraph(prog))
	v := &vtaGraph{prog: prog, graph: g, byObj: map[*types.Func]*ssa.Function{}}
	for f := range all {
		if o, ok := f.Object().(*types.Func); ok && o != nil {
			v.byObj[o] = f
		}
	}
	p.vtaG = v
	return v
}

// sourceCallers returns the repo source functions from which target is called according to
// the VTA graph, looking through synthetic wrappers (bound-method closures, thunks) and
// attributing calls made inside function literals to the enclosing declaration.
func (p *Prog) sourceCallers(target *types.Func) []*FuncInfo {
	v := p.vta()
	tf := v.byObj[target]
	if tf == nil {
		return nil
	}
	seen := map[*ssa.Function]bool{}
	out := map[*FuncInfo]bool{}
	var visit func(f *ssa.Function, depth int)
	visit = func(f *ssa.Function, depth int) {
		if seen[f] || depth > 6 {
			return
		}
		seen[f] = true
		n := v.graph.Nodes[f]
		if n == nil {
			return
		}
		for _, e := range n.In {
			c := e.Caller.Func
			// enclosing declaration of a literal
			root := c
			for root.Parent() != nil {
				root = root.Parent()
			}
			if root.Synthetic != "" || root.Object() == nil {
				visit(c, depth+1) // a wrapper: who calls the wrapper?
				continue
			}
			if o, ok := root.Object().(*types.Func); ok {
				if fi := p.FuncOf(o); fi != nil {
					out[fi] = true
				}
			}
		}
	}
	visit(tf, 0)
	var fs []*FuncInfo
	for f := range out {
		fs = append(fs, f)
	}
	sort.Slice(fs, func(i, j int) bool { return fs[i].Key() < fs[j].Key() })
	return fs
}

// WhoMayCallDeep (thorough tier): every VTA caller of the targets is in the allowed table
// (closed under private helpers like WhoMay).
func (c *Ctx) WhoMayCallDeep(rule, what string, targets []*types.Func, allowed map[string]string) {
	// both tiers: a reference to the operation that is not a call (method value, function value)
	// is a site too — whoever holds the value can call it
	tset := map[*types.Func]bool{}
	for _, t := range targets {
		if t != nil {
			tset[t.Origin()] = true
		}
	}
	for _, fn := range c.P.live() {
		info := fn.Info()
		callFuns := map[ast.Expr]bool{}
		ast.Inspect(fn.Decl.Body, func(n ast.Node) bool {
			if call, ok := n.(*ast.CallExpr); ok {
				callFuns[ast.Unparen(call.Fun)] = true
			}
			return true
		})
		ast.Inspect(fn.Decl.Body, func(n ast.Node) bool {
			var id *ast.Ident
			var whole ast.Expr
			switch t := n.(type) {
			case *ast.SelectorExpr:
				id, whole = t.Sel, t
			case *ast.Ident:
				id, whole = t, t
			default:
				return true
			}
			f, ok := info.Uses[id].(*types.Func)
			if !ok || !tset[f.Origin()] || callFuns[whole] {
				return true
			}
			if _, isSel := n.(*ast.Ident); isSel {
				// the Sel of a selector is visited again as an identifier: skip it
				for cf := range callFuns {
					if s, ok := cf.(*ast.SelectorExpr); ok && s.Sel == id {
						return true
					}
				}
			}
			key := what + " (value reference) in " + fn.Key()
			if c.P.allowedFn(fn, allowed, 0) {
				c.OK(rule, key, c.P.Pos(n), fn.Key(), "only "+tableKeys(allowed)+" may "+what)
			} else {
				c.Bad(rule, key, c.P.Pos(n), fn.Key(), "only "+tableKeys(allowed)+" may "+what, "the operation is taken as a value here (it can then be called from anywhere)")
			}
			if _, isSel := n.(*ast.SelectorExpr); isSel {
				return false
			}
			return true
		})
	}
	if c.Tier != "thorough" {
		return
	}
	n := 0
	for _, t := range targets {
		if t == nil {
			continue
		}
		for _, f := range c.P.sourceCallers(t) {
			n++
			key := what + " (call graph) from " + f.Key()
			if c.P.deadInView(f) || c.P.allowedFn(f, allowed, 0) {
				c.OK(rule, key, c.P.Pos(f.Decl), f.Key(), "only "+tableKeys(allowed)+" may "+what+", including calls through function values and interfaces")
			} else {
				c.Bad(rule, key, c.P.Pos(f.Decl), f.Key(), "only "+tableKeys(allowed)+" may "+what+", including calls through function values and interfaces", "the VTA call graph has an edge from this function")
			}
		}
	}
	c.Stats["vta_callers:"+rule] += n
}

// valueReferenced: some live function mentions f other than as the callee of a call (function value,
// method value) — its callers are then not all known from call sites.
func (p *Prog) valueReferenced(f *types.Func) bool {
	if f == nil {
		return true
	}
	hit := false
	for _, fn := range p.live() {
		info := fn.Info()
		callee := map[*ast.Ident]bool{}
		ast.Inspect(fn.Decl.Body, func(n ast.Node) bool {
			if call, ok := n.(*ast.CallExpr); ok {
				switch t := ast.Unparen(call.Fun).(type) {
				case *ast.Ident:
					callee[t] = true
				case *ast.SelectorExpr:
					callee[t.Sel] = true
				}
			}
			return true
		})
		ast.Inspect(fn.Decl.Body, func(n ast.Node) bool {
			if id, ok := n.(*ast.Ident); ok && !callee[id] {
				if g, ok := info.Uses[id].(*types.Func); ok && g.Origin() == f.Origin() {
					hit = true
				}
			}
			return !hit
		})
		if hit {
			return true
		}
	}
	return false
}
