package main

// C04 — stale, duplicate and concurrent CNI requests are harmless (daemon/daemon.go).

import (
	"fmt"
	"go/ast"
	"go/token"
	"go/types"
	"regexp"
	"strings"
)

func init() { registry["C04"] = c04 }

const daemonPkg = "daemon"

// daemonHandlers returns the rpc.TerwayBackendServer methods of networkService
// that reach the resource database or the ENI manager.
func daemonHandlers(c *Ctx) []*FuncInfo {
	p := c.P
	iface := p.LookupObj("rpc", "TerwayBackendServer")
	if iface == nil {
		return nil
	}
	it, _ := iface.Type().Underlying().(*types.Interface)
	var out []*FuncInfo
	for i := 0; it != nil && i < it.NumMethods(); i++ {
		fn := p.Func(daemonPkg, "networkService."+it.Method(i).Name())
		if fn == nil {
			continue
		}
		reaches := false
		for _, call := range stateCalls(c, fn) {
			if f := Callee(fn.Info(), call); !methodOn(p, f, modPath+"/pkg/k8s", "Kubernetes") {
				reaches = true
			}
		}
		if reaches {
			out = append(out, fn)
		}
	}
	return out
}

// stateCalls lists the calls in fn that touch the pod database, the ENI manager
// or the API server (directly or through networkService helpers).
func stateCalls(c *Ctx, fn *FuncInfo) []*ast.CallExpr {
	p := c.P
	var out []*ast.CallExpr
	for _, cs := range p.CallsIn(fn) {
		if cs.Callee == nil || cs.Lit != nil {
			continue
		}
		if isStateCallee(p, cs.Callee, 0) {
			out = append(out, cs.Call)
		}
	}
	return out
}

func isStateCallee(p *Prog, f *types.Func, depth int) bool {
	sig := f.Type().(*types.Signature)
	if sig.Recv() != nil {
		rt := sig.Recv().Type()
		if typeIs(rt, modPath+"/pkg/storage", "Storage", "DiskStorage", "MemoryStorage") ||
			typeIs(rt, modPath+"/pkg/eni", "Manager") ||
			typeIs(rt, modPath+"/pkg/k8s", "Kubernetes") {
			return f.Name() != "GetServiceCIDR" && f.Name() != "NodeName"
		}
	}
	// helpers of the daemon package that reach them
	if fi := p.FuncOf(f); fi != nil && fi.Pkg.PkgPath == modPath+"/"+daemonPkg && depth < 2 {
		for _, cs := range p.CallsIn(fi) {
			if cs.Callee != nil && cs.Callee != f && isStateCallee(p, cs.Callee, depth+1) {
				return true
			}
		}
	}
	return false
}

func methodOn(p *Prog, f *types.Func, pkgPath, typ string, names ...string) bool {
	if f == nil {
		return false
	}
	sig := f.Type().(*types.Signature)
	if sig.Recv() == nil || !typeIs(sig.Recv().Type(), pkgPath, typ) {
		return false
	}
	if len(names) == 0 {
		return true
	}
	for _, n := range names {
		if f.Name() == n {
			return true
		}
	}
	return false
}

func c04(c *Ctx) {
	if c.P.Pkg(daemonPkg) == nil {
		c.Unres("C04", daemonPkg, "package not loaded")
		return
	}
	c04R1(c)
	c04R2(c)
	c04R3(c)
	c04R4(c)
	c04R5(c)
	// repeat ADD returns the held address: the lookup prefers the pod's own address (shared rule)
	c01R3(c)
	// the container-ID guard compares with the latest ADD: every acknowledged ADD rewrites the record (shared rule)
	c05R1(c)
	c03R8(c)
	// after a restart the pool knows a pod's address under the key every request uses (shared rule)
	c05R4(c)
	// the record the guards compare with is what was committed: memory follows the disk (shared rule)
	c05R3(c)
	c04R6(c)
	// the recorded sandbox id the guard compares with survives an upgrade (shared rule)
	c05R9(c)
	c04R7(c)
	// shared: ownership is given up only by the owner-checked release (writer set of IP.podID, C01.R4) —
	// a repeated DEL cannot free an address another pod holds
	c01R4(c)
	c04R10(c)
	// the centralized backend withdraws a queued teardown report under the key it was queued with
	ruleMapKeyAgreement(c, "C04.R9", eniPkg, "CRDV2", "deletedPods", "the queue of teardown reports of the centralized IPAM backend (queued by DEL, withdrawn by a completed ADD, keyed by pod UID)")
	ruleArgSwap(c, "C04.R8", c.P.AllFuncs(), "the whole module (the pod key namespace/name identifies the record and the owner of an address)")
}

// pendingField is networkService.pendingPods
func pendingCall(fn *FuncInfo, p *Prog, name string) nodePred {
	info := fn.Info()
	pf := p.Field(daemonPkg, "networkService", "pendingPods")
	return containsNode(func(n ast.Node) bool {
		call, ok := n.(*ast.CallExpr)
		if !ok {
			return false
		}
		sel, ok := ast.Unparen(call.Fun).(*ast.SelectorExpr)
		if !ok || sel.Sel.Name != name {
			return false
		}
		return fieldOf(info, sel.X) == pf
	})
}

func findCalls(fn *FuncInfo, pred func(*ast.CallExpr) bool) []*ast.CallExpr {
	var out []*ast.CallExpr
	ast.Inspect(fn.Decl.Body, func(n ast.Node) bool {
		if call, ok := n.(*ast.CallExpr); ok && pred(call) {
			out = append(out, call)
		}
		return true
	})
	return out
}

func c04R1(c *Ctx) {
	p := c.P
	c.Rule("C04.R1", "every RPC handler that reaches the pod database / ENI manager / API server brackets its work with the pending set: LoadOrStore(pod key) first, the loaded branch returns ErrPodIsProcessing, a deferred Delete of the same key is registered only on the not-loaded path and before anything fallible; all handlers use the same key shape")
	hs := daemonHandlers(c)
	c.Floor("C04.R1", "RPC handlers reaching shared state", 3, len(hs))
	pf := p.Field(daemonPkg, "networkService", "pendingPods")
	if pf == nil {
		c.Unres("C04.R1", "networkService.pendingPods", "field not found")
		return
	}
	var shapes []string
	for _, fn := range hs {
		info := fn.Info()
		isPending := func(name string) func(*ast.CallExpr) bool {
			return func(call *ast.CallExpr) bool {
				sel, ok := ast.Unparen(call.Fun).(*ast.SelectorExpr)
				return ok && sel.Sel.Name == name && fieldOf(info, sel.X) == pf
			}
		}
		los := findCalls(fn, isPending("LoadOrStore"))
		if len(los) != 1 {
			c.Bad("C04.R1", fn.Key()+": one LoadOrStore on the pending set", p.Pos(fn.Decl), fn.Key(), "exactly one pendingPods.LoadOrStore", fmt.Sprintf("found %d", len(los)))
			continue
		}
		lo := los[0]
		_, lhs := assignedFromCall(fn, lo)
		if len(lhs) != 2 || lhs[1] == nil {
			c.Bad("C04.R1", fn.Key()+": LoadOrStore result bound", p.Pos(lo), fn.Key(), "the loaded flag is bound to a variable", "result discarded")
			continue
		}
		loaded := lhs[1]
		keyObj := identObj(info, lo.Args[0])
		// key shape
		shapes = append(shapes, shapeOfVar(p, fn, lo.Args[0]))
		q := NewPathQuery(p, fn, nil)
		sc := stateCalls(c, fn)
		// (a) LoadOrStore precedes every state call
		for _, call := range sc {
			w := q.Escapes(nil, isExactly(call), isExactly(lo), nil)
			c.Check(w == nil, "C04.R1", fn.Key()+": "+calleeName(info, call)+" only after LoadOrStore", p.Pos(call), fn.Key(), "must-pass: entry → pendingPods.LoadOrStore → call", "path: "+p.describePath(w))
			c.RequireF("C04.R1", fn.Key()+": "+calleeName(info, call)+" only when the pod was not already pending", fn, call, "!"+loaded.Name(), func(e *FactEngine) (*Formula, error) {
				return mkNot(e.Cond(identFor(info, loaded))), nil
			})
		}
		// (b) the loaded path ends in the retryable error: the ErrPodIsProcessing value is built only
		// under the loaded flag, and every path from LoadOrStore that follows the loaded edges builds
		// it before the function exits ((a) already shows nothing else happens on that path)
		var errLit ast.Node
		ast.Inspect(fn.Decl.Body, func(n ast.Node) bool {
			if kv, ok := n.(*ast.KeyValueExpr); ok && errLit == nil {
				if id, ok := kv.Key.(*ast.Ident); ok && id.Name == "Code" {
					if o := identObjSel(info, kv.Value); o != nil && o.Name() == "ErrPodIsProcessing" {
						errLit = kv
					}
				}
			}
			return true
		})
		if errLit == nil {
			c.Bad("C04.R1", fn.Key()+": concurrent request rejected with ErrPodIsProcessing", p.Pos(lo), fn.Key(), "if loaded { return …Code: ErrPodIsProcessing }", "no error value with that code in the handler")
		} else {
			c.RequireF("C04.R1", fn.Key()+": ErrPodIsProcessing only for a request that found the pod pending", fn, errLit, loaded.Name(), func(e *FactEngine) (*Formula, error) {
				return e.Cond(identFor(info, loaded)), nil
			})
			qb := NewPathQuery(p, fn, nil)
			fe := NewFactEngine(p, fn)
			loadedAtom := fe.Cond(identFor(info, loaded))
			sawEdge := false
			qb.Prune = func(cond ast.Expr, takeTrue bool) bool {
				f := fe.boolForm(cond, fe.fnScope())
				if f.k == fAtom && loadedAtom.k == fAtom && f.atom == loadedAtom.atom {
					sawEdge = true
					return !takeTrue
				}
				if f.k == fNot && f.sub[0].k == fAtom && loadedAtom.k == fAtom && f.sub[0].atom == loadedAtom.atom {
					sawEdge = true
					return takeTrue
				}
				return false
			}
			w := qb.Escapes(isExactly(lo), nil, containsNode(func(n ast.Node) bool { return n == errLit }), nil)
			c.Check(w == nil && sawEdge, "C04.R1", fn.Key()+": concurrent request rejected with ErrPodIsProcessing", p.Pos(lo), fn.Key(), "must-pass: LoadOrStore → (loaded) → build ErrPodIsProcessing → exit", "path: "+p.describePath(w))
		}
		// (c) deferred Delete with the same key, registered on the not-loaded path before any state call
		var deferDel *ast.DeferStmt
		ast.Inspect(fn.Decl.Body, func(n ast.Node) bool {
			if d, ok := n.(*ast.DeferStmt); ok {
				for _, call := range findCallsIn(d, isPending("Delete")) {
					if len(call.Args) == 1 && identObj(info, call.Args[0]) == keyObj && keyObj != nil {
						deferDel = d
					}
				}
			}
			return true
		})
		if deferDel == nil {
			c.Bad("C04.R1", fn.Key()+": deferred pendingPods.Delete(key)", p.Pos(lo), fn.Key(), "defer … pendingPods.Delete(<same key>)", "not found")
			continue
		}
		c.RequireF("C04.R1", fn.Key()+": the pending marker is removed only by the request that set it", fn, deferDel, "!"+loaded.Name(), func(e *FactEngine) (*Formula, error) {
			return mkNot(e.Cond(identFor(info, loaded))), nil
		})
		for _, call := range sc {
			w := q.Escapes(nil, isExactly(call), isExactly(deferDel), nil)
			c.Check(w == nil, "C04.R1", fn.Key()+": defer Delete registered before "+calleeName(info, call), p.Pos(call), fn.Key(), "must-pass: entry → defer pendingPods.Delete → call", "path: "+p.describePath(w))
		}
		// no other removal of the marker
		dels := findCalls(fn, isPending("Delete"))
		c.Check(len(dels) == 1, "C04.R1", fn.Key()+": single removal of the pending marker", p.Pos(fn.Decl), fn.Key(), "exactly one pendingPods.Delete (the deferred one)", fmt.Sprintf("found %d", len(dels)))
	}
	same := len(shapes) > 0
	for _, s := range shapes {
		if s != shapes[0] || strings.Contains(s, "?") {
			same = false
		}
	}
	c.Check(same, "C04.R1", "all handlers key the pending set by the same shape", "", "", "key = PodInfoKey(request namespace, request name)", strings.Join(shapes, " | "))
	// nobody else touches the pending set (except read-only Range in Trace)
	var others []string
	for _, fn := range p.FuncsInPkg(daemonPkg) {
		info := fn.Info()
		ast.Inspect(fn.Decl.Body, func(n ast.Node) bool {
			if sel, ok := n.(*ast.SelectorExpr); ok && fieldOf(info, sel.X) == pf {
				switch sel.Sel.Name {
				case "LoadOrStore", "Delete":
					isH := false
					for _, h := range hs {
						if h == fn {
							isH = true
						}
					}
					if !isH && !p.deadInView(fn) {
						others = append(others, fn.Key()+"."+sel.Sel.Name)
					}
				case "Range", "Load":
				default:
					others = append(others, fn.Key()+"."+sel.Sel.Name)
				}
			}
			return true
		})
	}
	c.Check(len(others) == 0, "C04.R1", "pending set modified only by the handlers' bracket", "", "", "no Store/Delete/LoadOrStore outside the RPC handlers", strings.Join(others, ", "))
}

func findCallsIn(n ast.Node, pred func(*ast.CallExpr) bool) []*ast.CallExpr {
	var out []*ast.CallExpr
	ast.Inspect(n, func(m ast.Node) bool {
		if call, ok := m.(*ast.CallExpr); ok && pred(call) {
			out = append(out, call)
		}
		return true
	})
	return out
}

func identObjSel(info *types.Info, x ast.Expr) types.Object {
	switch t := ast.Unparen(x).(type) {
	case *ast.Ident:
		return info.ObjectOf(t)
	case *ast.SelectorExpr:
		return info.ObjectOf(t.Sel)
	}
	return nil
}

func calleeName(info *types.Info, call *ast.CallExpr) string {
	if f := Callee(info, call); f != nil {
		if sig := f.Type().(*types.Signature); sig.Recv() != nil {
			if n := derefNamed(sig.Recv().Type()); n != nil {
				return n.Obj().Name() + "." + fnName(f)
			}
		}
		return fnName(f)
	}
	// function-typed package variables (e.g. controller-runtime's webhook.Allowed aliases): last path segment
	s := exprString(call.Fun)
	if i := strings.LastIndexByte(s, '.'); i >= 0 && !strings.ContainsAny(s, "()[] ") {
		return s[i+1:]
	}
	return s
}

func c04R2(c *Ctx) {
	p := c.P
	c.Rule("C04.R2", "handlers hold the service read lock over every access to the database / ENI manager; the garbage collector holds the write lock (mutual exclusion of GC and requests)")
	n := 0
	for _, fn := range daemonHandlers(c) {
		la := NewLockAnalysis(p, fn)
		lock := objID(recvObj(fn))
		for _, call := range stateCalls(c, fn) {
			if f := Callee(fn.Info(), call); methodOn(p, f, modPath+"/pkg/k8s", "Kubernetes") {
				continue // API reads need no exclusion with GC
			}
			n++
			held := la.HeldBefore(call)
			_, ok := held[lock]
			c.Check(ok, "C04.R2", fn.Key()+": "+calleeName(fn.Info(), call)+" under the service lock", p.Pos(call), fn.Key(), "held ∋ "+lock, "held="+held.String())
		}
	}
	c.Floor("C04.R2", "database / manager calls in handlers", 6, n)
	gc := p.Func(daemonPkg, "networkService.gcPods")
	if gc == nil {
		c.Unres("C04.R2", "networkService.gcPods", "not found")
		return
	}
	la := NewLockAnalysis(p, gc)
	lock := objID(recvObj(gc))
	m := 0
	for _, call := range stateCalls(c, gc) {
		if f := Callee(gc.Info(), call); methodOn(p, f, modPath+"/pkg/k8s", "Kubernetes", "GetLocalPods") {
			continue
		}
		m++
		held := la.HeldBefore(call)
		c.Check(held[lock] == 'W', "C04.R2", "gcPods: "+calleeName(gc.Info(), call)+" under the write lock", p.Pos(call), gc.Key(), "held ∋ W:"+lock, "held="+held.String())
	}
	c.Floor("C04.R2", "state calls in gcPods", 5, m)
}

func c04R3(c *Ctx) {
	p := c.P
	c.Rule("C04.R3", "a DEL / status query whose container ID differs from the recorded one neither releases, deletes nor returns the current allocation")
	rel := p.Func(daemonPkg, "networkService.ReleaseIP")
	get := p.Func(daemonPkg, "networkService.GetIPInfo")
	getRes := p.Func(daemonPkg, "networkService.getPodResource")
	if rel == nil || get == nil || getRes == nil {
		c.Unres("C04.R3", "ReleaseIP / GetIPInfo / getPodResource", "not found")
		return
	}
	recordVar := func(fn *FuncInfo) (types.Object, string) {
		for _, cs := range p.CallsTo([]*FuncInfo{fn}, getRes.Obj) {
			_, lhs := assignedFromCall(fn, cs.Call)
			if len(lhs) == 2 && lhs[0] != nil {
				return lhs[0], lhs[0].Name()
			}
		}
		return nil, ""
	}
	reqParam := func(fn *FuncInfo) string { return fn.Decl.Type.Params.List[1].Names[0].Name }
	guard := `!($old.ContainerID != nil && $r.K8SPodInfraContainerId != *$old.ContainerID)`
	// ReleaseIP
	if o, name := recordVar(rel); o != nil {
		n := 0
		for _, call := range stateCalls(c, rel) {
			f := Callee(rel.Info(), call)
			if methodOn(p, f, modPath+"/pkg/eni", "Manager", "Release") || isRecordDelete(p, rel.Info(), call) {
				n++
				c.Require("C04.R3", "ReleaseIP: "+calleeName(rel.Info(), call)+" behind the container-ID guard", rel, call, guard, map[string]string{"$old": name, "$r": reqParam(rel)})
			}
		}
		c.Floor("C04.R3", "release/delete calls in ReleaseIP", 2, n)
	} else {
		c.Bad("C04.R3", "ReleaseIP reads the stored record", p.Pos(rel.Decl), rel.Key(), "oldRes := getPodResource(pod)", "not found")
	}
	// GetIPInfo: the store of reply.NetConfs
	if o, name := recordVar(get); o != nil {
		nc := p.Field("rpc", "GetInfoReply", "NetConfs")
		st := p.StoresTo([]*FuncInfo{get}, nc)
		c.Floor("C04.R3", "stores of GetInfoReply.NetConfs", 1, len(st))
		for _, s := range st {
			c.Require("C04.R3", "GetIPInfo: allocation returned only behind the container-ID guard", get, s.Node, guard, map[string]string{"$old": name, "$r": reqParam(get)})
			// and the returned configuration derives from the stored record
			uses := false
			if s.RHS != nil {
				if ro := identObj(get.Info(), s.RHS); ro != nil {
					ast.Inspect(get.Decl.Body, func(k ast.Node) bool {
						if call, ok := k.(*ast.CallExpr); ok && calleeName(get.Info(), call) == "Unmarshal" && len(call.Args) == 2 {
							mentionsRec, mentionsOut := false, false
							ast.Inspect(call.Args[0], func(j ast.Node) bool {
								if id, ok := j.(*ast.Ident); ok && get.Info().ObjectOf(id) == o {
									mentionsRec = true
								}
								return true
							})
							ast.Inspect(call.Args[1], func(j ast.Node) bool {
								if id, ok := j.(*ast.Ident); ok && get.Info().ObjectOf(id) == ro {
									mentionsOut = true
								}
								return true
							})
							if mentionsRec && mentionsOut {
								uses = true
							}
						}
						return true
					})
				}
			}
			c.Check(uses, "C04.R3", "GetIPInfo: reply decoded from the stored record", p.Pos(s.Node), get.Key(), "reply.NetConfs is the value unmarshalled from oldRes.NetConf", "provenance not recognised")
		}
	} else {
		c.Bad("C04.R3", "GetIPInfo reads the stored record", p.Pos(get.Decl), get.Key(), "oldRes := getPodResource(pod)", "not found")
	}
}

func c04R4(c *Ctx) {
	p := c.P
	c.Rule("C04.R4", "an ADD that fails hands back what it took: every failure return of AllocIP reachable after eniMgr.Allocate passes eniMgr.Release of the allocation result (a release that is skipped because an earlier ADD's record already owns the allocation is the one accepted exemption: `len(oldRes.Resources) == 0` guards)")
	fn := p.Func(daemonPkg, "networkService.AllocIP")
	if fn == nil {
		c.Unres("C04.R4", "networkService.AllocIP", "not found")
		return
	}
	info := fn.Info()
	allocM := p.Method(eniPkg, "Manager", "Allocate")
	relM := p.Method(eniPkg, "Manager", "Release")
	calls := p.CallsTo([]*FuncInfo{fn}, allocM)
	if len(calls) != 1 {
		c.Bad("C04.R4", "AllocIP: single eniMgr.Allocate", p.Pos(fn.Decl), fn.Key(), "one allocation call", fmt.Sprintf("found %d", len(calls)))
		return
	}
	alloc := calls[0].Call
	_, lhs := assignedFromCall(fn, alloc)
	if len(lhs) != 2 || lhs[0] == nil {
		c.Bad("C04.R4", "AllocIP: allocation result bound", p.Pos(alloc), fn.Key(), "", "result not bound")
		return
	}
	respObj := lhs[0]
	q := NewPathQuery(p, fn, nil)
	fe := NewFactEngine(p, fn)
	q.Prune = func(cond ast.Expr, takeTrue bool) bool {
		// exemption: branch on which a prior record exists
		if isPriorRecordTest(fe, cond) {
			return !takeTrue
		}
		return false
	}
	release := containsNode(func(n ast.Node) bool {
		call, ok := n.(*ast.CallExpr)
		if !ok || Callee(info, call) != relM {
			return false
		}
		uses := false
		ast.Inspect(call, func(m ast.Node) bool {
			if id, ok := m.(*ast.Ident); ok && info.ObjectOf(id) == respObj {
				uses = true
			}
			return true
		})
		return uses
	})
	sig := fn.Obj.Type().(*types.Signature)
	// deferred roll-back template; the prior-record exemption is the only extra guard allowed
	exempt := map[string]bool{}
	ast.Inspect(fn.Decl.Body, func(k ast.Node) bool {
		if be, ok := k.(*ast.BinaryExpr); ok && isPriorRecordTest(fe, be) {
			am := map[string]bool{}
			fe.Cond(be).atoms(am)
			// len(rec.Resources) == 0  ⇔  !A(0) ∧ A(-1)
			for a := range am {
				if _, kk, ok := splitLt(a); ok {
					exempt[a] = kk < 0
				}
			}
		}
		return true
	})
	isRel := func(call *ast.CallExpr) bool {
		if Callee(info, call) != relM {
			return false
		}
		uses := false
		ast.Inspect(call, func(m ast.Node) bool {
			if id, ok := m.(*ast.Ident); ok && info.ObjectOf(id) == respObj {
				uses = true
			}
			return true
		})
		return uses
	}
	undos, problems := findDeferredUndo(p, fn, isRel, exempt)
	for _, pr := range problems {
		c.Bad("C04.R4", "AllocIP: deferred roll-back shape", "", fn.Key(), "defer func(){ if err != nil [&& no prior record] { eniMgr.Release(resp) } }()", pr)
	}
	n := 0
	for _, r := range declReturns(fn.Decl.Body) {
		if ok, _ := isSuccessReturn(info, sig, r); ok {
			continue
		}
		if r.Pos() < alloc.End() {
			continue
		}
		n++
		key := "AllocIP: failure return after " + lastFallible(fn, r) + " releases the allocation"
		w := q.Escapes(isExactly(alloc), isExactly(r), release, nil)
		if w == nil {
			c.OK("C04.R4", key, p.Pos(r), fn.Key(), "must-pass: eniMgr.Allocate → eniMgr.Release(resp) → failure return")
			continue
		}
		covered, why := false, "path without release: "+p.describePath(w)
		for _, du := range undos {
			if ok, d := coveredByDeferredUndo(c, fn, du, isExactly(alloc), r); ok {
				covered = true
			} else {
				why += "; deferred roll-back at " + p.Pos(du.stmt) + " does not cover it: " + d
			}
		}
		c.Check(covered, "C04.R4", key, p.Pos(r), fn.Key(), "must-pass: eniMgr.Allocate → eniMgr.Release(resp) → failure return, or a deferred roll-back bound to the returned error", why)
	}
	c.Floor("C04.R4", "failure returns of AllocIP after the allocation", 3, n)
	for _, du := range undos {
		successKeepsResult(c, "C04.R4", fn, du, "release")
	}
	// … and hands back nothing else: a repeated ADD is given the address the pod's record already owns
	// (C01), so the allocation is released only when no earlier ADD recorded the pod
	var rec types.Object
	if getRes := p.Method(daemonPkg, "networkService", "getPodResource"); getRes != nil {
		for _, cs := range p.CallsTo([]*FuncInfo{fn}, getRes) {
			if _, l := assignedFromCall(fn, cs.Call); len(l) >= 1 && l[0] != nil {
				rec = l[0]
			}
		}
	}
	// (stated for the roll-back of the steps after a successful allocation; when Allocate itself fails its
	// partial result is handed back at once, as the pool does for a cancelled request)
	nRel := 0
	for _, du := range undos {
		nRel++
		key := "AllocIP: a later step's failure hands the allocation back only when no earlier ADD recorded the pod"
		if rec == nil {
			c.Undec("C04.R4", key, p.Pos(du.undo), fn.Key(), "rec, err := n.getPodResource(pod)", "stored record not recognised")
			continue
		}
		c.Require("C04.R4", key, fn, du.undo, "len("+rec.Name()+".Resources) == 0", nil)
	}
	c.Floor("C04.R4", "deferred roll-backs of the allocation in AllocIP", 1, nRel)
}

// lastFallible names the call whose error leads to return r (for stable obligation keys).
func lastFallible(fn *FuncInfo, r *ast.ReturnStmt) string {
	info := fn.Info()
	var arm *ast.IfStmt
	for _, n := range pathTo(fn.Decl.Body, r) {
		if is, ok := n.(*ast.IfStmt); ok {
			arm = is
		}
	}
	if arm == nil {
		return "?"
	}
	be, ok := ast.Unparen(arm.Cond).(*ast.BinaryExpr)
	if !ok {
		return "?"
	}
	errObj := identObj(info, be.X)
	if errObj == nil {
		return "?"
	}
	name := "?"
	var best token.Pos
	for _, d := range varDefs(fn, errObj) {
		if d.node.Pos() < arm.Pos() && d.node.Pos() > best {
			best = d.node.Pos()
			var call *ast.CallExpr
			if d.rhs != nil {
				call, _ = ast.Unparen(d.rhs).(*ast.CallExpr)
			} else if as, ok := d.node.(*ast.AssignStmt); ok && len(as.Rhs) == 1 {
				call, _ = ast.Unparen(as.Rhs[0]).(*ast.CallExpr)
			}
			if call != nil {
				name = calleeName(info, call)
			}
		}
	}
	return name
}

func c04R5(c *Ctx) {
	p := c.P
	c.Rule("C04.R5", "DEL releases exactly what the stored record lists (a repeated DEL finds no record and releases nothing): the release argument derives from a range over the record's Resources")
	relM := p.Method(eniPkg, "Manager", "Release")
	n := 0
	for _, name := range []string{"networkService.ReleaseIP", "networkService.gcPods"} {
		fn := p.Func(daemonPkg, name)
		if fn == nil {
			c.Unres("C04.R5", name, "not found")
			continue
		}
		info := fn.Info()
		for _, cs := range p.CallsTo([]*FuncInfo{fn}, relM) {
			n++
			ok := false
			detail := "no enclosing range over <record>.Resources"
			for _, nd := range pathTo(fn.Decl.Body, cs.Call) {
				rs, isR := nd.(*ast.RangeStmt)
				if !isR {
					continue
				}
				if fv := fieldOf(info, rs.X); fv != nil && fv.Name() == "Resources" && rs.Value != nil {
					// the released resource derives from the range value: some local handed to Release has
					// the range variable in its backward slice (through the parse helper or its expansion)
					rv := identObj(info, rs.Value)
					if rv != nil {
						word := regexp.MustCompile(`\b` + regexp.QuoteMeta(rv.Name()) + `\b`)
						ast.Inspect(cs.Call, func(j ast.Node) bool {
							id, isI := j.(*ast.Ident)
							if !isI {
								return true
							}
							v, isV := info.ObjectOf(id).(*types.Var)
							if !isV || v.IsField() || v == rv || v.Pos() < rs.Body.Pos() || v.Pos() > rs.Body.End() {
								return true
							}
							if word.MatchString(sliceText(fn, v, 5)) {
								ok = true
							}
							return true
						})
					}
					if !ok {
						detail = "no local handed to Release derives from the range value"
					}
				}
			}
			c.Check(ok, "C04.R5", name+": released resource comes from the stored record", p.Pos(cs.Call), fn.Key(), "for _, r := range <record>.Resources { res := <derived from r>; eniMgr.Release(…res…) }", detail)
		}
	}
	c.Floor("C04.R5", "eniMgr.Release calls in ReleaseIP / gcPods", 2, n)
}

// isPriorRecordTest: cond is `len(<record>.Resources) == 0` (no earlier ADD recorded the pod).
func isPriorRecordTest(fe *FactEngine, cond ast.Expr) bool {
	be, ok := ast.Unparen(cond).(*ast.BinaryExpr)
	if !ok || be.Op != token.EQL {
		return false
	}
	s := strings.ReplaceAll(exprString(be.X), " ", "")
	if !strings.HasPrefix(s, "len(") || !strings.HasSuffix(s, ".Resources)") {
		return false
	}
	v, isC := constInt(fe.fn.Info(), be.Y)
	return isC && v == 0
}

// R6: a DEL that matches the record takes effect. The converse of R3: ReleaseIP
// acknowledges without deleting the record only for one of the reasons the
// code has today — the pod object is gone (NotFound), the request names another
// sandbox than the recorded one, or the pod keeps its address (sticky). Any
// other early success leaves the address bound and the record behind although
// the runtime was told the teardown is done.
func c04R6(c *Ctx) {
	p := c.P
	c.Rule("C04.R6", "ReleaseIP acknowledges a DEL without deleting the pod's record only when the pod object is not found, the request's sandbox differs from the recorded one, or the pod is sticky; every other acknowledged DEL passed the release and the delete of the record")
	fn := p.Func(daemonPkg, "networkService.ReleaseIP")
	if fn == nil {
		c.Unres("C04.R6", "networkService.ReleaseIP", "not found")
		return
	}
	info := fn.Info()
	sig := fn.Obj.Type().(*types.Signature)
	dels := findCalls(fn, func(call *ast.CallExpr) bool { return isRecordDelete(p, info, call) })
	if len(dels) == 0 {
		c.Bad("C04.R6", "ReleaseIP deletes the record", p.Pos(fn.Decl), fn.Key(), "a record delete", "none")
		return
	}
	isDel := func(n ast.Node) bool {
		for _, d := range dels {
			if n.Pos() <= d.Pos() && d.End() <= n.End() {
				return true
			}
		}
		return false
	}
	// licences, from the function's own tests
	var alts []string
	stickZero, isCRD := "", ""
	ast.Inspect(fn.Decl.Body, func(k ast.Node) bool {
		switch t := k.(type) {
		case *ast.CallExpr:
			if lastSeg(calleeName(info, t)) == "IsNotFound" {
				alts = append(alts, exprString(t))
			}
		case *ast.BinaryExpr:
			if t.Op == token.NEQ {
				for _, side := range []ast.Expr{t.X, t.Y} {
					if st, ok := ast.Unparen(side).(*ast.StarExpr); ok {
						if fv := fieldOf(info, st.X); fv != nil && fv.Name() == "ContainerID" {
							alts = append(alts, exprString(t))
						}
					}
				}
			}
			// the sticky test, from its operands wherever and in whichever polarity it is written:
			// a pod keeps its record when the address is sticky and the daemon (not the control plane) owns it
			if t.Op == token.NEQ || t.Op == token.EQL {
				for i, side := range []ast.Expr{t.X, t.Y} {
					other := []ast.Expr{t.Y, t.X}[i]
					fv := fieldOf(info, side)
					if fv == nil {
						continue
					}
					if tv := info.Types[other]; tv.Value == nil {
						continue
					}
					switch fv.Name() {
					case "IPStickTime":
						if stickZero == "" {
							stickZero = exprString(side) + " == " + exprString(other)
						}
					case "ipamType":
						if strings.HasSuffix(exprString(other), "IPAMTypeCRD") && isCRD == "" {
							isCRD = exprString(side) + " == " + exprString(other)
						}
					}
				}
			}
		}
		return true
	})
	if stickZero != "" && isCRD != "" {
		alts = append(alts, "!("+isCRD+" || "+stickZero+")")
	}
	_, _ = sig, isDel
	// whenever a call ends in success and none of the reasons holds, the delete was reached
	var delStmt ast.Node
	for _, nd := range pathTo(fn.Decl.Body, dels[0]) {
		if st, ok := nd.(ast.Stmt); ok {
			switch st.(type) {
			case *ast.AssignStmt, *ast.ExprStmt:
				delStmt = st
			}
		}
	}
	if delStmt == nil {
		c.Undec("C04.R6", "ReleaseIP: the record delete is a statement", p.Pos(dels[0]), fn.Key(), "err = deletePodResource(pod)", "not a simple statement")
		return
	}
	c.RequireReachedF("C04.R6", "ReleaseIP: an acknowledged DEL without a listed reason deleted the record", fn, fn.Decl.Body, dels[0],
		"none of: "+strings.Join(alts, " | "), func(e *FactEngine) (*Formula, error) {
			f := fT
			for _, a := range alts {
				g, err := e.ParseReq(a, dels[0].Pos())
				if err != nil {
					return nil, err
				}
				f = mkAnd(f, mkNot(g))
			}
			return f, nil
		})
	c.Floor("C04.R6", "listed reasons", 3, len(alts))
}

// R7: the service lock is not re-entrant. sync.RWMutex read locks are not
// recursive: a second RLock of a goroutine that already holds one blocks for
// good as soon as a writer (the collector) is queued in between. No method of
// the service acquires the service lock while it is held — neither directly nor
// through a method of the same receiver it calls.
func c04R7(c *Ctx) {
	p := c.P
	c.Rule("C04.R7", "no re-entrant acquisition of the service lock: at every Lock / RLock of the networkService mutex the lock is not already held, and no method called on the service while the lock is held acquires it (transitively, bound 3) — a recursive read lock deadlocks with a queued collector")
	// methods of networkService that acquire the receiver's lock, transitively
	acq := map[*FuncInfo]int{} // 0 unknown, 1 no, 2 yes
	var acquires func(fn *FuncInfo, depth int) bool
	acquires = func(fn *FuncInfo, depth int) bool {
		if v := acq[fn]; v != 0 {
			return v == 2
		}
		acq[fn] = 1
		if fn.Decl.Body == nil || recvObj(fn) == nil || depth > 3 {
			return false
		}
		la := NewLockAnalysis(p, fn)
		lock := objID(recvObj(fn))
		res := false
		ast.Inspect(fn.Decl.Body, func(k ast.Node) bool {
			call, ok := k.(*ast.CallExpr)
			if !ok {
				return true
			}
			if path, op := la.lockOp(call); path == lock && (op == "Lock" || op == "RLock") {
				res = true
			}
			if sel, ok := ast.Unparen(call.Fun).(*ast.SelectorExpr); ok && identObj(fn.Info(), sel.X) == recvObj(fn) {
				if h := p.FuncOf(Callee(fn.Info(), call)); h != nil && h != fn && acquires(h, depth+1) {
					res = true
				}
			}
			return true
		})
		if res {
			acq[fn] = 2
		}
		return res
	}
	n := 0
	for _, fn := range p.FuncsInPkg(daemonPkg) {
		if fn.Decl.Recv == nil || recvTypeOf(fn) != "networkService" || fn.Decl.Body == nil || recvObj(fn) == nil {
			continue
		}
		info := fn.Info()
		la := NewLockAnalysis(p, fn)
		lock := objID(recvObj(fn))
		ast.Inspect(fn.Decl.Body, func(k ast.Node) bool {
			call, ok := k.(*ast.CallExpr)
			if !ok {
				return true
			}
			if path, op := la.lockOp(call); path == lock && (op == "Lock" || op == "RLock") {
				n++
				held := la.HeldBefore(call)
				_, has := held[lock]
				c.Check(!has, "C04.R7", fn.Name+": the service lock is acquired while not held", p.Pos(call), fn.Key(), "held ∌ "+lock, "held="+held.String())
				return true
			}
			if sel, ok := ast.Unparen(call.Fun).(*ast.SelectorExpr); ok && identObj(info, sel.X) == recvObj(fn) {
				if h := p.FuncOf(Callee(info, call)); h != nil && h != fn && acquires(h, 0) {
					n++
					held := la.HeldBefore(call)
					_, has := held[lock]
					c.Check(!has, "C04.R7", fn.Name+": "+h.Name+" (which takes the service lock) is called while the lock is not held", p.Pos(call), fn.Key(), "held ∌ "+lock, "held="+held.String())
				}
			}
			return true
		})
	}
	c.Floor("C04.R7", "acquisitions of the service lock", 3, n)
}

// R10: a repeated ADD goes back to the interface of the pod's record. setRequest pins the request to
// the stored interface id; the id is taken from the record as it is — no test on other fields of the
// record (an address of the other family that does not parse on a single-stack node) drops the pin.
// Without it the pool offers the request to the interfaces in priority order and the pod gets a second
// address while the first stays owned.
func c04R10(c *Ctx) {
	p := c.P
	c.Rule("C04.R10", "the request of a repeated ADD carries the interface id of the stored resource unconditionally: every value stored into LocalIPRequest.NetworkInterfaceID from a stored item is that item's ENIID on every path")
	fld := p.Field(eniPkg, "LocalIPRequest", "NetworkInterfaceID")
	src := p.Field("types/daemon", "ResourceItem", "ENIID")
	if fld == nil || src == nil {
		c.Unres("C04.R10", "LocalIPRequest.NetworkInterfaceID / ResourceItem.ENIID", "not found")
		return
	}
	n := 0
	for _, s := range p.StoresTo(p.FuncsInPkg(daemonPkg), fld) {
		if s.InLit && s.RHS == nil {
			continue
		}
		n++
		var bad []string
		var follow func(fn *FuncInfo, x ast.Expr, depth int)
		follow = func(fn *FuncInfo, x ast.Expr, depth int) {
			info := fn.Info()
			x = ast.Unparen(x)
			if fieldOf(info, x) == src {
				return
			}
			if o := identObj(info, x); o != nil && depth < 5 {
				defs := 0
				for _, d := range varDefs(fn, o) {
					if d.rhs != nil {
						defs++
						follow(fn, d.rhs, depth+1)
					}
				}
				if defs > 0 {
					return
				}
			}
			bad = append(bad, exprString(x))
		}
		// result k of a module function: what each of its returns yields there
		followResult := func(call *ast.CallExpr, info *types.Info, k int) {
			callee := p.FuncOf(Callee(info, call))
			if callee == nil || callee.Decl.Body == nil {
				bad = append(bad, "result of "+exprString(call.Fun))
				return
			}
			for _, r := range declReturns(callee.Decl.Body) {
				switch {
				case k < len(r.Results):
					follow(callee, r.Results[k], 1)
				case len(r.Results) == 0 && callee.Decl.Type.Results != nil:
					// named results
					var names []*ast.Ident
					for _, f := range callee.Decl.Type.Results.List {
						names = append(names, f.Names...)
					}
					if k < len(names) {
						follow(callee, names[k], 1)
					} else {
						bad = append(bad, "bare return")
					}
				default:
					bad = append(bad, "return "+exprString2(r))
				}
			}
		}
		fn := s.Fn
		if s.RHS != nil {
			follow(fn, s.RHS, 0)
		} else if as, ok := s.Node.(*ast.AssignStmt); ok && len(as.Rhs) == 1 {
			// x, y, req.F = f(…)
			call, isCall := ast.Unparen(as.Rhs[0]).(*ast.CallExpr)
			k := -1
			for i, l := range as.Lhs {
				if l == s.LHS {
					k = i
				}
			}
			if isCall && k >= 0 {
				followResult(call, fn.Info(), k)
			} else {
				bad = append(bad, exprString2(as))
			}
		} else {
			bad = append(bad, "store form not recognised")
		}
		c.Check(len(bad) == 0, "C04.R10", fn.Key()+": the pinned interface is the record's", p.Pos(s.Node), fn.Key(), "every definition of the stored value is <item>.ENIID", "other values: "+strings.Join(bad, ", "))
	}
	c.Floor("C04.R10", "stores of LocalIPRequest.NetworkInterfaceID in the daemon", 1, n)
}
