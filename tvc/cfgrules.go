package main

// E4 path rules over go/cfg.

import (
	"go/ast"
	"go/token"
	"go/types"
	"strings"

	"golang.org/x/tools/go/cfg"
	"golang.org/x/tools/go/types/typeutil"
)

type nodeRef struct {
	b *cfg.Block
	i int // index into b.Nodes; len(b.Nodes) = block end
}

type PathQuery struct {
	P    *Prog
	Fn   *FuncInfo
	Body *ast.BlockStmt
	G    *cfg.CFG
	// Prune: do not follow the (cond, branch) edge when it returns true.
	Prune func(cond ast.Expr, takeTrue bool) bool
	// StopBlock: paths end (count as having passed `via`) when they enter such a block.
	StopBlock func(b *cfg.Block) bool
	// ToBlock: entering such a block counts as reaching the target.
	ToBlock func(b *cfg.Block) bool
	// FromBlock: the search starts at the entry of such blocks (instead of after a `from` node
	// or at function entry), e.g. the body block of a loop: one iteration from its start.
	FromBlock func(b *cfg.Block) bool
	// TrackNil: a pointer variable whose nil-ness is tracked along each path
	// (assignments of nil / of anything else, `x == nil` / `x != nil` edges), so that
	// paths contradicting their own tests are not explored.
	TrackNil types.Object
	// TrackNils: several variables tracked at once (two bits each in the path state), with copies
	// between tracked variables carrying the state over; StartNil forces the state of tracked
	// variables at the start of the search.
	TrackNils []types.Object
	StartNil  map[types.Object]int
	// ExitState: with nil tracking, decides whether a return reached in the given state is an
	// acceptable exit (takes the place of exitOK).
	ExitState func(ret *ast.ReturnStmt, st int) bool
}

// nilStateOf: the tracked state of variable o in path state st (nilUnknown when not tracked).
func (q *PathQuery) nilStateOf(o types.Object, st int) int {
	for i, t := range q.tracked() {
		if t == o {
			return nilGet(st, i)
		}
	}
	return nilUnknown
}

func (q *PathQuery) tracked() []types.Object {
	if len(q.TrackNils) > 0 {
		return q.TrackNils
	}
	if q.TrackNil != nil {
		return []types.Object{q.TrackNil}
	}
	return nil
}

func nilGet(st, i int) int    { return (st >> uint(2*i)) & 3 }
func nilSet(st, i, v int) int { return st&^(3<<uint(2*i)) | v<<uint(2*i) }

func (q *PathQuery) startState(st int) int {
	for i, o := range q.tracked() {
		if v, ok := q.StartNil[o]; ok {
			st = nilSet(st, i, v)
		}
	}
	return st
}

const (
	nilUnknown = iota
	nilYes
	nilNo
)

func (q *PathQuery) nilAfter(n ast.Node, st int) int {
	tr := q.tracked()
	if len(tr) == 0 {
		return st
	}
	info := q.Fn.Info()
	idx := func(o types.Object) int {
		if o == nil {
			return -1
		}
		for i, t := range tr {
			if t == o {
				return i
			}
		}
		return -1
	}
	switch t := n.(type) {
	case *ast.AssignStmt:
		before := st
		for i, l := range t.Lhs {
			k := idx(identObj(info, l))
			if k < 0 {
				continue
			}
			switch {
			case len(t.Rhs) != len(t.Lhs):
				st = nilSet(st, k, nilUnknown)
			case info.Types[ast.Unparen(t.Rhs[i])].IsNil():
				st = nilSet(st, k, nilYes)
			case nonNilProducer(info, t.Rhs[i]) || derefdBefore(q.Fn, t, t.Rhs[i]):
				st = nilSet(st, k, nilNo)
			case idx(identObj(info, t.Rhs[i])) >= 0:
				st = nilSet(st, k, nilGet(before, idx(identObj(info, t.Rhs[i]))))
			case nilPreservingWrap(q.P, info, t.Rhs[i]) != nil && idx(identObj(info, nilPreservingWrap(q.P, info, t.Rhs[i]))) >= 0:
				// x = wrap(y): nil exactly when y is
				st = nilSet(st, k, nilGet(before, idx(identObj(info, nilPreservingWrap(q.P, info, t.Rhs[i])))))
			default:
				st = nilSet(st, k, nilUnknown)
			}
		}
	case *ast.ValueSpec:
		for i, nm := range t.Names {
			k := idx(info.Defs[nm])
			if k < 0 {
				continue
			}
			if i < len(t.Values) && !info.Types[ast.Unparen(t.Values[i])].IsNil() {
				if j := idx(identObj(info, t.Values[i])); j >= 0 {
					st = nilSet(st, k, nilGet(st, j))
				} else {
					st = nilSet(st, k, nilUnknown)
				}
			} else {
				st = nilSet(st, k, nilYes)
			}
		}
	}
	return st
}

// derefdBefore: x is a pointer-typed identifier one of whose fields is read or written by an
// earlier statement of the block that contains st (so x cannot be nil when st runs, provided
// x is not reassigned in between).
func derefdBefore(fn *FuncInfo, st ast.Stmt, x ast.Expr) bool {
	info := fn.Info()
	o := identObj(info, x)
	if o == nil {
		return false
	}
	if _, isPtr := o.Type().Underlying().(*types.Pointer); !isPtr {
		return false
	}
	var blk *ast.BlockStmt
	for _, n := range pathTo(fn.Decl.Body, st) {
		if b, ok := n.(*ast.BlockStmt); ok {
			blk = b
		}
	}
	if blk == nil {
		return false
	}
	seen := false
	for _, s := range blk.List {
		if s == st {
			break
		}
		ast.Inspect(s, func(n ast.Node) bool {
			switch t := n.(type) {
			case *ast.FuncLit:
				return false
			case *ast.AssignStmt:
				for _, l := range t.Lhs {
					if identObj(info, l) == o && t.Tok != token.DEFINE {
						seen = false
					}
				}
			case *ast.SelectorExpr:
				if identObj(info, t.X) == o {
					if sel := info.Selections[t]; sel != nil && sel.Kind() == types.FieldVal {
						seen = true
					}
				}
			}
			return true
		})
	}
	return seen
}

// nilEdge refines / prunes on `x == nil` and `x != nil` conditions; ok=false means infeasible.
func (q *PathQuery) nilEdge(cond ast.Expr, takeTrue bool, st int) (int, bool) {
	tr := q.tracked()
	if len(tr) == 0 {
		return st, true
	}
	info := q.Fn.Info()
	be, isB := ast.Unparen(cond).(*ast.BinaryExpr)
	if !isB || (be.Op != token.EQL && be.Op != token.NEQ) {
		return st, true
	}
	var x ast.Expr
	if info.Types[ast.Unparen(be.Y)].IsNil() {
		x = be.X
	} else if info.Types[ast.Unparen(be.X)].IsNil() {
		x = be.Y
	}
	if x == nil {
		return st, true
	}
	k := -1
	for i, t := range tr {
		if identObj(info, x) == t {
			k = i
		}
	}
	if k < 0 {
		return st, true
	}
	cur := nilGet(st, k)
	isNilEdge := (be.Op == token.EQL) == takeTrue
	if isNilEdge {
		if cur == nilNo {
			return st, false
		}
		return nilSet(st, k, nilYes), true
	}
	if cur == nilYes {
		return st, false
	}
	return nilSet(st, k, nilNo), true
}

// loopHead matches the head block of the given range/for statement (entered at every iteration).
func loopHead(loop ast.Stmt) func(b *cfg.Block) bool {
	return func(b *cfg.Block) bool {
		return b.Stmt == loop && (b.Kind == cfg.KindRangeLoop || b.Kind == cfg.KindForLoop)
	}
}

func NewPathQuery(p *Prog, fn *FuncInfo, body *ast.BlockStmt) *PathQuery {
	if body == nil {
		body = fn.Decl.Body
	}
	return &PathQuery{P: p, Fn: fn, Body: body, G: cfg.New(body, mayReturn)}
}

type nodePred func(n ast.Node) bool

// containsNode builds a predicate "cfg node contains an AST node satisfying f"
// (function literals are not entered).
func containsNode(f func(ast.Node) bool) nodePred {
	return func(n ast.Node) bool {
		found := false
		ast.Inspect(n, func(m ast.Node) bool {
			if found || m == nil {
				return false
			}
			if _, ok := m.(*ast.FuncLit); ok && m != n {
				return false
			}
			if f(m) {
				found = true
				return false
			}
			return true
		})
		return found
	}
}

// callTo: node contains a call whose resolved callee is one of objs.
func (q *PathQuery) callTo(objs ...*types.Func) nodePred {
	set := map[*types.Func]bool{}
	for _, o := range objs {
		if o != nil {
			set[o.Origin()] = true
		}
	}
	info := q.Fn.Info()
	return containsNode(func(m ast.Node) bool {
		c, ok := m.(*ast.CallExpr)
		if !ok {
			return false
		}
		callee := Callee(info, c)
		return callee != nil && set[callee]
	})
}

func isExactly(target ast.Node) nodePred {
	return func(n ast.Node) bool {
		return n.Pos() <= target.Pos() && target.End() <= n.End()
	}
}

// Escapes searches for a path that starts right after a node matching `from`
// (or at function entry when from is nil), reaches a node matching `to`, and
// passes no node matching `via`. A nil `to` means any function exit. It
// returns the witness (nodes along the path) or nil when no such path exists.
func (q *PathQuery) Escapes(from, to, via nodePred, exitOK func(ret *ast.ReturnStmt) bool) []ast.Node {
	type state struct {
		b    *cfg.Block
		i    int
		prev *pathLink
		nl   int
	}
	type seenKey struct {
		r  nodeRef
		nl int
	}
	if len(q.G.Blocks) == 0 {
		return nil
	}
	var starts []state
	if q.FromBlock != nil {
		for _, b := range q.G.Blocks {
			if b.Live && q.FromBlock(b) && b.Stmt != nil {
				starts = append(starts, state{b, 0, &pathLink{b.Stmt, nil}, q.startState(nilUnknown)})
			}
		}
	} else if from == nil {
		starts = append(starts, state{q.G.Blocks[0], 0, nil, q.startState(nilUnknown)})
	} else {
		for _, b := range q.G.Blocks {
			if !b.Live {
				continue
			}
			for i, n := range b.Nodes {
				if from(n) {
					starts = append(starts, state{b, i + 1, &pathLink{n, nil}, q.startState(q.nilAfter(n, nilUnknown))})
				}
			}
		}
	}
	seen := map[seenKey]bool{}
	stack := starts
	for len(stack) > 0 {
		s := stack[len(stack)-1]
		stack = stack[:len(stack)-1]
		ref := seenKey{nodeRef{s.b, s.i}, s.nl}
		if seen[ref] {
			continue
		}
		seen[ref] = true
		nl := s.nl
		if q.ToBlock != nil && s.i == 0 && s.prev != nil && q.ToBlock(s.b) {
			return s.prev.list()
		}
		if q.StopBlock != nil && s.i == 0 && q.StopBlock(s.b) {
			continue
		}
		blocked := false
		link := s.prev
		for i := s.i; i < len(s.b.Nodes); i++ {
			n := s.b.Nodes[i]
			if via != nil && via(n) {
				blocked = true
				break
			}
			link = &pathLink{n, link}
			if to != nil && to(n) {
				return link.list()
			}
			nl = q.nilAfter(n, nl)
			if ret, ok := n.(*ast.ReturnStmt); ok && to == nil {
				if q.ExitState != nil {
					if !q.ExitState(ret, nl) {
						return link.list()
					}
				} else if exitOK == nil || !exitOK(ret) {
					return link.list()
				}
			}
		}
		if blocked {
			continue
		}
		if len(s.b.Succs) == 0 {
			// fell off the end of the function without a return statement
			if to == nil && len(s.b.Nodes) > 0 {
				if _, isRet := s.b.Nodes[len(s.b.Nodes)-1].(*ast.ReturnStmt); !isRet && exitOK == nil {
					// only report fall-off exits for void functions
					if q.isVoid() && reachesEnd(s.b) {
						return link.list()
					}
				}
			}
			continue
		}
		for k, succ := range s.b.Succs {
			enl := nl
			if len(s.b.Succs) == 2 && len(s.b.Nodes) > 0 {
				if cond, ok := s.b.Nodes[len(s.b.Nodes)-1].(ast.Expr); ok {
					if q.Prune != nil && q.Prune(cond, k == 0) {
						continue
					}
					var feasible bool
					if enl, feasible = q.nilEdge(cond, k == 0, nl); !feasible {
						continue
					}
				}
			}
			stack = append(stack, state{succ, 0, link, enl})
		}
	}
	return nil
}

func reachesEnd(b *cfg.Block) bool {
	if len(b.Nodes) == 0 {
		return true
	}
	if es, ok := b.Nodes[len(b.Nodes)-1].(*ast.ExprStmt); ok {
		if c, ok := es.X.(*ast.CallExpr); ok && !mayReturn(c) {
			return false
		}
	}
	return true
}

func (q *PathQuery) isVoid() bool {
	if q.Body == q.Fn.Decl.Body {
		return q.Fn.Decl.Type.Results == nil
	}
	return true
}

type pathLink struct {
	n    ast.Node
	prev *pathLink
}

func (l *pathLink) list() []ast.Node {
	var out []ast.Node
	for x := l; x != nil; x = x.prev {
		out = append(out, x.n)
	}
	for i, j := 0, len(out)-1; i < j; i, j = i+1, j-1 {
		out[i], out[j] = out[j], out[i]
	}
	return out
}

func (p *Prog) describePath(w []ast.Node) string {
	if len(w) == 0 {
		return ""
	}
	s := ""
	max := 6
	start := 0
	if len(w) > max {
		start = len(w) - max
		s = "… → "
	}
	for i := start; i < len(w); i++ {
		if i > start {
			s += " → "
		}
		s += p.Pos(w[i])
	}
	return s
}

// errResultIndex returns the index of the trailing error result of a function type.
func errResultIndex(sig *types.Signature) int {
	n := sig.Results().Len()
	if n == 0 {
		return -1
	}
	if types.Identical(sig.Results().At(n-1).Type(), types.Universe.Lookup("error").Type()) {
		return n - 1
	}
	return -1
}

// isSuccessReturn: the error result is the literal nil.
func isSuccessReturn(info *types.Info, sig *types.Signature, ret *ast.ReturnStmt) (success bool, known bool) {
	idx := errResultIndex(sig)
	if idx < 0 {
		return true, true
	}
	if len(ret.Results) == 0 {
		return false, false
	}
	if len(ret.Results) != sig.Results().Len() {
		return false, false // return f()
	}
	r := ast.Unparen(ret.Results[idx])
	if tv, ok := info.Types[r]; ok && tv.IsNil() {
		return true, true
	}
	// a call whose result is forwarded may succeed: only the error constructors
	// are known failures
	if call, ok := r.(*ast.CallExpr); ok {
		if f, _ := typeutil.Callee(info, call).(*types.Func); f != nil && f.Pkg() != nil {
			switch f.Pkg().Path() {
			case "fmt", "errors", "github.com/pkg/errors":
				return false, true
			}
			if s, _ := f.Type().(*types.Signature); s != nil && s.Recv() == nil && strings.HasSuffix(f.Name(), "Errorf") {
				return false, true
			}
		}
		return false, false
	}
	return false, true
}

// enclosingSig returns the signature of the innermost function containing body.
func sigOfBody(fn *FuncInfo, body *ast.BlockStmt) *types.Signature {
	if body == fn.Decl.Body {
		return fn.Obj.Type().(*types.Signature)
	}
	var sig *types.Signature
	ast.Inspect(fn.Decl.Body, func(n ast.Node) bool {
		if fl, ok := n.(*ast.FuncLit); ok && fl.Body == body {
			sig, _ = fn.Info().TypeOf(fl).(*types.Signature)
		}
		return true
	})
	return sig
}

// guardedFailure: the return hands back an error that is known to be non-nil there — a fresh
// error value, or the variable tested by the enclosing `if v != nil`. A trailing `return err`
// that forwards the last call's result is not one (it reports success when that call succeeded).
func guardedFailure(fn *FuncInfo, sig *types.Signature, ret *ast.ReturnStmt) bool {
	info := fn.Info()
	ei := errResultIndex(sig)
	if ei < 0 || len(ret.Results) != sig.Results().Len() {
		return false
	}
	x := ast.Unparen(ret.Results[ei])
	if info.Types[x].IsNil() {
		return false
	}
	if nonNilProducer(info, x) {
		return true
	}
	if u, ok := x.(*ast.UnaryExpr); ok && u.Op == token.AND {
		if _, isLit := ast.Unparen(u.X).(*ast.CompositeLit); isLit {
			return true // &SomeError{…}
		}
	}
	if _, isLit := x.(*ast.CompositeLit); isLit {
		return true
	}
	o := identObj(info, x)
	if o == nil {
		return false
	}
	for _, n := range pathTo(fn.Decl.Body, ret) {
		is, ok := n.(*ast.IfStmt)
		if !ok || !(is.Body.Pos() <= ret.Pos() && ret.End() <= is.Body.End()) {
			continue
		}
		found := false
		ast.Inspect(is.Cond, func(k ast.Node) bool {
			if be, ok := k.(*ast.BinaryExpr); ok && be.Op == token.NEQ && identObj(info, be.X) == o && info.Types[ast.Unparen(be.Y)].IsNil() {
				found = true
			}
			return true
		})
		if found {
			return true
		}
	}
	return false
}

// nilPreservingWrap: x is a call f(y) of a module function with one error parameter and one error result
// that returns nil only for a nil argument (every `return nil` stands under `if <param> == nil`, every
// other return is the parameter itself or a non-nil producer). Returns y, or nil.
func nilPreservingWrap(p *Prog, info *types.Info, x ast.Expr) ast.Expr {
	call, ok := ast.Unparen(x).(*ast.CallExpr)
	if !ok || len(call.Args) != 1 {
		return nil
	}
	fi := p.FuncOf(Callee(info, call))
	if fi == nil || fi.Decl.Body == nil {
		return nil
	}
	sig := fi.Obj.Type().(*types.Signature)
	if sig.Params().Len() != 1 || sig.Results().Len() != 1 || sig.Params().At(0).Type().String() != "error" || sig.Results().At(0).Type().String() != "error" {
		return nil
	}
	finfo := fi.Info()
	var param types.Object
	if ps := fi.Decl.Type.Params.List; len(ps) == 1 && len(ps[0].Names) == 1 {
		param = finfo.Defs[ps[0].Names[0]]
	}
	if param == nil {
		return nil
	}
	ok = true
	for _, r := range declReturns(fi.Decl.Body) {
		if len(r.Results) != 1 {
			return nil
		}
		res := ast.Unparen(r.Results[0])
		switch {
		case finfo.Types[res].IsNil():
			under := false
			for _, anc := range pathTo(fi.Decl.Body, r) {
				if is, isIf := anc.(*ast.IfStmt); isIf && r.Pos() >= is.Body.Pos() && r.End() <= is.Body.End() {
					if be, isB := ast.Unparen(is.Cond).(*ast.BinaryExpr); isB && be.Op == token.EQL {
						if (identObj(finfo, be.X) == param && finfo.Types[ast.Unparen(be.Y)].IsNil()) || (identObj(finfo, be.Y) == param && finfo.Types[ast.Unparen(be.X)].IsNil()) {
							under = true
						}
					}
				}
			}
			if !under {
				ok = false
			}
		case identObj(finfo, res) == param:
		case nonNilProducer(finfo, res):
		default:
			ok = false
		}
	}
	if !ok {
		return nil
	}
	return call.Args[0]
}
