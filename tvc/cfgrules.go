package main

// E4 path rules over go/cfg.

import (
	"go/ast"
	"go/types"

	"golang.org/x/tools/go/cfg"
)

type nodeRef struct {
	b *cfg.Block
	i int // index into b.Nodes; len(b.Nodes) = block end
}

type PathQuery struct {
	P    *Prog
	Fn   *FuncInfo
	Body *ast.BlockStmt
	G    *cfg.CFG
	// Prune: do not follow the (cond, branch) edge when it returns true.
	Prune func(cond ast.Expr, takeTrue bool) bool
	// StopBlock: paths end (count as having passed `via`) when they enter such a block.
	StopBlock func(b *cfg.Block) bool
	// ToBlock: entering such a block counts as reaching the target.
	ToBlock func(b *cfg.Block) bool
}

// loopHead matches the head block of the given range/for statement (entered at every iteration).
func loopHead(loop ast.Stmt) func(b *cfg.Block) bool {
	return func(b *cfg.Block) bool {
		return b.Stmt == loop && (b.Kind == cfg.KindRangeLoop || b.Kind == cfg.KindForLoop)
	}
}

func NewPathQuery(p *Prog, fn *FuncInfo, body *ast.BlockStmt) *PathQuery {
	if body == nil {
		body = fn.Decl.Body
	}
	return &PathQuery{P: p, Fn: fn, Body: body, G: cfg.New(body, mayReturn)}
}

type nodePred func(n ast.Node) bool

// containsNode builds a predicate "cfg node contains an AST node satisfying f"
// (function literals are not entered).
func containsNode(f func(ast.Node) bool) nodePred {
	return func(n ast.Node) bool {
		found := false
		ast.Inspect(n, func(m ast.Node) bool {
			if found || m == nil {
				return false
			}
			if _, ok := m.(*ast.FuncLit); ok && m != n {
				return false
			}
			if f(m) {
				found = true
				return false
			}
			return true
		})
		return found
	}
}

// callTo: node contains a call whose resolved callee is one of objs.
func (q *PathQuery) callTo(objs ...*types.Func) nodePred {
	set := map[*types.Func]bool{}
	for _, o := range objs {
		if o != nil {
			set[o.Origin()] = true
		}
	}
	info := q.Fn.Info()
	return containsNode(func(m ast.Node) bool {
		c, ok := m.(*ast.CallExpr)
		if !ok {
			return false
		}
		callee := Callee(info, c)
		return callee != nil && set[callee]
	})
}

func isExactly(target ast.Node) nodePred {
	return func(n ast.Node) bool {
		return n.Pos() <= target.Pos() && target.End() <= n.End()
	}
}

// Escapes searches for a path that starts right after a node matching `from`
// (or at function entry when from is nil), reaches a node matching `to`, and
// passes no node matching `via`. A nil `to` means any function exit. It
// returns the witness (nodes along the path) or nil when no such path exists.
func (q *PathQuery) Escapes(from, to, via nodePred, exitOK func(ret *ast.ReturnStmt) bool) []ast.Node {
	type state struct {
		b    *cfg.Block
		i    int
		prev *pathLink
	}
	if len(q.G.Blocks) == 0 {
		return nil
	}
	var starts []state
	if from == nil {
		starts = append(starts, state{q.G.Blocks[0], 0, nil})
	} else {
		for _, b := range q.G.Blocks {
			if !b.Live {
				continue
			}
			for i, n := range b.Nodes {
				if from(n) {
					starts = append(starts, state{b, i + 1, &pathLink{n, nil}})
				}
			}
		}
	}
	seen := map[nodeRef]bool{}
	stack := starts
	for len(stack) > 0 {
		s := stack[len(stack)-1]
		stack = stack[:len(stack)-1]
		ref := nodeRef{s.b, s.i}
		if seen[ref] {
			continue
		}
		seen[ref] = true
		if q.ToBlock != nil && s.i == 0 && s.prev != nil && q.ToBlock(s.b) {
			return s.prev.list()
		}
		if q.StopBlock != nil && s.i == 0 && q.StopBlock(s.b) {
			continue
		}
		blocked := false
		link := s.prev
		for i := s.i; i < len(s.b.Nodes); i++ {
			n := s.b.Nodes[i]
			if via != nil && via(n) {
				blocked = true
				break
			}
			link = &pathLink{n, link}
			if to != nil && to(n) {
				return link.list()
			}
			if ret, ok := n.(*ast.ReturnStmt); ok && to == nil {
				if exitOK == nil || !exitOK(ret) {
					return link.list()
				}
			}
		}
		if blocked {
			continue
		}
		if len(s.b.Succs) == 0 {
			// fell off the end of the function without a return statement
			if to == nil && len(s.b.Nodes) > 0 {
				if _, isRet := s.b.Nodes[len(s.b.Nodes)-1].(*ast.ReturnStmt); !isRet && exitOK == nil {
					// only report fall-off exits for void functions
					if q.isVoid() && reachesEnd(s.b) {
						return link.list()
					}
				}
			}
			continue
		}
		for k, succ := range s.b.Succs {
			if q.Prune != nil && len(s.b.Succs) == 2 && len(s.b.Nodes) > 0 {
				if cond, ok := s.b.Nodes[len(s.b.Nodes)-1].(ast.Expr); ok {
					if q.Prune(cond, k == 0) {
						continue
					}
				}
			}
			stack = append(stack, state{succ, 0, link})
		}
	}
	return nil
}

func reachesEnd(b *cfg.Block) bool {
	if len(b.Nodes) == 0 {
		return true
	}
	if es, ok := b.Nodes[len(b.Nodes)-1].(*ast.ExprStmt); ok {
		if c, ok := es.X.(*ast.CallExpr); ok && !mayReturn(c) {
			return false
		}
	}
	return true
}

func (q *PathQuery) isVoid() bool {
	if q.Body == q.Fn.Decl.Body {
		return q.Fn.Decl.Type.Results == nil
	}
	return true
}

type pathLink struct {
	n    ast.Node
	prev *pathLink
}

func (l *pathLink) list() []ast.Node {
	var out []ast.Node
	for x := l; x != nil; x = x.prev {
		out = append(out, x.n)
	}
	for i, j := 0, len(out)-1; i < j; i, j = i+1, j-1 {
		out[i], out[j] = out[j], out[i]
	}
	return out
}

func (p *Prog) describePath(w []ast.Node) string {
	if len(w) == 0 {
		return ""
	}
	s := ""
	max := 6
	start := 0
	if len(w) > max {
		start = len(w) - max
		s = "… → "
	}
	for i := start; i < len(w); i++ {
		if i > start {
			s += " → "
		}
		s += p.Pos(w[i])
	}
	return s
}

// errResultIndex returns the index of the trailing error result of a function type.
func errResultIndex(sig *types.Signature) int {
	n := sig.Results().Len()
	if n == 0 {
		return -1
	}
	if types.Identical(sig.Results().At(n-1).Type(), types.Universe.Lookup("error").Type()) {
		return n - 1
	}
	return -1
}

// isSuccessReturn: the error result is the literal nil.
func isSuccessReturn(info *types.Info, sig *types.Signature, ret *ast.ReturnStmt) (success bool, known bool) {
	idx := errResultIndex(sig)
	if idx < 0 {
		return true, true
	}
	if len(ret.Results) == 0 {
		return false, false
	}
	if len(ret.Results) != sig.Results().Len() {
		return false, false // return f()
	}
	r := ast.Unparen(ret.Results[idx])
	if tv, ok := info.Types[r]; ok && tv.IsNil() {
		return true, true
	}
	return false, true
}

// enclosingSig returns the signature of the innermost function containing body.
func sigOfBody(fn *FuncInfo, body *ast.BlockStmt) *types.Signature {
	if body == fn.Decl.Body {
		return fn.Obj.Type().(*types.Signature)
	}
	var sig *types.Signature
	ast.Inspect(fn.Decl.Body, func(n ast.Node) bool {
		if fl, ok := n.(*ast.FuncLit); ok && fl.Body == body {
			sig, _ = fn.Info().TypeOf(fl).(*types.Signature)
		}
		return true
	})
	return sig
}
