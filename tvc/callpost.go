package main

// Call-result postconditions for the fact engine. After `x := h(a…)` (h a same-package
// function with a body and one result) the state is intersected with
//
//	OR over h's return statements r_i of  AND(path-condition literals of r_i)[result ↦ x, params ↦ args]
//
// A literal is kept only when it can be stated in the caller's terms (its identifiers are the
// returned variable, parameters bound to stable argument expressions, or package-level names
// that mean the same at the call site) and nothing that may write executes between the
// evaluation of its condition and the return; `return nil` contributes x == nil; any other
// return expression contributes "true". Dropping literals only weakens the postcondition.

import (
	"go/ast"
	"go/token"
	"go/types"
	"strings"
)

type retCase struct {
	lits  []string // Go source in the caller's terms
	isNil bool
}

func (e *FactEngine) callPost(lhs ast.Expr, call *ast.CallExpr, sc *scope) *Formula {
	if e.postCache == nil {
		e.postCache = map[*ast.CallExpr]*Formula{}
	}
	if f, ok := e.postCache[call]; ok {
		return f
	}
	e.postCache[call] = nil
	f := e.callPost0(lhs, call, sc)
	e.postCache[call] = f
	return f
}

func (e *FactEngine) callPost0(lhs ast.Expr, call *ast.CallExpr, sc *scope) *Formula {
	if !sc.local {
		return nil
	}
	lid, ok := ast.Unparen(lhs).(*ast.Ident)
	if !ok || lid.Name == "_" {
		return nil
	}
	callee := Callee(sc.info, call)
	fi := e.p.FuncOf(callee)
	if fi == nil || fi == e.fn || fi.Pkg != e.fn.Pkg || fi.Decl.Body == nil {
		return nil
	}
	sig := callee.Type().(*types.Signature)
	if sig.Results().Len() != 1 || sig.Variadic() || sig.Params().Len() != len(call.Args) {
		return nil
	}
	info := fi.Info()
	stable := func(x ast.Expr) bool {
		ok := true
		ast.Inspect(x, func(n ast.Node) bool {
			switch n.(type) {
			case *ast.CallExpr, *ast.FuncLit, *ast.CompositeLit, *ast.UnaryExpr, *ast.IndexExpr, *ast.SliceExpr, *ast.TypeAssertExpr:
				ok = false
			}
			return ok
		})
		return ok
	}
	sigma := map[types.Object]string{}
	if fi.Decl.Recv != nil && len(fi.Decl.Recv.List) == 1 && len(fi.Decl.Recv.List[0].Names) == 1 {
		if sel, ok := ast.Unparen(call.Fun).(*ast.SelectorExpr); ok && stable(sel.X) {
			sigma[info.Defs[fi.Decl.Recv.List[0].Names[0]]] = exprString(sel.X)
		}
	}
	i := 0
	for _, f := range fi.Decl.Type.Params.List {
		for _, n := range f.Names {
			if i < len(call.Args) && stable(call.Args[i]) && n.Name != "_" {
				sigma[info.Defs[n]] = exprString(call.Args[i])
			}
			i++
		}
		if len(f.Names) == 0 {
			i++
		}
	}
	// callee parameters that are assigned in the body cannot be related to the arguments
	ast.Inspect(fi.Decl.Body, func(n ast.Node) bool {
		switch t := n.(type) {
		case *ast.AssignStmt:
			for _, l := range t.Lhs {
				if id, ok := ast.Unparen(l).(*ast.Ident); ok {
					delete(sigma, info.Uses[id])
				}
			}
		case *ast.IncDecStmt:
			if id, ok := ast.Unparen(t.X).(*ast.Ident); ok {
				delete(sigma, info.Uses[id])
			}
		case *ast.UnaryExpr:
			if id, ok := ast.Unparen(t.X).(*ast.Ident); ok && t.Op == token.AND {
				delete(sigma, info.Uses[id])
			}
		}
		return true
	})
	var rets []*ast.ReturnStmt
	var walk func(n ast.Node)
	walk = func(n ast.Node) {
		ast.Inspect(n, func(m ast.Node) bool {
			switch t := m.(type) {
			case *ast.FuncLit:
				return false
			case *ast.ReturnStmt:
				rets = append(rets, t)
			}
			return true
		})
	}
	walk(fi.Decl.Body)
	if len(rets) == 0 || len(rets) > 8 {
		return nil
	}
	lhsText := lid.Name
	inner := e.fn.Pkg.Types.Scope().Innermost(call.Pos())
	var cases []retCase
	for _, r := range rets {
		if len(r.Results) != 1 {
			return nil
		}
		res := ast.Unparen(r.Results[0])
		if tv := info.Types[res]; tv.IsNil() {
			cases = append(cases, retCase{isNil: true})
			continue
		}
		sg := map[types.Object]string{}
		for k, v := range sigma {
			sg[k] = v
		}
		rid, isIdent := res.(*ast.Ident)
		if !isIdent {
			cases = append(cases, retCase{}) // unknown value: true
			continue
		}
		ro := info.Uses[rid]
		if ro == nil {
			cases = append(cases, retCase{})
			continue
		}
		sg[ro] = lhsText
		var lits []string
		add := func(cond ast.Expr, pos bool) {
			if txt, ok := e.translate(info, cond, sg, inner, call.Pos()); ok {
				if !pos {
					txt = "!(" + txt + ")"
				}
				lits = append(lits, txt)
			}
		}
		path := pathTo(fi.Decl.Body, r)
		for k, nd := range path {
			switch t := nd.(type) {
			case *ast.IfStmt:
				if k+1 < len(path) {
					if path[k+1] == ast.Node(t.Body) {
						if t.Init == nil && e.pureCond(info, t.Cond) {
							add(t.Cond, true)
						}
					} else if t.Else != nil && path[k+1] == ast.Node(t.Else) {
						if t.Init == nil && e.pureCond(info, t.Cond) {
							add(t.Cond, false)
						}
					}
				}
			case *ast.BlockStmt:
				if k+1 >= len(path) {
					break
				}
				for _, st := range t.List {
					if ast.Node(st) == path[k+1] {
						break
					}
					if is, ok := st.(*ast.IfStmt); ok && is.Else == nil && is.Init == nil && terminates(info, is.Body) && e.pureCond(info, is.Cond) && !writes(info, is.Body) {
						add(is.Cond, false)
						continue
					}
					if writesStmt(info, st) {
						lits = nil // something may have changed what the earlier conditions saw
					}
				}
			case *ast.RangeStmt, *ast.ForStmt:
				// conditions collected outside a loop still hold inside only if the loop body writes nothing relevant
				var body *ast.BlockStmt
				if rs, ok := t.(*ast.RangeStmt); ok {
					body = rs.Body
				} else {
					body = t.(*ast.ForStmt).Body
				}
				if writes(info, body) {
					lits = nil
				}
			case *ast.SwitchStmt, *ast.TypeSwitchStmt, *ast.SelectStmt:
				lits = nil
			}
		}
		c := retCase{lits: lits}
		for _, l := range lits {
			if strings.Contains(l, lhsText+".") {
				c.lits = append(c.lits, lhsText+" != nil")
				break
			}
		}
		cases = append(cases, c)
	}
	var post *Formula
	for _, c := range cases {
		var f *Formula
		if c.isNil {
			g, err := e.ParseReq(lhsText+" == nil", call.End())
			if err != nil {
				return nil
			}
			f = g
		} else {
			f = &Formula{k: fTrue}
			for _, l := range c.lits {
				g, err := e.ParseReq(l, call.End())
				if err != nil {
					continue
				}
				f = mkAnd(f, g)
			}
		}
		if post == nil {
			post = f
		} else {
			post = mkOr(post, f)
		}
	}
	return post
}

// pureCond: evaluating the condition writes nothing (no calls except inlinable predicates and
// methods with an empty write set, builtins len/cap).
func (e *FactEngine) pureCond(info *types.Info, x ast.Expr) bool {
	ok := true
	ast.Inspect(x, func(n ast.Node) bool {
		switch t := n.(type) {
		case *ast.FuncLit:
			ok = false
		case *ast.CallExpr:
			if id, isId := ast.Unparen(t.Fun).(*ast.Ident); isId {
				if _, b := info.Uses[id].(*types.Builtin); b && (id.Name == "len" || id.Name == "cap") {
					return true
				}
			}
			if info.Types[t.Fun].IsType() {
				return true
			}
			fi := e.p.FuncOf(Callee(info, t))
			if fi == nil || !e.p.pureMethod(fi, 0) {
				ok = false
			}
		}
		return ok
	})
	return ok
}

func terminates(info *types.Info, b *ast.BlockStmt) bool {
	if len(b.List) == 0 {
		return false
	}
	switch t := b.List[len(b.List)-1].(type) {
	case *ast.ReturnStmt:
		return true
	case *ast.BranchStmt:
		return t.Tok == token.CONTINUE || t.Tok == token.BREAK || t.Tok == token.GOTO
	case *ast.ExprStmt:
		return terminatingCall(info, t.X)
	}
	return false
}

func writesStmt(info *types.Info, st ast.Stmt) bool {
	switch t := st.(type) {
	case *ast.DeclStmt:
		return false
	case *ast.AssignStmt:
		if t.Tok == token.DEFINE {
			for _, r := range t.Rhs {
				if writes(info, r) {
					return true
				}
			}
			return false
		}
	}
	return writes(info, st)
}

// writes: the node contains an assignment to something that is not a fresh local, an
// inc/dec, a send, a go/defer, or a call that is not a logging call.
func writes(info *types.Info, n ast.Node) bool {
	w := false
	ast.Inspect(n, func(m ast.Node) bool {
		switch t := m.(type) {
		case *ast.AssignStmt:
			if t.Tok != token.DEFINE {
				w = true
			}
		case *ast.IncDecStmt, *ast.SendStmt, *ast.GoStmt, *ast.DeferStmt:
			w = true
		case *ast.CallExpr:
			name := lastSeg(calleeName(info, t))
			if id, isId := ast.Unparen(t.Fun).(*ast.Ident); isId {
				if _, b := info.Uses[id].(*types.Builtin); b && id.Name != "delete" && id.Name != "copy" && id.Name != "append" && id.Name != "clear" {
					return true
				}
			}
			if info.Types[t.Fun].IsType() {
				return true
			}
			switch name {
			case "Info", "Error", "V", "WithValues", "WithName", "Infof", "Errorf", "Sprintf", "String", "Debugf", "Warnf", "Is", "As":
				return true
			}
			w = true
		}
		return !w
	})
	return w
}

// translate prints cond with the identifiers in sg replaced; every other identifier must be a
// field/method selector, a universe or package-level name that resolves identically at pos.
func (e *FactEngine) translate(info *types.Info, cond ast.Expr, sg map[types.Object]string, at *types.Scope, pos token.Pos) (string, bool) {
	ok := true
	var rw func(x ast.Expr) ast.Expr
	rw = func(x ast.Expr) ast.Expr {
		switch t := x.(type) {
		case *ast.Ident:
			o := info.Uses[t]
			if txt, sub := sg[o]; sub {
				return &ast.Ident{Name: "(" + txt + ")"}
			}
			switch ov := o.(type) {
			case nil:
				ok = false
			case *types.Var:
				if !ov.IsField() && ov.Parent() != ov.Pkg().Scope() {
					ok = false // a callee local
				}
			case *types.PkgName:
				if at != nil {
					if _, a := at.LookupParent(t.Name, pos); a == nil {
						ok = false
					} else if ap, isP := a.(*types.PkgName); !isP || ap.Imported() != ov.Imported() {
						ok = false
					}
				}
				return t
			}
			if ok && at != nil && o != nil && (o.Pkg() == nil || o.Parent() == o.Pkg().Scope()) {
				if _, a := at.LookupParent(t.Name, pos); a != o {
					ok = false
				}
			}
			return t
		case *ast.SelectorExpr:
			return &ast.SelectorExpr{X: rw(t.X), Sel: t.Sel}
		case *ast.BinaryExpr:
			return &ast.BinaryExpr{X: rw(t.X), Op: t.Op, Y: rw(t.Y)}
		case *ast.UnaryExpr:
			return &ast.UnaryExpr{Op: t.Op, X: rw(t.X)}
		case *ast.ParenExpr:
			return &ast.ParenExpr{X: rw(t.X)}
		case *ast.StarExpr:
			return &ast.StarExpr{X: rw(t.X)}
		case *ast.BasicLit:
			return t
		case *ast.CallExpr:
			args := make([]ast.Expr, len(t.Args))
			for i, a := range t.Args {
				args[i] = rw(a)
			}
			return &ast.CallExpr{Fun: rw(t.Fun), Args: args}
		}
		ok = false
		return x
	}
	out := rw(cond)
	if !ok {
		return "", false
	}
	return exprString(out), true
}

func lastSeg(s string) string {
	if i := strings.LastIndex(s, "."); i >= 0 {
		return s[i+1:]
	}
	return s
}
