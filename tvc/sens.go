package main

// thorough-tier sensitivity pass (filled in later)
func sensitivity(res *Result, p *Prog, id string, fn propCheck) {}
