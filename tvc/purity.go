package main

// Statelessness: a function the properties treat as a mathematical function of
// its arguments (a name, a table number, a gateway, a classifier key) touches no
// package-level variable of the module — neither itself nor through the module
// functions it calls (bound 4). Sentinel errors and loggers are not state.

import (
	"go/ast"
	"go/token"
	"go/types"
	"sort"
	"strings"
)

func packageState(p *Prog, fn *FuncInfo) []string {
	seen := map[*FuncInfo]bool{}
	found := map[string]bool{}
	var scan func(f *FuncInfo, depth int)
	scan = func(f *FuncInfo, depth int) {
		if seen[f] || f.Decl.Body == nil {
			return
		}
		seen[f] = true
		info := f.Info()
		ast.Inspect(f.Decl.Body, func(n ast.Node) bool {
			id, ok := n.(*ast.Ident)
			if !ok {
				return true
			}
			switch o := info.Uses[id].(type) {
			case *types.Var:
				if o.Pkg() == nil || o.Parent() != o.Pkg().Scope() || !strings.HasPrefix(o.Pkg().Path(), modPath) {
					return true
				}
				ts := o.Type().String()
				if ts == "error" || strings.Contains(ts, "logr.Logger") || strings.Contains(ts, "logrus") {
					return true
				}
				if !p.mutablePkgVars()[o] {
					return true // a table that nothing ever writes
				}
				found[shortPkg(o.Pkg().Path())+"."+o.Name()+" (in "+f.Name+")"] = true
			case *types.Func:
				if h := p.FuncOf(o); h != nil && depth < 4 {
					scan(h, depth+1)
				}
			}
			return true
		})
	}
	scan(fn, 0)
	var out []string
	for k := range found {
		out = append(out, k)
	}
	sort.Strings(out)
	return out
}

// mutablePkgVars: package-level variables of the module that some function
// writes (assignment, element / field store, inc/dec), takes the address of, or
// calls a pointer-receiver method on (sync.Map.Store, Mutex.Lock, …).
func (p *Prog) mutablePkgVars() map[*types.Var]bool {
	if p.mutVars != nil {
		return p.mutVars
	}
	p.mutVars = map[*types.Var]bool{}
	for _, fn := range p.AllFuncs() {
		if fn.Decl.Body == nil {
			continue
		}
		info := fn.Info()
		rootVar := func(x ast.Expr) *types.Var {
			for {
				switch t := ast.Unparen(x).(type) {
				case *ast.Ident:
					v, _ := info.ObjectOf(t).(*types.Var)
					if v != nil && v.Pkg() != nil && v.Parent() == v.Pkg().Scope() {
						return v
					}
					return nil
				case *ast.SelectorExpr:
					if _, isPkg := info.Uses[identOf(t.X)].(*types.PkgName); isPkg {
						v, _ := info.ObjectOf(t.Sel).(*types.Var)
						if v != nil && v.Pkg() != nil && v.Parent() == v.Pkg().Scope() {
							return v
						}
						return nil
					}
					x = t.X
				case *ast.IndexExpr:
					x = t.X
				case *ast.StarExpr:
					x = t.X
				default:
					return nil
				}
			}
		}
		ast.Inspect(fn.Decl.Body, func(n ast.Node) bool {
			switch s := n.(type) {
			case *ast.AssignStmt:
				for _, l := range s.Lhs {
					if v := rootVar(l); v != nil {
						p.mutVars[v] = true
					}
				}
			case *ast.IncDecStmt:
				if v := rootVar(s.X); v != nil {
					p.mutVars[v] = true
				}
			case *ast.UnaryExpr:
				if s.Op == token.AND {
					if v := rootVar(s.X); v != nil {
						p.mutVars[v] = true
					}
				}
			case *ast.CallExpr:
				if sel, ok := ast.Unparen(s.Fun).(*ast.SelectorExpr); ok {
					if se := info.Selections[sel]; se != nil && se.Kind() == types.MethodVal {
						if f, _ := se.Obj().(*types.Func); f != nil {
							if sig, _ := f.Type().(*types.Signature); sig != nil && sig.Recv() != nil {
								if _, ptr := sig.Recv().Type().(*types.Pointer); ptr {
									if v := rootVar(sel.X); v != nil {
										if _, isPtr := v.Type().Underlying().(*types.Pointer); !isPtr || true {
											p.mutVars[v] = true
										}
									}
								}
							}
						}
					}
				}
			}
			return true
		})
	}
	return p.mutVars
}

func identOf(x ast.Expr) *ast.Ident {
	id, _ := ast.Unparen(x).(*ast.Ident)
	return id
}

func ruleStateless(c *Ctx, rule string, fns [][2]string) {
	p := c.P
	c.Rule(rule, "statelessness: the functions this property treats as functions of their arguments read and write no package-level variable of the module, directly or through module callees (no memo, counter or cache can make a later answer depend on an earlier call)")
	n := 0
	for _, a := range fns {
		fn := p.Func(a[0], a[1])
		if fn == nil {
			c.Unres(rule, a[0]+"."+a[1], "function not found")
			continue
		}
		n++
		st := packageState(p, fn)
		c.Check(len(st) == 0, rule, fn.Name+" touches no package-level state", p.Pos(fn.Decl), fn.Key(), "no module package variable is referenced (transitively, bound 4)", strings.Join(st, "; "))
	}
	c.Floor(rule, "functions examined", 1, n)
}
