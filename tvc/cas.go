package main

// Compare-and-swap publication: a record whose transitions are decided from a
// snapshot (PodENI, the per-node IPAM record) is written back with a request
// that carries the snapshot's resourceVersion — Update, Status().Update, or a
// patch built with the optimistic lock. A merge patch without the lock may only
// carry fields nobody decides transitions on (a last-seen timestamp, a label, a
// finalizer). Decided per call site of controller-runtime's Patch whose object
// has the record's type: the patch argument is traced to its constructor, and
// everything done to the object variable in the function is listed.

import (
	"fmt"
	"go/ast"
	"go/token"
	"go/types"
	"sort"
	"strings"

	"golang.org/x/tools/go/cfg"
)

const crClientPkg = "sigs.k8s.io/controller-runtime/pkg/client"

// patchKind: "locked", "unconditional" or "" (unknown constructor).
func patchKind(fn *FuncInfo, x ast.Expr) (string, string) {
	info := fn.Info()
	x = derefExpr(fn, x)
	call, ok := ast.Unparen(x).(*ast.CallExpr)
	if !ok {
		return "", exprString(x)
	}
	f := Callee(info, call)
	if f == nil || f.Pkg() == nil || f.Pkg().Path() != crClientPkg {
		return "", exprString(call.Fun)
	}
	switch f.Name() {
	case "MergeFromWithOptimisticLock":
		return "locked", f.Name()
	case "MergeFrom", "StrategicMergeFrom":
		// StrategicMergeFrom(obj, opts...) may carry the lock as an option
		for _, a := range call.Args[1:] {
			if typeIs(info.TypeOf(a), crClientPkg, "MergeFromWithOptimisticLock") {
				return "locked", f.Name() + " with MergeFromWithOptimisticLock"
			}
		}
		return "unconditional", f.Name()
	case "MergeFromWithOptions":
		for _, a := range call.Args[1:] {
			if typeIs(info.TypeOf(a), crClientPkg, "MergeFromWithOptimisticLock") {
				return "locked", f.Name() + " with MergeFromWithOptimisticLock"
			}
		}
		return "unconditional", f.Name()
	case "RawPatch", "Apply":
		return "unconditional", f.Name()
	}
	return "", f.Name()
}

// selPath renders the selector path below root ("" when x is root itself, "-" when not rooted).
func selPath(info *types.Info, x ast.Expr, root types.Object) string {
	switch t := ast.Unparen(x).(type) {
	case *ast.Ident:
		if info.ObjectOf(t) == root {
			return ""
		}
		return "-"
	case *ast.SelectorExpr:
		b := selPath(info, t.X, root)
		if b == "-" {
			return "-"
		}
		if b == "" {
			return t.Sel.Name
		}
		return b + "." + t.Sel.Name
	case *ast.IndexExpr:
		return selPath(info, t.X, root)
	case *ast.StarExpr:
		return selPath(info, t.X, root)
	case *ast.UnaryExpr:
		if t.Op == token.AND {
			return selPath(info, t.X, root)
		}
	}
	return "-"
}

// modificationsOf lists what fn does to the object held by variable v, apart
// from reading it: stores below it, and calls it is handed to.
func modificationsOf(p *Prog, fn *FuncInfo, v types.Object, except *ast.CallExpr) []string {
	info := fn.Info()
	set := map[string]bool{}
	for _, root := range nodesBefore(fn, v, except) {
		modsIn(p, info, root, v, except, set)
	}
	var out []string
	for k := range set {
		out = append(out, k)
	}
	sort.Strings(out)
	return out
}

// nodesBefore: the CFG nodes of the function (or of the literal the call stands
// in) from which the call can be reached — what may have happened to the object
// by the time it is sent. When the variable is declared outside that literal,
// the rest of the enclosing function counts as well (order unknown).
func nodesBefore(fn *FuncInfo, v types.Object, call *ast.CallExpr) []ast.Node {
	body := fn.Decl.Body
	lit := enclosingLit(fn.Decl.Body, call)
	if lit != nil {
		body = lit.Body
	}
	g := cfg.New(body, mayReturn)
	var tb *cfg.Block
	ti := -1
	for _, b := range g.Blocks {
		for i, n := range b.Nodes {
			if n.Pos() <= call.Pos() && call.End() <= n.End() {
				tb, ti = b, i
			}
		}
	}
	if tb == nil {
		return []ast.Node{fn.Decl.Body}
	}
	preds := map[*cfg.Block][]*cfg.Block{}
	for _, b := range g.Blocks {
		for _, s := range b.Succs {
			preds[s] = append(preds[s], b)
		}
	}
	var out []ast.Node
	out = append(out, tb.Nodes[:ti+1]...)
	seen := map[*cfg.Block]bool{}
	stack := append([]*cfg.Block{}, preds[tb]...)
	for len(stack) > 0 {
		b := stack[len(stack)-1]
		stack = stack[:len(stack)-1]
		if seen[b] {
			continue
		}
		seen[b] = true
		if b == tb {
			out = append(out, tb.Nodes[ti+1:]...) // the call stands in a cycle
		} else {
			out = append(out, b.Nodes...)
		}
		stack = append(stack, preds[b]...)
	}
	if lit != nil && !(v.Pos() >= lit.Pos() && v.Pos() < lit.End()) {
		ast.Inspect(fn.Decl.Body, func(n ast.Node) bool {
			if n == lit {
				return false
			}
			if s, ok := n.(ast.Stmt); ok {
				if _, isBlock := s.(*ast.BlockStmt); !isBlock {
					if !(s.Pos() <= lit.Pos() && lit.End() <= s.End()) {
						out = append(out, s)
						return false
					}
				}
			}
			return true
		})
	}
	return out
}

func modsIn(p *Prog, info *types.Info, root ast.Node, v types.Object, except *ast.CallExpr, set map[string]bool) {
	ast.Inspect(root, func(n ast.Node) bool {
		switch s := n.(type) {
		case *ast.AssignStmt:
			for _, l := range s.Lhs {
				if _, isIdent := ast.Unparen(l).(*ast.Ident); isIdent {
					continue
				}
				if sp := selPath(info, l, v); sp != "-" {
					set["store "+sp] = true
				}
			}
		case *ast.IncDecStmt:
			if sp := selPath(info, s.X, v); sp != "-" && sp != "" {
				set["store "+sp] = true
			}
		case *ast.CallExpr:
			if s == except {
				return true
			}
			if id, ok := ast.Unparen(s.Fun).(*ast.Ident); ok {
				if _, isB := info.Uses[id].(*types.Builtin); isB {
					if id.Name == "delete" && len(s.Args) > 0 {
						if sp := selPath(info, s.Args[0], v); sp != "-" {
							set["store "+sp] = true
						}
					}
					return true
				}
			}
			callee := Callee(info, s)
			name := exprString(s.Fun)
			if callee != nil {
				name = callee.Name()
				if callee.Pkg() != nil {
					name = shortPkg(callee.Pkg().Path()) + "." + callee.Name()
				}
			}
			// receiver-rooted method calls
			if sel, ok := ast.Unparen(s.Fun).(*ast.SelectorExpr); ok && info.Selections[sel] != nil {
				if sp := selPath(info, sel.X, v); sp != "-" {
					pure := looksPure(sel.Sel.Name) || strings.HasPrefix(sel.Sel.Name, "DeepCopy")
					if cf := p.FuncOf(callee); cf != nil {
						pure = pure || p.pureMethod(cf, 0)
					}
					if !pure {
						set["method "+strings.TrimPrefix(sp+"."+sel.Sel.Name, ".")] = true
					}
				}
			}
			for _, a := range s.Args {
				sp := selPath(info, a, v)
				if sp == "-" {
					continue
				}
				// only references can be modified by the callee
				t := info.TypeOf(a)
				if t == nil {
					continue
				}
				switch t.Underlying().(type) {
				case *types.Pointer, *types.Map, *types.Slice, *types.Interface:
				default:
					continue
				}
				if readOnlyCallee(callee) || isLogCall(info, s) {
					continue
				}
				if callee != nil && callee.Pkg() != nil {
					switch callee.Pkg().Path() {
					case crClientPkg:
						if callee.Name() == "MergeFrom" || callee.Name() == "MergeFromWithOptimisticLock" || callee.Name() == "MergeFromWithOptions" || callee.Name() == "StrategicMergeFrom" || callee.Name() == "ObjectKeyFromObject" || callee.Name() == "Get" || callee.Name() == "List" {
							continue
						}
					case "sigs.k8s.io/controller-runtime/pkg/controller/controllerutil":
						if strings.HasSuffix(callee.Name(), "Finalizer") {
							if callee.Name() != "ContainsFinalizer" {
								set["store Finalizers"] = true
							}
							continue
						}
					}
				}
				set["passed to "+name+" ("+strings.TrimPrefix(sp, ".")+")"] = true
			}
		}
		return true
	})
}

func isLogCall(info *types.Info, c *ast.CallExpr) bool {
	f := Callee(info, c)
	if f == nil || f.Pkg() == nil {
		return false
	}
	pp := f.Pkg().Path()
	return strings.Contains(pp, "logr") || strings.Contains(pp, "klog") || strings.Contains(pp, "logrus") || pp == "log" || strings.HasSuffix(pp, "/record") || strings.Contains(pp, "opentelemetry")
}

// ruleCASPublication examines every controller-runtime write of an object of
// the given API type in the program.
func ruleCASPublication(c *Ctx, rule, typeName string, allowed map[string]string) {
	p := c.P
	c.Rule(rule, "compare-and-swap publication: a "+typeName+" record is written back with Update / Status().Update or a patch that carries the optimistic lock; a merge patch without the lock carries only fields no transition is decided on ("+strings.Join(sortedKeys(allowed), ", ")+")")
	writes, patches := 0, 0
	for _, fn := range p.live() {
		for _, cs := range p.CallsIn(fn) {
			f := cs.Callee
			if f == nil || f.Pkg() == nil || f.Pkg().Path() != crClientPkg {
				continue
			}
			if f.Name() != "Patch" && f.Name() != "Update" {
				continue
			}
			if len(cs.Call.Args) < 2 {
				continue
			}
			info := fn.Info()
			obj := cs.Call.Args[1]
			if !typeIs(info.TypeOf(obj), modPath+"/"+apiPkg, typeName) {
				continue
			}
			writes++
			if f.Name() == "Update" {
				continue
			}
			patches++
			key := fn.Key() + ": " + exprString(cs.Call.Fun) + "(" + exprString(obj) + ")"
			if len(cs.Call.Args) < 3 {
				c.Undec(rule, key, p.Pos(cs.Call), fn.Key(), "patch argument", "missing")
				continue
			}
			kind, ctor := patchKind(fn, cs.Call.Args[2])
			switch kind {
			case "locked":
				c.OK(rule, key+" carries the optimistic lock", p.Pos(cs.Call), fn.Key(), ctor)
				continue
			case "":
				c.Undec(rule, key+": patch constructor", p.Pos(cs.Call), fn.Key(), "client.MergeFrom… constructor", "cannot trace the patch to a constructor: "+ctor)
				continue
			}
			// unconditional: what does it carry?
			var v types.Object
			switch t := ast.Unparen(obj).(type) {
			case *ast.Ident:
				v = info.ObjectOf(t)
			case *ast.UnaryExpr:
				if id, ok := ast.Unparen(t.X).(*ast.Ident); ok && t.Op == token.AND {
					v = info.ObjectOf(id)
				}
			}
			if v == nil {
				c.Undec(rule, key+": object", p.Pos(cs.Call), fn.Key(), "a local variable", "object expression "+exprString(obj))
				continue
			}
			mods := modificationsOf(p, fn, v, cs.Call)
			var bad []string
			for _, m := range mods {
				ok := false
				for a := range allowed {
					if m == "store "+a || strings.HasPrefix(m, "store "+a+".") {
						ok = true
					}
				}
				if !ok {
					bad = append(bad, m)
				}
			}
			c.Check(len(bad) == 0, rule, key+" without the lock carries only undecided-on fields", p.Pos(cs.Call), fn.Key(),
				ctor+" patch carries ⊆ {"+strings.Join(sortedKeys(allowed), ", ")+"}", fmt.Sprintf("the object also receives: %s", strings.Join(bad, "; ")))
		}
	}
	c.Floor(rule, "controller-runtime writes of "+typeName, 2, writes)
	c.Note("%s: %d writes of %s, %d of them patches", rule, writes, typeName, patches)
}

func sortedKeys(m map[string]string) []string {
	var out []string
	for k := range m {
		out = append(out, k)
	}
	sort.Strings(out)
	return out
}
