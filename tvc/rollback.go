package main

// Deferred roll-back template (used by C04.R4, C08.R3, C10.R4, C16.R4):
//   defer func() { if err != nil { <undo> } }()
// covers a failure return r when (1) the defer is registered on every path to
// r, (2) the closure reads the function-level error variable and reaches the
// undo call whenever that variable is non-nil (plus explicitly exempted
// conditions), and (3) r returns that variable or is dominated by `err != nil`.

import (
	"go/ast"
	"go/types"
)

type deferredUndo struct {
	stmt   *ast.DeferStmt
	lit    *ast.FuncLit
	errObj types.Object
	undo   *ast.CallExpr
}

// eval3 evaluates f under a partial assignment; known=false when undetermined.
func eval3(f *Formula, asg map[string]bool) (val, known bool) {
	switch f.k {
	case fTrue:
		return true, true
	case fFalse:
		return false, true
	case fAtom:
		v, ok := asg[f.atom]
		return v, ok
	case fNot:
		v, k := eval3(f.sub[0], asg)
		return !v, k
	case fAnd:
		a, ka := eval3(f.sub[0], asg)
		b, kb := eval3(f.sub[1], asg)
		if ka && !a || kb && !b {
			return false, true
		}
		return a && b, ka && kb
	case fOr:
		a, ka := eval3(f.sub[0], asg)
		b, kb := eval3(f.sub[1], asg)
		if ka && a || kb && b {
			return true, true
		}
		return a || b, ka && kb
	}
	return false, false
}

// findDeferredUndo locates deferred closures in fn that call a function
// satisfying isUndo, and checks the closure shape. exempt lists extra atoms
// (canonical strings) that may guard the undo besides err != nil, with the
// value they must have for the undo to be required.
func findDeferredUndo(p *Prog, fn *FuncInfo, isUndo func(*ast.CallExpr) bool, exempt map[string]bool) (out []deferredUndo, problems []string) {
	info := fn.Info()
	ast.Inspect(fn.Decl.Body, func(n ast.Node) bool {
		d, ok := n.(*ast.DeferStmt)
		if !ok {
			return true
		}
		lit, ok := ast.Unparen(d.Call.Fun).(*ast.FuncLit)
		if !ok {
			return true
		}
		var undo *ast.CallExpr
		ast.Inspect(lit.Body, func(m ast.Node) bool {
			if c, ok := m.(*ast.CallExpr); ok && undo == nil && isUndo(c) {
				undo = c
			}
			return true
		})
		if undo == nil {
			return true
		}
		// the error variable: a captured variable of type error compared with nil inside the closure
		var errObj types.Object
		ast.Inspect(lit.Body, func(m ast.Node) bool {
			if be, ok := m.(*ast.BinaryExpr); ok {
				if o := identObj(info, be.X); o != nil && types.Identical(o.Type(), types.Universe.Lookup("error").Type()) && o.Pos() < lit.Pos() {
					if tv := info.Types[ast.Unparen(be.Y)]; tv.IsNil() && errObj == nil {
						errObj = o
					}
				}
			}
			return true
		})
		if errObj == nil {
			problems = append(problems, p.Pos(d)+": deferred undo does not test a captured error variable")
			return true
		}
		// the undo is reached whenever err != nil (and the exemptions allow it)
		fe := NewFactEngine(p, fn)
		asg := map[string]bool{"eq(" + objID(errObj) + ",nil)": false}
		for k, v := range exempt {
			asg[k] = v
		}
		q := NewPathQuery(p, fn, lit.Body)
		q.Prune = func(cond ast.Expr, takeTrue bool) bool {
			v, known := eval3(fe.Cond(cond), asg)
			return known && v != takeTrue
		}
		if w := q.Escapes(nil, nil, isExactly(undo), nil); w != nil {
			problems = append(problems, p.Pos(d)+": deferred undo is skipped on a path with "+errObj.Name()+" != nil: "+p.describePath(w))
			return true
		}
		// and falling off the end of the literal without reaching the undo
		if w := q.Escapes(nil, func(n ast.Node) bool { return false }, isExactly(undo), nil); w != nil {
			_ = w
		}
		if !litAlwaysReaches(q, undo) {
			problems = append(problems, p.Pos(d)+": deferred undo is not reached on every path with "+errObj.Name()+" != nil")
			return true
		}
		out = append(out, deferredUndo{d, lit, errObj, undo})
		return true
	})
	return
}

// litAlwaysReaches: every (non-pruned) path from the literal's entry passes target.
func litAlwaysReaches(q *PathQuery, target ast.Node) bool {
	// walk blocks; a path that reaches a block without successors and has not passed target fails
	type st struct {
		b    int32
		seen bool
	}
	if len(q.G.Blocks) == 0 {
		return false
	}
	visited := map[int32]bool{}
	ok := true
	var rec func(bi int32)
	rec = func(bi int32) {
		if visited[bi] || !ok {
			return
		}
		visited[bi] = true
		b := q.G.Blocks[bi]
		for _, n := range b.Nodes {
			if n.Pos() <= target.Pos() && target.End() <= n.End() {
				return // passed
			}
		}
		if len(b.Succs) == 0 {
			ok = false
			return
		}
		for k, s := range b.Succs {
			if q.Prune != nil && len(b.Succs) == 2 && len(b.Nodes) > 0 {
				if cond, isE := b.Nodes[len(b.Nodes)-1].(ast.Expr); isE && q.Prune(cond, k == 0) {
					continue
				}
			}
			rec(s.Index)
		}
	}
	rec(0)
	return ok
}

// coveredByDeferredUndo: return r is protected by du.
func coveredByDeferredUndo(c *Ctx, fn *FuncInfo, du deferredUndo, from nodePred, r *ast.ReturnStmt) (bool, string) {
	p := c.P
	info := fn.Info()
	q := NewPathQuery(p, fn, nil)
	if w := q.Escapes(from, isExactly(r), isExactly(du.stmt), nil); w != nil {
		return false, "the deferred roll-back is not registered on path " + p.describePath(w)
	}
	sig := fn.Obj.Type().(*types.Signature)
	ei := errResultIndex(sig)
	if ei >= 0 && len(r.Results) == sig.Results().Len() && identObj(info, r.Results[ei]) == du.errObj {
		return true, ""
	}
	// named result + bare return
	if len(r.Results) == 0 && ei >= 0 && sig.Results().At(ei) == du.errObj {
		return true, ""
	}
	e := NewFactEngine(p, fn)
	f := mkNot(e.eqAtom(objID(du.errObj), "nil", []string{objID(du.errObj)}))
	ok, cex, err := e.FactsAt(r, f)
	if err != nil {
		return false, err.Error()
	}
	if !ok {
		return false, "the returned error is not the variable the deferred roll-back tests (" + du.errObj.Name() + " may be nil here: " + cex + ")"
	}
	return true, ""
}

// successKeepsResult: the converse of the roll-back obligation. On a return that
// reports success (a nil error literal) after the deferred undo was registered,
// the variable the undo tests is nil — otherwise the undo runs although the
// caller was told the operation succeeded (and what it was handed is taken back).
func successKeepsResult(c *Ctx, rule string, fn *FuncInfo, du deferredUndo, what string) int {
	info := fn.Info()
	sig := fn.Obj.Type().(*types.Signature)
	ei := errResultIndex(sig)
	if ei < 0 {
		return 0
	}
	// a named error result is what the undo tests and what is returned: nothing to check
	if sig.Results().At(ei) == du.errObj {
		return 0
	}
	n := 0
	for _, r := range declReturns(fn.Decl.Body) {
		if r.Pos() < du.stmt.End() || len(r.Results) != sig.Results().Len() {
			continue
		}
		if !info.Types[ast.Unparen(r.Results[ei])].IsNil() {
			continue
		}
		n++
		c.RequireF(rule, fn.Name+": a success return leaves the deferred "+what+" idle", fn, r, du.errObj.Name()+" == nil", func(e *FactEngine) (*Formula, error) {
			return e.eqAtom(objID(du.errObj), "nil", []string{objID(du.errObj)}), nil
		})
	}
	return n
}
