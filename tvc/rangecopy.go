package main

// Lost update through a range copy: `for _, v := range xs { v.f = … }` with xs a
// slice / array / map of struct VALUES stores into a copy. Unless the copy itself
// is used as a whole afterwards in the same iteration (appended, assigned,
// passed on, its address taken), the store changes nothing the loop leaves
// behind — typically a default that was meant for xs[i].

import (
	"go/ast"
	"go/token"
	"go/types"
)

type rangeCopyStore struct {
	fn    *FuncInfo
	store ast.Node
	v     types.Object
}

func rangeCopyStores(p *Prog, fns []*FuncInfo) (out []rangeCopyStore, loops int) {
	for _, fn := range fns {
		if fn.Decl.Body == nil {
			continue
		}
		info := fn.Info()
		ast.Inspect(fn.Decl.Body, func(n ast.Node) bool {
			rs, ok := n.(*ast.RangeStmt)
			if !ok || rs.Value == nil || rs.Tok != token.DEFINE {
				return true
			}
			vid, ok := rs.Value.(*ast.Ident)
			if !ok || vid.Name == "_" {
				return true
			}
			v := info.Defs[vid]
			if v == nil {
				return true
			}
			if _, isStruct := v.Type().Underlying().(*types.Struct); !isStruct {
				return true
			}
			loops++
			// field stores through v
			var stores []ast.Node
			wholeUse := false
			ast.Inspect(rs.Body, func(k ast.Node) bool {
				switch t := k.(type) {
				case *ast.AssignStmt:
					for _, l := range t.Lhs {
						if sel, ok := ast.Unparen(l).(*ast.SelectorExpr); ok && rootIdentObj(info, sel.X) == v {
							stores = append(stores, t)
						}
					}
					for _, r := range t.Rhs {
						if identObj(info, r) == v {
							wholeUse = true
						}
					}
				case *ast.UnaryExpr:
					if t.Op == token.AND && rootIdentObj(info, t.X) == v {
						wholeUse = true
					}
				case *ast.CallExpr:
					for _, a := range t.Args {
						if identObj(info, a) == v {
							wholeUse = true
						}
					}
					// a pointer-receiver method on v works on the copy too, but is a use of the whole
					if sel, ok := ast.Unparen(t.Fun).(*ast.SelectorExpr); ok && identObj(info, sel.X) == v {
						if s := info.Selections[sel]; s != nil {
							if f, _ := s.Obj().(*types.Func); f != nil {
								if sig, _ := f.Type().(*types.Signature); sig != nil && sig.Recv() != nil {
									if _, ptr := sig.Recv().Type().(*types.Pointer); ptr {
										wholeUse = true
									}
								}
							}
						}
					}
				case *ast.CompositeLit:
					for _, e := range t.Elts {
						x := e
						if kv, ok := e.(*ast.KeyValueExpr); ok {
							x = kv.Value
						}
						if identObj(info, x) == v {
							wholeUse = true
						}
					}
				case *ast.ReturnStmt:
					for _, r := range t.Results {
						if identObj(info, r) == v {
							wholeUse = true
						}
					}
				}
				return true
			})
			if wholeUse {
				return true
			}
			for _, s := range stores {
				out = append(out, rangeCopyStore{fn, s, v})
			}
			return true
		})
	}
	return
}

func rootIdentObj(info *types.Info, x ast.Expr) types.Object {
	for {
		switch t := ast.Unparen(x).(type) {
		case *ast.Ident:
			return info.ObjectOf(t)
		case *ast.SelectorExpr:
			x = t.X
		case *ast.IndexExpr:
			x = t.X
		default:
			return nil
		}
	}
}

func ruleRangeCopyStore(c *Ctx, rule string, fns []*FuncInfo, what string) {
	p := c.P
	c.Rule(rule, "no lost update through a range copy in "+what+": a field store through the value variable of a range over struct values is followed by a use of that copy as a whole (or the element is addressed by index) — otherwise the store changes nothing the loop leaves behind")
	found, loops := rangeCopyStores(p, fns)
	for _, f := range found {
		c.Bad(rule, f.fn.Name+": store through the range copy "+f.v.Name(), p.Pos(f.store), f.fn.Key(), "store through xs[i] (or use the copy afterwards)", exprString2(f.store)+" is lost at the end of the iteration")
	}
	if len(found) == 0 {
		c.OK(rule, "no store through a range copy is lost", "", "", itoa(loops)+" range loops over struct values examined")
	}
	c.Floor(rule, "range loops over struct values", 1, loops)
}
