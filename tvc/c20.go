package main

// C20 — layered configuration composes predictably; generated CNI chain is coherent (partial).

import (
	"fmt"
	"go/ast"
	"go/constant"
	"go/token"
	"go/types"
	"sort"
	"strings"
)

func init() { registry["C20"] = c20 }

const (
	daemonTypesPkg = "types/daemon"
	cliPkg         = "cmd/terway-cli"
)

func c20(c *Ctx) {
	if c.P.Pkg(daemonTypesPkg) == nil || c.P.Pkg(cliPkg) == nil {
		c.Unres("C20", daemonTypesPkg+" / "+cliPkg, "package not loaded")
		return
	}
	c20R1(c)
	c20R2(c)
	c20R3(c)
	c20R4(c)
	ruleOpenFileTrunc(c, "C20.R5", "the whole module (the generated CNI configuration list is written over the previous one)")
	ruleStateless(c, "C20.R6", [][2]string{
		{daemonTypesPkg, "ConfigFromConfigMap"},
		{daemonTypesPkg, "MergeConfigAndUnmarshal"},
		{daemonTypesPkg, "GetConfigFromFileWithMerge"},
	})
}

func c20R1(c *Ctx) {
	p := c.P
	c.Rule("C20.R1", "configuration merge: the cluster document is the merge-patch base and the node overlay the patch (argument roles at the library call and at every caller); an empty overlay returns the base unchanged; the merged result is produced only by unmarshalling the library's output (no field is adjusted afterwards)")
	fn := p.Func(daemonTypesPkg, "MergeConfigAndUnmarshal")
	if fn == nil {
		c.Unres("C20.R1", "MergeConfigAndUnmarshal", "not found")
		return
	}
	info := fn.Info()
	top := info.Defs[fn.Decl.Type.Params.List[0].Names[0]]
	base := info.Defs[fn.Decl.Type.Params.List[0].Names[1]]
	okNames := strings.Contains(strings.ToLower(top.Name()), "top") && strings.Contains(strings.ToLower(base.Name()), "base")
	c.Check(okNames, "C20.R1", "parameter roles (overlay first, base second)", p.Pos(fn.Decl), fn.Key(), "func MergeConfigAndUnmarshal(topCfg, baseCfg []byte)", top.Name()+", "+base.Name())
	var merge *ast.CallExpr
	for _, cs := range p.CallsIn(fn) {
		if cs.Callee != nil && cs.Callee.Name() == "MergePatch" {
			merge = cs.Call
		}
	}
	if merge == nil {
		c.Bad("C20.R1", "RFC 7396 merge is delegated to the json-patch library", p.Pos(fn.Decl), fn.Key(), "jsonpatch.MergePatch(base, overlay)", "no MergePatch call")
		return
	}
	cal := Callee(info, merge)
	c.Check(cal.Pkg() != nil && strings.Contains(cal.Pkg().Path(), "json-patch"), "C20.R1", "merge implementation is evanphx/json-patch", p.Pos(merge), fn.Key(), "jsonpatch.MergePatch", cal.FullName())
	c.Check(identObj(info, merge.Args[0]) == base && identObj(info, merge.Args[1]) == top, "C20.R1", "MergePatch(document = base, patch = overlay)", p.Pos(merge), fn.Key(), "MergePatch(baseCfg, topCfg)", exprString(merge.Args[0])+", "+exprString(merge.Args[1]))
	// what is unmarshalled: the base when the overlay is empty, the library's output otherwise
	_, mlhs := assignedFromCall(fn, merge)
	var mergedObj types.Object
	if len(mlhs) == 2 {
		mergedObj = mlhs[0]
	}
	topLen := "len(" + top.Name() + ")"
	c.Require("C20.R1", "the merge library is not consulted for an empty overlay", fn, merge, topLen+" != 0", nil)
	fe := NewFactEngine(p, fn)
	nonEmpty, _ := fe.Expr(topLen+" != 0", merge.Pos())
	nUn := 0
	for _, cs := range p.CallsIn(fn) {
		if cs.Callee == nil || cs.Callee.Name() != "Unmarshal" || len(cs.Call.Args) != 2 {
			continue
		}
		nUn++
		u := cs.Call
		src := identObj(info, u.Args[0])
		switch {
		case src == base:
			c.Require("C20.R1", "empty overlay changes nothing", fn, u, topLen+" == 0", nil)
		case src != nil && src == mergedObj:
			c.OK("C20.R1", "the result is the unmarshalled merge output", p.Pos(u), fn.Key(), "json.Unmarshal(<MergePatch result>, config)")
			// and this decode is not reached with an empty overlay (the base decode is)
			c.Require("C20.R1", "empty overlay changes nothing", fn, u, topLen+" != 0", nil)
		case src != nil:
			// a variable that holds the base or the merge output
			okDefs := true
			var mergeDefs []ast.Node
			for _, d := range varDefs(fn, src) {
				switch {
				case d.rhs == nil:
					if _, isDecl := d.node.(*ast.ValueSpec); !isDecl {
						okDefs = false
					}
				case identObj(info, d.rhs) == base:
				case mergedObj != nil && identObj(info, d.rhs) == mergedObj:
					mergeDefs = append(mergeDefs, d.node)
					c.Require("C20.R1", "the merge output replaces the base only for a non-empty overlay", fn, d.node, topLen+" != 0", nil)
				default:
					okDefs = false
				}
			}
			c.Check(okDefs && len(mergeDefs) > 0, "C20.R1", "the decoded bytes are the base or the merge output", p.Pos(u), fn.Key(), src.Name()+" := base | MergePatch result", "another definition of "+src.Name())
			// with a non-empty overlay every path to the decode installs the merge output
			q := NewPathQuery(p, fn, nil)
			q.Prune = func(cond ast.Expr, takeTrue bool) bool {
				if nonEmpty == nil {
					return false
				}
				v, known := decideUnder(fe, nonEmpty, fe.Cond(cond))
				return known && v != takeTrue
			}
			w := q.Escapes(nil, isExactly(u), func(n ast.Node) bool {
				for _, m := range mergeDefs {
					if n.Pos() <= m.Pos() && m.End() <= n.End() {
						return true
					}
				}
				return false
			}, nil)
			c.Check(w == nil, "C20.R1", "the result is the unmarshalled merge output", p.Pos(u), fn.Key(), "must-pass (overlay non-empty): "+src.Name()+" = MergePatch result → json.Unmarshal("+src.Name()+", config)", "path: "+p.describePath(w))
			c.OK("C20.R1", "empty overlay changes nothing", p.Pos(u), fn.Key(), "the merge output is installed only for a non-empty overlay (above); otherwise "+src.Name()+" is the base")
		default:
			c.Bad("C20.R1", "the decoded bytes are the base or the merge output", p.Pos(u), fn.Key(), "json.Unmarshal(base | MergePatch result, config)", exprString(u.Args[0]))
		}
	}
	c.Floor("C20.R1", "json.Unmarshal calls in MergeConfigAndUnmarshal", 1, nUn)
	// no post-merge adjustment of Config fields in the merge function
	cfg := p.LookupObj(daemonTypesPkg, "Config")
	n := 0
	if cfg != nil {
		st := cfg.Type().Underlying().(*types.Struct)
		var fields []*types.Var
		for i := 0; i < st.NumFields(); i++ {
			fields = append(fields, st.Field(i))
		}
		for _, s := range p.StoresTo([]*FuncInfo{fn}, fields...) {
			n++
			c.Bad("C20.R1", "no Config field is adjusted after the merge", p.Pos(s.Node), fn.Key(), "keys absent from the overlay keep the base value: the merge function stores no field", "store to Config."+s.Field.Name())
		}
	}
	if n == 0 {
		c.OK("C20.R1", "no Config field is adjusted after the merge", p.Pos(fn.Decl), fn.Key(), "zero field stores in MergeConfigAndUnmarshal")
	}
	// callers
	sites := p.CallsTo(nil, fn.Obj)
	c.Floor("C20.R1", "callers of MergeConfigAndUnmarshal", 2, len(sites))
	for _, cs := range sites {
		cinfo := cs.Fn.Info()
		// base argument derives from the file / ConfigMap document, overlay from the dynamic (node) configuration
		desc := func(x ast.Expr) string {
			s := exprString(x)
			if o := identObj(cinfo, x); o != nil {
				for _, d := range varDefs(cs.Fn, o) {
					if as, ok := d.node.(*ast.AssignStmt); ok && len(as.Rhs) == 1 {
						s += " := " + exprString(as.Rhs[0])
					}
				}
				// parameters keep their name
			}
			return s
		}
		topD, baseD := strings.ToLower(desc(cs.Call.Args[0])), strings.ToLower(desc(cs.Call.Args[1]))
		okBase := strings.Contains(baseD, "readfile") || strings.Contains(baseD, "base")
		okTop := strings.Contains(topD, "top") || strings.Contains(topD, "cfg") || strings.Contains(topD, "dynamic")
		c.Check(okBase && okTop && !strings.Contains(topD, "readfile") && !strings.Contains(topD, "base"), "C20.R1", "caller "+cs.Fn.Key()+" binds overlay and base in the right order", p.Pos(cs.Call), cs.Fn.Key(), "MergeConfigAndUnmarshal(<node overlay>, <cluster document>)", "overlay="+topD+" base="+baseD)
		// the base is the document as it was read: the variable handed over is defined once (a decode /
		// re-encode round trip in between would drop unknown keys and mask secret-typed ones)
		for i, role := range []string{"overlay", "base"} {
			arg := ast.Unparen(cs.Call.Args[i])
			if call, ok := arg.(*ast.CallExpr); ok && len(call.Args) == 1 {
				if tv, ok := cinfo.Types[call.Fun]; ok && tv.IsType() {
					arg = ast.Unparen(call.Args[0])
				}
			}
			o := identObj(cinfo, arg)
			if o == nil {
				continue
			}
			var bad []string
			pos := p.Pos(cs.Call)
			for _, d := range varDefs(cs.Fn, o) {
				rhs := d.rhs
				if rhs == nil {
					if as, ok := d.node.(*ast.AssignStmt); ok && len(as.Rhs) == 1 {
						rhs = as.Rhs[0]
					}
				}
				if rhs == nil {
					continue
				}
				ast.Inspect(rhs, func(k ast.Node) bool {
					call, ok := k.(*ast.CallExpr)
					if !ok {
						return true
					}
					if f := Callee(cinfo, call); f != nil && f.Pkg() != nil {
						pp := f.Pkg().Path()
						enc := strings.HasPrefix(f.Name(), "Marshal") || strings.HasPrefix(f.Name(), "Encode")
						if enc && (strings.HasPrefix(pp, "encoding/") || strings.Contains(pp, "json") || strings.Contains(pp, "yaml")) {
							bad = append(bad, f.FullName()+" at "+p.Pos(call))
							pos = p.Pos(d.node)
						}
					}
					return true
				})
			}
			c.Check(len(bad) == 0, "C20.R1", "caller "+cs.Fn.Key()+" hands over the "+role+" document as read", pos, cs.Fn.Key(), "no definition of "+o.Name()+" is the output of an encoder (the document is not decoded and re-encoded on its way to the merge)", strings.Join(bad, "; "))
		}
	}
	// ConfigFromConfigMap: eni_conf is the base, the per-node dynamic config the overlay
	cm := p.Func(daemonTypesPkg, "ConfigFromConfigMap")
	if cm != nil {
		cinfo := cm.Info()
		for _, cs := range p.CallsTo([]*FuncInfo{cm}, fn.Obj) {
			conv := func(x ast.Expr) types.Object {
				if call, ok := ast.Unparen(x).(*ast.CallExpr); ok && len(call.Args) == 1 {
					return identObj(cinfo, call.Args[0])
				}
				return identObj(cinfo, x)
			}
			to, bo := conv(cs.Call.Args[0]), conv(cs.Call.Args[1])
			src := func(o types.Object) string {
				if o == nil {
					return ""
				}
				return sliceText(cm, o, 3)
			}
			// base: read from the cluster ConfigMap "eni-config"; overlay: "" or read from the ConfigMap named by the node
			okB := strings.Contains(src(bo), `"eni-config"`)
			okT := to != nil && !strings.Contains(src(to), `"eni-config"`)
			c.Check(okB && okT, "C20.R1", "ConfigFromConfigMap: cluster eni_conf is the base, the node's dynamic configuration the overlay", p.Pos(cs.Call), cm.Key(), "base := <ConfigMap eni-config>; overlay := <ConfigMap named by the node's terway-config label> or empty", "base="+src(bo)+" overlay="+src(to))
		}
	}
}

func c20R2(c *Ctx) {
	p := c.P
	c.Rule("C20.R2", "generated CNI chain: plugins are concatenated in input order at a single site; a cilium plugin is kept / an eBPF chainer appended only under kernel eBPF support, and the chainer is appended exactly when the selected datapath requires it and none is present; every value written as eniip_virtual_type / bandwidth_mode is one of the declared constants; each datapath case states whether it needs the chainer")
	fn := p.Func(cliPkg, "mergeConfigList")
	if fn == nil {
		c.Unres("C20.R2", "mergeConfigList", "not found")
		return
	}
	info := fn.Info()
	// the locals the rule speaks about are found by what they are, not by what they are called:
	//   support  — the bool whose one definition reads the feature record's EBPF field
	//   typeVar  — the tag of the switch that has a case for the constant "cilium-cni" (ciliumC)
	//   dpTag    — the tag of the switch over the declared datapath constants
	//   require  — the bool assigned in that switch's cases
	//   exist    — the other bool set to true in the cilium case of the plugin-type switch
	dpNames := map[string]string{"dataPathVeth": "false", "dataPathIPvlan": "true", "dataPathV2": "true"}
	var support, typeVar, require, exist types.Object
	var dpSwitch, typeSwitch *ast.SwitchStmt
	var ciliumCase *ast.CaseClause
	ciliumC := ""
	ast.Inspect(fn.Decl.Body, func(nd ast.Node) bool {
		switch t := nd.(type) {
		case *ast.AssignStmt:
			if t.Tok == token.DEFINE && len(t.Lhs) == 1 && len(t.Rhs) == 1 {
				if sel, ok := ast.Unparen(t.Rhs[0]).(*ast.SelectorExpr); ok && sel.Sel.Name == "EBPF" {
					if o := identObj(info, t.Lhs[0]); o != nil && len(varDefs(fn, o)) == 1 {
						support = o
					}
				}
			}
		case *ast.SwitchStmt:
			if t.Tag == nil {
				return true
			}
			for _, cl := range t.Body.List {
				cc := cl.(*ast.CaseClause)
				for _, x := range cc.List {
					if tv := info.Types[x]; tv.Value != nil && tv.Value.Kind() == constant.String && constant.StringVal(tv.Value) == "cilium-cni" && identObj(info, t.Tag) != nil && typeSwitch == nil {
						typeSwitch, typeVar, ciliumCase, ciliumC = t, identObj(info, t.Tag), cc, exprString(x)
					}
					if o := identObjSel(info, x); o != nil && dpNames[o.Name()] != "" && identObj(info, t.Tag) != nil {
						dpSwitch = t
					}
				}
			}
		}
		return true
	})
	if dpSwitch != nil {
		for _, cl := range dpSwitch.Body.List {
			for _, st := range cl.(*ast.CaseClause).Body {
				if as, ok := st.(*ast.AssignStmt); ok && len(as.Lhs) == 1 && len(as.Rhs) == 1 && info.Types[as.Rhs[0]].Value != nil {
					if o := identObj(info, as.Lhs[0]); o != nil && types.Identical(o.Type().Underlying(), types.Typ[types.Bool]) {
						if require != nil && require != o {
							require = nil
							break
						}
						require = o
					}
				}
			}
		}
	}
	if ciliumCase != nil {
		for _, st := range ciliumCase.Body {
			if as, ok := st.(*ast.AssignStmt); ok && len(as.Lhs) == 1 && len(as.Rhs) == 1 {
				if tv := info.Types[as.Rhs[0]]; tv.Value != nil && tv.Value.Kind() == constant.Bool && constant.BoolVal(tv.Value) {
					if o := identObj(info, as.Lhs[0]); o != nil && o != require && o != support {
						exist = o
					}
				}
			}
		}
	}
	if support == nil || typeVar == nil || require == nil || exist == nil {
		c.Undec("C20.R2", "roles of mergeConfigList's locals", p.Pos(fn.Decl), fn.Key(), "eBPF support flag, plugin-type switch, datapath switch, chainer-required flag, chainer-present flag", fmt.Sprintf("support=%v type=%v required=%v present=%v", support != nil, typeVar != nil, require != nil, exist != nil))
		return
	}
	sup, req, exi := support.Name(), require.Name(), exist.Name()
	// Set(value, key) calls on gabs containers
	type setCall struct {
		call *ast.CallExpr
		key  string
	}
	var sets []setCall
	var concat, appends []*ast.CallExpr
	for _, cs := range p.CallsIn(fn) {
		if cs.Callee == nil {
			continue
		}
		switch cs.Callee.Name() {
		case "Set":
			if len(cs.Call.Args) == 2 {
				if tv := info.Types[cs.Call.Args[1]]; tv.Value != nil && tv.Value.Kind() == constant.String {
					sets = append(sets, setCall{cs.Call, constant.StringVal(tv.Value)})
				}
			}
		case "ArrayConcat":
			concat = append(concat, cs.Call)
		case "ArrayAppend":
			appends = append(appends, cs.Call)
		}
	}
	allowed := map[string]map[string]bool{
		"eniip_virtual_type": {"veth": true, "ipvlan": true, "datapathv2": true},
		"bandwidth_mode":     {"edt": true, "tc": true},
	}
	n := 0
	for _, s := range sets {
		vals, ok := allowed[s.key]
		if !ok {
			continue
		}
		n++
		tv := info.Types[s.call.Args[0]]
		if tv.Value == nil || tv.Value.Kind() != constant.String {
			// a variable: at the call it provably holds one of the supported values
			if o := identObj(info, s.call.Args[0]); o != nil {
				var alts []string
				for _, v := range keysOf(vals) {
					alts = append(alts, fmt.Sprintf("%s == %q", o.Name(), v))
				}
				c.Require("C20.R2", "value written as "+s.key+" is in the supported set", fn, s.call, strings.Join(alts, " || "), nil)
				continue
			}
			c.Bad("C20.R2", "value written as "+s.key+" is a declared constant", p.Pos(s.call), fn.Key(), "plugin.Set(<constant | variable proven to hold one>, \""+s.key+"\")", "non-constant value "+exprString(s.call.Args[0])+" (user input would be copied into the generated configuration)")
			continue
		}
		v := constant.StringVal(tv.Value)
		c.Check(vals[v], "C20.R2", "value written as "+s.key+" is in the supported set", p.Pos(s.call), fn.Key(), fmt.Sprintf("∈ %v", keysOf(vals)), v)
	}
	c.Floor("C20.R2", "virtual-type / bandwidth-mode writes", 2, n)
	// single concat site inside a single range over the input
	okOrder := false
	if len(concat) == 1 {
		var loops []*ast.RangeStmt
		for _, nd := range pathTo(fn.Decl.Body, concat[0]) {
			if rs, ok := nd.(*ast.RangeStmt); ok {
				loops = append(loops, rs)
			}
		}
		param := info.Defs[fn.Decl.Type.Params.List[0].Names[0]]
		if len(loops) == 1 && identObj(info, loops[0].X) == param && loops[0].Value != nil {
			// the concatenated value derives from the loop's element
			okOrder = true
			c.Require("C20.R2", "a cilium plugin from the input is kept only under kernel eBPF support", fn, concat[0], typeVar.Name()+" != "+ciliumC+" || "+sup, nil)
		}
	}
	c.Check(okOrder, "C20.R2", "input plugin order is preserved", p.Pos(fn.Decl), fn.Key(), "one ArrayConcat inside `for _, config := range configs`", fmt.Sprintf("%d concat sites", len(concat)))
	// chainer append
	c.Floor("C20.R2", "chainer append sites", 1, len(appends))
	for _, a := range appends {
		c.Require("C20.R2", "chainer appended only with eBPF support, when required and not already present", fn, a, sup+" && "+req+" && !"+exi, nil)
		// it is a cilium-cni plugin
		isCilium := false
		ast.Inspect(a.Args[0], func(k ast.Node) bool {
			if kv, ok := k.(*ast.KeyValueExpr); ok {
				if tv := info.Types[kv.Key]; tv.Value != nil && constant.StringVal(tv.Value) == "type" {
					if tv2 := info.Types[kv.Value]; tv2.Value != nil && constant.StringVal(tv2.Value) == "cilium-cni" {
						isCilium = true
					}
				}
			}
			return true
		})
		c.Check(isCilium, "C20.R2", "the appended chainer is cilium-cni", p.Pos(a), fn.Key(), `{"type": "cilium-cni", …}`, "other plugin")
		// sufficient: reached whenever the three conditions hold at the end of the loop
		for _, nd := range pathTo(fn.Decl.Body, a) {
			if is, ok := nd.(*ast.IfStmt); ok {
				e := NewFactEngine(p, fn)
				want, err := e.ParseReq(sup+" && "+req+" && !"+exi, is.Pos())
				c.Check(err == nil && equivalent(e, e.Cond(is.Cond), want), "C20.R2", "chainer appended exactly when required", p.Pos(is), fn.Key(), "if ebpfSupport && requireEBPFChainer && !ebpfChainerExist", exprString(is.Cond))
			}
		}
	}
	// datapath switch: each declared datapath constant has a case that assigns requireEBPFChainer
	sw := dpSwitch
	if sw == nil {
		c.Bad("C20.R2", "datapath switch", p.Pos(fn.Decl), fn.Key(), "switch datapath { case veth / ipvlan / datapathv2 / default: error }", "not found")
		return
	}
	want := dpNames
	seen := map[string]bool{}
	hasDefaultErr := false
	for _, cl := range sw.Body.List {
		cc := cl.(*ast.CaseClause)
		if cc.List == nil {
			for _, s := range cc.Body {
				if r, ok := s.(*ast.ReturnStmt); ok && len(r.Results) == 2 && !info.Types[ast.Unparen(r.Results[1])].IsNil() {
					hasDefaultErr = true
				}
			}
			continue
		}
		for _, x := range cc.List {
			o := identObjSel(info, x)
			if o == nil {
				continue
			}
			seen[o.Name()] = true
			val := ""
			setsType := ""
			for _, s := range cc.Body {
				if as, ok := s.(*ast.AssignStmt); ok && len(as.Lhs) == 1 && identObj(info, as.Lhs[0]) == require {
					val = exprString(as.Rhs[0])
				}
				ast.Inspect(s, func(k ast.Node) bool {
					if call, ok := k.(*ast.CallExpr); ok && calleeName(info, call) == "Container.Set" || ok && strings.HasSuffix(calleeName(info, call), "Set") {
						if len(call.Args) == 2 {
							if tv := info.Types[call.Args[1]]; tv.Value != nil && constant.StringVal(tv.Value) == "eniip_virtual_type" {
								if oo := identObjSel(info, call.Args[0]); oo != nil {
									setsType = oo.Name()
								}
							}
						}
					}
					return true
				})
			}
			c.Check(val == want[o.Name()], "C20.R2", "datapath case "+o.Name()+" states its chainer requirement", p.Pos(cc), fn.Key(), "requireEBPFChainer = "+want[o.Name()], "requireEBPFChainer = "+val)
			_ = setsType
		}
	}
	var missing []string
	for k := range want {
		if !seen[k] {
			missing = append(missing, k)
		}
	}
	sort.Strings(missing)
	c.Check(len(missing) == 0 && hasDefaultErr, "C20.R2", "datapath switch is exhaustive and rejects anything else", p.Pos(sw), fn.Key(), "cases veth, ipvlan, datapathv2 + default: return error", fmt.Sprintf("missing=%v defaultError=%v", missing, hasDefaultErr))
	// … and it is always written once a datapath was selected: otherwise the value of the input
	// (any spelling the user chose) would survive into the generated configuration
	for _, gk := range []struct{ key, what string }{{"eniip_virtual_type", "the virtual type"}, {"bandwidth_mode", "the bandwidth mode"}} {
		var vsets []*ast.CallExpr
		for _, s := range sets {
			if s.key == gk.key {
				vsets = append(vsets, s.call)
			}
		}
		var encl ast.Stmt
		for _, nd := range pathTo(fn.Decl.Body, sw) {
			switch t := nd.(type) {
			case *ast.RangeStmt:
				encl = t
			case *ast.ForStmt:
				encl = t
			}
		}
		q := NewPathQuery(p, fn, nil)
		if encl != nil {
			q.ToBlock = loopHead(encl)
		}
		sig := fn.Obj.Type().(*types.Signature)
		w := q.Escapes(isExactly(sw.Tag), nil, func(n ast.Node) bool {
			for _, vs := range vsets {
				if n.Pos() <= vs.Pos() && vs.End() <= n.End() {
					return true
				}
			}
			return false
		}, func(ret *ast.ReturnStmt) bool {
			return guardedFailure(fn, sig, ret) // error returns abandon the generation
		})
		c.Check(len(vsets) > 0 && w == nil, "C20.R2", gk.what+" is written whenever a datapath was selected", p.Pos(sw), fn.Key(), "must-pass: switch datapath → plugin.Set(…, \""+gk.key+"\") → next plugin / success return (a value of the input never survives)", "path: "+p.describePath(w))
	}
	// the selection is final: once the datapath switch decided whether a chainer is needed, the
	// selected datapath is not changed any more (a later override would be written without the
	// chainer it requires)
	if dv := identObj(info, sw.Tag); dv != nil {
		late := ""
		for _, d := range varDefs(fn, dv) {
			if d.node.Pos() > sw.End() {
				late = p.Pos(d.node)
			}
		}
		c.Check(late == "", "C20.R2", "the selected datapath is not reassigned after the chainer decision", p.Pos(sw), fn.Key(), "no assignment of "+dv.Name()+" after the datapath switch", "reassigned at "+late)
	}
	// the serialised list is returned as the JSON library produced it
	{
		sig := fn.Obj.Type().(*types.Signature)
		for _, r := range declReturns(fn.Decl.Body) {
			if ok, known := isSuccessReturn(info, sig, r); !ok || !known {
				continue
			}
			x := ast.Unparen(derefExpr(fn, r.Results[0]))
			okSer := false
			if call, isC := x.(*ast.CallExpr); isC {
				if f := Callee(info, call); f != nil && f.Pkg() != nil {
					pp := f.Pkg().Path()
					if (strings.Contains(pp, "gabs") && strings.HasPrefix(f.Name(), "String")) || (pp == "encoding/json" && strings.HasPrefix(f.Name(), "Marshal")) {
						okSer = true
					}
				}
				if tv, isConv := info.Types[call.Fun]; isConv && tv.IsType() && len(call.Args) == 1 {
					// string(bytes) of a Marshal result
					if inner, ok := ast.Unparen(derefExpr(fn, call.Args[0])).(*ast.CallExpr); ok {
						if f := Callee(info, inner); f != nil && f.Pkg() != nil && f.Pkg().Path() == "encoding/json" {
							okSer = true
						}
					}
				}
			}
			c.Check(okSer, "C20.R2", "the generated list is returned as the JSON serialiser produced it", p.Pos(r), fn.Key(), "return <container>.String…() / json.Marshal…", "post-processed: "+exprString(x))
		}
	}
	// the virtual type written is the selected datapath
	for _, s := range sets {
		if s.key != "eniip_virtual_type" {
			continue
		}
		arg := s.call.Args[0]
		if identObj(info, arg) != nil && identObj(info, arg) == identObj(info, sw.Tag) {
			c.OK("C20.R2", "the virtual type written is the selected datapath", p.Pos(s.call), fn.Key(), "plugin.Set(datapath, \"eniip_virtual_type\")")
			continue
		}
		c.Require("C20.R2", "the virtual type written is the selected datapath", fn, s.call, exprString(sw.Tag)+" == "+exprString(arg), nil)
	}
	// without eBPF support the virtual type key is removed (plugin defaults to veth): the Delete is
	// under ¬ebpfSupport, and whenever ¬ebpfSupport holds in the block that handles the terway
	// plugin the Delete is reached
	var del *ast.CallExpr
	ast.Inspect(fn.Decl.Body, func(nd ast.Node) bool {
		if call, ok := nd.(*ast.CallExpr); ok && strings.HasSuffix(calleeName(info, call), "Delete") && len(call.Args) == 1 {
			if tv := info.Types[call.Args[0]]; tv.Value != nil && constant.StringVal(tv.Value) == "eniip_virtual_type" {
				del = call
			}
		}
		return true
	})
	if del == nil {
		c.Bad("C20.R2", "without eBPF support no eBPF datapath is configured", p.Pos(fn.Decl), fn.Key(), "plugin.Delete(\"eniip_virtual_type\") under !ebpfSupport", "no Delete of the key")
	} else {
		c.Require("C20.R2", "the virtual type is removed only without eBPF support", fn, del, "!"+sup, nil)
		var scope *ast.BlockStmt
		for _, nd := range pathTo(fn.Decl.Body, sw) {
			if nd.Pos() > del.Pos() || del.End() > nd.End() {
				continue
			}
			switch b := nd.(type) {
			case *ast.BlockStmt:
				scope = b
			case *ast.CaseClause:
				scope = &ast.BlockStmt{Lbrace: b.Colon, List: b.Body, Rbrace: b.End()}
			}
		}
		if scope == nil {
			c.Undec("C20.R2", "without eBPF support no eBPF datapath is configured", p.Pos(del), fn.Key(), "the Delete and the datapath switch share a block", "no common block")
		} else {
			c.RequireReached("C20.R2", "without eBPF support no eBPF datapath is configured", fn, scope, del, "!"+sup, nil)
		}
	}
	// every Set of a virtual type happens under ebpfSupport
	for _, s := range sets {
		if s.key == "eniip_virtual_type" || s.key == "bandwidth_mode" {
			c.Require("C20.R2", s.key+" written only with eBPF support", fn, s.call, sup, nil)
		}
	}
}

func keysOf(m map[string]bool) []string {
	var ks []string
	for k := range m {
		ks = append(ks, k)
	}
	sort.Strings(ks)
	return ks
}

func c20R3(c *Ctx) {
	p := c.P
	c.Rule("C20.R3", "the eBPF policy decision honours the recorded node capability first: a recorded True / False decides before the link probe and the requested value is used only when nothing was recorded and no cilium link exists")
	fn := p.Func(cliPkg, "allowEBPFNetworkPolicy")
	if fn == nil {
		c.Unres("C20.R3", "allowEBPFNetworkPolicy", "not found")
		return
	}
	info := fn.Info()
	var probe *ast.CallExpr
	for _, cs := range p.CallsIn(fn) {
		if cs.Callee != nil && cs.Callee.Name() == "LinkByName" {
			probe = cs.Call
		}
	}
	// the recorded value: store.Get(HasCiliumChainer), possibly kept in a local
	var get *ast.CallExpr
	for _, cs := range p.CallsIn(fn) {
		if cs.Callee != nil && cs.Callee.Name() == "Get" && len(cs.Call.Args) == 1 && strings.Contains(exprString(cs.Call.Args[0]), "NodeCapabilityHasCiliumChainer") {
			get = cs.Call
		}
	}
	if probe == nil || get == nil {
		c.Bad("C20.R3", "recorded capability and link probe", p.Pos(fn.Decl), fn.Key(), "store.Get(HasCiliumChainer) …; netlink.LinkByName(\"cilium_net\")", fmt.Sprintf("recorded value read=%v probe=%v", get != nil, probe != nil))
		return
	}
	rec := exprString(get)
	if _, lhs := assignedFromCall(fn, get); len(lhs) == 1 && lhs[0] != nil {
		rec = lhs[0].Name()
	}
	c.Check(get.End() < probe.Pos(), "C20.R3", "recorded capability is consulted before probing the link", p.Pos(get), fn.Key(), "store.Get precedes LinkByName", "probe first")
	// a recorded True / False decides: the probe is reached only when neither is recorded, and no
	// return after the read yields anything but the recorded value
	c.Require("C20.R3", "the link is probed only when nothing is recorded", fn, probe, rec+" != True && "+rec+" != False", nil)
	nRet := 0
	for _, r := range declReturns(fn.Decl.Body) {
		if r.Pos() < get.End() || len(r.Results) != 2 {
			continue
		}
		nRet++
		lit := ""
		if tv := info.Types[r.Results[0]]; tv.Value != nil {
			lit = tv.Value.String()
		}
		if lit != "true" {
			c.Require("C20.R3", "recorded True decides (no other result once True is recorded)", fn, r, rec+" != True", nil)
		}
		if lit != "false" {
			c.Require("C20.R3", "recorded False decides (no other result once False is recorded)", fn, r, rec+" != False", nil)
		}
	}
	c.Floor("C20.R3", "returns after the recorded value is read", 3, nRet)
	// the requested value is returned only at the very end
	param := info.Defs[fn.Decl.Type.Params.List[0].Names[0]]
	q := NewPathQuery(p, fn, nil)
	for _, r := range declReturns(fn.Decl.Body) {
		if identObj(info, r.Results[0]) == param {
			w := q.Escapes(nil, isExactly(r), isExactly(probe), nil)
			c.Check(w == nil, "C20.R3", "the requested value is the last resort", p.Pos(r), fn.Key(), "must-pass: LinkByName → return require", "path: "+p.describePath(w))
		}
	}
	// load failure is an error, not a default
	okLoad := false
	ast.Inspect(fn.Decl.Body, func(nd ast.Node) bool {
		if is, ok := nd.(*ast.IfStmt); ok && is.Init != nil && strings.Contains(exprString2(is.Init), ".Load()") {
			for _, s := range is.Body.List {
				if r, ok := s.(*ast.ReturnStmt); ok && len(r.Results) == 2 && !info.Types[ast.Unparen(r.Results[1])].IsNil() {
					okLoad = true
				}
			}
		}
		return true
	})
	c.Check(okLoad, "C20.R3", "unreadable capability file is an error", p.Pos(fn.Decl), fn.Key(), "if err := store.Load(); err != nil { return false, err }", "not found")
}

// c20R4: one way to a Config. A value of types/daemon.Config is decoded from
// bytes only inside MergeConfigAndUnmarshal (after the merge patch): decoding an
// overlay straight into a Config that already holds the base is not a merge patch
// (null does not delete, nested objects are overwritten member by member).
func c20R4(c *Ctx) {
	p := c.P
	c.Rule("C20.R4", "a types/daemon.Config is decoded (json / yaml Unmarshal, Decoder.Decode) into a value created empty on the spot, or in MergeConfigAndUnmarshal from the library's merge output — nobody layers an overlay onto a populated Config by decoding into it")
	allowed := map[string]string{daemonTypesPkg + ".MergeConfigAndUnmarshal": "decodes the merge output"}
	n := 0
	sites := map[*FuncInfo][]ast.Node{}
	for _, fn := range p.live() {
		info := fn.Info()
		for _, cs := range p.CallsIn(fn) {
			f := cs.Callee
			if f == nil || (f.Name() != "Unmarshal" && f.Name() != "Decode" && f.Name() != "UnmarshalStrict") || len(cs.Call.Args) == 0 {
				continue
			}
			tgt := cs.Call.Args[len(cs.Call.Args)-1]
			if !typeIs(info.TypeOf(tgt), modPath+"/"+daemonTypesPkg, "Config") {
				continue
			}
			n++
			// decoding into a value created empty right there layers nothing
			x := ast.Unparen(tgt)
			if u, ok := x.(*ast.UnaryExpr); ok && u.Op == token.AND {
				x = ast.Unparen(u.X)
			}
			fresh := false
			if o := identObj(info, x); o != nil {
				ds := varDefs(fn, o)
				fresh = len(ds) == 1
				for _, d := range ds {
					r := ast.Unparen(d.rhs)
					if u, ok := r.(*ast.UnaryExpr); ok && u.Op == token.AND {
						r = ast.Unparen(u.X)
					}
					if cl, ok := r.(*ast.CompositeLit); d.rhs != nil && (!ok || len(cl.Elts) > 0) {
						fresh = false
					}
				}
			}
			if fresh {
				c.OK("C20.R4", "decode into a freshly created Config in "+fn.Key(), p.Pos(cs.Call), fn.Key(), "the target was created empty in this function")
				continue
			}
			sites[fn] = append(sites[fn], cs.Call)
		}
	}
	c.WhoMay("C20.R4", "decode into a populated daemon Config", sites, allowed)
	c.Floor("C20.R4", "decode sites of daemon.Config", 1, n)
}
