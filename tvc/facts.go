package main

// E2 guard facts: structured valuation propagation.
//
// A requirement is a propositional formula over atoms (canonicalised
// comparisons / predicate calls over access paths). For a target node inside
// a function, the engine propagates the set of valuations of the
// requirement's atoms through the structured AST and checks that every
// valuation reaching the target satisfies the requirement.

import (
	"fmt"
	"go/ast"
	"go/constant"
	"go/parser"
	"go/token"
	"go/types"
	"sort"
	"strings"
)

// ---------- formulas ----------

type fkind int

const (
	fTrue fkind = iota
	fFalse
	fAtom
	fNot
	fAnd
	fOr
)

type Formula struct {
	k    fkind
	atom string
	sub  []*Formula
}

var (
	fT = &Formula{k: fTrue}
	fF = &Formula{k: fFalse}
)

func mkAtom(a string) *Formula { return &Formula{k: fAtom, atom: a} }
func mkNot(f *Formula) *Formula {
	switch f.k {
	case fTrue:
		return fF
	case fFalse:
		return fT
	case fNot:
		return f.sub[0]
	}
	return &Formula{k: fNot, sub: []*Formula{f}}
}
func mkAnd(a, b *Formula) *Formula {
	if a.k == fFalse || b.k == fFalse {
		return fF
	}
	if a.k == fTrue {
		return b
	}
	if b.k == fTrue {
		return a
	}
	return &Formula{k: fAnd, sub: []*Formula{a, b}}
}
func mkOr(a, b *Formula) *Formula {
	if a.k == fTrue || b.k == fTrue {
		return fT
	}
	if a.k == fFalse {
		return b
	}
	if b.k == fFalse {
		return a
	}
	return &Formula{k: fOr, sub: []*Formula{a, b}}
}

func (f *Formula) String() string {
	switch f.k {
	case fTrue:
		return "true"
	case fFalse:
		return "false"
	case fAtom:
		return f.atom
	case fNot:
		return "!" + f.sub[0].String()
	case fAnd:
		return "(" + f.sub[0].String() + " && " + f.sub[1].String() + ")"
	case fOr:
		return "(" + f.sub[0].String() + " || " + f.sub[1].String() + ")"
	}
	return "?"
}

func (f *Formula) atoms(into map[string]bool) {
	if f.k == fAtom {
		into[f.atom] = true
	}
	for _, s := range f.sub {
		s.atoms(into)
	}
}

// ---------- canonicalisation ----------

// scope is the typing context of an expression being canonicalised: the
// types.Info that knows it and a substitution for inlined parameters.
type scope struct {
	info  *types.Info
	env   map[types.Object]string
	local bool                         // identifiers of the analysed function may occur (aliases / ok-vars resolve)
	bdef  map[types.Object]*Formula    // boolean locals of an inlined predicate (defined once, before use)
	rest  func(pos token.Pos) *Formula // opaque value of the part of a predicate body that is not inlined
}

type FactEngine struct {
	p         *Prog
	fn        *FuncInfo
	mentions  map[string][]string // atom -> access paths it depends on
	okvars    map[types.Object]string
	linAtoms  map[string]linear // lt0 atoms: the form T + k (sign-normalised) they compare with 0
	rangeVals map[types.Object]ast.Expr
	aliases   map[types.Object]ast.Expr
	boolDefs  map[types.Object]ast.Expr
	depth     int
	undecided string
	postCache map[*ast.CallExpr]*Formula
}

func NewFactEngine(p *Prog, fn *FuncInfo) *FactEngine {
	e := &FactEngine{p: p, fn: fn, mentions: map[string][]string{}, linAtoms: map[string]linear{}, okvars: map[types.Object]string{}, rangeVals: map[types.Object]ast.Expr{}, aliases: map[types.Object]ast.Expr{}, boolDefs: map[types.Object]ast.Expr{}}
	e.prescan()
	return e
}

func objID(o types.Object) string {
	if o == nil {
		return "?"
	}
	if o.Pkg() != nil && o.Parent() == o.Pkg().Scope() {
		return shortPkg(o.Pkg().Path()) + "." + o.Name()
	}
	return fmt.Sprintf("%s@%d", o.Name(), o.Pos())
}

// prescan finds single-definition locals: comma-ok results, path aliases and
// boolean definitions.
func (e *FactEngine) prescan() {
	info := e.fn.Info()
	defs := map[types.Object]int{}
	writes := map[types.Object]int{}
	type cand struct {
		obj types.Object
		as  *ast.AssignStmt
		idx int
	}
	var cands []cand
	type vcand struct {
		obj types.Object
		rhs ast.Expr
	}
	var vcands []vcand
	ast.Inspect(e.fn.Decl.Body, func(n ast.Node) bool {
		switch s := n.(type) {
		case *ast.AssignStmt:
			for i, l := range s.Lhs {
				id, ok := ast.Unparen(l).(*ast.Ident)
				if !ok {
					continue
				}
				if s.Tok == token.DEFINE {
					if o := info.Defs[id]; o != nil {
						defs[o]++
						cands = append(cands, cand{o, s, i})
						continue
					}
				}
				if o := info.ObjectOf(id); o != nil {
					writes[o]++
				}
			}
		case *ast.ValueSpec:
			// var x T = e (the form the helper expansion binds parameters with)
			if len(s.Names) == len(s.Values) {
				for i, nm := range s.Names {
					if o := info.Defs[nm]; o != nil && nm.Name != "_" {
						defs[o]++
						vcands = append(vcands, vcand{o, s.Values[i]})
					}
				}
			} else {
				for _, nm := range s.Names {
					if o := info.Defs[nm]; o != nil {
						defs[o]++
					}
				}
			}
		case *ast.IncDecStmt:
			if id, ok := ast.Unparen(s.X).(*ast.Ident); ok {
				if o := info.ObjectOf(id); o != nil {
					writes[o]++
				}
			}
		case *ast.UnaryExpr:
			if s.Op == token.AND {
				if id, ok := ast.Unparen(s.X).(*ast.Ident); ok {
					if o := info.ObjectOf(id); o != nil {
						writes[o]++
					}
				}
			}
		case *ast.RangeStmt:
			for _, x := range []ast.Expr{s.Key, s.Value} {
				if id, ok := x.(*ast.Ident); ok && id != nil {
					if o := info.ObjectOf(id); o != nil {
						writes[o]++
					}
				}
			}
			// `for i, v := range X`: v reads as X[i] (a copy; writes to X[i] inside the body are not seen by v —
			// accepted imprecision, the facts are re-derived at the loop head)
			if kid, ok := s.Key.(*ast.Ident); ok && kid.Name != "_" && s.Tok == token.DEFINE {
				if vid, ok := s.Value.(*ast.Ident); ok && vid.Name != "_" && isPurePath(s.X) {
					if vo := info.Defs[vid]; vo != nil {
						e.rangeVals[vo] = &ast.IndexExpr{X: s.X, Index: kid}
					}
				}
			}
		}
		return true
	})
	// range values that are assigned in the body are plain variables
	ast.Inspect(e.fn.Decl.Body, func(n ast.Node) bool {
		if as, ok := n.(*ast.AssignStmt); ok {
			for _, l := range as.Lhs {
				if id, ok := ast.Unparen(l).(*ast.Ident); ok {
					delete(e.rangeVals, info.ObjectOf(id))
				}
			}
		}
		if ue, ok := n.(*ast.UnaryExpr); ok && ue.Op == token.AND {
			if id, ok := ast.Unparen(ue.X).(*ast.Ident); ok {
				delete(e.rangeVals, info.ObjectOf(id))
			}
		}
		return true
	})
	for _, c := range cands {
		if defs[c.obj] != 1 || writes[c.obj] != 0 {
			continue
		}
		s := c.as
		if len(s.Lhs) == 2 && len(s.Rhs) == 1 && c.idx == 1 {
			if b, ok := c.obj.Type().Underlying().(*types.Basic); ok && b.Kind() == types.Bool {
				e.okvars[c.obj] = "ok" // filled lazily (needs canon)
				e.aliases[c.obj] = s.Rhs[0]
			}
			continue
		}
		// `matched, err := pred(args)`: the bool result of a two-value call
		if len(s.Lhs) == 2 && len(s.Rhs) == 1 && c.idx == 0 {
			if b, ok := c.obj.Type().Underlying().(*types.Basic); ok && b.Kind() == types.Bool {
				if _, isCall := ast.Unparen(s.Rhs[0]).(*ast.CallExpr); isCall {
					e.okvars[c.obj] = "res0"
					e.aliases[c.obj] = s.Rhs[0]
				}
			}
			continue
		}
		if len(s.Lhs) == len(s.Rhs) {
			rhs := s.Rhs[c.idx]
			if b, ok := c.obj.Type().Underlying().(*types.Basic); ok && b.Kind() == types.Bool {
				if _, isConst := ast.Unparen(rhs).(*ast.Ident); !isConst || info.Types[rhs].Value == nil {
					e.boolDefs[c.obj] = rhs
					continue
				}
			}
			if isPurePath(rhs) || e.pureGetter(rhs) {
				e.aliases[c.obj] = rhs
			}
		}
	}
	for _, c := range vcands {
		if defs[c.obj] != 1 || writes[c.obj] != 0 {
			continue
		}
		if b, ok := c.obj.Type().Underlying().(*types.Basic); ok && b.Kind() == types.Bool {
			if _, isConst := ast.Unparen(c.rhs).(*ast.Ident); !isConst || info.Types[c.rhs].Value == nil {
				e.boolDefs[c.obj] = c.rhs
				continue
			}
		}
		if isPurePath(c.rhs) || e.pureGetter(c.rhs) {
			e.aliases[c.obj] = c.rhs
		}
	}
}

// pureGetter: a call of a repo function that only reads (quietFunc) over pure-path arguments,
// e.g. MetaCtx(ctx); two such calls with the same arguments denote the same value as long as
// the arguments' paths are not written (which kills the atoms that mention them).
func (e *FactEngine) pureGetter(x ast.Expr) bool {
	call, ok := ast.Unparen(x).(*ast.CallExpr)
	if !ok || e.p == nil {
		return false
	}
	fi := e.p.FuncOf(Callee(e.fn.Info(), call))
	if fi == nil || fi.Decl.Recv != nil || !e.p.quietFunc(fi, 0) {
		return false
	}
	for _, a := range call.Args {
		if !isPurePath(a) {
			return false
		}
	}
	return true
}

func isPurePath(x ast.Expr) bool {
	switch t := ast.Unparen(x).(type) {
	case *ast.Ident:
		return t.Name != "nil" && t.Name != "true" && t.Name != "false"
	case *ast.SelectorExpr:
		return isPurePath(t.X)
	case *ast.StarExpr:
		return isPurePath(t.X)
	case *ast.UnaryExpr:
		return t.Op == token.AND && isPurePath(t.X)
	case *ast.IndexExpr:
		return isPurePath(t.X) && isPurePath(t.Index)
	case *ast.BasicLit:
		return true
	case *ast.CallExpr:
		// calls of side-effect-free library functions over pure paths
		name := ""
		switch f := t.Fun.(type) {
		case *ast.Ident:
			name = f.Name
		case *ast.SelectorExpr:
			if id, ok := f.X.(*ast.Ident); ok {
				name = id.Name + "." + f.Sel.Name
			}
		}
		switch name {
		case "len", "min", "max", "strings.ToLower", "strings.ToUpper", "strings.TrimSpace", "string":
			for _, a := range t.Args {
				if !isPurePath(a) {
					return false
				}
			}
			return true
		}
	}
	return false
}

// canon renders an expression as a canonical string; paths collects the
// access paths (variables with selectors) it depends on.
func (e *FactEngine) canon(x ast.Expr, sc *scope, paths *[]string) string {
	x = ast.Unparen(x)
	if tv, ok := sc.info.Types[x]; ok {
		if tv.Value != nil {
			return "#" + tv.Value.ExactString()
		}
		if tv.IsNil() {
			return "nil"
		}
	}
	switch t := x.(type) {
	case *ast.Ident:
		o := sc.info.ObjectOf(t)
		if o == nil {
			return "?" + t.Name
		}
		if s, ok := sc.env[o]; ok {
			if paths != nil && !strings.HasPrefix(s, "#") {
				*paths = append(*paths, s)
			}
			return s
		}
		if rv, ok := e.rangeVals[o]; ok && sc.local {
			return e.canon(rv, e.fnScope(), paths)
		}
		if _, isOK := e.okvars[o]; !isOK {
			if rhs, ok := e.aliases[o]; ok && sc.local {
				return e.canon(rhs, e.fnScope(), paths)
			}
		}
		if _, ok := o.(*types.Var); ok {
			id := objID(o)
			if paths != nil {
				*paths = append(*paths, id)
			}
			return id
		}
		return objID(o)
	case *ast.SelectorExpr:
		if sel := sc.info.Selections[t]; sel != nil {
			var sub []string
			base := e.canon(t.X, sc, &sub)
			base = strings.TrimPrefix(base, "&")
			s := base + "." + t.Sel.Name
			if paths != nil {
				// replace the base path by the extended path when base is itself a path
				replaced := false
				for i, p := range sub {
					if p == base {
						sub[i] = s
						replaced = true
					}
				}
				if !replaced {
					sub = append(sub, s)
				}
				*paths = append(*paths, sub...)
			}
			return s
		}
		// package-qualified identifier
		if o := sc.info.ObjectOf(t.Sel); o != nil {
			return objID(o)
		}
		return exprString(t)
	case *ast.StarExpr:
		s := e.canon(t.X, sc, paths)
		if strings.HasPrefix(s, "&") {
			return s[1:]
		}
		return "*" + s
	case *ast.UnaryExpr:
		s := e.canon(t.X, sc, paths)
		if t.Op == token.AND {
			return "&" + s
		}
		return t.Op.String() + s
	case *ast.IndexExpr:
		var sub []string
		b := e.canon(t.X, sc, &sub)
		i := e.canon(t.Index, sc, &sub)
		s := b + "[" + i + "]"
		if paths != nil {
			for k, p := range sub {
				if p == b {
					sub[k] = s
				}
			}
			*paths = append(*paths, sub...)
		}
		return s
	case *ast.CallExpr:
		// conversions are transparent
		if tv, ok := sc.info.Types[t.Fun]; ok && tv.IsType() && len(t.Args) == 1 {
			return e.canon(t.Args[0], sc, paths)
		}
		var parts []string
		for _, a := range t.Args {
			parts = append(parts, e.canon(a, sc, paths))
		}
		return e.canon(t.Fun, sc, paths) + "(" + strings.Join(parts, ",") + ")"
	case *ast.BinaryExpr:
		return "(" + e.canon(t.X, sc, paths) + t.Op.String() + e.canon(t.Y, sc, paths) + ")"
	case *ast.BasicLit:
		return "#" + t.Value
	case *ast.TypeAssertExpr:
		return e.canon(t.X, sc, paths) + ".(" + exprString(t.Type) + ")"
	case *ast.CompositeLit:
		return fmt.Sprintf("lit@%d", t.Pos())
	case *ast.FuncLit:
		return fmt.Sprintf("func@%d", t.Pos())
	case *ast.SliceExpr:
		s := e.canon(t.X, sc, paths) + "["
		if t.Low != nil {
			s += e.canon(t.Low, sc, paths)
		}
		s += ":"
		if t.High != nil {
			s += e.canon(t.High, sc, paths)
		}
		return s + "]"
	}
	return exprString(x)
}

func (e *FactEngine) atomOf(s string, paths []string) *Formula {
	if _, ok := e.mentions[s]; !ok {
		sort.Strings(paths)
		e.mentions[s] = uniq(paths)
	}
	return mkAtom(s)
}

func uniq(s []string) []string {
	var out []string
	for i, x := range s {
		if i == 0 || x != s[i-1] {
			out = append(out, x)
		}
	}
	return out
}

// ---- linear forms (E6) ----

type linear struct {
	terms map[string]int64
	k     int64
	ok    bool
}

func (e *FactEngine) linearOf(x ast.Expr, sc *scope, paths *[]string) linear {
	x = ast.Unparen(x)
	if tv, ok := sc.info.Types[x]; ok && tv.Value != nil {
		if v, ok := constant.Int64Val(constant.ToInt(tv.Value)); ok {
			return linear{terms: map[string]int64{}, k: v, ok: true}
		}
	}
	switch t := x.(type) {
	case *ast.BinaryExpr:
		if t.Op == token.ADD || t.Op == token.SUB {
			a := e.linearOf(t.X, sc, paths)
			b := e.linearOf(t.Y, sc, paths)
			if a.ok && b.ok {
				sign := int64(1)
				if t.Op == token.SUB {
					sign = -1
				}
				for k, v := range b.terms {
					a.terms[k] += sign * v
				}
				a.k += sign * b.k
				return a
			}
		}
	case *ast.CallExpr:
		if tv, ok := sc.info.Types[t.Fun]; ok && tv.IsType() && len(t.Args) == 1 {
			return e.linearOf(t.Args[0], sc, paths)
		}
		// inline trivial int getters: func (x T) N() int { return <expr> }
		if lf, ok := e.inlineIntCall(t, sc, paths); ok {
			return lf
		}
	}
	s := e.canon(x, sc, paths)
	return linear{terms: map[string]int64{s: 1}, ok: true}
}

func (e *FactEngine) inlineIntCall(call *ast.CallExpr, sc *scope, paths *[]string) (linear, bool) {
	if e.depth >= 3 {
		return linear{}, false
	}
	callee := Callee(sc.info, call)
	fi := e.p.FuncOf(callee)
	if fi == nil || len(fi.Decl.Body.List) != 1 {
		return linear{}, false
	}
	ret, ok := fi.Decl.Body.List[0].(*ast.ReturnStmt)
	if !ok || len(ret.Results) != 1 {
		return linear{}, false
	}
	if b, ok := fi.Obj.Type().(*types.Signature).Results().At(0).Type().Underlying().(*types.Basic); !ok || b.Info()&types.IsInteger == 0 {
		return linear{}, false
	}
	sc2, ok := e.bindCall(fi, call, sc, paths)
	if !ok {
		return linear{}, false
	}
	e.depth++
	defer func() { e.depth-- }()
	return e.linearOf(ret.Results[0], sc2, paths), true
}

func isIntegerType(t types.Type) bool {
	if t == nil {
		return false
	}
	b, ok := t.Underlying().(*types.Basic)
	return ok && b.Info()&types.IsInteger != 0
}

// linKey renders the sign-normalised term part T of L = ±(T + k) and returns k
// (after normalisation) and whether L was negated.
func linKey(l linear) (terms string, k int64, flipped bool) {
	var names []string
	for n, v := range l.terms {
		if v != 0 {
			names = append(names, n)
		}
	}
	sort.Strings(names)
	if len(names) == 0 {
		return "", l.k, false
	}
	flip := l.terms[names[0]] < 0
	var sb strings.Builder
	for _, n := range names {
		v := l.terms[n]
		if flip {
			v = -v
		}
		fmt.Fprintf(&sb, "%+d*%s", v, n)
	}
	k = l.k
	if flip {
		k = -k
	}
	return sb.String(), k, flip
}

// cmpFormula builds the formula for  L op 0  over the integers, using only
// atoms of the form A(T,k) := "T + k < 0" (so that <, <=, >, >=, ==, != and
// off-by-one rewritings of the same comparison share atoms). The universe
// adds the order theory A(T,k2) ⇒ A(T,k1) for k1 < k2.
func (e *FactEngine) cmpFormula(l linear, op token.Token, paths []string) *Formula {
	nonzero := 0
	for _, v := range l.terms {
		if v != 0 {
			nonzero++
		}
	}
	if nonzero == 0 {
		var r bool
		switch op {
		case token.LSS:
			r = l.k < 0
		case token.LEQ:
			r = l.k <= 0
		case token.GTR:
			r = l.k > 0
		case token.GEQ:
			r = l.k >= 0
		case token.EQL:
			r = l.k == 0
		case token.NEQ:
			r = l.k != 0
		}
		if r {
			return fT
		}
		return fF
	}
	t, k, flip := linKey(l)
	A := func(kk int64) *Formula {
		name := fmt.Sprintf("lt0(%s|%+d)", t, kk)
		if _, ok := e.linAtoms[name]; !ok {
			nt := map[string]int64{}
			for n, v := range l.terms {
				if v != 0 {
					if flip {
						nt[n] = -v
					} else {
						nt[n] = v
					}
				}
			}
			e.linAtoms[name] = linear{terms: nt, k: kk, ok: true}
		}
		return e.atomOf(name, append([]string(nil), paths...))
	}
	if flip { // L = -(T+k): compare M = T+k with the mirrored operator
		switch op {
		case token.LSS:
			op = token.GTR
		case token.LEQ:
			op = token.GEQ
		case token.GTR:
			op = token.LSS
		case token.GEQ:
			op = token.LEQ
		}
	}
	switch op {
	case token.LSS: // M < 0
		return A(k)
	case token.LEQ: // M <= 0  ⇔ M-1 < 0
		return A(k - 1)
	case token.GEQ: // M >= 0
		return mkNot(A(k))
	case token.GTR: // M > 0 ⇔ !(M <= 0)
		return mkNot(A(k - 1))
	case token.EQL:
		return mkAnd(mkNot(A(k)), A(k-1))
	case token.NEQ:
		return mkOr(A(k), mkNot(A(k-1)))
	}
	return fT
}

// splitLt parses "lt0(T|k)".
func splitLt(a string) (t string, k int64, ok bool) {
	if !strings.HasPrefix(a, "lt0(") || !strings.HasSuffix(a, ")") {
		return
	}
	body := a[4 : len(a)-1]
	i := strings.LastIndexByte(body, '|')
	if i < 0 {
		return
	}
	if _, err := fmt.Sscanf(body[i+1:], "%d", &k); err != nil {
		return
	}
	return body[:i], k, true
}

// boolForm converts a boolean expression to a formula.
func (e *FactEngine) boolForm(x ast.Expr, sc *scope) *Formula {
	x = ast.Unparen(x)
	if tv, ok := sc.info.Types[x]; ok && tv.Value != nil && tv.Value.Kind() == constant.Bool {
		if constant.BoolVal(tv.Value) {
			return fT
		}
		return fF
	}
	switch t := x.(type) {
	case *ast.UnaryExpr:
		if t.Op == token.NOT {
			return mkNot(e.boolForm(t.X, sc))
		}
	case *ast.BinaryExpr:
		switch t.Op {
		case token.LAND:
			return mkAnd(e.boolForm(t.X, sc), e.boolForm(t.Y, sc))
		case token.LOR:
			return mkOr(e.boolForm(t.X, sc), e.boolForm(t.Y, sc))
		case token.EQL, token.NEQ, token.LSS, token.LEQ, token.GTR, token.GEQ:
			tx := sc.info.TypeOf(t.X)
			ty := sc.info.TypeOf(t.Y)
			if isIntegerType(tx) && isIntegerType(ty) {
				var paths []string
				a := e.linearOf(t.X, sc, &paths)
				b := e.linearOf(t.Y, sc, &paths)
				if a.ok && b.ok {
					for k, v := range b.terms {
						a.terms[k] -= v
					}
					a.k -= b.k
					return e.cmpFormula(a, t.Op, paths)
				}
			}
			if t.Op == token.EQL || t.Op == token.NEQ {
				// bool == const
				if bx, ok := tx.Underlying().(*types.Basic); ok && bx.Kind() == types.Bool || isUntypedBool(tx) {
					fa, fb := e.boolForm(t.X, sc), e.boolForm(t.Y, sc)
					iff := mkOr(mkAnd(fa, fb), mkAnd(mkNot(fa), mkNot(fb)))
					if t.Op == token.NEQ {
						return mkNot(iff)
					}
					return iff
				}
				var paths []string
				a := e.canon(t.X, sc, &paths)
				b := e.canon(t.Y, sc, &paths)
				f := e.eqAtom(a, b, paths)
				if t.Op == token.NEQ {
					return mkNot(f)
				}
				return f
			}
			var paths []string
			a := e.canon(t.X, sc, &paths)
			b := e.canon(t.Y, sc, &paths)
			switch t.Op {
			case token.LSS:
				return e.atomOf("lt("+a+","+b+")", paths)
			case token.GEQ:
				return mkNot(e.atomOf("lt("+a+","+b+")", paths))
			case token.GTR:
				return e.atomOf("lt("+b+","+a+")", paths)
			case token.LEQ:
				return mkNot(e.atomOf("lt("+b+","+a+")", paths))
			}
		}
	case *ast.Ident:
		o := sc.info.ObjectOf(t)
		if f, ok := sc.bdef[o]; ok && o != nil {
			return f
		}
		if o != nil && sc.local {
			if _, ok := e.okvars[o]; ok {
				var paths []string
				pos := o.Pos()
				if e.okvars[o] == "res0" {
					pos = e.aliases[o].Pos() // call results are named after the call site
				}
				s := e.okvars[o] + "(" + e.canon(e.aliases[o], e.fnScope(), &paths) + fmt.Sprintf(")@%d", pos)
				// the flag is a single-definition local: nothing can change it
				return e.atomOf(s, nil)
			}
			if rhs, ok := e.boolDefs[o]; ok && e.depth < 4 {
				e.depth++
				defer func() { e.depth-- }()
				return e.boolForm(rhs, e.fnScope())
			}
		}
	case *ast.CallExpr:
		if f, ok := e.inlinePredicate(t, sc); ok {
			return f
		}
	}
	var paths []string
	s := e.canon(x, sc, &paths)
	return e.atomOf(s, paths)
}

func isUntypedBool(t types.Type) bool {
	b, ok := t.(*types.Basic)
	return ok && b.Kind() == types.UntypedBool
}

func (e *FactEngine) eqAtom(a, b string, paths []string) *Formula {
	if a == b {
		return fT
	}
	if strings.HasPrefix(a, "#") && strings.HasPrefix(b, "#") {
		return fF
	}
	// constants go second
	if strings.HasPrefix(a, "#") || a == "nil" || (a > b && !strings.HasPrefix(b, "#") && b != "nil") {
		a, b = b, a
	}
	return e.atomOf("eq("+a+","+b+")", paths)
}

// bindCall builds the scope for inlining fi at call.
func (e *FactEngine) bindCall(fi *FuncInfo, call *ast.CallExpr, sc *scope, paths *[]string) (*scope, bool) {
	env := map[types.Object]string{}
	info := fi.Info()
	args := call.Args
	if fi.Decl.Recv != nil {
		sel, ok := ast.Unparen(call.Fun).(*ast.SelectorExpr)
		if !ok {
			return nil, false
		}
		recvExpr := sel.X
		// a method expression T.m(recv, args…): the receiver is the first argument
		if s := sc.info.Selections[sel]; s != nil && s.Kind() == types.MethodExpr {
			if len(args) == 0 {
				return nil, false
			}
			recvExpr, args = args[0], args[1:]
		}
		if len(fi.Decl.Recv.List) == 1 && len(fi.Decl.Recv.List[0].Names) == 1 {
			ro := info.Defs[fi.Decl.Recv.List[0].Names[0]]
			s := e.canon(recvExpr, sc, nil)
			env[ro] = strings.TrimPrefix(s, "&")
		}
	}
	call = &ast.CallExpr{Fun: call.Fun, Args: args, Lparen: call.Lparen, Rparen: call.Rparen}
	i := 0
	for _, fld := range fi.Decl.Type.Params.List {
		for _, nm := range fld.Names {
			if i >= len(call.Args) {
				return nil, false
			}
			if _, variadic := fld.Type.(*ast.Ellipsis); variadic {
				return nil, false
			}
			env[info.Defs[nm]] = e.canon(call.Args[i], sc, nil)
			i++
		}
	}
	return &scope{info: info, env: env}, true
}

// inlinePredicate inlines a bool-returning repo function whose body is made of
// if/return statements only.
func (e *FactEngine) inlinePredicate(call *ast.CallExpr, sc *scope) (*Formula, bool) {
	if e.depth >= 3 {
		return nil, false
	}
	fi := e.p.FuncOf(Callee(sc.info, call))
	if fi == nil && sc.local {
		// a call through a local that holds one function value (`match := (*IP).Deleting; match(v)`):
		// the call of that function
		if id, ok := ast.Unparen(call.Fun).(*ast.Ident); ok {
			if v, ok := sc.info.ObjectOf(id).(*types.Var); ok && !v.IsField() {
				if ds := varDefs(e.fn, v); len(ds) == 1 && ds[0].rhs != nil {
					switch fv := ast.Unparen(ds[0].rhs).(type) {
					case *ast.Ident, *ast.SelectorExpr:
						c2 := &ast.CallExpr{Fun: fv, Args: call.Args, Lparen: call.Lparen, Rparen: call.Rparen}
						if f2 := e.p.FuncOf(Callee(sc.info, c2)); f2 != nil {
							fi, call = f2, c2
						}
					}
				}
			}
		}
	}
	if fi == nil {
		return nil, false
	}
	sig := fi.Obj.Type().(*types.Signature)
	if sig.Results().Len() != 1 {
		return nil, false
	}
	if b, ok := sig.Results().At(0).Type().Underlying().(*types.Basic); !ok || b.Kind() != types.Bool {
		return nil, false
	}
	sc2, ok := e.bindCall(fi, call, sc, nil)
	if !ok {
		return nil, false
	}
	e.depth++
	defer func() { e.depth-- }()
	// what the inlinable prefix of the body does not decide is one opaque atom per call site
	// (it depends on the arguments: writing one of their paths forgets it)
	var paths []string
	key := fi.Key() + "("
	for i, a := range call.Args {
		if i > 0 {
			key += ","
		}
		key += e.canon(a, sc, &paths)
	}
	if sel, ok := ast.Unparen(call.Fun).(*ast.SelectorExpr); ok && fi.Decl.Recv != nil {
		key += ";" + e.canon(sel.X, sc, &paths)
	}
	sc2.rest = func(pos token.Pos) *Formula {
		return e.atomOf(fmt.Sprintf("rest:%s)@%d", key, pos), paths)
	}
	f, ok := e.predBody(fi.Decl.Body.List, sc2)
	if ok && f.k == fAtom && strings.HasPrefix(f.atom, "rest:") {
		return nil, false // nothing was inlined: keep the call itself as the atom
	}
	return f, ok
}

func (e *FactEngine) predBody(stmts []ast.Stmt, sc *scope) (*Formula, bool) {
	if len(stmts) == 0 {
		return nil, false
	}
	switch s := stmts[0].(type) {
	case *ast.ReturnStmt:
		if len(s.Results) != 1 {
			return nil, false
		}
		return e.boolForm(s.Results[0], sc), true
	case *ast.AssignStmt:
		// x := <bool expression> — a named sub-condition, defined once
		if s.Tok != token.DEFINE || len(s.Lhs) != 1 || len(s.Rhs) != 1 {
			return nil, false
		}
		id, ok := s.Lhs[0].(*ast.Ident)
		o := sc.info.Defs[id]
		if !ok || o == nil {
			return nil, false
		}
		if b, ok := o.Type().Underlying().(*types.Basic); !ok || b.Kind() != types.Bool {
			return nil, false
		}
		reassigned := false
		for _, st := range stmts[1:] {
			ast.Inspect(st, func(n ast.Node) bool {
				switch t := n.(type) {
				case *ast.AssignStmt:
					for _, l := range t.Lhs {
						if li, ok := l.(*ast.Ident); ok && sc.info.Uses[li] == o {
							reassigned = true
						}
					}
				case *ast.UnaryExpr:
					if li, ok := t.X.(*ast.Ident); ok && t.Op == token.AND && sc.info.Uses[li] == o {
						reassigned = true
					}
				}
				return true
			})
		}
		if reassigned {
			return nil, false
		}
		sc2 := *sc
		sc2.bdef = map[types.Object]*Formula{}
		for k, v := range sc.bdef {
			sc2.bdef[k] = v
		}
		sc2.bdef[o] = e.boolForm(s.Rhs[0], sc)
		return e.predBody(stmts[1:], &sc2)
	case *ast.IfStmt:
		if s.Init != nil {
			return nil, false
		}
		c := e.boolForm(s.Cond, sc)
		rest := stmts[1:]
		thenF, ok := e.predBody(append(append([]ast.Stmt{}, s.Body.List...), rest...), sc)
		if !ok {
			return nil, false
		}
		var elseStmts []ast.Stmt
		switch el := s.Else.(type) {
		case nil:
			elseStmts = rest
		case *ast.BlockStmt:
			elseStmts = append(append([]ast.Stmt{}, el.List...), rest...)
		case *ast.IfStmt:
			elseStmts = append([]ast.Stmt{el}, rest...)
		}
		elseF, ok := e.predBody(elseStmts, sc)
		if !ok {
			return nil, false
		}
		return mkOr(mkAnd(c, thenF), mkAnd(mkNot(c), elseF)), true
	}
	if sc.rest != nil {
		return sc.rest(stmts[0].Pos()), true
	}
	return nil, false
}

// ---------- valuation sets ----------

type universe struct {
	atoms []string
	idx   map[string]int
	valid vset // valuations consistent with the background theory
}

type vset []uint64

func newVset(n int) vset      { return make(vset, (1<<uint(n)+63)/64) }
func (v vset) has(i int) bool { return v[i/64]&(1<<uint(i%64)) != 0 }
func (v vset) set(i int)      { v[i/64] |= 1 << uint(i%64) }
func (v vset) clone() vset    { return append(vset(nil), v...) }
func (v vset) or(o vset) vset {
	r := v.clone()
	for i := range r {
		r[i] |= o[i]
	}
	return r
}
func (v vset) and(o vset) vset {
	r := v.clone()
	for i := range r {
		r[i] &= o[i]
	}
	return r
}
func (v vset) eq(o vset) bool {
	for i := range v {
		if v[i] != o[i] {
			return false
		}
	}
	return true
}
func (v vset) empty() bool {
	for _, w := range v {
		if w != 0 {
			return false
		}
	}
	return true
}
func (v vset) subset(o vset) bool {
	for i := range v {
		if v[i]&^o[i] != 0 {
			return false
		}
	}
	return true
}

func (e *FactEngine) newUniverse(req *Formula, body *ast.BlockStmt, target ...ast.Node) (*universe, error) {
	m := map[string]bool{}
	req.atoms(m)
	if len(m) > 18 {
		return nil, fmt.Errorf("requirement has %d atoms (max 18)", len(m))
	}
	// one-step closure: atoms that occur in a branch condition together with a
	// requirement atom are tracked too (so `if a && b {return}; if a {target}` entails !b)
	if body != nil {
		var conds []*Formula
		sc := e.fnScope()
		// backward (weakest-precondition style) closure: walk the assignments that precede the
		// target in reverse source order and add the atoms each requirement atom is mapped to;
		// atoms closest to the target are added first, the cap cuts the far ones
		substClosure := func() {
			var assigns []*ast.AssignStmt
			ast.Inspect(body, func(n ast.Node) bool {
				if as, ok := n.(*ast.AssignStmt); ok && len(as.Lhs) == len(as.Rhs) {
					assigns = append(assigns, as)
				}
				return true
			})
			var tpos token.Pos
			if len(target) == 1 && target[0] != nil {
				tpos = target[0].Pos()
			}
			sort.SliceStable(assigns, func(a, b int) bool {
				pa, pb := assigns[a].Pos(), assigns[b].Pos()
				// statements before the target first, nearest first; then the ones after it (loops)
				ba, bb := pa < tpos, pb < tpos
				if ba != bb {
					return ba
				}
				if ba {
					return pa > pb
				}
				return pa > pb
			})
			for round := 0; round < 2; round++ {
				for _, as := range assigns {
					for i := range as.Lhs {
						if !isIntegerType(sc.info.TypeOf(as.Lhs[i])) {
							continue
						}
						pth := strings.TrimPrefix(e.canon(as.Lhs[i], sc, nil), "&")
						rhss := []ast.Expr{as.Rhs[i]}
						for _, name := range []string{"max", "min"} {
							if call, ok := isBuiltinCall(sc.info, as.Rhs[i], name); ok && len(call.Args) == 2 {
								rhss = []ast.Expr{call.Args[0], call.Args[1]}
								am := map[string]bool{}
								e.boolForm(&ast.BinaryExpr{X: call.Args[0], Op: token.GEQ, Y: call.Args[1]}, sc).atoms(am)
								mentionsP := false
								for a := range m {
									if la, ok := e.linAtoms[a]; ok && la.terms[pth] != 0 {
										mentionsP = true
									}
								}
								if mentionsP && len(m)+len(am) <= 17 {
									for x := range am {
										m[x] = true
									}
								}
							}
						}
						for _, rx := range rhss {
							var ps []string
							r := e.linearOf(rx, sc, &ps)
							if !r.ok {
								continue
							}
							var cur []string
							for a := range m {
								cur = append(cur, a)
							}
							sort.Strings(cur)
							for _, a := range cur {
								if f := e.substLinear(a, pth, r); f != nil {
									am := map[string]bool{}
									f.atoms(am)
									if len(m)+len(am) <= 17 {
										for x := range am {
											m[x] = true
										}
									}
								}
							}
						}
					}
				}
			}
		}
		substClosure()
		// conditions that enclose the target are always relevant
		if len(target) == 1 && target[0] != nil {
			for _, nd := range pathTo(body, target[0]) {
				if is, ok := nd.(*ast.IfStmt); ok {
					am := map[string]bool{}
					e.boolForm(is.Cond, sc).atoms(am)
					if len(m)+len(am) <= 12 {
						for a := range am {
							m[a] = true
						}
					}
				}
			}
		}
		ast.Inspect(body, func(n ast.Node) bool {
			switch t := n.(type) {
			case *ast.IfStmt:
				conds = append(conds, e.boolForm(t.Cond, sc))
			case *ast.ForStmt:
				if t.Cond != nil {
					conds = append(conds, e.boolForm(t.Cond, sc))
				}
			case *ast.AssignStmt:
				if len(t.Lhs) == 1 && len(t.Rhs) == 1 {
					if call, ok := ast.Unparen(t.Rhs[0]).(*ast.CallExpr); ok {
						if post := e.callPost(t.Lhs[0], call, sc); post != nil {
							conds = append(conds, post)
						}
					}
				}
			case *ast.SwitchStmt:
				for _, cl := range t.Body.List {
					for _, x := range cl.(*ast.CaseClause).List {
						if t.Tag == nil {
							conds = append(conds, e.boolForm(x, sc))
						} else {
							conds = append(conds, e.boolForm(&ast.BinaryExpr{X: t.Tag, Op: token.EQL, Y: x}, sc))
						}
					}
				}
			}
			return true
		})
		// sibling atoms: eq(P,#c') for a path P the requirement compares with a constant
		reqPaths := map[string]bool{}
		for a := range m {
			if pth, _, ok := splitEqConst(a); ok {
				reqPaths[pth] = true
			}
		}
		substClosure()
		// linear conditions that share a term with a tracked linear atom (needed for transitivity)
		for round := 0; round < 2; round++ {
			terms := map[string]bool{}
			for a := range m {
				if la, ok := e.linAtoms[a]; ok {
					for t, v := range la.terms {
						if v != 0 {
							terms[t] = true
						}
					}
				}
			}
			for _, cf := range conds {
				am := map[string]bool{}
				cf.atoms(am)
				for a := range am {
					if la, ok := e.linAtoms[a]; ok && !m[a] && len(m) < 14 {
						for t, v := range la.terms {
							if v != 0 && terms[t] {
								m[a] = true
							}
						}
					}
				}
			}
		}
		reqLin := map[string]bool{}
		for a := range m {
			if t, _, ok := splitLt(a); ok {
				reqLin[t] = true
			}
		}
		for _, cf := range conds {
			am := map[string]bool{}
			cf.atoms(am)
			for a := range am {
				if pth, _, ok := splitEqConst(a); ok && reqPaths[pth] && len(m) < 13 {
					m[a] = true
				}
				if t, _, ok := splitLt(a); ok && reqLin[t] && len(m) < 13 {
					m[a] = true
				}
			}
		}
		for round := 0; round < 2; round++ {
			for _, cf := range conds {
				am := map[string]bool{}
				cf.atoms(am)
				share := false
				for a := range am {
					if m[a] {
						share = true
					}
				}
				if share && len(m)+len(am) <= 13 {
					for a := range am {
						m[a] = true
					}
				}
			}
		}
	}
	// result flags: `if <tracked> { v = nil|&T{}|const } else { v = … }` makes v's nil-ness / value a
	// witness of the tracked condition; later tests of v then decide it
	if body != nil {
		sc := e.fnScope()
		// copies x = y of pure paths: the atoms over x have twins over y
		copyTwins := func() {
			ast.Inspect(body, func(n ast.Node) bool {
				as, ok := n.(*ast.AssignStmt)
				if !ok || len(as.Lhs) != len(as.Rhs) {
					return true
				}
				type cp struct {
					lc, rc string
					paths  []string
				}
				var cps []cp
				for i, l := range as.Lhs {
					if !isPurePath(l) {
						continue
					}
					lc := strings.TrimPrefix(e.canon(l, sc, nil), "&")
					if lc == "_" {
						continue
					}
					if isPurePath(as.Rhs[i]) {
						var paths []string
						rcFull := e.canon(as.Rhs[i], sc, &paths)
						if !(strings.HasPrefix(rcFull, "#") || rcFull == "nil" || strings.HasPrefix(rcFull, "&")) {
							cps = append(cps, cp{lc, rcFull, paths})
						}
						continue
					}
					// x := &T{K: y}: a copy into x.K
					r := ast.Unparen(as.Rhs[i])
					if ue, ok := r.(*ast.UnaryExpr); ok && ue.Op == token.AND {
						r = ast.Unparen(ue.X)
					}
					if cl, ok := r.(*ast.CompositeLit); ok {
						if _, isStruct := sc.info.TypeOf(cl).Underlying().(*types.Struct); isStruct {
							for _, el := range cl.Elts {
								kv, ok := el.(*ast.KeyValueExpr)
								if !ok {
									continue
								}
								if k, ok := kv.Key.(*ast.Ident); ok && isPurePath(kv.Value) {
									var paths []string
									rcFull := e.canon(kv.Value, sc, &paths)
									if !(strings.HasPrefix(rcFull, "#") || rcFull == "nil" || strings.HasPrefix(rcFull, "&")) {
										cps = append(cps, cp{lc + "." + k.Name, rcFull, paths})
									}
								}
							}
						}
					}
				}
				for _, c := range cps {
					lc, rcFull, paths := c.lc, c.rc, c.paths
					var cur []string
					for a := range m {
						cur = append(cur, a)
					}
					sort.Strings(cur)
					for _, a := range cur {
						if len(m) >= 15 {
							break
						}
						if path, cst, ok := splitEqConst(a); ok && prefixOf(lc, path) {
							f := e.eqAtom(rcFull+path[len(lc):], cst, paths)
							if f.k == fAtom {
								m[f.atom] = true
							}
						} else if x, y, ok := splitEqPaths(a); ok && (prefixOf(lc, x) != prefixOf(lc, y)) {
							if prefixOf(lc, y) {
								x, y = y, x
							}
							ps := append([]string{}, paths...)
							for _, mnt := range e.mentions[a] {
								if !prefixOf(lc, mnt) && !prefixOf(mnt, lc) {
									ps = append(ps, mnt)
								}
							}
							f := e.eqAtom(rcFull+x[len(lc):], y, ps)
							if f.k == fAtom {
								m[f.atom] = true
							}
						} else if strings.HasPrefix(a, "eq(") && strings.HasSuffix(a, ",nil)") {
							if path := a[3 : len(a)-5]; prefixOf(lc, path) {
								f := e.eqAtom(rcFull+path[len(lc):], "nil", paths)
								if f.k == fAtom {
									m[f.atom] = true
								}
							}
						}
					}
				}
				return true
			})
		}
		copyTwins()
		copyTwins()
		// tracked boolean variables: the atoms of what they are assigned
		for round := 0; round < 2; round++ {
			ast.Inspect(body, func(n ast.Node) bool {
				as, ok := n.(*ast.AssignStmt)
				if !ok || len(as.Lhs) != len(as.Rhs) {
					return true
				}
				for i, l := range as.Lhs {
					id, ok := l.(*ast.Ident)
					if !ok || id.Name == "_" {
						continue
					}
					t := sc.info.TypeOf(l)
					if t == nil {
						continue
					}
					if b, ok := t.Underlying().(*types.Basic); !ok || b.Kind() != types.Bool {
						continue
					}
					if _, isVar := sc.info.ObjectOf(id).(*types.Var); !isVar {
						continue
					}
					lname := strings.TrimPrefix(e.canon(l, sc, nil), "&")
					am := map[string]bool{}
					e.boolForm(as.Rhs[i], sc).atoms(am)
					if !m[lname] {
						// the other direction: the expression speaks about tracked atoms, so the
						// variable that stores its value is worth tracking
						share := false
						for a := range am {
							if m[a] {
								share = true
							}
						}
						if !share || len(m)+len(am)+1 > 15 {
							continue
						}
						m[lname] = true
					}
					if len(m)+len(am) <= 15 {
						for a := range am {
							m[a] = true
						}
					}
				}
				return true
			})
		}
		for round := 0; round < 2; round++ {
			ast.Inspect(body, func(n ast.Node) bool {
				if len(m) >= 14 {
					return true
				}
				// an if with its arms, or a tagless switch with its clauses
				var conds []ast.Expr
				var blocks []*ast.BlockStmt
				switch t := n.(type) {
				case *ast.IfStmt:
					conds = []ast.Expr{t.Cond}
					blocks = []*ast.BlockStmt{t.Body}
					if eb, ok := t.Else.(*ast.BlockStmt); ok {
						blocks = append(blocks, eb)
					}
				case *ast.SwitchStmt:
					if t.Tag != nil {
						return true
					}
					for _, cc := range t.Body.List {
						cl := cc.(*ast.CaseClause)
						conds = append(conds, cl.List...)
						blocks = append(blocks, &ast.BlockStmt{List: cl.Body})
					}
				default:
					return true
				}
				am := map[string]bool{}
				for _, cnd := range conds {
					e.boolForm(cnd, sc).atoms(am)
				}
				share := false
				for a := range am {
					if m[a] {
						share = true
					}
				}
				if !share {
					return true
				}
				if _, isSwitch := n.(*ast.SwitchStmt); isSwitch && len(m)+len(am) <= 16 {
					for a := range am {
						m[a] = true // the clause conditions decide which constant the flag received
					}
				}
				for _, b := range blocks {
					// statements of the arm, through plain nested blocks (an expanded helper's `{ x = …; break }`)
					var flat []ast.Stmt
					var flatten func(list []ast.Stmt)
					flatten = func(list []ast.Stmt) {
						for _, st := range list {
							if nb, ok := st.(*ast.BlockStmt); ok {
								flatten(nb.List)
							} else {
								flat = append(flat, st)
							}
						}
					}
					flatten(b.List)
					for _, st := range flat {
						as, ok := st.(*ast.AssignStmt)
						if !ok || len(as.Lhs) != len(as.Rhs) {
							continue
						}
						for i, l := range as.Lhs {
							if id, ok := l.(*ast.Ident); !ok || id.Name == "_" {
								continue
							}
							t := sc.info.TypeOf(l)
							if t == nil {
								continue
							}
							var paths []string
							lc := strings.TrimPrefix(e.canon(l, sc, &paths), "&")
							rc := e.canon(as.Rhs[i], sc, nil)
							switch t.Underlying().(type) {
							case *types.Pointer, *types.Interface, *types.Map, *types.Slice, *types.Signature, *types.Chan:
								if f := e.eqAtom(lc, "nil", paths); f.k == fAtom && len(m) < 14 {
									m[f.atom] = true
								}
							default:
								if b, isB := t.Underlying().(*types.Basic); isB && b.Kind() == types.Bool {
									if f := e.boolForm(l, sc); f.k == fAtom && len(m) < 14 {
										m[f.atom] = true
									}
								} else if strings.HasPrefix(rc, "#") {
									if f := e.eqAtom(lc, rc, paths); f.k == fAtom && len(m) < 14 {
										m[f.atom] = true
									}
								}
							}
						}
					}
				}
				return true
			})
		}
		// the witnesses just added may themselves be copies (`err = err_inner` in one arm)
		copyTwins()
	}
	var as []string
	for a := range m {
		as = append(as, a)
	}
	sort.Strings(as)
	u := &universe{atoms: as, idx: map[string]int{}}
	for i, a := range as {
		u.idx[a] = i
	}
	n := 1 << uint(len(as))
	u.valid = newVset(len(as))
	// background theory: eq(P,#c1) & eq(P,#c2) exclusive; A(T,k2) ⇒ A(T,k1) for k1 < k2
	type pair struct{ i, j int }
	var excl []pair // both true is impossible
	var impl []pair // i true ⇒ j true
	for i, a := range as {
		for j := 0; j < len(as); j++ {
			if i == j {
				continue
			}
			b := as[j]
			if j > i {
				if pa, ca, ok := splitEqConst(a); ok {
					if pb, cb, ok := splitEqConst(b); ok && pa == pb && ca != cb {
						excl = append(excl, pair{i, j})
					}
				}
			}
			if ta, ka, ok := splitLt(a); ok {
				if tb, kb, ok := splitLt(b); ok && ta == tb && kb < ka {
					impl = append(impl, pair{i, j})
				}
			}
		}
	}
	// one Fourier–Motzkin step over the linear literals: lit1 ∧ lit2 ⇒ (their sum), matched against
	// the universe's own atoms (gives a ≤ b ∧ b < 0 ⇒ a < 0 etc.)
	type lit struct {
		atom  int
		neg   bool
		terms map[string]int64
		k     int64
	}
	var lits []lit
	for i, a := range as {
		la, ok := e.linAtoms[a]
		if !ok {
			continue
		}
		lits = append(lits, lit{i, false, la.terms, la.k})
		nt := map[string]int64{}
		for t, v := range la.terms {
			nt[t] = -v
		}
		lits = append(lits, lit{i, true, nt, -la.k - 1}) // ¬(T+k<0) ⇔ −T−k−1 < 0
	}
	type triple struct {
		a, b   lit
		c      int  // -1: a ∧ b is contradictory
		cValue bool // forbidden value of atom c given a ∧ b
	}
	var triples []triple
	if len(lits) <= 40 {
		for x := 0; x < len(lits); x++ {
			for y := x + 1; y < len(lits); y++ {
				if lits[x].atom == lits[y].atom {
					continue
				}
				sum := map[string]int64{}
				for t, v := range lits[x].terms {
					sum[t] += v
				}
				for t, v := range lits[y].terms {
					sum[t] += v
				}
				ks := lits[x].k + lits[y].k + 1
				nz := 0
				for _, v := range sum {
					if v != 0 {
						nz++
					}
				}
				if nz == 0 {
					if ks >= 0 {
						triples = append(triples, triple{lits[x], lits[y], -1, false})
					}
					continue
				}
				for ci, ca := range as {
					lc, ok := e.linAtoms[ca]
					if !ok || ci == lits[x].atom || ci == lits[y].atom {
						continue
					}
					same, opp := true, true
					cnt := 0
					for t, v := range lc.terms {
						if v == 0 {
							continue
						}
						cnt++
						if sum[t] != v {
							same = false
						}
						if sum[t] != -v {
							opp = false
						}
					}
					if cnt != nz {
						continue
					}
					if same && lc.k <= ks {
						triples = append(triples, triple{lits[x], lits[y], ci, false}) // sum ⇒ c, so ¬c is forbidden
					}
					if opp && lc.k >= -ks-1 {
						triples = append(triples, triple{lits[x], lits[y], ci, true}) // sum ⇒ ¬c
					}
				}
			}
		}
	}
	// len(x) / cap(x) are never negative: A(len|k) is impossible for k ≥ 0
	var never []int
	for i, a := range as {
		if la, ok := e.linAtoms[a]; ok && la.k >= 0 {
			single := ""
			cnt := 0
			for t, v := range la.terms {
				if v != 0 {
					cnt++
					if v == 1 {
						single = t
					}
				}
			}
			if cnt == 1 && (strings.HasPrefix(single, "len@0(") || strings.HasPrefix(single, "cap@0(")) {
				never = append(never, i)
			}
		}
	}
	litTrue := func(v int, l lit) bool { return (v&(1<<uint(l.atom)) != 0) != l.neg }
	for v := 0; v < n; v++ {
		ok := true
		for _, p := range excl {
			if v&(1<<uint(p.i)) != 0 && v&(1<<uint(p.j)) != 0 {
				ok = false
				break
			}
		}
		for _, p := range impl {
			if v&(1<<uint(p.i)) != 0 && v&(1<<uint(p.j)) == 0 {
				ok = false
				break
			}
		}
		for _, i := range never {
			if v&(1<<uint(i)) != 0 {
				ok = false
			}
		}
		if ok {
			for _, t := range triples {
				if litTrue(v, t.a) && litTrue(v, t.b) {
					if t.c < 0 || (v&(1<<uint(t.c)) != 0) == t.cValue {
						ok = false
						break
					}
				}
			}
		}
		if ok {
			u.valid.set(v)
		}
	}
	return u, nil
}

func splitEqConst(a string) (path, c string, ok bool) {
	if !strings.HasPrefix(a, "eq(") || !strings.HasSuffix(a, ")") {
		return
	}
	body := a[3 : len(a)-1]
	i := strings.LastIndex(body, ",#")
	if i < 0 {
		return
	}
	return body[:i], body[i+1:], true
}

// may returns (T,F): valuations in which f may be true / may be false.
func (u *universe) may(f *Formula) (vset, vset) {
	n := len(u.atoms)
	switch f.k {
	case fTrue:
		return u.valid.clone(), newVset(n)
	case fFalse:
		return newVset(n), u.valid.clone()
	case fAtom:
		i, ok := u.idx[f.atom]
		if !ok {
			return u.valid.clone(), u.valid.clone()
		}
		t, fl := newVset(n), newVset(n)
		for v := 0; v < 1<<uint(n); v++ {
			if !u.valid.has(v) {
				continue
			}
			if v&(1<<uint(i)) != 0 {
				t.set(v)
			} else {
				fl.set(v)
			}
		}
		return t, fl
	case fNot:
		t, fl := u.may(f.sub[0])
		return fl, t
	case fAnd:
		t1, f1 := u.may(f.sub[0])
		t2, f2 := u.may(f.sub[1])
		return t1.and(t2), f1.or(f2)
	case fOr:
		t1, f1 := u.may(f.sub[0])
		t2, f2 := u.may(f.sub[1])
		return t1.or(t2), f1.and(f2)
	}
	return u.valid.clone(), u.valid.clone()
}

// forget existentially quantifies atom i.
func (u *universe) forget(s vset, i int) vset {
	r := s.clone()
	n := len(u.atoms)
	bit := 1 << uint(i)
	for v := 0; v < 1<<uint(n); v++ {
		if s.has(v) {
			if w := v ^ bit; u.valid.has(w) {
				r.set(w)
			}
		}
	}
	return r
}

// forgetRaw is forget without the validity filter (used while several atoms are being rewritten).
func (u *universe) forgetRaw(s vset, i int) vset {
	r := s.clone()
	n := len(u.atoms)
	bit := 1 << uint(i)
	for v := 0; v < 1<<uint(n); v++ {
		if s.has(v) {
			r.set(v ^ bit)
		}
	}
	return r
}

func (u *universe) assume(s vset, i int, val bool) vset {
	r := newVset(len(u.atoms))
	bit := 1 << uint(i)
	for v := 0; v < 1<<uint(len(u.atoms)); v++ {
		if s.has(v) && (v&bit != 0) == val {
			r.set(v)
		}
	}
	return r
}

func (u *universe) describe(v int) string {
	var parts []string
	for i, a := range u.atoms {
		if v&(1<<uint(i)) != 0 {
			parts = append(parts, a)
		} else {
			parts = append(parts, "!"+a)
		}
	}
	return strings.Join(parts, " ∧ ")
}

// ---------- structured walk ----------

type loopFrame struct {
	label     string
	breaks    vset
	continues vset
	isLoop    bool
}

type walker struct {
	e      *FactEngine
	u      *universe
	sc     *scope
	target ast.Node
	at     vset // join of states at the target
	hit    bool
	frames []*loopFrame
	labels map[ast.Stmt]string
	// cutStmt: the statement that executes the target; paths entering it are recorded and dropped.
	cutStmt ast.Stmt
	// exits: when set, the states at return statements are accumulated here.
	exits *vset
	// failingExit: returns that abandon the operation (a non-nil error) are not exits of interest
	failingExit func(*ast.ReturnStmt) bool
}

func prefixOf(p, q string) bool {
	if p == q {
		return true
	}
	return strings.HasPrefix(q, p) && (q[len(p)] == '.' || q[len(p)] == '[')
}

// callLike: the atom's value may depend on state reachable from (not just stored at) its paths.
func callLike(a string) bool {
	body := a
	for _, pre := range []string{"eq(", "lt0(", "lt("} {
		body = strings.TrimPrefix(body, pre)
	}
	return strings.Contains(body, "(")
}

// kill forgets every atom that depends on path p: atoms about p or something stored
// under p; atoms that call methods on a prefix of p (their result may read p).
func (w *walker) kill(s vset, p string) vset {
	if p == "" {
		return s
	}
	for i, a := range w.u.atoms {
		for _, m := range w.e.mentions[a] {
			if prefixOf(p, m) || (prefixOf(m, p) && callLike(a)) {
				s = w.u.forget(s, i)
				break
			}
		}
	}
	return s
}

// killReceiver forgets atoms depending on paths that extend (or equal) p —
// used for method calls on p.
func (w *walker) killExt(s vset, p string) vset {
	if p == "" {
		return s
	}
	for i, a := range w.u.atoms {
		for _, m := range w.e.mentions[a] {
			if prefixOf(p, m) {
				s = w.u.forget(s, i)
				break
			}
		}
	}
	return s
}

func (w *walker) contains(n ast.Node) bool {
	return n != nil && w.target != nil && n.Pos() <= w.target.Pos() && w.target.End() <= n.End()
}

func (w *walker) record(s vset) {
	if w.at == nil {
		w.at = s.clone()
	} else {
		w.at = w.at.or(s)
	}
	w.hit = true
}

// recordInExpr records the state at target when target lies inside expression x,
// accounting for short-circuit evaluation.
func (w *walker) recordInExpr(x ast.Expr, s vset) {
	x = ast.Unparen(x)
	if b, ok := x.(*ast.BinaryExpr); ok && (b.Op == token.LAND || b.Op == token.LOR) {
		if w.contains(b.X) {
			w.recordInExpr(b.X, s)
			return
		}
		if w.contains(b.Y) {
			t, f := w.u.may(w.e.boolForm(b.X, w.sc))
			if b.Op == token.LAND {
				w.recordInExpr(b.Y, s.and(t))
			} else {
				w.recordInExpr(b.Y, s.and(f))
			}
			return
		}
	}
	w.record(s)
}

var pureMethodPrefixes = []string{"Lock", "RLock", "Unlock", "RUnlock", "Broadcast", "Signal", "Len", "Has", "Get", "Is", "String", "After", "Before", "Equal", "Load", "Unix", "Sub", "Add", "Contains", "Deep", "Info", "Error", "V", "With", "Enabled", "Lookup", "List", "Idles", "InUse", "Allocatable", "Valid", "Deleting", "Peek", "ByPodID", "Match", "To", "Name", "Zero"}

func looksPure(name string) bool {
	for _, p := range pureMethodPrefixes {
		if strings.HasPrefix(name, p) {
			return true
		}
	}
	return false
}

// effects applies the invalidations caused by evaluating node n (calls with
// side effects on receiver paths, &x arguments).
func (w *walker) effects(n ast.Node, s vset) vset {
	if n == nil {
		return s
	}
	ast.Inspect(n, func(m ast.Node) bool {
		switch c := m.(type) {
		case *ast.FuncLit:
			return false
		case *ast.CallExpr:
			if !readOnlyCallee(Callee(w.sc.info, c)) {
				for _, a := range c.Args {
					if ue, ok := ast.Unparen(a).(*ast.UnaryExpr); ok && ue.Op == token.AND {
						s = w.kill(s, w.e.canon(ue.X, w.sc, nil))
					}
				}
			}
			if sel, ok := ast.Unparen(c.Fun).(*ast.SelectorExpr); ok && w.sc.info.Selections[sel] != nil {
				base := strings.TrimPrefix(w.e.canon(sel.X, w.sc, nil), "&")
				if fi := w.e.p.FuncOf(Callee(w.sc.info, c)); fi != nil {
					for _, f := range w.e.p.writeSet(fi, 0) {
						if f == "*" {
							s = w.killExt(s, base)
						} else {
							s = w.kill(s, base+"."+f)
						}
					}
				} else if !looksPure(sel.Sel.Name) {
					s = w.killExt(s, base)
				}
			}
		}
		return true
	})
	return s
}

func (w *walker) isPureMethod(c *ast.CallExpr, sel *ast.SelectorExpr) bool {
	callee := Callee(w.sc.info, c)
	if fi := w.e.p.FuncOf(callee); fi != nil {
		return w.e.p.pureMethod(fi, 0)
	}
	return looksPure(sel.Sel.Name)
}

// writeSet lists the first-level receiver fields a method may write
// (transitively, bound 3); "*" = unknown / whole receiver.
func (p *Prog) writeSet(fi *FuncInfo, depth int) []string {
	if p.wsCache == nil {
		p.wsCache = map[*FuncInfo][]string{}
	}
	if ws, ok := p.wsCache[fi]; ok {
		return ws
	}
	if fi.Decl.Recv == nil || len(fi.Decl.Recv.List) != 1 || len(fi.Decl.Recv.List[0].Names) != 1 {
		return nil
	}
	if depth > 3 {
		return []string{"*"}
	}
	p.wsCache[fi] = []string{"*"} // recursion guard
	info := fi.Info()
	recv := info.Defs[fi.Decl.Recv.List[0].Names[0]]
	set := map[string]bool{}
	// firstField returns the first-level field of a receiver-rooted expression ("" = the receiver itself, "-" = not rooted)
	var firstField func(x ast.Expr) string
	firstField = func(x ast.Expr) string {
		switch t := ast.Unparen(x).(type) {
		case *ast.Ident:
			if info.ObjectOf(t) == recv {
				return ""
			}
			return "-"
		case *ast.SelectorExpr:
			b := firstField(t.X)
			if b == "" {
				return t.Sel.Name
			}
			return b
		case *ast.IndexExpr:
			return firstField(t.X)
		case *ast.StarExpr:
			return firstField(t.X)
		case *ast.UnaryExpr:
			return firstField(t.X)
		}
		return "-"
	}
	add := func(f string) {
		if f == "" {
			set["*"] = true
		} else if f != "-" {
			set[f] = true
		}
	}
	ast.Inspect(fi.Decl.Body, func(n ast.Node) bool {
		switch s := n.(type) {
		case *ast.AssignStmt:
			for _, l := range s.Lhs {
				if _, isIdent := ast.Unparen(l).(*ast.Ident); !isIdent {
					add(firstField(l))
				}
			}
		case *ast.IncDecStmt:
			if _, isIdent := ast.Unparen(s.X).(*ast.Ident); !isIdent {
				add(firstField(s.X))
			}
		case *ast.CallExpr:
			if id, ok := s.Fun.(*ast.Ident); ok && id.Name == "delete" && len(s.Args) > 0 {
				add(firstField(s.Args[0]))
			}
			for _, a := range s.Args {
				if ue, ok := ast.Unparen(a).(*ast.UnaryExpr); ok && ue.Op == token.AND {
					add(firstField(ue.X))
				}
			}
			if sel, ok := ast.Unparen(s.Fun).(*ast.SelectorExpr); ok && info.Selections[sel] != nil {
				ff := firstField(sel.X)
				if ff == "-" {
					return true
				}
				if cf := p.FuncOf(Callee(info, s)); cf != nil {
					ws := p.writeSet(cf, depth+1)
					if ff == "" { // method on the receiver itself
						for _, f := range ws {
							set[f] = true
						}
					} else if len(ws) > 0 {
						set[ff] = true
					}
				} else if !looksPure(sel.Sel.Name) {
					add(ff)
				}
			}
		}
		return true
	})
	var out []string
	for f := range set {
		out = append(out, f)
	}
	sort.Strings(out)
	p.wsCache[fi] = out
	return out
}

// readOnlyCallee: library functions that only read what their pointer arguments point to.
func readOnlyCallee(f *types.Func) bool {
	if f == nil || f.Pkg() == nil {
		return false
	}
	p := f.Pkg().Path()
	switch {
	case strings.Contains(p, "go-playground/validator"):
		return true
	case p == "fmt" && !strings.HasPrefix(f.Name(), "Sscan") && !strings.HasPrefix(f.Name(), "Fscan") && !strings.HasPrefix(f.Name(), "Scan"):
		return true
	case p == "encoding/json" && strings.HasPrefix(f.Name(), "Marshal"):
		return true
	case p == "reflect" && f.Name() == "DeepEqual":
		return true
	}
	return false
}

// nonNilProducer: calls that never return nil.
func nonNilProducer(info *types.Info, x ast.Expr) bool {
	if u, isU := ast.Unparen(x).(*ast.UnaryExpr); isU && u.Op == token.AND {
		if _, isLit := ast.Unparen(u.X).(*ast.CompositeLit); isLit {
			return true // &T{…}
		}
	}
	call, ok := ast.Unparen(x).(*ast.CallExpr)
	if !ok {
		return false
	}
	if id, ok := call.Fun.(*ast.Ident); ok && id.Name == "new" {
		if _, isB := info.Uses[id].(*types.Builtin); isB {
			return true
		}
	}
	if f := Callee(info, call); f != nil && f.Pkg() != nil {
		p := f.Pkg().Path()
		if (p == "fmt" && f.Name() == "Errorf") || (p == "errors" && f.Name() == "New") {
			return true
		}
		if (p == "k8s.io/utils/ptr" || p == "k8s.io/utils/pointer") && (f.Name() == "To" || strings.HasSuffix(f.Name(), "Ptr") || f.Name() == "String" || f.Name() == "Bool" || f.Name() == "Int" || f.Name() == "Int32" || f.Name() == "Int64") {
			return true
		}
	}
	return false
}

// pureMethod: no store through the receiver, and receiver-rooted calls are pure.
func (p *Prog) pureMethod(fi *FuncInfo, depth int) bool {
	if fi.Decl.Recv == nil || len(fi.Decl.Recv.List) != 1 || len(fi.Decl.Recv.List[0].Names) != 1 {
		return true
	}
	if depth > 3 {
		return false
	}
	info := fi.Info()
	recv := info.Defs[fi.Decl.Recv.List[0].Names[0]]
	if recv == nil {
		return true
	}
	rooted := func(x ast.Expr) bool {
		for {
			switch t := ast.Unparen(x).(type) {
			case *ast.SelectorExpr:
				x = t.X
			case *ast.IndexExpr:
				x = t.X
			case *ast.StarExpr:
				x = t.X
			case *ast.Ident:
				return info.ObjectOf(t) == recv
			default:
				return false
			}
		}
	}
	pure := true
	ast.Inspect(fi.Decl.Body, func(n ast.Node) bool {
		if !pure {
			return false
		}
		switch s := n.(type) {
		case *ast.AssignStmt:
			for _, l := range s.Lhs {
				if _, isIdent := ast.Unparen(l).(*ast.Ident); !isIdent && rooted(l) {
					pure = false
				}
			}
		case *ast.IncDecStmt:
			if _, isIdent := ast.Unparen(s.X).(*ast.Ident); !isIdent && rooted(s.X) {
				pure = false
			}
		case *ast.CallExpr:
			if id, ok := s.Fun.(*ast.Ident); ok && id.Name == "delete" && len(s.Args) > 0 && rooted(s.Args[0]) {
				pure = false
			}
			if sel, ok := ast.Unparen(s.Fun).(*ast.SelectorExpr); ok && info.Selections[sel] != nil && rooted(sel.X) {
				if cf := p.FuncOf(Callee(info, s)); cf != nil {
					if cf != fi && !p.pureMethod(cf, depth+1) {
						pure = false
					}
				} else if !looksPure(sel.Sel.Name) {
					pure = false
				}
			}
		}
		return true
	})
	return pure
}

// substLinear returns, for atom a (T+k<0) and the assignment p := r, the formula
// that a's new value equals in the pre-assignment state (nil when p does not occur).
func (e *FactEngine) substLinear(a string, p string, r linear) *Formula {
	la, ok := e.linAtoms[a]
	if !ok {
		return nil
	}
	c := la.terms[p]
	if c == 0 {
		return nil
	}
	nl := linear{terms: map[string]int64{}, k: la.k, ok: true}
	for n, v := range la.terms {
		if n != p {
			nl.terms[n] += v
		}
	}
	for n, v := range r.terms {
		nl.terms[n] += c * v
	}
	nl.k += c * r.k
	return e.cmpFormula(nl, token.LSS, e.mentions[a])
}

func (w *walker) assign(lhs ast.Expr, rhs ast.Expr, s vset) vset {
	lhs = ast.Unparen(lhs)
	if id, ok := lhs.(*ast.Ident); ok && id.Name == "_" {
		return s
	}
	// the defining statement of an alias (x := a.b.c, x never re-assigned): x *is* that path from
	// here on, nothing changes
	if id, ok := lhs.(*ast.Ident); ok && w.sc.local {
		if o := w.sc.info.ObjectOf(id); o != nil {
			if _, isAlias := w.e.aliases[o]; isAlias {
				if _, isFlag := w.e.okvars[o]; !isFlag {
					if call, ok := ast.Unparen(rhs).(*ast.CallExpr); ok && rhs != nil {
						if post := w.e.callPost(lhs, call, w.sc); post != nil {
							tt, _ := w.u.may(post)
							s = s.and(tt)
						}
					}
					return s
				}
			}
		}
	}
	// p = max(a, b) / min(a, b): p = a where a ≥ b (resp. ≤), p = b otherwise
	if rhs != nil {
		for _, name := range []string{"max", "min"} {
			if call, ok := isBuiltinCall(w.sc.info, rhs, name); ok && len(call.Args) == 2 && isIntegerType(w.sc.info.TypeOf(lhs)) {
				op := token.GEQ
				if name == "min" {
					op = token.LEQ
				}
				cond := w.e.boolForm(&ast.BinaryExpr{X: call.Args[0], Op: op, Y: call.Args[1]}, w.sc)
				tt, ff := w.u.may(cond)
				return w.assign(lhs, call.Args[0], s.and(tt)).or(w.assign(lhs, call.Args[1], s.and(ff)))
			}
		}
	}
	p := strings.TrimPrefix(w.e.canon(lhs, w.sc, nil), "&")
	// boolean assignment x = E: afterwards x holds what E evaluated to
	if rhs != nil {
		if b, ok := w.sc.info.TypeOf(lhs).Underlying().(*types.Basic); ok && b.Kind() == types.Bool {
			if i, tracked := w.u.idx[p]; tracked {
				f := w.e.boolForm(rhs, w.sc)
				am := map[string]bool{}
				f.atoms(am)
				all := true
				for a := range am {
					if _, in := w.u.idx[a]; !in {
						all = false
					}
				}
				if all {
					ns := newVset(len(w.u.atoms))
					for v := 0; v < 1<<uint(len(w.u.atoms)); v++ {
						if !s.has(v) {
							continue
						}
						nv := v &^ (1 << uint(i))
						if evalFormula(f, w.u, v) {
							nv |= 1 << uint(i)
						}
						if w.u.valid.has(nv) {
							ns.set(nv)
						}
					}
					return ns
				}
			}
		}
	}
	// integer copy / constant assignment: linear atoms over p take the value the
	// substituted comparison had before the assignment
	if rhs != nil && isIntegerType(w.sc.info.TypeOf(lhs)) {
		var ps []string
		r := w.e.linearOf(rhs, w.sc, &ps)
		if r.ok {
			type upd struct {
				i int
				f *Formula // nil: not computable in this universe → forgotten
			}
			var upds []upd
			for i, a := range w.u.atoms {
				if f := w.e.substLinear(a, p, r); f != nil {
					am := map[string]bool{}
					f.atoms(am)
					for x := range am {
						if _, ok := w.u.idx[x]; !ok {
							f = nil
							break
						}
					}
					upds = append(upds, upd{i, f})
				}
			}
			if len(upds) > 0 {
				ns := newVset(len(w.u.atoms))
				for v := 0; v < 1<<uint(len(w.u.atoms)); v++ {
					if !s.has(v) {
						continue
					}
					nv := v
					for _, u := range upds {
						if u.f == nil {
							continue
						}
						if evalFormula(u.f, w.u, v) {
							nv |= 1 << uint(u.i)
						} else {
							nv &^= 1 << uint(u.i)
						}
					}
					ns.set(nv)
				}
				for _, u := range upds {
					if u.f == nil {
						ns = w.u.forgetRaw(ns, u.i)
					}
				}
				ns = ns.and(w.u.valid)
				// other (non-linear) atoms that mention p are forgotten
				for i, a := range w.u.atoms {
					if _, isLin := w.e.linAtoms[a]; isLin {
						continue
					}
					for _, m := range w.e.mentions[a] {
						if prefixOf(p, m) || prefixOf(m, p) {
							ns = w.u.forget(ns, i)
							break
						}
					}
				}
				return ns
			}
		}
	}
	s = w.kill(s, p)
	if rhs == nil {
		return s
	}
	// copy x = y of a pure path: afterwards eq(x·σ, c) holds exactly when eq(y·σ, c) does
	if isPurePath(rhs) {
		rc := strings.TrimPrefix(w.e.canon(rhs, w.sc, nil), "&")
		if !strings.HasPrefix(rc, "#") && rc != "nil" && !prefixOf(p, rc) && !strings.HasPrefix(w.e.canon(rhs, w.sc, nil), "&") {
			s = w.copyPath(s, p, rc)
		}
	}
	// a fresh struct literal: every field not named in it holds its zero value
	{
		r := ast.Unparen(rhs)
		if ue, ok := r.(*ast.UnaryExpr); ok && ue.Op == token.AND {
			r = ast.Unparen(ue.X)
		}
		if cl, ok := r.(*ast.CompositeLit); ok {
			if _, isStruct := w.sc.info.TypeOf(cl).Underlying().(*types.Struct); isStruct {
				keyed := map[string]bool{}
				positional := false
				for _, el := range cl.Elts {
					if kv, ok := el.(*ast.KeyValueExpr); ok {
						keyed[exprString(kv.Key)] = true
					} else {
						positional = true
					}
				}
				oneField := func(path string) (string, bool) {
					if path == p || !prefixOf(p, path) {
						return "", false
					}
					rest := path[len(p)+1:]
					if strings.ContainsAny(rest, ".[(") {
						return "", false
					}
					return rest, !keyed[rest]
				}
				// … and every field named with a pure path (or a constant) holds that value
				if !positional {
					for _, el := range cl.Elts {
						kv := el.(*ast.KeyValueExpr)
						k, isId := kv.Key.(*ast.Ident)
						if !isId {
							continue
						}
						pk := p + "." + k.Name
						full := w.e.canon(kv.Value, w.sc, nil)
						vc := strings.TrimPrefix(full, "&")
						switch {
						case strings.HasPrefix(full, "#") || full == "nil":
							for i, a := range w.u.atoms {
								if path, c, ok := splitEqConst(a); ok && path == pk {
									s = w.u.assume(s, i, c == full)
								} else if a == "eq("+pk+",nil)" {
									s = w.u.assume(s, i, full == "nil")
								} else if a == pk && (full == "#true" || full == "#false") {
									s = w.u.assume(s, i, full == "#true")
								}
							}
						case isPurePath(kv.Value) && !strings.HasPrefix(full, "&") && !prefixOf(p, vc):
							s = w.copyPath(s, pk, vc)
						}
					}
				}
				if !positional {
					for i, a := range w.u.atoms {
						if path, cst, ok := splitEqConst(a); ok {
							if _, z := oneField(path); z {
								s = w.u.assume(s, i, cst == `#""` || cst == "#0" || cst == "#false")
							}
							continue
						}
						if strings.HasPrefix(a, "eq(") && strings.HasSuffix(a, ",nil)") {
							if _, z := oneField(a[3 : len(a)-5]); z {
								s = w.u.assume(s, i, true)
							}
							continue
						}
						if _, z := oneField(a); z { // bare boolean field
							s = w.u.assume(s, i, false)
							continue
						}
					}
					// integer fields: substitute 0 into linear atoms
					zero := linear{terms: map[string]int64{}, ok: true}
					for i, a := range w.u.atoms {
						la, isLin := w.e.linAtoms[a]
						if !isLin {
							continue
						}
						f := mkAtom(a)
						changed := false
						cur := a
						_ = cur
						for t := range la.terms {
							if _, z := oneField(t); z {
								changed = true
							}
						}
						if !changed {
							continue
						}
						// substitute every zero field
						nl := linear{terms: map[string]int64{}, k: la.k, ok: true}
						for t, v := range la.terms {
							if _, z := oneField(t); !z {
								nl.terms[t] += v
							}
						}
						_ = zero
						f = w.e.cmpFormula(nl, token.LSS, w.e.mentions[a])
						am := map[string]bool{}
						f.atoms(am)
						ok := true
						for x := range am {
							if _, in := w.u.idx[x]; !in {
								ok = false
							}
						}
						if ok {
							ns := newVset(len(w.u.atoms))
							for v := 0; v < 1<<uint(len(w.u.atoms)); v++ {
								if !s.has(v) {
									continue
								}
								nv := v &^ (1 << uint(i))
								if evalFormula(f, w.u, v) {
									nv |= 1 << uint(i)
								}
								if w.u.valid.has(nv) {
									ns.set(nv)
								}
							}
							s = ns
						}
					}
				}
			}
		}
	}
	// strengthen on constant / nil right-hand sides
	rc := w.e.canon(rhs, w.sc, nil)
	isConst := strings.HasPrefix(rc, "#") || rc == "nil"
	for i, a := range w.u.atoms {
		if isConst {
			if path, c, ok := splitEqConst(a); ok && path == p {
				s = w.u.assume(s, i, c == rc)
				continue
			}
			if a == "eq("+p+",nil)" {
				s = w.u.assume(s, i, rc == "nil")
				continue
			}
			if a == p && (rc == "#true" || rc == "#false") {
				s = w.u.assume(s, i, rc == "#true")
				continue
			}
		} else if a == "eq("+p+",nil)" {
			if _, ok := ast.Unparen(rhs).(*ast.UnaryExpr); ok && strings.HasPrefix(rc, "&") {
				s = w.u.assume(s, i, false)
			} else if nonNilProducer(w.sc.info, rhs) {
				s = w.u.assume(s, i, false)
			}
		}
	}
	if call, ok := ast.Unparen(rhs).(*ast.CallExpr); ok {
		if post := w.e.callPost(lhs, call, w.sc); post != nil {
			tt, _ := w.u.may(post)
			s = s.and(tt)
		}
	}
	return s
}

// splitEqPaths splits a path-path equality atom eq(x,y) (neither side a constant or nil).
func splitEqPaths(a string) (x, y string, ok bool) {
	if !strings.HasPrefix(a, "eq(") || !strings.HasSuffix(a, ")") {
		return
	}
	body := a[3 : len(a)-1]
	depth := 0
	for i := 0; i < len(body); i++ {
		switch body[i] {
		case '(', '[':
			depth++
		case ')', ']':
			depth--
		case ',':
			if depth == 0 {
				x, y = body[:i], body[i+1:]
				if strings.HasPrefix(y, "#") || y == "nil" || strings.HasPrefix(x, "#") || x == "nil" {
					return "", "", false
				}
				return x, y, true
			}
		}
	}
	return
}

// eqName is the spelling eqAtom gives the equality of two paths ("" when they are one path).
func eqName(a, b string) string {
	if a == b {
		return ""
	}
	if a > b {
		a, b = b, a
	}
	return "eq(" + a + "," + b + ")"
}

// copyPath: after x = y (x's old atoms already forgotten) x equals y, and every atom over x·σ holds
// exactly when its twin over y·σ does — against constants, nil and other paths.
func (w *walker) copyPath(s vset, p, rc string) vset {
	for i, a := range w.u.atoms {
		if a == "eq("+p+","+rc+")" || a == "eq("+rc+","+p+")" {
			s = w.u.assume(s, i, true)
		}
	}
	for i, a := range w.u.atoms {
		src := ""
		if path, cst, ok := splitEqConst(a); ok && prefixOf(p, path) {
			src = "eq(" + rc + path[len(p):] + "," + cst + ")"
		} else if strings.HasPrefix(a, "eq(") && strings.HasSuffix(a, ",nil)") {
			if path := a[3 : len(a)-5]; prefixOf(p, path) {
				src = "eq(" + rc + path[len(p):] + ",nil)"
			}
		} else if x, y, ok := splitEqPaths(a); ok && (prefixOf(p, x) != prefixOf(p, y)) {
			if prefixOf(p, y) {
				x, y = y, x
			}
			src = eqName(rc+x[len(p):], y)
			if src == "" {
				s = w.u.assume(s, i, true)
				continue
			}
		}
		if src == "" || src == a {
			continue
		}
		j, ok := w.u.idx[src]
		if !ok {
			continue
		}
		ns := newVset(len(w.u.atoms))
		for v := 0; v < 1<<uint(len(w.u.atoms)); v++ {
			if s.has(v) && (v>>uint(i))&1 == (v>>uint(j))&1 {
				ns.set(v)
			}
		}
		s = ns
	}
	return s
}

func terminatingCall(info *types.Info, x ast.Expr) bool {
	c, ok := ast.Unparen(x).(*ast.CallExpr)
	if !ok {
		return false
	}
	switch f := ast.Unparen(c.Fun).(type) {
	case *ast.Ident:
		return f.Name == "panic"
	case *ast.SelectorExpr:
		n := f.Sel.Name
		if n == "Exit" || n == "Fatal" || n == "Fatalf" || n == "Fatalln" || n == "Panic" || n == "Panicf" {
			return true
		}
	}
	return false
}

func (w *walker) stmts(list []ast.Stmt, s vset) vset {
	for _, st := range list {
		if s.empty() && !w.containsAny(st) {
			// unreachable under the tracked facts; still need to visit for the target
			continue
		}
		s = w.stmt(st, s)
	}
	return s
}

func (w *walker) containsAny(st ast.Stmt) bool { return w.contains(st) }

func (w *walker) frameFor(label *ast.Ident, wantLoop bool) *loopFrame {
	for i := len(w.frames) - 1; i >= 0; i-- {
		f := w.frames[i]
		if label != nil {
			if f.label == label.Name {
				return f
			}
			continue
		}
		if wantLoop && !f.isLoop {
			continue
		}
		return f
	}
	return nil
}

func (w *walker) stmt(st ast.Stmt, s vset) vset {
	n := len(w.u.atoms)
	empty := newVset(n)
	if w.cutStmt != nil && st == w.cutStmt {
		// paths that execute the target end here (used to collect the states of paths that skip it)
		w.hit = true
		if w.at == nil {
			w.at = newVset(n)
		}
		w.at = w.at.or(s)
		return empty
	}
	switch t := st.(type) {
	case nil:
		return s
	case *ast.BlockStmt:
		return w.stmts(t.List, s)
	case *ast.LabeledStmt:
		if w.labels == nil {
			w.labels = map[ast.Stmt]string{}
		}
		w.labels[t.Stmt] = t.Label.Name
		return w.stmt(t.Stmt, s)
	case *ast.ExprStmt:
		if w.contains(t) {
			w.recordInExpr(t.X, s)
		}
		if terminatingCall(w.sc.info, t.X) {
			return empty
		}
		return w.effects(t.X, s)
	case *ast.AssignStmt:
		if w.contains(t) {
			w.record(s)
		}
		for _, r := range t.Rhs {
			s = w.effects(r, s)
		}
		for i, l := range t.Lhs {
			var rhs ast.Expr
			if len(t.Rhs) == len(t.Lhs) && (t.Tok == token.ASSIGN || t.Tok == token.DEFINE) {
				rhs = t.Rhs[i]
			}
			s = w.assign(l, rhs, s)
		}
		// `x, err := f(…)` where every return of f hands back a freshly made object as result i:
		// x is not nil, whatever err is
		if len(t.Lhs) > 1 && len(t.Rhs) == 1 && w.sc.local {
			if call, ok := ast.Unparen(t.Rhs[0]).(*ast.CallExpr); ok {
				if fi := w.e.p.FuncOf(Callee(w.sc.info, call)); fi != nil {
					for i, l := range t.Lhs {
						if !neverNilResult(fi, i) {
							continue
						}
						pth := strings.TrimPrefix(w.e.canon(l, w.sc, nil), "&")
						if ai, ok := w.u.idx["eq("+pth+",nil)"]; ok {
							s = w.u.assume(s, ai, false)
						}
					}
				}
			}
		}
		// `b, err = pred(args)`: tie the variable to the call-result atom res0(call)@site
		if len(t.Lhs) == 2 && len(t.Rhs) == 1 {
			if call, ok := ast.Unparen(t.Rhs[0]).(*ast.CallExpr); ok {
				if vo := identObj(w.sc.info, t.Lhs[0]); vo != nil {
					if _, isOK := w.e.okvars[vo]; !isOK {
						if b, isB := vo.Type().Underlying().(*types.Basic); isB && b.Kind() == types.Bool {
							r := w.e.CallResultAtom(call)
							if ri, ok := w.u.idx[r]; ok {
								s = w.u.forget(s, ri)
								if vi, ok := w.u.idx[objID(vo)]; ok {
									ns := newVset(len(w.u.atoms))
									for v := 0; v < 1<<uint(len(w.u.atoms)); v++ {
										if s.has(v) && (v&(1<<uint(ri)) != 0) == (v&(1<<uint(vi)) != 0) {
											ns.set(v)
										}
									}
									s = ns
								}
							}
						}
					}
				}
			}
		}
		return s
	case *ast.IncDecStmt:
		if w.contains(t) {
			w.record(s)
		}
		return w.assign(t.X, nil, s)
	case *ast.DeclStmt:
		if w.contains(t) {
			w.record(s)
		}
		if gd, ok := t.Decl.(*ast.GenDecl); ok {
			for _, sp := range gd.Specs {
				if vs, ok := sp.(*ast.ValueSpec); ok {
					for i, nm := range vs.Names {
						var rhs ast.Expr
						if i < len(vs.Values) {
							rhs = vs.Values[i]
							s = w.effects(rhs, s)
						}
						s = w.assign(nm, rhs, s)
					}
				}
			}
		}
		return s
	case *ast.ReturnStmt:
		if w.contains(t) {
			w.record(s)
		}
		if w.exits != nil && (w.failingExit == nil || !w.failingExit(t)) {
			for _, r := range t.Results {
				s = w.effects(r, s)
			}
			*w.exits = (*w.exits).or(s)
		}
		return empty
	case *ast.BranchStmt:
		if w.contains(t) {
			w.record(s)
		}
		switch t.Tok {
		case token.BREAK:
			if f := w.frameFor(t.Label, false); f != nil {
				f.breaks = f.breaks.or(s)
			}
		case token.CONTINUE:
			if f := w.frameFor(t.Label, true); f != nil {
				f.continues = f.continues.or(s)
			}
		case token.GOTO:
			w.e.undecided = "goto"
		case token.FALLTHROUGH:
			w.e.undecided = "fallthrough"
		}
		return empty
	case *ast.IfStmt:
		if t.Init != nil {
			s = w.stmt(t.Init, s)
		}
		if w.contains(t.Cond) {
			w.recordInExpr(t.Cond, s)
		}
		cf := w.e.boolForm(t.Cond, w.sc)
		tt, ff := w.u.may(cf)
		s = w.effects(t.Cond, s)
		a := w.stmts(t.Body.List, s.and(tt))
		var b vset
		if t.Else != nil {
			b = w.stmt(t.Else, s.and(ff))
		} else {
			b = s.and(ff)
		}
		return a.or(b)
	case *ast.ForStmt:
		if t.Init != nil {
			s = w.stmt(t.Init, s)
		}
		fr := &loopFrame{label: w.labels[st], breaks: newVset(n), continues: newVset(n), isLoop: true}
		w.frames = append(w.frames, fr)
		head := s.clone()
		var exit vset
		for iter := 0; iter < 64; iter++ {
			fr.continues = newVset(n)
			body := head
			exit = newVset(n)
			if t.Cond != nil {
				if w.contains(t.Cond) {
					w.recordInExpr(t.Cond, head)
				}
				tt, ff := w.u.may(w.e.boolForm(t.Cond, w.sc))
				body = head.and(tt)
				exit = head.and(ff)
			}
			out := w.stmts(t.Body.List, body).or(fr.continues)
			if t.Post != nil {
				out = w.stmt(t.Post, out)
			}
			nh := head.or(out)
			if nh.eq(head) {
				break
			}
			head = nh
		}
		w.frames = w.frames[:len(w.frames)-1]
		return exit.or(fr.breaks)
	case *ast.RangeStmt:
		if w.contains(t.X) {
			w.record(s)
		}
		s = w.effects(t.X, s)
		fr := &loopFrame{label: w.labels[st], breaks: newVset(n), continues: newVset(n), isLoop: true}
		w.frames = append(w.frames, fr)
		head := s.clone()
		for iter := 0; iter < 64; iter++ {
			fr.continues = newVset(n)
			body := head
			if t.Key != nil {
				body = w.assign(t.Key, nil, body)
			}
			if t.Value != nil {
				body = w.assign(t.Value, nil, body)
			}
			out := w.stmts(t.Body.List, body).or(fr.continues)
			nh := head.or(out)
			if nh.eq(head) {
				break
			}
			head = nh
		}
		w.frames = w.frames[:len(w.frames)-1]
		return head.or(fr.breaks)
	case *ast.SwitchStmt:
		if t.Init != nil {
			s = w.stmt(t.Init, s)
		}
		if t.Tag != nil && w.contains(t.Tag) {
			w.record(s)
		}
		fr := &loopFrame{label: w.labels[st], breaks: newVset(n), continues: newVset(n)}
		w.frames = append(w.frames, fr)
		out := newVset(n)
		rest := s.clone()
		hasDefault := false
		var defaultClause *ast.CaseClause
		for _, cl := range t.Body.List {
			cc := cl.(*ast.CaseClause)
			if cc.List == nil {
				hasDefault = true
				defaultClause = cc
				continue
			}
			cond := fF
			for _, x := range cc.List {
				var f *Formula
				if t.Tag != nil {
					f = w.e.boolForm(&ast.BinaryExpr{X: t.Tag, Op: token.EQL, Y: x}, w.sc)
				} else {
					f = w.e.boolForm(x, w.sc)
				}
				cond = mkOr(cond, f)
			}
			if w.containsExprs(cc.List) {
				w.record(rest)
			}
			tt, ff := w.u.may(cond)
			out = out.or(w.stmts(cc.Body, rest.and(tt)))
			rest = rest.and(ff)
		}
		if hasDefault {
			out = out.or(w.stmts(defaultClause.Body, rest))
		} else {
			out = out.or(rest)
		}
		w.frames = w.frames[:len(w.frames)-1]
		return out.or(fr.breaks)
	case *ast.TypeSwitchStmt:
		if t.Init != nil {
			s = w.stmt(t.Init, s)
		}
		fr := &loopFrame{label: w.labels[st], breaks: newVset(n), continues: newVset(n)}
		w.frames = append(w.frames, fr)
		out := newVset(n)
		hasDefault := false
		for _, cl := range t.Body.List {
			cc := cl.(*ast.CaseClause)
			if cc.List == nil {
				hasDefault = true
			}
			out = out.or(w.stmts(cc.Body, s))
		}
		if !hasDefault {
			out = out.or(s)
		}
		w.frames = w.frames[:len(w.frames)-1]
		return out.or(fr.breaks)
	case *ast.SelectStmt:
		fr := &loopFrame{label: w.labels[st], breaks: newVset(n), continues: newVset(n)}
		w.frames = append(w.frames, fr)
		out := newVset(n)
		for _, cl := range t.Body.List {
			cc := cl.(*ast.CommClause)
			cs := s
			if cc.Comm != nil {
				cs = w.stmt(cc.Comm, cs)
			}
			out = out.or(w.stmts(cc.Body, cs))
		}
		w.frames = w.frames[:len(w.frames)-1]
		return out.or(fr.breaks)
	case *ast.DeferStmt, *ast.GoStmt:
		if w.contains(t) {
			w.record(s)
		}
		return s
	case *ast.SendStmt:
		if w.contains(t) {
			w.record(s)
		}
		return s
	case *ast.EmptyStmt:
		return s
	}
	if w.contains(st) {
		w.record(s)
	}
	return s
}

func (w *walker) containsExprs(xs []ast.Expr) bool {
	for _, x := range xs {
		if w.contains(x) {
			return true
		}
	}
	return false
}

// ---------- public API ----------

// innermostBody returns the body of the innermost function (decl or literal)
// of fn that contains target.
func innermostBody(fn *FuncInfo, target ast.Node) *ast.BlockStmt {
	body := fn.Decl.Body
	ast.Inspect(fn.Decl.Body, func(n ast.Node) bool {
		if fl, ok := n.(*ast.FuncLit); ok && ast.Node(fl) != target {
			if fl.Body.Pos() <= target.Pos() && target.End() <= fl.Body.End() {
				body = fl.Body
			}
		}
		return true
	})
	return body
}

// ParseReq parses and type-checks a requirement expression in the scope at pos.
func (e *FactEngine) ParseReq(src string, pos token.Pos) (*Formula, error) {
	x, err := parser.ParseExprFrom(e.p.Fset, "req", src, 0)
	if err != nil {
		return nil, fmt.Errorf("parse %q: %v", src, err)
	}
	info := &types.Info{Types: map[ast.Expr]types.TypeAndValue{}, Uses: map[*ast.Ident]types.Object{}, Defs: map[*ast.Ident]types.Object{}, Selections: map[*ast.SelectorExpr]*types.Selection{}}
	if err := types.CheckExpr(e.p.Fset, e.fn.Pkg.Types, pos, x, info); err != nil {
		if src2, changed := e.p.renameIdents(src); changed {
			return e.ParseReq(src2, pos)
		}
		return nil, fmt.Errorf("type-check %q: %v", src, err)
	}
	return e.boolForm(x, &scope{info: info, local: true}), nil
}

// PathEq is the atom "a and b denote the same value" for two path expressions in the scope at pos —
// also for types Go's == does not apply to (slices such as net.IP): the engine only ever learns it
// from copies.
func (e *FactEngine) PathEq(a, b string, pos token.Pos) (*Formula, error) {
	var canon [2]string
	var paths []string
	for i, src := range []string{a, b} {
		x, err := parser.ParseExprFrom(e.p.Fset, "req", src, 0)
		if err != nil {
			return nil, fmt.Errorf("parse %q: %v", src, err)
		}
		info := &types.Info{Types: map[ast.Expr]types.TypeAndValue{}, Uses: map[*ast.Ident]types.Object{}, Defs: map[*ast.Ident]types.Object{}, Selections: map[*ast.SelectorExpr]*types.Selection{}}
		if err := types.CheckExpr(e.p.Fset, e.fn.Pkg.Types, pos, x, info); err != nil {
			return nil, fmt.Errorf("type-check %q: %v", src, err)
		}
		canon[i] = strings.TrimPrefix(e.canon(x, &scope{info: info, local: true}, &paths), "&")
	}
	return e.eqAtom(canon[0], canon[1], paths), nil
}

func (e *FactEngine) fnScope() *scope { return &scope{info: e.fn.Info(), local: true} }

// FactsAt computes whether req holds at target; returns ok, a counter-example
// description (when not ok) and an error for undecidable shapes.
func (e *FactEngine) FactsAt(target ast.Node, req *Formula) (bool, string, error) {
	body := innermostBody(e.fn, target)
	// synchronous callback literals (direct call arguments, not go/defer) see the facts of
	// their creation point: walk outward while the enclosing literal is synchronous
	chain := []*ast.BlockStmt{body}
	for {
		lit := litOfBody(e.fn, chain[0])
		if lit == nil || !syncLiteral(e.fn, lit) {
			break
		}
		chain = append([]*ast.BlockStmt{innermostBody(e.fn, lit)}, chain...)
	}
	u, err := e.newUniverse(req, chain[0], target)
	if err != nil {
		return false, "", err
	}
	state := u.valid.clone()
	var w *walker
	for i, b := range chain {
		var tgt ast.Node = target
		if i+1 < len(chain) {
			tgt = litOfBody(e.fn, chain[i+1])
		}
		w = &walker{e: e, u: u, sc: e.fnScope(), target: tgt}
		w.stmts(b.List, state)
		if e.undecided != "" || !w.hit {
			break
		}
		state = w.at
	}
	if e.undecided != "" {
		return false, "", fmt.Errorf("unsupported control flow: %s", e.undecided)
	}
	if !w.hit {
		return false, "", fmt.Errorf("target not reached by the structured walk")
	}
	// exact truth set of req: valuations where req evaluates true
	reqSet := newVset(len(u.atoms))
	for v := 0; v < 1<<uint(len(u.atoms)); v++ {
		if u.valid.has(v) && evalFormula(req, u, v) {
			reqSet.set(v)
		}
	}
	if w.at.subset(reqSet) {
		return true, "", nil
	}
	for v := 0; v < 1<<uint(len(u.atoms)); v++ {
		if w.at.has(v) && !reqSet.has(v) {
			return false, "reachable with: " + u.describe(v), nil
		}
	}
	return false, "?", nil
}

func evalFormula(f *Formula, u *universe, v int) bool {
	switch f.k {
	case fTrue:
		return true
	case fFalse:
		return false
	case fAtom:
		return v&(1<<uint(u.idx[f.atom])) != 0
	case fNot:
		return !evalFormula(f.sub[0], u, v)
	case fAnd:
		return evalFormula(f.sub[0], u, v) && evalFormula(f.sub[1], u, v)
	case fOr:
		return evalFormula(f.sub[0], u, v) || evalFormula(f.sub[1], u, v)
	}
	return false
}

// Require adds an obligation: req (Go expression, with $-placeholders
// substituted from subst) must hold at target inside fn.
func (c *Ctx) Require(rule, key string, fn *FuncInfo, target ast.Node, req string, subst map[string]string) *Obligation {
	src := req
	// longest placeholder first
	var ks []string
	for k := range subst {
		ks = append(ks, k)
	}
	sort.Slice(ks, func(i, j int) bool { return len(ks[i]) > len(ks[j]) })
	for _, k := range ks {
		src = strings.ReplaceAll(src, k, subst[k])
	}
	e := NewFactEngine(c.P, fn)
	f, err := e.ParseReq(src, target.Pos())
	if err != nil {
		return c.Undec(rule, key, c.P.Pos(target), fn.Key(), src, err.Error())
	}
	ok, cex, err := e.FactsAt(target, f)
	if err != nil {
		return c.Undec(rule, key, c.P.Pos(target), fn.Key(), src, err.Error())
	}
	if ok {
		return c.OK(rule, key, c.P.Pos(target), fn.Key(), src)
	}
	return c.Bad(rule, key, c.P.Pos(target), fn.Key(), src, cex)
}

// RequireF is Require with a programmatically built requirement.
func (c *Ctx) RequireF(rule, key string, fn *FuncInfo, target ast.Node, desc string, build func(e *FactEngine) (*Formula, error)) *Obligation {
	e := NewFactEngine(c.P, fn)
	f, err := build(e)
	if err != nil {
		return c.Undec(rule, key, c.P.Pos(target), fn.Key(), desc, err.Error())
	}
	ok, cex, err := e.FactsAt(target, f)
	if err != nil {
		return c.Undec(rule, key, c.P.Pos(target), fn.Key(), desc, err.Error())
	}
	if ok {
		return c.OK(rule, key, c.P.Pos(target), fn.Key(), desc)
	}
	return c.Bad(rule, key, c.P.Pos(target), fn.Key(), desc, cex)
}

// Expr parses a Go expression in the scope at pos and returns its formula.
func (e *FactEngine) Expr(src string, pos token.Pos) (*Formula, error) { return e.ParseReq(src, pos) }

// Cond returns the formula of an expression of the analysed function.
func (e *FactEngine) Cond(x ast.Expr) *Formula { return e.boolForm(x, e.fnScope()) }

// CallResultAtom names the boolean first result of a two-value call at its call site.
func (e *FactEngine) CallResultAtom(call *ast.CallExpr) string {
	return "res0(" + e.canon(call, e.fnScope(), nil) + fmt.Sprintf(")@%d", call.Pos())
}

// litOfBody returns the function literal whose body is b (nil for the declaration body).
func litOfBody(fn *FuncInfo, b *ast.BlockStmt) *ast.FuncLit {
	var out *ast.FuncLit
	ast.Inspect(fn.Decl.Body, func(n ast.Node) bool {
		if fl, ok := n.(*ast.FuncLit); ok && fl.Body == b {
			out = fl
		}
		return out == nil
	})
	return out
}

// syncLiteral: the literal is a direct argument (or callee) of a call that is not a go / defer
// statement and is not stored: it runs while its creator is on the stack.
func syncLiteral(fn *FuncInfo, fl *ast.FuncLit) bool {
	path := pathTo(fn.Decl.Body, fl)
	direct := false
	for i := len(path) - 2; i >= 0; i-- {
		switch path[i].(type) {
		case *ast.CallExpr:
			if i == len(path)-2 {
				direct = true
			}
		case *ast.GoStmt, *ast.DeferStmt:
			return false
		case ast.Stmt:
			return direct
		case *ast.FuncLit:
			return direct
		}
	}
	return false
}

// neverNilResult: every return statement of fi yields, as result i, a freshly made object
// (&T{…}, new(T)) or a local whose every definition is one.
func neverNilResult(fi *FuncInfo, i int) bool {
	if fi.Decl.Body == nil {
		return false
	}
	sig := fi.Obj.Type().(*types.Signature)
	if i >= sig.Results().Len() {
		return false
	}
	if _, isPtr := sig.Results().At(i).Type().Underlying().(*types.Pointer); !isPtr {
		return false
	}
	info := fi.Info()
	fresh := func(x ast.Expr) bool {
		x = ast.Unparen(x)
		if u, ok := x.(*ast.UnaryExpr); ok && u.Op == token.AND {
			_, isLit := ast.Unparen(u.X).(*ast.CompositeLit)
			return isLit
		}
		return nonNilProducer(info, x)
	}
	rets := declReturns(fi.Decl.Body)
	if len(rets) == 0 {
		return false
	}
	for _, r := range rets {
		if len(r.Results) != sig.Results().Len() {
			return false
		}
		x := ast.Unparen(r.Results[i])
		if fresh(x) {
			continue
		}
		o := identObj(info, x)
		if o == nil {
			return false
		}
		ds := varDefs(fi, o)
		if len(ds) == 0 {
			return false
		}
		for _, d := range ds {
			if d.rhs == nil || !fresh(d.rhs) {
				return false
			}
		}
		addr := false
		ast.Inspect(fi.Decl.Body, func(n ast.Node) bool {
			if u, ok := n.(*ast.UnaryExpr); ok && u.Op == token.AND && identObj(info, u.X) == o {
				addr = true
			}
			return !addr
		})
		if addr {
			return false
		}
	}
	return true
}
