package main

// C15 — user-controlled input can be rejected but can never crash a component (partial):
// an enumerated set of panic-capable constructs in the frozen input-handling scope must
// be dominated by a guard.

import (
	"fmt"
	"go/ast"
	"go/constant"
	"go/token"
	"go/types"
	"regexp"
	"sort"
	"strconv"
	"strings"
)

func init() { registry["C15"] = c15 }

// c15Scope: functions that decode or walk user-writable values (annotations,
// CNI configuration, ConfigMap content, stored records). Same-package callees
// one level down are added automatically.
var c15Scope = []struct{ pkg, fn string }{
	{"pkg/k8s", "parseBandwidth"},
	{"pkg/k8s", "convertPod"},
	{"types/controlplane", "ParsePodNetworksFromAnnotation"},
	{"types/controlplane", "ParsePodNetworksFromRequest"},
	{"pkg/controller/pod-eni", "podNumaHints"},
	{"pkg/controller/pod-eni", "ReconcilePodENI.getENIIndex"},
	{"pkg/controller/status", "NodeStatus.RequestNetworkIndex"},
	{"pkg/controller/webhook", "podWebhook"},
	{"pkg/controller/webhook", "podNetworkingWebhook"},
	{"types/daemon", "MergeConfigAndUnmarshal"},
	{"types/daemon", "ConfigFromConfigMap"},
	{"types/daemon", "GetConfigFromFileWithMerge"},
	{"pkg/eni", "Local.load"},
	{"pkg/eni", "parseResourceID"},
	{"types", "BuildIPNet"},
	{"types", "ToIPSet"},
	{"types", "ToIPNetSet"},
	{"plugin/terway", "parseSetupConf"},
	{"plugin/terway", "parseTearDownConf"},
	{"plugin/terway", "parseCheckConf"},
	{"plugin/terway", "getCmdArgs"},
	{"cmd/terway-cli", "mergeConfigList"},
	{"cmd/terway-cli", "storeRuntimeConfig"},
	{"daemon", "networkService.gcPods"},
	{"daemon", "ruleSync"},
	{"daemon", "getPodResources"},
	{"daemon", "filterENINotFound"},
	{"pkg/vswitch", "SwitchPool.GetOne"},    // candidate ids come from the pod-networks annotation / eni_conf
	{"plugin/datapath", "dstIPRule"},        // host_stack_cidrs of the CNI configuration
	{"pkg/aliyun/client", "NewRateLimiter"}, // rate_limit of the configuration
	{"pkg/aliyun/client", "RateLimiter.Wait"},
}

// c15Exceptions: obligation key prefix -> reason.
var c15Exceptions = map[string]string{
	"P3 daemon.getPodResources: resObj.(daemon.PodResources)":                                        "the value comes from the resource database, whose deserializer (InitResourceDB) only ever produces daemon.PodResources",
	"P4 pkg/k8s.podNetworkType: panic":                                                               "unknown daemon mode: a start-up argument validated by the daemon command, not user input per pod",
	"P4 plugin/terway.getDatePath: panic":                                                            "unsupported IP type: the value is produced by the daemon (C12.R3 shows the switch covers every declared type), not by the user",
	"P3 cmd/terway-cli.storeRuntimeConfig: plugin.Path(\"network_policy_provider\").Data().(string)": "reads the file mergeConfigList just wrote: mergeConfigList rejects a non-string network_policy_provider before writing",
	"P3 cmd/terway-cli.storeRuntimeConfig: plugin.Path(\"eniip_virtual_type\").Data().(string)":      "reads the file mergeConfigList just wrote: eniip_virtual_type is either deleted or one of the declared string constants there (C20.R2)",
}

// c15Defaulted: pointer fields of configuration objects that the loader fills in on every
// success path (checked), so that later dereferences are safe.
var c15Defaulted = map[string]struct{ pkg, fn, obj string }{
	"EnableTrunk":                 {"types/controlplane", "ParseAndValidate", "c"},
	"EnableWebhookInjectResource": {"types/controlplane", "ParseAndValidate", "c"},
}

func c15(c *Ctx) {
	p := c.P
	// the two functions named in the exception table stay functions in the expanded view, so that an
	// exception keeps meaning "this panic in this function" and nothing wider
	p.Func("pkg/k8s", "podNetworkType")
	p.Func("plugin/terway", "getDatePath")
	c.Rule("C15.P1", "a result of strings.Index*/LastIndex*/IndexFunc used as an index or slice bound is dominated by a test that excludes −1")
	c.Rule("C15.P2", "a constant index into a slice-typed local (Split/Fields/FindStringSubmatch results, filtered lists …) is dominated by len > k (the guaranteed first element of strings.Split is known)")
	c.Rule("C15.P3", "no single-value type assertion (only comma-ok or type switch) on decoded values")
	c.Rule("C15.P4", "no panic(…) / Must*(non-constant) on the input path")
	c.Rule("C15.P5", "contradiction: a pointer that is nil-checked somewhere in the function is not dereferenced unguarded elsewhere in it")
	c.Rule("C15.P6", "a pointer field of a decoded object is dereferenced (*p) only under p != nil")
	c.Rule("C15.P11", "a slice obtained from To4() / To16() is passed to binary.*.UintNN only where it is known to be non-nil (an address or mask of the other family yields nil)")
	c.Rule("C15.P7", "decoder entry points never return (nil, nil): on a success return the decoded pointer is non-nil")
	c.Rule("C15.U1", "bandwidth units: the case labels of parseBandwidth map to multipliers with K < M < G < T, the unit-less label is present, and the numeric part is cut at the first letter or at the end of the string")
	// resolve scope
	seen := map[*FuncInfo]bool{}
	var scope []*FuncInfo
	for _, s := range c15Scope {
		fn := p.Func(s.pkg, s.fn)
		if fn == nil {
			c.Unres("C15", s.pkg+"."+s.fn, "scope function not found")
			continue
		}
		if !seen[fn] {
			seen[fn] = true
			scope = append(scope, fn)
		}
	}
	for _, fn := range append([]*FuncInfo(nil), scope...) {
		for _, cs := range p.CallsIn(fn) {
			if callee := p.FuncOf(cs.Callee); callee != nil && callee.Pkg == fn.Pkg && !seen[callee] && callee.Decl.Recv == nil {
				seen[callee] = true
				scope = append(scope, callee)
			} else if callee != nil && callee.Pkg != fn.Pkg && !seen[callee] && callee.Decl.Recv == nil && passesParam(fn, cs.Call) {
				// a helper of another package that is handed (part of) the input
				seen[callee] = true
				scope = append(scope, callee)
			}
		}
	}
	sort.Slice(scope, func(i, j int) bool { return scope[i].Key() < scope[j].Key() })
	c.Floor("C15", "functions in the input-handling scope", 30, len(scope))
	counts := map[string]int{}
	for _, fn := range scope {
		c15P1(c, fn, counts)
		c15P2(c, fn, counts)
		c15P3(c, fn, counts)
		c15P4(c, fn, counts)
		counts["P5"] += contradictionRule(c, "C15.P5", fn)
		c15P6(c, fn, counts)
		c15P7(c, fn, counts)
		c15P11(c, fn, counts)
	}
	c15P3Premise(c)
	for _, r := range []struct {
		rule string
		min  int
	}{{"P1", 1}, {"P2", 3}, {"P3", 1}, {"P4", 1}, {"P7", 3}} {
		c.Floor("C15."+r.rule, "sites examined", r.min, counts[r.rule])
	}
	for k, v := range counts {
		c.Stats["C15."+k+" sites"] = v
	}
	c15U1(c)
	ruleNilMapField(c, "C15.P8", p.live())
	ruleTypedNil(c, "C15.P9", p.live())
	ruleNoDeleteFromTotalMap(c, "C15.P10")
	ruleNilErrorMethod(c, "C15.P13", p.live(), "the whole module")
	ruleIntDivGuard(c, "C15.P14", p.live(), "the whole module")
	ruleRangeShrink(c, "C15.P12", "the whole module (stored records and configuration are filtered in place at start-up)")
}

func c15Excepted(c *Ctx, rule, key string, pos string, fn *FuncInfo) bool {
	full := strings.TrimPrefix(rule, "C15.") + " " + key
	for pre, reason := range c15Exceptions {
		if strings.HasPrefix(full, pre) {
			o := c.OK(rule, key+" (listed exception)", pos, fn.Key(), reason)
			o.NonTrivial = false
			return true
		}
	}
	return false
}

var indexFuncs = map[string]bool{"Index": true, "IndexAny": true, "IndexByte": true, "IndexFunc": true, "IndexRune": true, "LastIndex": true, "LastIndexAny": true, "LastIndexByte": true, "LastIndexFunc": true}

func c15P1(c *Ctx, fn *FuncInfo, counts map[string]int) {
	p := c.P
	info := fn.Info()
	idxVars := map[types.Object]bool{}
	ast.Inspect(fn.Decl.Body, func(nd ast.Node) bool {
		as, ok := nd.(*ast.AssignStmt)
		if !ok || len(as.Lhs) != 1 || len(as.Rhs) != 1 {
			return true
		}
		if call, ok := ast.Unparen(as.Rhs[0]).(*ast.CallExpr); ok {
			if cal := Callee(info, call); cal != nil && cal.Pkg() != nil && (cal.Pkg().Path() == "strings" || cal.Pkg().Path() == "bytes") && indexFuncs[cal.Name()] {
				if o := identObj(info, as.Lhs[0]); o != nil {
					idxVars[o] = true
				}
			}
		}
		return true
	})
	if len(idxVars) == 0 {
		return
	}
	// variables that receive a copy of such a result carry the same −1
	for round := 0; round < 2; round++ {
		ast.Inspect(fn.Decl.Body, func(nd ast.Node) bool {
			as, ok := nd.(*ast.AssignStmt)
			if !ok || len(as.Lhs) != len(as.Rhs) {
				return true
			}
			for i, r := range as.Rhs {
				if src := identObj(info, r); src != nil && idxVars[src] {
					if dst := identObj(info, as.Lhs[i]); dst != nil {
						idxVars[dst] = true
					}
				}
			}
			return true
		})
	}
	uses := func(x ast.Expr) types.Object {
		var found types.Object
		if x == nil {
			return nil
		}
		ast.Inspect(x, func(k ast.Node) bool {
			if id, ok := k.(*ast.Ident); ok && idxVars[info.ObjectOf(id)] {
				found = info.ObjectOf(id)
			}
			return true
		})
		return found
	}
	ast.Inspect(fn.Decl.Body, func(nd ast.Node) bool {
		var at ast.Node
		var o types.Object
		switch t := nd.(type) {
		case *ast.SliceExpr:
			for _, b := range []ast.Expr{t.Low, t.High, t.Max} {
				if v := uses(b); v != nil {
					at, o = t, v
				}
			}
		case *ast.IndexExpr:
			if _, isMap := info.TypeOf(t.X).Underlying().(*types.Map); !isMap {
				if v := uses(t.Index); v != nil {
					at, o = t, v
				}
			}
		}
		if at == nil {
			return true
		}
		counts["P1"]++
		key := fmt.Sprintf("%s: %s used as bound in %s", fn.Key(), o.Name(), exprString(at.(ast.Expr)))
		// the library never returns less than −1: i < −1 is spurious
		c.Require("C15.P1", key, fn, at, fmt.Sprintf("%[1]s < -1 || %[1]s >= 0", o.Name()), nil)
		return true
	})
	_ = p
}

var splitFuncs = map[string]bool{"Split": true, "SplitN": true, "SplitAfter": true, "SplitAfterN": true}

func c15P2(c *Ctx, fn *FuncInfo, counts map[string]int) {
	info := fn.Info()
	ast.Inspect(fn.Decl.Body, func(nd ast.Node) bool {
		ix, ok := nd.(*ast.IndexExpr)
		if !ok {
			return true
		}
		// a constant, directly or as the only value of a local (`index := 0`)
		k, isC := constInt(info, derefExpr(fn, ix.Index))
		if !isC {
			return true
		}
		if _, isSlice := info.TypeOf(ix.X).Underlying().(*types.Slice); !isSlice {
			return true
		}
		o := identObj(info, ix.X)
		if o == nil {
			// field paths of decoded objects with constant index (e.g. pod.Spec.Containers[0])
			if _, isSel := ast.Unparen(ix.X).(*ast.SelectorExpr); !isSel {
				return true
			}
		}
		counts["P2"]++
		key := fmt.Sprintf("%s: %s", fn.Key(), exprString(ix))
		// strings.Split with a non-empty separator always yields at least one element
		if o != nil && k == 0 {
			allSplit := true
			ds := varDefs(fn, o)
			for _, d := range ds {
				call, ok := ast.Unparen(d.rhs).(*ast.CallExpr)
				if !ok {
					allSplit = false
					break
				}
				cal := Callee(info, call)
				if cal == nil || cal.Pkg() == nil || cal.Pkg().Path() != "strings" || !splitFuncs[cal.Name()] {
					allSplit = false
					break
				}
				if tv := info.Types[call.Args[1]]; tv.Value == nil || constant.StringVal(tv.Value) == "" {
					allSplit = false
				}
			}
			if allSplit && len(ds) > 0 {
				o2 := c.OK("C15.P2", key+" (first element of strings.Split)", c.P.Pos(ix), fn.Key(), "Split with a non-empty separator returns at least one element")
				o2.NonTrivial = false
				return true
			}
		}
		// constant-length literals
		if o != nil {
			for _, d := range varDefs(fn, o) {
				if cl, ok := ast.Unparen(d.rhs).(*ast.CompositeLit); ok && int64(len(cl.Elts)) > k && len(varDefs(fn, o)) == 1 {
					o2 := c.OK("C15.P2", key+" (literal)", c.P.Pos(ix), fn.Key(), "index within a literal's length")
					o2.NonTrivial = false
					return true
				}
			}
		}
		req := fmt.Sprintf("len(%s) > %d", exprString(ix.X), k)
		// a bound the callers establish: when the slice hangs off a parameter and the function itself
		// does not test it, the requirement is judged at every call site instead (closed world)
		if root := rootIdent(ix.X); root != nil {
			if pv, _ := info.ObjectOf(root).(*types.Var); pv != nil && paramIndex(fn, pv) >= 0 {
				pi := paramIndex(fn, pv)
				e := NewFactEngine(c.P, fn)
				if f, err := e.ParseReq(req, ix.Pos()); err == nil {
					if ok, _, _ := e.FactsAt(ix, f); !ok {
						sites := c.P.CallsTo(nil, fn.Obj)
						usable := len(sites) > 0 && !c.P.valueReferenced(fn.Obj)
						for _, cs := range sites {
							if pi >= len(cs.Call.Args) || !isPurePath(cs.Call.Args[pi]) {
								usable = false
							}
						}
						if usable {
							for _, cs := range sites {
								arg := exprString(cs.Call.Args[pi])
								at := strings.Replace(exprString(ix.X), root.Name, arg, 1)
								c.Require("C15.P2", key+" (bound established by the caller "+cs.Fn.Key()+")", cs.Fn, cs.Call, fmt.Sprintf("len(%s) > %d", at, k), nil)
							}
							return true
						}
					}
				}
			}
		}
		c.Require("C15.P2", key, fn, ix, req, nil)
		return true
	})
}

// rootIdent is the identifier a selector / index path starts at.
func rootIdent(x ast.Expr) *ast.Ident {
	for {
		switch t := ast.Unparen(x).(type) {
		case *ast.Ident:
			return t
		case *ast.SelectorExpr:
			x = t.X
		case *ast.IndexExpr:
			x = t.X
		case *ast.StarExpr:
			x = t.X
		default:
			return nil
		}
	}
}

// c15P3Premise: the two single-value assertions of storeRuntimeConfig are excepted because they read what
// mergeConfigList has just written and mergeConfigList rejects a value of another type — that premise is
// checked, not assumed: in mergeConfigList the comma-ok assertion on network_policy_provider is followed
// by `if !ok { return …, <error> }`.
func c15P3Premise(c *Ctx) {
	p := c.P
	fn := p.Func("cmd/terway-cli", "mergeConfigList")
	key := "mergeConfigList rejects a network_policy_provider that is not a string (premise of the storeRuntimeConfig exception)"
	if fn == nil {
		c.Unres("C15.P3", "cmd/terway-cli.mergeConfigList", "not found")
		return
	}
	info := fn.Info()
	sig := fn.Obj.Type().(*types.Signature)
	found, okReject := false, false
	var at ast.Node = fn.Decl
	ast.Inspect(fn.Decl.Body, func(nd ast.Node) bool {
		var list []ast.Stmt
		switch b := nd.(type) {
		case *ast.BlockStmt:
			list = b.List
		case *ast.CaseClause:
			list = b.Body
		}
		for i, st := range list {
			as, ok := st.(*ast.AssignStmt)
			if !ok || len(as.Lhs) != 2 || len(as.Rhs) != 1 {
				continue
			}
			ta, ok := ast.Unparen(as.Rhs[0]).(*ast.TypeAssertExpr)
			if !ok || !strings.Contains(exprStringFolded(info, ta), `Path("network_policy_provider")`) {
				continue
			}
			found, at = true, as
			okObj := identObj(info, as.Lhs[1])
			if i+1 < len(list) {
				if is, ok := list[i+1].(*ast.IfStmt); ok && is.Init == nil && len(is.Body.List) > 0 {
					if ue, ok := ast.Unparen(is.Cond).(*ast.UnaryExpr); ok && ue.Op == token.NOT && okObj != nil && identObj(info, ue.X) == okObj {
						if r, ok := is.Body.List[len(is.Body.List)-1].(*ast.ReturnStmt); ok && guardedFailure(fn, sig, r) {
							okReject = true
						}
					}
				}
			}
		}
		return true
	})
	if !found {
		c.Undec("C15.P3", key, p.Pos(fn.Decl), fn.Key(), `v, ok := plugin.Path("network_policy_provider").Data().(string); if !ok { return "", err }`, "the comma-ok assertion was not found")
		return
	}
	c.Check(okReject, "C15.P3", key, p.Pos(at), fn.Key(), `if !ok { return "", <error> }`, "a value of another type is tolerated here and copied into the file storeRuntimeConfig reads with a single-value assertion")
}

func c15P3(c *Ctx, fn *FuncInfo, counts map[string]int) {
	info := fn.Info()
	// comma-ok assertions and type switches are fine
	okAsserts := map[*ast.TypeAssertExpr]bool{}
	ast.Inspect(fn.Decl.Body, func(nd ast.Node) bool {
		switch t := nd.(type) {
		case *ast.AssignStmt:
			if len(t.Lhs) == 2 && len(t.Rhs) == 1 {
				if ta, ok := ast.Unparen(t.Rhs[0]).(*ast.TypeAssertExpr); ok {
					okAsserts[ta] = true
				}
			}
		case *ast.ValueSpec:
			if len(t.Names) == 2 && len(t.Values) == 1 {
				if ta, ok := ast.Unparen(t.Values[0]).(*ast.TypeAssertExpr); ok {
					okAsserts[ta] = true
				}
			}
		case *ast.TypeSwitchStmt:
			ast.Inspect(t.Assign, func(k ast.Node) bool {
				if ta, ok := k.(*ast.TypeAssertExpr); ok {
					okAsserts[ta] = true
				}
				return true
			})
		}
		return true
	})
	ast.Inspect(fn.Decl.Body, func(nd ast.Node) bool {
		ta, ok := nd.(*ast.TypeAssertExpr)
		if !ok || ta.Type == nil {
			return true
		}
		counts["P3"]++
		key := fmt.Sprintf("%s: %s", fn.Key(), exprStringFolded(info, ta))
		if okAsserts[ta] {
			c.OK("C15.P3", key, c.P.Pos(ta), fn.Key(), "comma-ok / type switch")
			return true
		}
		if c15Excepted(c, "C15.P3", key, c.P.Pos(ta), fn) {
			return true
		}
		c.Bad("C15.P3", key, c.P.Pos(ta), fn.Key(), "v, ok := x.(T)", "single-value assertion panics when the decoded value has another type")
		_ = info
		return true
	})
}

func c15P4(c *Ctx, fn *FuncInfo, counts map[string]int) {
	info := fn.Info()
	ast.Inspect(fn.Decl.Body, func(nd ast.Node) bool {
		call, ok := nd.(*ast.CallExpr)
		if !ok {
			return true
		}
		name := calleeName(info, call)
		isPanic := false
		if id, ok := call.Fun.(*ast.Ident); ok && id.Name == "panic" {
			if _, isB := info.Uses[id].(*types.Builtin); isB {
				isPanic = true
			}
		}
		short := name
		if i := strings.LastIndexByte(short, '.'); i >= 0 {
			short = short[i+1:]
		}
		isMust := strings.HasPrefix(short, "Must") && len(short) > 4
		if !isPanic && !isMust {
			return true
		}
		counts["P4"]++
		key := fmt.Sprintf("%s: %s", fn.Key(), map[bool]string{true: "panic", false: name}[isPanic])
		if isMust {
			allConst := true
			for _, a := range call.Args {
				if info.Types[a].Value == nil {
					allConst = false
				}
			}
			if allConst {
				c.OK("C15.P4", key+" (constant argument)", c.P.Pos(call), fn.Key(), "Must* over compile-time constants cannot fail at run time")
				return true
			}
			// Must*(x) where x was produced by a total formatter (strconv.Itoa / String()) is fine
			total := true
			for _, a := range call.Args {
				ac, ok := ast.Unparen(a).(*ast.CallExpr)
				if !ok {
					total = false
					continue
				}
				n := calleeName(info, ac)
				if !(n == "Itoa" || strings.HasSuffix(n, ".String") || n == "String") {
					total = false
				}
			}
			if total {
				c.OK("C15.P4", key+" (argument produced by a total formatter)", c.P.Pos(call), fn.Key(), "the argument is the output of strconv.Itoa / String(), always parseable")
				return true
			}
		}
		if c15Excepted(c, "C15.P4", key, c.P.Pos(call), fn) {
			return true
		}
		c.Bad("C15.P4", key, c.P.Pos(call), fn.Key(), "malformed input is reported as an error", "panics on the input path")
		return true
	})
}

func c15P6(c *Ctx, fn *FuncInfo, counts map[string]int) {
	info := fn.Info()
	ast.Inspect(fn.Decl.Body, func(nd ast.Node) bool {
		st, ok := nd.(*ast.StarExpr)
		if !ok {
			return true
		}
		// only value dereferences of field paths (not type expressions, not locals)
		if tv, ok := info.Types[st]; !ok || tv.IsType() {
			return true
		}
		if _, isSel := ast.Unparen(st.X).(*ast.SelectorExpr); !isSel {
			return true
		}
		if fieldOf(info, st.X) == nil {
			return true
		}
		counts["P6"]++
		key := fmt.Sprintf("%s: *%s", fn.Key(), exprString(st.X))
		if d, ok := c15Defaulted[fieldOf(info, st.X).Name()]; ok {
			if loader := c.P.Func(d.pkg, d.fn); loader != nil {
				sig := loader.Obj.Type().(*types.Signature)
				okAll := true
				for _, r := range declReturns(loader.Decl.Body) {
					if s, known := isSuccessReturn(loader.Info(), sig, r); s && known {
						o := c.Require("C15.P6", key+" (field defaulted by "+d.fn+")", loader, r, d.obj+"."+fieldOf(info, st.X).Name()+" != nil", nil)
						okAll = okAll && o.Verdict == Discharged
					}
				}
				if okAll {
					return true
				}
			}
		}
		c.Require("C15.P6", key, fn, st, exprString(st.X)+" != nil", nil)
		return true
	})
}

func c15P7(c *Ctx, fn *FuncInfo, counts map[string]int) {
	info := fn.Info()
	sig := fn.Obj.Type().(*types.Signature)
	if sig.Results().Len() != 2 || errResultIndex(sig) != 1 {
		return
	}
	if _, isPtr := sig.Results().At(0).Type().(*types.Pointer); !isPtr {
		return
	}
	// decoders: the function calls an Unmarshal
	decodes := false
	for _, cs := range c.P.CallsIn(fn) {
		if cs.Callee != nil && strings.Contains(cs.Callee.Name(), "Unmarshal") {
			decodes = true
		}
	}
	if !decodes {
		return
	}
	for _, r := range declReturns(fn.Decl.Body) {
		if len(r.Results) != 2 {
			continue
		}
		// success or unknown-error returns
		if tv := info.Types[ast.Unparen(r.Results[0])]; tv.IsNil() {
			// nil result must come with a non-nil error
			if info.Types[ast.Unparen(r.Results[1])].IsNil() {
				counts["P7"]++
				c.Bad("C15.P7", fn.Key()+": return nil, nil", c.P.Pos(r), fn.Key(), "a decoder returns a value or an error", "callers dereference the result when err == nil")
			}
			continue
		}
		counts["P7"]++
		if ue, ok := ast.Unparen(r.Results[0]).(*ast.UnaryExpr); ok && ue.Op == token.AND {
			c.OK("C15.P7", fn.Key()+": returns the address of a value", c.P.Pos(r), fn.Key(), "&x is never nil")
			continue
		}
		// value produced by another decoder of the scope: non-nil whenever that call's error is nil
		if o := identObj(info, r.Results[0]); o != nil {
			byCallee := false
			for _, d := range varDefs(fn, o) {
				as, ok := d.node.(*ast.AssignStmt)
				if !ok || len(as.Rhs) != 1 || len(as.Lhs) != 2 {
					continue
				}
				call, ok := ast.Unparen(as.Rhs[0]).(*ast.CallExpr)
				if !ok {
					continue
				}
				callee := c.P.FuncOf(Callee(info, call))
				if callee == nil {
					continue
				}
				csig := callee.Obj.Type().(*types.Signature)
				if csig.Results().Len() == 2 && errResultIndex(csig) == 1 {
					if errObj := identObj(info, as.Lhs[1]); errObj != nil {
						byCallee = true
						c.RequireF("C15.P7", fn.Key()+": decoded pointer comes from "+callee.Name+" with a nil error", fn, r, errObj.Name()+" == nil (then "+callee.Name+" guarantees a non-nil result, checked on it)", func(e *FactEngine) (*Formula, error) {
							return e.eqAtom(objID(errObj), "nil", []string{objID(errObj)}), nil
						})
						// the callee itself is examined
						c15P7(c, callee, counts)
					}
				}
			}
			if byCallee {
				continue
			}
		}
		c.Require("C15.P7", fn.Key()+": decoded pointer is non-nil on return", fn, r, exprString(r.Results[0])+" != nil", nil)
	}
}

func c15U1(c *Ctx) {
	p := c.P
	fn := p.Func("pkg/k8s", "parseBandwidth")
	if fn == nil {
		c.Unres("C15.U1", "parseBandwidth", "not found")
		return
	}
	info := fn.Info()
	var sw *ast.SwitchStmt
	ast.Inspect(fn.Decl.Body, func(nd ast.Node) bool {
		if s, ok := nd.(*ast.SwitchStmt); ok && s.Tag != nil && sw == nil {
			sw = s
		}
		return true
	})
	if sw == nil {
		c.Bad("C15.U1", "unit switch", p.Pos(fn.Decl), fn.Key(), "switch <unit> { case … }", "not found")
		return
	}
	mult := map[string]float64{}
	hasEmpty := false
	for _, cl := range sw.Body.List {
		cc := cl.(*ast.CaseClause)
		var m float64 = -1
		for _, s := range cc.Body {
			if r, ok := s.(*ast.ReturnStmt); ok && len(r.Results) == 2 && info.Types[ast.Unparen(r.Results[1])].IsNil() {
				m = 1
				ast.Inspect(r.Results[0], func(k ast.Node) bool {
					if be, ok := k.(*ast.BinaryExpr); ok && be.Op == token.MUL {
						if tv := info.Types[be.Y]; tv.Value != nil {
							m, _ = constant.Float64Val(constant.ToFloat(tv.Value))
						}
					}
					return true
				})
			}
		}
		for _, x := range cc.List {
			if tv := info.Types[x]; tv.Value != nil {
				l := constant.StringVal(tv.Value)
				if l == "" {
					hasEmpty = true
				}
				mult[l] = m
			}
		}
	}
	order := []string{"K", "M", "G", "T"}
	ok := mult["B"] == 1 && mult[""] == 1
	prev := float64(1)
	for _, u := range order {
		if !(mult[u] > prev) {
			ok = false
		}
		prev = mult[u]
		for _, alias := range []string{u + "B", u + "IB"} {
			if mult[alias] != mult[u] {
				ok = false
			}
		}
	}
	c.Check(ok, "C15.U1", "unit multipliers are strictly increasing B < K < M < G < T and aliases agree", p.Pos(sw), fn.Key(), "1 = B = \"\" < K=KB=KIB < M… < G… < T…", fmt.Sprintf("%v", mult))
	c.Check(hasEmpty, "C15.U1", "a value without unit is accepted", p.Pos(sw), fn.Key(), `case "B", "": bytes`, "no unit-less label")
	// the unit-less label is reachable: the split index is not required to be ≥ 0 to reach the switch —
	// i.e. the function has a path on which no letter was found that still reaches the switch
	q := NewPathQuery(p, fn, nil)
	fe := NewFactEngine(p, fn)
	var idx types.Object
	ast.Inspect(fn.Decl.Body, func(nd ast.Node) bool {
		if as, ok := nd.(*ast.AssignStmt); ok && len(as.Rhs) == 1 {
			if call, ok := ast.Unparen(as.Rhs[0]).(*ast.CallExpr); ok && calleeName(info, call) == "IndexFunc" {
				idx = identObj(info, as.Lhs[0])
			}
		}
		return true
	})
	if idx != nil {
		// assume "no letter found" (i < 0 initially): the switch tag must still be reachable
		q.Prune = func(cond ast.Expr, takeTrue bool) bool {
			v, known := eval3f(fe.Cond(cond), func(atom string) (bool, bool) {
				if t, k, ok := splitLt(atom); ok && t == "+1*"+objID(idx) && k == 0 {
					return true, true // i < 0
				}
				return false, false
			})
			// only prune when the branch returns (an early reject of unit-less input)
			return known && v != takeTrue
		}
		w := q.Escapes(nil, func(nd ast.Node) bool { return nd == ast.Node(sw.Tag) }, nil, nil)
		c.Check(w != nil, "C15.U1", "the unit-less case is reachable when the value has no letter", p.Pos(sw), fn.Key(), "a path with IndexFunc = −1 reaches the unit switch", "unit-less values are rejected before the switch")
	}
}

// passesParam: some argument of the call mentions a parameter of fn.
func passesParam(fn *FuncInfo, call *ast.CallExpr) bool {
	info := fn.Info()
	params := map[types.Object]bool{}
	for _, f := range fn.Decl.Type.Params.List {
		for _, nm := range f.Names {
			params[info.Defs[nm]] = true
		}
	}
	found := false
	for _, a := range call.Args {
		ast.Inspect(a, func(k ast.Node) bool {
			if id, ok := k.(*ast.Ident); ok && params[info.ObjectOf(id)] {
				found = true
			}
			return !found
		})
	}
	return found
}

// P11: a byte slice produced by To4() / To16() and handed to binary.*.UintNN is
// known not to be nil there (To4 of a 16-byte mask, or of an address that is not
// IPv4, is nil; UintNN of nil panics).
func c15P11(c *Ctx, fn *FuncInfo, counts map[string]int) {
	info := fn.Info()
	ast.Inspect(fn.Decl.Body, func(nd ast.Node) bool {
		call, ok := nd.(*ast.CallExpr)
		if !ok || len(call.Args) != 1 {
			return true
		}
		f := Callee(info, call)
		if f == nil || f.Pkg() == nil || f.Pkg().Path() != "encoding/binary" || !strings.HasPrefix(f.Name(), "Uint") {
			return true
		}
		v := identObj(info, call.Args[0])
		if v == nil {
			return true
		}
		fromTo4 := false
		for _, d := range varDefs(fn, v) {
			if d.rhs == nil {
				continue
			}
			if dc, ok := ast.Unparen(d.rhs).(*ast.CallExpr); ok {
				if sel, ok := ast.Unparen(dc.Fun).(*ast.SelectorExpr); ok && (sel.Sel.Name == "To4" || sel.Sel.Name == "To16") {
					fromTo4 = true
				}
			}
		}
		if !fromTo4 {
			return true
		}
		counts["P11"]++
		c.Require("C15.P11", fn.Key()+": "+f.Name()+"("+v.Name()+") with "+v.Name()+" from To4()/To16()", fn, call, v.Name()+" != nil", nil)
		return true
	})
}

// exprStringFolded prints x with named string constants replaced by their values, so that a key
// written as a literal and the same key behind a constant give the same text.
func exprStringFolded(info *types.Info, x ast.Expr) string {
	out := exprString(x)
	ast.Inspect(x, func(n ast.Node) bool {
		id, ok := n.(*ast.Ident)
		if !ok {
			return true
		}
		if cobj, isConst := info.ObjectOf(id).(*types.Const); isConst && cobj.Val().Kind() == constant.String {
			re := regexp.MustCompile(`\b` + regexp.QuoteMeta(id.Name) + `\b`)
			out = re.ReplaceAllLiteralString(out, strconv.Quote(constant.StringVal(cobj.Val())))
		}
		return true
	})
	return out
}
