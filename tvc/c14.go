package main

// C14 — address classifiers, derived gateways and interface names are exact (partial).

import (
	"fmt"
	"go/ast"
	"go/constant"
	"go/token"
	"go/types"
	"sort"
	"strings"
)

func init() { registry["C14"] = c14 }

func c14(c *Ctx) {
	c14R1(c)
	c14R2(c)
	c14R3(c)
	c14R4(c, "C14.R4")
	c14R6(c)
	c14R9(c)
	itemIndependent(c, "C14.R8", [][3]string{{eniPkg, "RemoteIPResource.ToRPC", "one configuration (with its own gateway) per allocation"}})
	ruleArgSwap(c, "C14.R7", c.P.AllFuncs(), "the whole module (names are derived from the namespace / name / interface triple in that order)")
	ruleStateless(c, "C14.R5", [][2]string{
		{"pkg/link", "VethNameForPod"},
		{"plugin/driver/utils", "GetRouteTableID"},
		{"pkg/ip", "DeriveGatewayIP"},
		{"pkg/ip", "GetIPAtIndex"},
		{"pkg/tc", "U32MatchSrc"},
		{"pkg/tc", "U32IPv4Src"},
		{"pkg/tc", "U32IPv6Src"},
		{"pkg/tc", "MatchSrc"},
	})
}

func constInt(info *types.Info, x ast.Expr) (int64, bool) {
	if tv, ok := info.Types[x]; ok && tv.Value != nil {
		return constant.Int64Val(constant.ToInt(tv.Value))
	}
	return 0, false
}

func c14R1(c *Ctx) {
	p := c.P
	c.Rule("C14.R1", "host-side interface name: VethNameForPod returns prefix + the first K hex digits of a SHA-1 (K ≤ 40, so the slice is always in range) with len(prefix)+K ≤ 15 at every call site; it is a pure function of its arguments (fresh hasher, no package state) and the interface name is part of the hashed text")
	fn := p.Func("pkg/link", "VethNameForPod")
	if fn == nil {
		c.Unres("C14.R1", "link.VethNameForPod", "not found")
		return
	}
	info := fn.Info()
	params := map[string]types.Object{}
	for _, fld := range fn.Decl.Type.Params.List {
		for _, nm := range fld.Names {
			params[nm.Name] = info.Defs[nm]
		}
	}
	// success return: fmt.Sprintf("%s%s", prefix, <hex>[:K])
	K := int64(-1)
	okShape := false
	for _, r := range declReturns(fn.Decl.Body) {
		if len(r.Results) != 2 || !info.Types[ast.Unparen(r.Results[1])].IsNil() {
			continue
		}
		call, ok := ast.Unparen(derefExpr(fn, r.Results[0])).(*ast.CallExpr)
		if !ok || calleeName(info, call) != "Sprintf" || len(call.Args) != 3 {
			continue
		}
		f, _ := info.Types[call.Args[0]]
		if f.Value == nil || constant.StringVal(f.Value) != "%s%s" {
			continue
		}
		if identObj(info, call.Args[1]) != params["prefix"] {
			continue
		}
		se, ok := ast.Unparen(derefExpr(fn, call.Args[2])).(*ast.SliceExpr)
		if !ok || se.Low != nil || se.High == nil {
			continue
		}
		k, ok := constInt(info, se.High)
		if !ok {
			continue
		}
		// sliced value: hex.EncodeToString(h.Sum(nil)) with h := sha1.New()
		enc, ok := ast.Unparen(derefExpr(fn, se.X)).(*ast.CallExpr)
		if !ok || calleeName(info, enc) != "EncodeToString" || len(enc.Args) != 1 {
			continue
		}
		sum, ok := ast.Unparen(derefExpr(fn, enc.Args[0])).(*ast.CallExpr)
		if !ok || len(sum.Args) != 1 || !info.Types[ast.Unparen(sum.Args[0])].IsNil() {
			continue
		}
		sel, ok := ast.Unparen(sum.Fun).(*ast.SelectorExpr)
		if !ok || sel.Sel.Name != "Sum" {
			continue
		}
		h := identObj(info, sel.X)
		fresh := false
		if h != nil {
			ds := varDefs(fn, h)
			if len(ds) == 1 && ds[0].rhs != nil && exprString(ds[0].rhs) == "sha1.New()" {
				fresh = true
			}
		}
		if !fresh {
			c.Bad("C14.R1", "hasher is created fresh for every call", p.Pos(sum), fn.Key(), "h := sha1.New() (single definition, local)", "the hasher is not a fresh local: a reused hasher keeps earlier input and the name is no longer a function of the arguments")
			continue
		}
		K = k
		okShape = true
		// digest length: hex doubles sha1.Size = 20
		c.Check(k <= 40 && k > 0, "C14.R1", "hex slice bound within the digest", p.Pos(se), fn.Key(), "0 < K ≤ 2·sha1.Size = 40", fmt.Sprintf("K=%d", k))
	}
	c.Check(okShape, "C14.R1", "VethNameForPod = prefix ++ hex(sha1(…))[:K]", p.Pos(fn.Decl), fn.Key(), `return fmt.Sprintf("%s%s", prefix, hex.EncodeToString(h.Sum(nil))[:K]), nil with h := sha1.New()`, "shape not recognised")
	// purity: no package-level variables, callees within the allowed set
	var impure []string
	var scanPure func(f *FuncInfo, depth int)
	scanPure = func(f *FuncInfo, depth int) {
		finfo := f.Info()
		ast.Inspect(f.Decl.Body, func(nd ast.Node) bool {
			id, ok := nd.(*ast.Ident)
			if !ok {
				return true
			}
			switch o := finfo.ObjectOf(id).(type) {
			case *types.Var:
				if o.Pkg() != nil && o.Parent() == o.Pkg().Scope() {
					impure = append(impure, "package variable "+id.Name)
				}
			case *types.Func:
				full := o.FullName()
				switch {
				case strings.HasPrefix(full, "crypto/sha1."), strings.HasPrefix(full, "encoding/hex."), full == "fmt.Sprintf", strings.HasPrefix(full, "(hash.Hash)."), strings.HasPrefix(full, "(io.Writer)."):
				default:
					// a helper of the same package that is itself pure
					if h := p.FuncOf(o); h != nil && h.Pkg == fn.Pkg && h != f && depth < 2 {
						scanPure(h, depth+1)
					} else {
						impure = append(impure, "call "+full)
					}
				}
			}
			return true
		})
	}
	scanPure(fn, 0)
	c.Check(len(impure) == 0, "C14.R1", "VethNameForPod is a pure function of its arguments", p.Pos(fn.Decl), fn.Key(), "callees ⊆ {sha1, hex, fmt.Sprintf, hash.Write/Sum}, no package-level state", strings.Join(impure, "; "))
	// hashed text mentions namespace, name and ifName
	okText := false
	ast.Inspect(fn.Decl.Body, func(nd ast.Node) bool {
		if call, ok := nd.(*ast.CallExpr); ok {
			if sel, ok := ast.Unparen(call.Fun).(*ast.SelectorExpr); ok && sel.Sel.Name == "Write" && len(call.Args) == 1 {
				// everything the written text is built from, through locals (`key := …; key += …`)
				seen := map[types.Object]bool{}
				var add func(x ast.Expr, depth int)
				add = func(x ast.Expr, depth int) {
					ast.Inspect(x, func(k ast.Node) bool {
						id, ok := k.(*ast.Ident)
						if !ok {
							return true
						}
						o := info.ObjectOf(id)
						if o == nil || seen[o] {
							return true
						}
						seen[o] = true
						if v, isVar := o.(*types.Var); isVar && !v.IsField() && depth < 4 {
							for _, d := range varDefs(fn, o) {
								if d.rhs != nil {
									add(d.rhs, depth+1)
								}
							}
						}
						return true
					})
				}
				add(call.Args[0], 0)
				if seen[params["namespace"]] && seen[params["name"]] && seen[params["ifName"]] {
					okText = true
				}
			}
		}
		return true
	})
	c.Check(okText, "C14.R1", "namespace, name and interface name are all hashed", p.Pos(fn.Decl), fn.Key(), "h.Write([]byte(namespace … name … ifName))", "a component is missing from the hashed text")
	// call sites: constant prefix with len + K ≤ 15
	sites := p.CallsTo(nil, fn.Obj)
	c.Floor("C14.R1", "VethNameForPod call sites", 3, len(sites))
	for _, cs := range sites {
		tv := cs.Fn.Info().Types[cs.Call.Args[3]]
		if tv.Value == nil {
			// a variable prefix: accept when every definition is a constant
			c.Bad("C14.R1", "prefix constant at "+cs.Fn.Key(), p.Pos(cs.Call), cs.Fn.Key(), "prefix is a compile-time constant", exprString(cs.Call.Args[3]))
			continue
		}
		l := int64(len(constant.StringVal(tv.Value)))
		c.Check(K >= 0 && l+K <= 15, "C14.R1", "name length ≤ 15 at "+cs.Fn.Key(), p.Pos(cs.Call), cs.Fn.Key(), fmt.Sprintf("len(prefix)+K = %d+%d ≤ 15 (IFNAMSIZ−1)", l, K), "too long")
	}
}

func c14R2(c *Ctx) {
	p := c.P
	c.Rule("C14.R2", "routing-table numbers: GetRouteTableID is affine in the interface index with coefficient 1 and a constant ≥ 256 (injective, clear of the reserved tables); every non-constant Table value of a route / rule built in plugin/ and daemon/ flows from it")
	fn := p.Func("plugin/driver/utils", "GetRouteTableID")
	if fn == nil {
		c.Unres("C14.R2", "utils.GetRouteTableID", "not found")
		return
	}
	info := fn.Info()
	okAffine := false
	if len(fn.Decl.Body.List) == 1 {
		if r, ok := fn.Decl.Body.List[0].(*ast.ReturnStmt); ok && len(r.Results) == 1 {
			e := NewFactEngine(p, fn)
			var paths []string
			l := e.linearOf(r.Results[0], e.fnScope(), &paths)
			param := objID(info.Defs[fn.Decl.Type.Params.List[0].Names[0]])
			if l.ok && len(l.terms) == 1 && l.terms[param] == 1 && l.k >= 256 {
				okAffine = true
			}
		}
	}
	c.Check(okAffine, "C14.R2", "GetRouteTableID(i) = i + k, k ≥ 256", p.Pos(fn.Decl), fn.Key(), "single return, linear form 1·linkIndex + k", "not affine-injective")
	// Table values
	n := 0
	var bad []string
	for _, pk := range p.Roots {
		if !(strings.HasPrefix(pk.PkgPath, modPath+"/plugin") || strings.HasPrefix(pk.PkgPath, modPath+"/daemon")) {
			continue
		}
		for _, f := range p.FuncsInPkg(shortPkg(pk.PkgPath)) {
			finfo := f.Info()
			check := func(rhs ast.Expr, at ast.Node) {
				n++
				if ok, why := tableValueOK(p, f, rhs, fn, 0); !ok {
					bad = append(bad, p.Pos(at)+": "+why)
					c.Bad("C14.R2", "Table value in "+f.Key(), p.Pos(at), f.Key(), "Table is a constant or derives from GetRouteTableID(<ifindex>)", why)
				} else {
					c.OK("C14.R2", "Table value in "+f.Key(), p.Pos(at), f.Key(), "constant or GetRouteTableID-derived")
				}
			}
			ast.Inspect(f.Decl.Body, func(nd ast.Node) bool {
				switch t := nd.(type) {
				case *ast.KeyValueExpr:
					if id, ok := t.Key.(*ast.Ident); ok && id.Name == "Table" {
						if fv, ok := finfo.Uses[id].(*types.Var); ok && fv.IsField() && fv.Pkg() != nil && strings.HasSuffix(fv.Pkg().Path(), "vishvananda/netlink") {
							check(t.Value, t)
						}
					}
				case *ast.AssignStmt:
					for i, l := range t.Lhs {
						if fv := fieldOf(finfo, l); fv != nil && fv.Name() == "Table" && fv.Pkg() != nil && strings.HasSuffix(fv.Pkg().Path(), "vishvananda/netlink") && len(t.Rhs) == len(t.Lhs) {
							check(t.Rhs[i], t)
						}
					}
				}
				return true
			})
		}
	}
	c.Floor("C14.R2", "Table values of routes/rules in plugin/ and daemon/", 6, n)
	_ = bad
}

// tableValueOK: x is a constant, a GetRouteTableID call, a copy of another
// object's Table, or a local/parameter whose every definition / argument is.
func tableValueOK(p *Prog, fn *FuncInfo, x ast.Expr, get *FuncInfo, depth int) (bool, string) {
	info := fn.Info()
	x = ast.Unparen(x)
	if tv, ok := info.Types[x]; ok && tv.Value != nil {
		return true, ""
	}
	if depth > 3 {
		return false, "derivation too deep: " + exprString(x)
	}
	switch t := x.(type) {
	case *ast.CallExpr:
		if Callee(info, t) == get.Obj {
			return true, ""
		}
		if tv, ok := info.Types[t.Fun]; ok && tv.IsType() && len(t.Args) == 1 {
			return tableValueOK(p, fn, t.Args[0], get, depth)
		}
	case *ast.SelectorExpr:
		if fv := fieldOf(info, t); fv != nil && fv.Name() == "Table" {
			return true, ""
		}
	case *ast.Ident:
		o := info.ObjectOf(t)
		// parameter: every call site must pass an acceptable value
		idx := -1
		i := 0
		if fn.Decl.Type.Params != nil {
			for _, fld := range fn.Decl.Type.Params.List {
				for _, nm := range fld.Names {
					if info.Defs[nm] == o {
						idx = i
					}
					i++
				}
			}
		}
		if idx >= 0 {
			p.buildCallers()
			callers := p.callers[fn.Obj]
			if len(callers) == 0 {
				return true, "" // exported entry without in-repo callers: the value is the caller's contract
			}
			for _, caller := range callers {
				for _, cs := range p.CallsIn(caller) {
					if cs.Callee == fn.Obj && idx < len(cs.Call.Args) {
						if ok, why := tableValueOK(p, caller, cs.Call.Args[idx], get, depth+1); !ok {
							return false, "argument at " + p.Pos(cs.Call) + ": " + why
						}
					}
				}
			}
			return true, ""
		}
		ds := varDefs(fn, o)
		if len(ds) == 0 {
			return false, "no definition of " + t.Name
		}
		for _, d := range ds {
			if d.rhs == nil {
				if _, isSpec := d.node.(*ast.ValueSpec); isSpec {
					continue // `var table int`: the zero value is the constant 0 (the main table)
				}
				return false, "multi-value definition of " + t.Name
			}
			if ok, why := tableValueOK(p, fn, d.rhs, get, depth+1); !ok {
				return false, why
			}
		}
		return true, ""
	}
	return false, "value " + exprString(x) + " does not derive from GetRouteTableID"
}

func c14R3(c *Ctx) {
	p := c.P
	c.Rule("C14.R3", "u32 classifier keys: IPv4 source at header offset 12, IPv4 destination at 16, IPv6 source words at 8+4·i for i = 0..3 (constant loop, the word cursor advances unconditionally, only all-zero mask words are skipped); mask and value are read big-endian everywhere")
	v4 := p.Func("pkg/tc", "U32IPv4Src")
	v6 := p.Func("pkg/tc", "U32IPv6Src")
	dst := p.Func("plugin/datapath", "dstIPRule")
	if v4 == nil || v6 == nil || dst == nil {
		c.Unres("C14.R3", "tc.U32IPv4Src / tc.U32IPv6Src / datapath.dstIPRule", "not found")
		return
	}
	// the fields of the redirect-rule record are known by what they become in the classifier key
	// (TcU32Key{Mask: r.<mask>, Val: r.<value>, Off: r.<offset>}), not by their names
	role := map[string]*types.Var{}
	for _, fn := range p.FuncsInPkg("plugin/datapath") {
		ast.Inspect(fn.Decl.Body, func(nd ast.Node) bool {
			cl, ok := nd.(*ast.CompositeLit)
			if !ok || !(typeIs(fn.Info().TypeOf(cl), "github.com/vishvananda/netlink", "TcU32Key") || typeIs(fn.Info().TypeOf(cl), "github.com/vishvananda/netlink/nl", "TcU32Key")) {
				return true
			}
			for _, el := range cl.Elts {
				if kv, ok := el.(*ast.KeyValueExpr); ok {
					if sel, ok := ast.Unparen(kv.Value).(*ast.SelectorExpr); ok {
						if fv, ok := fn.Info().ObjectOf(sel.Sel).(*types.Var); ok && fv.IsField() {
							role[exprString(kv.Key)] = fv
						}
					}
				}
			}
			return true
		})
	}
	offOf := func(fn *FuncInfo, key string) []ast.Expr {
		var out []ast.Expr
		ast.Inspect(fn.Decl.Body, func(nd ast.Node) bool {
			if kv, ok := nd.(*ast.KeyValueExpr); ok {
				if exprString(kv.Key) == key {
					out = append(out, kv.Value)
				} else if id, isID := kv.Key.(*ast.Ident); isID && fn == dst && role[key] != nil && fn.Info().ObjectOf(id) == role[key] {
					out = append(out, kv.Value)
				}
			}
			return true
		})
		return out
	}
	// IPv4 source
	offs := offOf(v4, "Off")
	ok := len(offs) == 1
	if ok {
		v, isC := constInt(v4.Info(), derefExpr(v4, offs[0]))
		ok = isC && v == 12
	}
	c.Check(ok, "C14.R3", "IPv4 source key at offset 12", p.Pos(v4.Decl), v4.Key(), "Off: 12", fmt.Sprintf("%d Off fields", len(offs)))
	// IPv4 destination (ipvlan redirect)
	offs = offOf(dst, "Off")
	ok = len(offs) == 1
	if ok {
		v, isC := constInt(dst.Info(), derefExpr(dst, offs[0]))
		ok = isC && v == 16
	}
	c.Check(ok, "C14.R3", "IPv4 destination key at offset 16", p.Pos(dst.Decl), dst.Key(), "offset: 16", fmt.Sprintf("%d offset fields", len(offs)))
	// mask / value pairing: Mask from the mask, Val from the masked address
	for _, fn := range []*FuncInfo{v4, dst} {
		info := fn.Info()
		maskKey, valKey := "Mask", "Val"
		pair := func(key string) string {
			vs := offOf(fn, key)
			if len(vs) != 1 {
				return "?"
			}
			src := vs[0]
			// through a result variable: its only non-constant definition (error paths assign 0)
			if ro := identObj(info, src); ro != nil {
				var nonConst []ast.Expr
				for _, d := range varDefs(fn, ro) {
					if d.rhs != nil && info.Types[d.rhs].Value == nil {
						nonConst = append(nonConst, d.rhs)
					}
				}
				if len(nonConst) == 1 {
					src = nonConst[0]
				}
			}
			call, ok := ast.Unparen(src).(*ast.CallExpr)
			if !ok || len(call.Args) != 1 {
				return "?"
			}
			o := identObj(info, call.Args[0])
			if o == nil {
				return "?"
			}
			// the definition of the slice that is read, through plain copies of it
			for hop := 0; hop < 4; hop++ {
				ds := varDefs(fn, o)
				if len(ds) != 1 || ds[0].rhs == nil {
					return "?"
				}
				if next := identObj(info, ds[0].rhs); next != nil {
					if _, isVar := next.(*types.Var); isVar {
						o = next
						continue
					}
				}
				return exprString(ds[0].rhs)
			}
			return "?"
		}
		m, v := pair(maskKey), pair(valKey)
		okPair := strings.Contains(m, ".Mask)") && !strings.Contains(m, ".IP.Mask(") && strings.Contains(v, ".IP.Mask(")
		c.Check(okPair, "C14.R3", fn.Name+": mask from the prefix mask, value from the masked address", p.Pos(fn.Decl), fn.Key(), "Mask ← net.IP(ipNet.Mask); Val ← ipNet.IP.Mask(ipNet.Mask)", "mask="+m+" val="+v)
	}
	// IPv6 source loop
	info := v6.Info()
	var loop *ast.ForStmt
	for _, s := range v6.Decl.Body.List {
		if fs, ok := s.(*ast.ForStmt); ok {
			loop = fs
		}
	}
	if loop == nil {
		c.Bad("C14.R3", "IPv6 source keys built in a loop over the four words", p.Pos(v6.Decl), v6.Key(), "for i := 0; i < 4; i++", "no for loop")
	} else {
		// the loop variable takes the values start, start+step, … below the bound: iteration k = 0..n-1
		okLoop := false
		var iObj types.Object
		start, step := int64(0), int64(1)
		unconv := func(x ast.Expr) ast.Expr {
			x = ast.Unparen(x)
			if call, ok := x.(*ast.CallExpr); ok && len(call.Args) == 1 && info.Types[call.Fun].IsType() {
				return ast.Unparen(call.Args[0])
			}
			return x
		}
		if as, isAs := loop.Init.(*ast.AssignStmt); isAs && len(as.Lhs) == 1 {
			iObj = identObj(info, as.Lhs[0])
			if v, isC := constInt(info, unconv(as.Rhs[0])); isC {
				if be, isBe := ast.Unparen(loop.Cond).(*ast.BinaryExpr); isBe && be.Op == token.LSS && identObj(info, be.X) == iObj {
					if b, isC := constInt(info, unconv(be.Y)); isC {
						st := int64(0)
						switch post := loop.Post.(type) {
						case *ast.IncDecStmt:
							if post.Tok == token.INC && identObj(info, post.X) == iObj {
								st = 1
							}
						case *ast.AssignStmt:
							if post.Tok == token.ADD_ASSIGN && len(post.Lhs) == 1 && identObj(info, post.Lhs[0]) == iObj {
								if sv, isC := constInt(info, unconv(post.Rhs[0])); isC && sv > 0 {
									st = sv
								}
							}
						}
						if st > 0 && (b-v+st-1)/st == 4 {
							okLoop, start, step = true, v, st
						}
					}
				}
			}
		}
		c.Check(okLoop, "C14.R3", "IPv6 source loop runs over exactly the four 32-bit words", p.Pos(loop), v6.Key(), "four iterations with constant bounds (for i := 0; i < 4; i++ or an equivalent stride)", "the bounds do not give four iterations")
		// --- which word does iteration i read, and where does it put it? ---
		// Two addressing schemes give "word i": a cursor that advances by one word in every
		// iteration (mask = mask[4:]) read at its start, or a fixed slice read at offset 4·i.
		adv := map[types.Object]bool{}
		for _, s := range loop.Body.List {
			if as, isAs := s.(*ast.AssignStmt); isAs && len(as.Lhs) == 1 && len(as.Rhs) == 1 {
				if se, isSe := ast.Unparen(as.Rhs[0]).(*ast.SliceExpr); isSe && se.High == nil && identObj(info, se.X) == identObj(info, as.Lhs[0]) {
					if v, isC := constInt(info, se.Low); isC && v == 4 {
						adv[identObj(info, as.Lhs[0])] = true
					}
				}
			}
		}
		// lin evaluates x as a·i + b over the loop variable (through single-definition locals)
		var lin func(x ast.Expr, depth int) (a, b int64, ok bool)
		lin = func(x ast.Expr, depth int) (int64, int64, bool) {
			if depth > 6 {
				return 0, 0, false
			}
			x = ast.Unparen(x)
			if v, isC := constInt(info, x); isC {
				return 0, v, true
			}
			switch t := x.(type) {
			case *ast.Ident:
				if info.ObjectOf(t) == iObj {
					return step, start, true // in terms of the iteration number k
				}
				if d := derefExpr(v6, t); d != ast.Expr(t) {
					return lin(d, depth+1)
				}
			case *ast.CallExpr:
				if info.Types[t.Fun].IsType() && len(t.Args) == 1 {
					return lin(t.Args[0], depth+1)
				}
			case *ast.BinaryExpr:
				a1, b1, ok1 := lin(t.X, depth+1)
				a2, b2, ok2 := lin(t.Y, depth+1)
				if !ok1 || !ok2 {
					return 0, 0, false
				}
				switch t.Op {
				case token.ADD:
					return a1 + a2, b1 + b2, true
				case token.SUB:
					return a1 - a2, b1 - b2, true
				case token.MUL:
					if a1 == 0 {
						return b1 * a2, b1 * b2, true
					}
					if a2 == 0 {
						return a1 * b2, b1 * b2, true
					}
				}
			}
			return 0, 0, false
		}
		// wordOf: the expression reads the 32-bit word of iteration i from base slice `which`
		wordOf := func(x ast.Expr) (base types.Object, ok bool, how string) {
			call, isCall := ast.Unparen(derefExpr(v6, x)).(*ast.CallExpr)
			if !isCall || len(call.Args) != 1 || !strings.HasSuffix(exprString(call.Fun), "BigEndian.Uint32") {
				return nil, false, "not a BigEndian.Uint32 read"
			}
			arg := ast.Unparen(derefExpr(v6, call.Args[0]))
			if o := identObj(info, arg); o != nil {
				if adv[o] {
					return o, true, "cursor"
				}
				return o, false, "slice " + o.Name() + " is read at its start but never advanced"
			}
			if se, isSe := arg.(*ast.SliceExpr); isSe && se.Low != nil {
				o := identObj(info, se.X)
				a, b, okL := lin(se.Low, 0)
				if o != nil && okL && a == 4 && b == 0 && !adv[o] {
					if se.High != nil {
						ha, hb, okH := lin(se.High, 0)
						if !okH || ha != 4 || hb != 4 {
							return o, false, "upper bound is not 4·i+4"
						}
					}
					return o, true, "indexed"
				}
				return o, false, "slice offset is not 4·i of a fixed slice"
			}
			return nil, false, "unrecognised operand " + exprString(arg)
		}
		// loop variable not modified in the body; the only early exit is skipping a zero mask word
		var early []string
		cursorMode := len(adv) > 0
		ast.Inspect(loop.Body, func(nd ast.Node) bool {
			switch t := nd.(type) {
			case *ast.BranchStmt:
				if t.Tok == token.CONTINUE && !cursorMode {
					return true // judged below with the guards of the append
				}
				early = append(early, t.Tok.String())
			case *ast.ReturnStmt:
				early = append(early, "return")
			case *ast.AssignStmt:
				for _, l := range t.Lhs {
					if identObj(info, l) == iObj {
						early = append(early, "assignment to the loop variable")
					}
				}
			case *ast.IncDecStmt:
				if identObj(info, t.X) == iObj {
					early = append(early, "assignment to the loop variable")
				}
			}
			return true
		})
		c.Check(len(early) == 0, "C14.R3", "IPv6 source loop visits every word", p.Pos(loop), v6.Key(), "no break/return, loop variable untouched; a cursor is never skipped past", strings.Join(early, ","))
		// offset 8 + 4*i
		offs := offOf(v6, "Off")
		okOff := false
		if len(offs) == 1 {
			a, b, okL := lin(offs[0], 0)
			okOff = okL && a == 4 && b == 8
		}
		c.Check(okOff, "C14.R3", "IPv6 source word i at offset 8 + 4·i", p.Pos(loop), v6.Key(), "Off = 8 + 4·i", fmt.Sprintf("%d Off fields", len(offs)))
		// mask and value of the key are word i of the mask and of the address
		masks, vals := offOf(v6, "Mask"), offOf(v6, "Val")
		okWords, detail := false, "Mask / Val fields not found"
		var maskBase types.Object
		if len(masks) == 1 && len(vals) == 1 {
			mb, okM, howM := wordOf(masks[0])
			vb, okV, howV := wordOf(vals[0])
			maskBase = mb
			okWords = okM && okV && mb != nil && vb != nil && mb != vb
			detail = "mask: " + howM + "; value: " + howV
		}
		c.Check(okWords, "C14.R3", "mask and value of key i are word i of the mask and of the address", p.Pos(loop), v6.Key(), "BigEndian.Uint32 of the i-th word (advancing cursor, or slice at 4·i)", detail)
		if cursorMode {
			c.Check(len(adv) == 2, "C14.R3", "mask and value cursors advance by one word in every iteration", p.Pos(loop), v6.Key(), "mask = mask[4:]; val = val[4:] at the top level of the loop body", fmt.Sprintf("%d unconditional advances", len(adv)))
		}
		// the append is reached for every word whose mask is not zero, and only skipped for those
		nApp := 0
		ast.Inspect(loop.Body, func(nd ast.Node) bool {
			as, isAs := nd.(*ast.AssignStmt)
			if !isAs || len(as.Rhs) != 1 {
				return true
			}
			if _, isApp := isBuiltinCall(info, as.Rhs[0], "append"); !isApp {
				return true
			}
			nApp++
			// the word-mask variable
			var mObj types.Object
			if len(masks) == 1 {
				mObj = identObj(info, masks[0])
			}
			if mObj == nil {
				c.Undec("C14.R3", "IPv6 source key emitted for every word with a non-zero mask", p.Pos(as), v6.Key(), "", "the key's Mask is not a local holding the word mask")
				return true
			}
			_ = maskBase
			c.RequireReached("C14.R3", "IPv6 source key emitted for every word with a non-zero mask", v6, loop.Body, as, mObj.Name()+" != 0", nil)
			return true
		})
		c.Check(nApp == 1, "C14.R3", "one key per IPv6 word", p.Pos(loop), v6.Key(), "a single append in the loop", fmt.Sprintf("%d", nApp))
	}
	// endianness
	var le []string
	nBE := 0
	scan := func(fn *FuncInfo) {
		ast.Inspect(fn.Decl.Body, func(nd ast.Node) bool {
			if sel, ok := nd.(*ast.SelectorExpr); ok {
				if o := identObjSel(fn.Info(), sel); o != nil && o.Pkg() != nil && o.Pkg().Path() == "encoding/binary" {
					switch o.Name() {
					case "LittleEndian", "NativeEndian":
						le = append(le, fn.Key()+":"+o.Name())
					case "BigEndian":
						nBE++
					}
				}
			}
			return true
		})
	}
	for _, fn := range p.FuncsInPkg("pkg/tc") {
		scan(fn)
	}
	scan(dst)
	sort.Strings(le)
	c.Check(len(le) == 0 && nBE >= 4, "C14.R3", "classifier words are read big-endian (network order)", "", "pkg/tc, datapath.dstIPRule", "only binary.BigEndian", fmt.Sprintf("big-endian uses=%d, others=%s", nBE, strings.Join(le, ",")))
}

// c14R4 is shared with C12.R2.
func c14R4(c *Ctx, rule string) {
	p := c.P
	if rule == "C14.R4" {
		c.Rule("C14.R4", "DeriveGatewayIP asks for index −3 from the end of the subnet (third-from-last) and maps 'no such address' / unparsable input to the empty string")
	}
	fn := p.Func("pkg/ip", "DeriveGatewayIP")
	get := p.Func("pkg/ip", "GetIPAtIndex")
	if fn == nil || get == nil {
		c.Unres(rule, "ip.DeriveGatewayIP / ip.GetIPAtIndex", "not found")
		return
	}
	info := fn.Info()
	calls := p.CallsTo([]*FuncInfo{fn}, get.Obj)
	if len(calls) != 1 {
		c.Bad(rule, "DeriveGatewayIP uses GetIPAtIndex once", p.Pos(fn.Decl), fn.Key(), "one call", fmt.Sprintf("%d", len(calls)))
		return
	}
	v, ok := constInt(info, calls[0].Call.Args[1])
	c.Check(ok && v == -3, rule, "gateway index is the constant −3", p.Pos(calls[0].Call), fn.Key(), "GetIPAtIndex(subnet, -3)", exprString(calls[0].Call.Args[1]))
	// the subnet argument is the parsed parameter (followed through temporaries of an expanded helper)
	okNet := false
	param := fn.Decl.Type.Params.List[0].Names[0].Name
	var netObj types.Object
	ast.Inspect(calls[0].Call.Args[0], func(k ast.Node) bool {
		if id, ok := k.(*ast.Ident); ok && netObj == nil {
			if v, ok := info.ObjectOf(id).(*types.Var); ok && !v.IsField() {
				netObj = v
			}
		}
		return true
	})
	if netObj != nil && strings.Contains(sliceText(fn, netObj, 4), "net.ParseCIDR("+param+")") {
		okNet = true
	}
	c.Check(okNet, rule, "the subnet is the parsed argument", p.Pos(calls[0].Call), fn.Key(), "GetIPAtIndex's subnet derives from net.ParseCIDR("+param+")", exprString(calls[0].Call.Args[0]))
	// nil → ""
	_, lhs := assignedFromCall(fn, calls[0].Call)
	if len(lhs) == 1 && lhs[0] != nil {
		for _, r := range declReturns(fn.Decl.Body) {
			if r.Pos() < calls[0].Call.End() {
				continue
			}
			tv := info.Types[r.Results[0]]
			if tv.Value != nil && constant.StringVal(tv.Value) == "" {
				continue
			}
			c.RequireF(rule, "non-empty gateway only when the address exists", fn, r, lhs[0].Name()+" != nil", func(e *FactEngine) (*Formula, error) {
				return mkNot(e.eqAtom(objID(lhs[0]), "nil", []string{objID(lhs[0])})), nil
			})
		}
	}
	// a parse error returns "": every return of something else than the constant "" has err == nil
	// of the ParseCIDR call as a fact
	okErr := false
	var perr types.Object
	for _, cs := range p.CallsIn(fn) {
		if cs.Callee != nil && cs.Callee.Name() == "ParseCIDR" && cs.Lit == nil {
			if _, l := assignedFromCall(fn, cs.Call); len(l) == 3 && l[2] != nil {
				perr = l[2]
			}
		}
	}
	if perr != nil {
		okErr = true
		for _, r := range declReturns(fn.Decl.Body) {
			tv := info.Types[r.Results[0]]
			if tv.Value != nil && constant.StringVal(tv.Value) == "" {
				continue
			}
			o := c.RequireF(rule, "a gateway is returned only for a subnet that parsed", fn, r, perr.Name()+" == nil (ParseCIDR)", func(e *FactEngine) (*Formula, error) {
				return e.eqAtom(objID(perr), "nil", []string{objID(perr)}), nil
			})
			_ = o
		}
	}
	c.Check(okErr, rule, "the subnet's parse error is bound", p.Pos(fn.Decl), fn.Key(), "_, ipNet, err := net.ParseCIDR(cidr)", "no ParseCIDR call with a bound error in DeriveGatewayIP")
	// GetIPAtIndex returns an address only when it lies inside the subnet
	ginfo := get.Info()
	for _, r := range declReturns(get.Decl.Body) {
		if ginfo.Types[ast.Unparen(r.Results[0])].IsNil() {
			continue
		}
		param := get.Decl.Type.Params.List[0].Names[0].Name
		c.Require(rule, "GetIPAtIndex returns only addresses inside the subnet", get, r, param+".Contains("+exprString(r.Results[0])+")", nil)
	}
}

// R6: the identity of a classifier key is (offset, value, mask). Wherever two
// u32 keys are compared field by field, all three are compared: two words of an
// IPv6 address can carry the same value under the same mask at different
// offsets, and a comparison that forgets the offset merges them.
func c14R6(c *Ctx) {
	p := c.P
	c.Rule("C14.R6", "u32 key identity: every field-wise comparison of two netlink.TcU32Key values in the module compares Off, Val and Mask (keys that differ only in their offset are different words of the address)")
	type pair struct {
		fn   *FuncInfo
		a, b string
	}
	fields := map[pair]map[string]bool{}
	at := map[pair]ast.Node{}
	for _, fn := range p.live() {
		if fn.Decl.Body == nil {
			continue
		}
		info := fn.Info()
		ast.Inspect(fn.Decl.Body, func(n ast.Node) bool {
			be, ok := n.(*ast.BinaryExpr)
			if !ok || (be.Op != token.EQL && be.Op != token.NEQ) {
				return true
			}
			sx, ok1 := ast.Unparen(be.X).(*ast.SelectorExpr)
			sy, ok2 := ast.Unparen(be.Y).(*ast.SelectorExpr)
			if !ok1 || !ok2 || sx.Sel.Name != sy.Sel.Name {
				return true
			}
			isKey := func(x ast.Expr) bool {
				t := info.TypeOf(x)
				return t != nil && (typeIs(t, "github.com/vishvananda/netlink", "TcU32Key") || typeIs(t, "github.com/vishvananda/netlink/nl", "TcU32Key"))
			}
			if !isKey(sx.X) || !isKey(sy.X) {
				return true
			}
			a, b := exprString(sx.X), exprString(sy.X)
			if a > b {
				a, b = b, a
			}
			k := pair{fn, a, b}
			if fields[k] == nil {
				fields[k] = map[string]bool{}
				at[k] = be
			}
			fields[k][sx.Sel.Name] = true
			return true
		})
	}
	var keys []pair
	for k := range fields {
		keys = append(keys, k)
	}
	sort.Slice(keys, func(i, j int) bool { return at[keys[i]].Pos() < at[keys[j]].Pos() })
	for _, k := range keys {
		f := fields[k]
		c.Check(f["Off"] && f["Val"] && f["Mask"], "C14.R6", k.fn.Name+": keys "+k.a+" / "+k.b+" compared on offset, value and mask", p.Pos(at[k]), k.fn.Key(),
			"compared fields ⊇ {Off, Val, Mask}", "compared: "+strings.Join(keysOf(f), ", "))
	}
	c.Floor("C14.R6", "field-wise key comparisons", 1, len(keys))
	// the same for a key compared with a wanted (offset, value, mask) triple that is not itself a key:
	// whoever compares one field of a key directly with something compares all three directly
	type one struct {
		fn  *FuncInfo
		key string
	}
	single := map[one]map[string]bool{}
	where := map[one]ast.Node{}
	for _, fn := range p.live() {
		if fn.Decl.Body == nil {
			continue
		}
		info := fn.Info()
		isKeyField := func(x ast.Expr) (string, string, bool) {
			sel, ok := ast.Unparen(x).(*ast.SelectorExpr)
			if !ok {
				return "", "", false
			}
			t := info.TypeOf(sel.X)
			if t == nil || !(typeIs(t, "github.com/vishvananda/netlink", "TcU32Key") || typeIs(t, "github.com/vishvananda/netlink/nl", "TcU32Key")) {
				return "", "", false
			}
			switch sel.Sel.Name {
			case "Off", "Val", "Mask":
				return exprString(sel.X), sel.Sel.Name, true
			}
			return "", "", false
		}
		mentionsKeyField := func(x ast.Expr) (string, bool) {
			key, hit := "", false
			ast.Inspect(x, func(k ast.Node) bool {
				if e, ok := k.(ast.Expr); ok {
					if kx, _, isF := isKeyField(e); isF {
						key, hit = kx, true
					}
				}
				return !hit
			})
			return key, hit
		}
		ast.Inspect(fn.Decl.Body, func(n ast.Node) bool {
			be, ok := n.(*ast.BinaryExpr)
			if !ok || (be.Op != token.EQL && be.Op != token.NEQ) {
				return true
			}
			_, _, kx := isKeyField(be.X)
			_, _, ky := isKeyField(be.Y)
			if kx && ky {
				return true // key against key: judged above
			}
			if info.Types[be.X].Value != nil || info.Types[be.Y].Value != nil {
				return true // a classification by a constant (Off == 12), not an identity test
			}
			for _, side := range []ast.Expr{be.X, be.Y} {
				if key, fld, isF := isKeyField(side); isF {
					k := one{fn, key}
					if single[k] == nil {
						single[k] = map[string]bool{}
						where[k] = be
					}
					single[k][fld] = true
				} else if key, hit := mentionsKeyField(side); hit {
					// a field of the key inside a computed operand (key.Val & mask): the key takes part in a
					// comparison, but that field is not compared as it is
					k := one{fn, key}
					if single[k] == nil {
						single[k] = map[string]bool{}
						where[k] = be
					}
				}
			}
			return true
		})
	}
	var ones []one
	for k := range single {
		ones = append(ones, k)
	}
	sort.Slice(ones, func(i, j int) bool { return where[ones[i]].Pos() < where[ones[j]].Pos() })
	for _, k := range ones {
		f := single[k]
		c.Check(f["Off"] && f["Val"] && f["Mask"], "C14.R6", k.fn.Name+": key "+k.key+" matched on offset, value and mask as they are", p.Pos(where[k]), k.fn.Key(),
			"directly compared fields ⊇ {Off, Val, Mask}", "compared: "+strings.Join(keysOf(f), ", "))
	}
}

// R9: a table-qualified route names the table of its own link. Inside the pod
// every interface has its own routing table (its index + the constant): where a
// route literal carries both LinkIndex: L and Table: T with T obtained from
// GetRouteTableID(X) in the same function, X is L — a table keyed by anything
// else (the parent interface's index, a configuration field) is shared by all
// interfaces that have the same parent.
func c14R9(c *Ctx) {
	p := c.P
	c.Rule("C14.R9", "in the datapath generators a route with LinkIndex: L and a Table computed by GetRouteTableID(X) in the same function has X = L; rules that point to such a table use the same value (one table per interface, keyed by that interface)")
	getT := p.Func("plugin/driver/utils", "GetRouteTableID")
	if getT == nil {
		c.Unres("C14.R9", "utils.GetRouteTableID", "not found")
		return
	}
	n := 0
	for _, fn := range p.FuncsInPkg(datapathPkg) {
		info := fn.Info()
		// link parameter(s) of the generator
		ast.Inspect(fn.Decl.Body, func(k ast.Node) bool {
			cl, ok := k.(*ast.CompositeLit)
			if !ok {
				return true
			}
			var link, table ast.Expr
			for _, e := range cl.Elts {
				if kv, ok := e.(*ast.KeyValueExpr); ok {
					switch exprString(kv.Key) {
					case "LinkIndex":
						link = kv.Value
					case "Table":
						table = kv.Value
					}
				}
			}
			if link == nil || table == nil {
				return true
			}
			src, ok := ast.Unparen(derefLoose(fn, table)).(*ast.CallExpr)
			if !ok || Callee(info, src) != getT.Obj || len(src.Args) != 1 {
				return true // a parameter or a constant: decided by C13.R5 / C14.R2
			}
			n++
			c.Check(derefString(fn, src.Args[0]) == derefString(fn, link), "C14.R9", fn.Name+": the route's table is the table of the route's link", p.Pos(cl), fn.Key(),
				"Table: GetRouteTableID("+exprString(link)+")", "LinkIndex: "+exprString(link)+" but Table: GetRouteTableID("+exprString(src.Args[0])+")")
			return true
		})
	}
	c.Floor("C14.R9", "table-qualified routes with a link in the generators", 4, n)
}
